"""C03 — a configured variable limit is never exceeded by any held or reported state."""
import re
from concurrent.futures import ThreadPoolExecutor
import coqgen as g
import catchgen as cg

HEADER = cg.HEADER + "From Crem Require Import Limits LimitsCorr.\n"
CHEADER = cg.HEADER + "From Crem Require Import Limits NdArchive Compose ComposeCorr.\n"
KHEADER = cg.HEADER + """From Coq Require Import Floats Uint63.
From Crem Require Import Limits Kirkpatrick ComposeKp ComposeKpCorr.
Definition P := of_bits false.  Definition N := of_bits true.
Definition t := true.  Definition f := false.
"""
KDEC = {"RI": "RevertInvalid", "AD": "AcceptDesirable", "AU": "AcceptUndesirable", "RU": "RevertUndesirable"}
KDIR = {1: "Minimise", 2: "Maximise"}
KCODES = {1: "pick out of range", 2: "temperature before the proposal", 3: "validity verdict", 4: "reported change (binary64, A-FLOAT)",
          5: "change seen vs the pending command", 6: "grid range / sign of the binary64 change", 7: "Float64Unitary of the source value",
          8: "argument handed to math.Exp", 9: "decision", 10: "decision vs the Metropolis table", 11: "number of draws",
          12: "active action set after the iteration", 13: "the six totals (grid)", 14: "objective value read by the explorer (binary64, A-FLOAT)",
          15: "temperature after the iteration", 16: "model state exceeds the limit", 20: "direction not configured", 21: "length of the action set"}


def limit(l):
    return "(%s, %s)" % (cg.VK[l["var"]], g.fl(l["max"]))


def loopcase(c):
    start = "None" if c["start"] is None else "(Some %s)" % cg.bits(c["start"])
    out = {"ok": 0, "panic": 1, "nopicks": 2}.get(c["outcome"], 9)
    return "(mkLoop (Some %s) %s %s %s %s)" % (limit(c["limit"]), start, g.lst([cg.nat(i) for i in c["picks"]]),
                                                cg.nat(out), cg.obs(c["obs"]))


def boundary(b):
    arch = g.lst(["(%s, %s)" % (cg.bits(e["bits"]), g.z(e["val"])) for e in b["arch"]])
    return "(mkB %s %s %s)" % (cg.bits(b["bits"]), g.z(b["val"]), arch)


def runcase(c):
    return "(mkRun %s %s %s)" % (g.b(c["family"] == "kirkpatrick"), limit(c["limit"]), g.lst([boundary(b) for b in c["trace"]]))


def cstep(c):
    arch = g.lst(["(%s, %s)" % (cg.bits(e["bits"]), g.lst([g.z(v) for v in e["vals"]])) for e in c["arch"]])
    return "(mkCS %s %s %s %s %s)" % (cg.bits(c["cand"]), g.b(c["accepted"]), g.b(c["rtb"]), cg.bits(c["cur"]), arch)


def crun(c):
    return "(mkCRun %s %s %s)" % (limit(c["limit"]), cg.bits(c["start"]), g.lst([cstep(x) for x in c["steps"]]))


def kfl(bits):
    """IEEE-754 binary64 bit pattern -> Gallina term (sign + low 63 bits as a primitive-int literal)."""
    bits = int(bits)
    return "(%s %d%%uint63)" % ("N" if bits >> 63 else "P", bits & ((1 << 63) - 1))


def kb(v):
    return "t" if v else "f"


def kbits(bs):
    return g.lst([kb(x == 1 or x is True) for x in bs])


def kstep(s):
    if s["dec"] not in KDEC:
        raise KeyError("iteration without exactly one decision event: %r" % s["dec"])
    return "(mkKS %s %d%%uint63 %s %s %s %s %s %s %s %s %s %s %s %s %s)" % (
        cg.nat(s["pick"]), int(s["k"]), kb(s["cool"]), kfl(s["T"]), kb(s["valid"]), kfl(s["change"]), kfl(s["arg"]), kfl(s["e"]),
        kfl(s["u"]), cg.nat(min(int(s["draws"]), 9)), KDEC[s["dec"]], kfl(s["obj"]), g.lst([g.z(v) for v in s["totals"]]),
        kbits(s["bits"]), kfl(s["Tafter"]))


def krun(c):
    cfg = "(mkKpCfg %s %s %s %s)" % (KDIR[c["dir"]], cg.VK[c["obj"]], kfl(c["T0"]), kfl(c["cf"]))
    return "(mkKRun %s %s %s %s %s [\n   %s])" % (limit(c["limit"]), cfg, kbits(c["start"]), g.lst([g.z(v) for v in c["start_totals"]]),
                                                kfl(c["start_obj"]), ";\n   ".join(kstep(x) for x in c["steps"]))


def run(ctx):
    ctx.build_harness()
    lines = ctx.run_harness("C03", [ctx.tier], timeout=3000)
    for l in lines:
        if l.get("kind") == "oracle":
            ctx.failing_inputs.append(l)
        if l.get("kind") == "stat":
            ctx.stats = l["stats"]
    ctx.check_theorems("Properties/C03.v")
    ctx.check_theorems("Properties/Composed.v")
    datasets = {l["name"]: l for l in lines if l.get("kind") == "dataset"}
    loops = [l for l in lines if l.get("kind") == "case" and l["sub"] == "loop"]
    runs = [l for l in lines if l.get("kind") == "case" and l["sub"] == "run"]
    cruns = [l for l in lines if l.get("kind") == "case" and l["sub"] == "crun"]
    kruns = [l for l in lines if l.get("kind") == "case" and l["sub"] == "ckp"]
    jobs = []
    for di, (dname, ds) in enumerate(datasets.items()):
        dterm = cg.dataset(ds)
        dl = [c for c in loops if c.get("dataset", dname) == dname]
        for k, sh in enumerate(g.chunks(dl, 12)):
            body = HEADER + "Definition d : dataset :=\n  %s.\n" % dterm
            body += "Definition cases : list loopcase := %s.\n" % g.lst([loopcase(c) for c in sh])
            body += "Definition M := Eval vm_compute in (if wf_dataset d then bool_mismatches (check_loop d) cases 0 else [9999%nat]).\nPrint M.\n"
            jobs.append(("cases_C03_loop_%d_%d" % (di, k), body, "correspondence:C03:%s:randomisation-loops:%d" % (dname, k), sh))
        dr = [c for c in runs if c.get("dataset", dname) == dname]
        for k, sh in enumerate(g.chunks(dr, 1)):
            body = HEADER + "Definition d : dataset :=\n  %s.\n" % dterm
            body += "Definition cases : list runcase := %s.\n" % g.lst([runcase(c) for c in sh])
            body += "Definition M := Eval vm_compute in (if wf_dataset d then bool_mismatches (check_run d) cases 0 else [9999%nat]).\nPrint M.\n"
            jobs.append(("cases_C03_run_%d_%d" % (di, k), body, "correspondence:C03:%s:run-%s:%d" % (dname, sh[0]["family"], k), sh))
        dc = [c for c in cruns if c.get("dataset", dname) == dname]
        for k, c in enumerate(dc):
            body = CHEADER + "Definition d : dataset :=\n  %s.\n" % dterm
            body += "Definition r : crun := %s.\n" % crun(c)
            body += "Definition R := Eval vm_compute in (if wf_dataset d then check_crun d r else Some 9999%nat).\nPrint R.\n"
            body += "Definition M := Eval vm_compute in (match R with None => [] | Some k => [k] end).\nPrint M.\n"
            jobs.append(("cases_C03_crun_%d_%d" % (di, k), body, "correspondence:C03:%s:composed-multi-objective-run:%d" % (dname, k), [c]))
        dk = [c for c in kruns if c.get("dataset", dname) == dname]
        for k, c in enumerate(dk):
            body = KHEADER + "Definition d : dataset :=\n  %s.\n" % dterm
            body += "Definition r : krun := %s.\n" % krun(c)
            body += "Definition R := Eval vm_compute in (if wf_dataset d then check_krun d r else Some (4997%nat, 0%nat)).\nPrint R.\n"
            body += "Definition M := Eval vm_compute in (mismatch_list R).\nPrint M.\n"
            jobs.append(("cases_C03_ckp_%d_%d" % (di, k), body, "correspondence:C03:%s:composed-single-objective-run:%d" % (dname, k), [c]))

    def one(job):
        name, body, label, sh = job
        return job, ctx.correspondence(name, body, label=label, ncases=len(sh))

    with ThreadPoolExecutor(max_workers=8) as ex:
        results = list(ex.map(one, jobs))
    for (name, body, label, sh), idx in results:
        if idx and name.startswith("cases_C03_ckp_"):
            # which comparison failed at the first disagreeing iteration (printed by the generated file as R)
            c, kk, code = sh[0], idx[0], None
            ok, so, _ = ctx.coq_cases(name, body)
            m = re.search(r"R\s*=\s*Some\s*\(\s*(\d+)(?:%nat)?\s*,\s*(\d+)(?:%nat)?\s*\)", so or "")
            if m:
                kk, code = int(m.group(1)), int(m.group(2))
            why = KCODES.get(code, "comparison %s" % code)
            where = {4998: "the state after Explorer.Initialise", 4999: "closed-form valuation of the final action set",
                     4997: "data set not well-formed"}.get(kk, "iteration %d" % kk)
            ctx.broken.append("%s: first disagreement at %s: %s" % (label, where, why))
            note = {k2: c[k2] for k2 in ("dataset", "limit", "obj", "dir", "T0", "cf", "start")}
            note.update({"first_disagreement": where, "comparison": why,
                         "steps_up_to_it": [{k2: st[k2] for k2 in ("pick", "k", "cool", "dec", "valid", "change", "T", "obj", "totals", "bits")}
                                            for st in c["steps"][max(0, kk - 1):kk + 1]] if kk < len(c["steps"]) else []})
            ctx.notes.append({"composed_single_objective_mismatch": note})
            continue
        if idx:
            for i in idx[:2]:
                if i < len(sh):
                    c = dict(sh[i])
                    if "trace" in c:
                        c["trace"] = c["trace"][:3]
                    ctx.notes.append({"mismatch": c})
    boundaries = sum(len(r["trace"]) for r in runs)
    distinct = len({(r.get("dataset"), r["family"], r["limit"]["var"], str(b["bits"])) for r in runs for b in r["trace"]}) + \
        len({(c.get("dataset"), str(c["limit"]), str(c["start"]), str(c["picks"])) for c in loops})
    kiters = sum(len(c["steps"]) for c in kruns)
    kdistinct = len({(c.get("dataset"), c["limit"]["var"], c["obj"], c["dir"], s["pick"], s["dec"], str(s["bits"]))
                     for c in kruns for s in c["steps"]})
    ctx.coverage.update({
        "evaluations": boundaries + len(loops) + kiters, "distinct_nontrivial": distinct + kdistinct,
        "rule": "on the shipped ValidModel data set and on generated random data sets: (a) the real CoreModel.Randomize under a limit driven by scripted picks from the starting extreme or a mid-range valid "
                "state, for all six limitable variables and limits at 5/30/60/95/150 % of the attainable range: outcome (ok / attempt-limit "
                "panic / picks exhausted) and resulting observables vs Limits.rand_loop; (b) full runs of the kirkpatrick and suppapitnarm "
                "explorers on the catchment model under limits: every boundary state (after the initial randomisation and after every "
                "iteration) and every archive entry: value == canonical valuation of its action set and <= limit; single-objective traces "
                "must be chains of Limits.kp_iter steps; (c) composed single-objective runs (ComposeKp.v): the real kirkpatrick.Explorer "
                "on the real catchment model under a limit (limit on the objective itself and on another variable, objective = several "
                "of the six variables, both directions, starting temperature = median |change| of the objective), acceptance draws from a "
                "scripted rand.Source (random / 0 / 1 / at and next to the acceptance probability), action picks scripted; every iteration "
                "replayed through ComposeKp.ckp_iterate: temperature bits, validity, reported change bits (A-FLOAT checked), math.Exp "
                "argument bits, draw bits, draw count, decision, objective value bits (A-FLOAT checked), six totals, action set, limit; "
                "final totals == canon_total of the final set. distinct_nontrivial = distinct (family, variable, action set) boundary "
                "states + distinct loop cases + distinct (run configuration, pick, decision, action set) composed iterations",
        "exhaustive": False, "loop_cases": len(loops), "runs": len(runs), "boundaries": boundaries,
        "composed_single_objective_runs": len(kruns), "composed_single_objective_iterations": kiters})
    if loops:
        c = loops[0]
        ctx.samples = [{k: c[k] for k in ("limit", "start", "picks", "outcome")}]
    if kruns and kruns[0]["steps"]:
        c = kruns[0]
        ctx.samples.append({"composed_single_objective_run": {k2: c[k2] for k2 in ("dataset", "limit", "obj", "dir")},
                            "first_iteration": {k2: c["steps"][0][k2] for k2 in ("pick", "k", "valid", "dec", "totals")}})
    ctx.assumptions = ["A-FLOAT (DESIGN 3a); for the composed single-objective runs it is made executable (ComposeKp.grid_float: a grid value g "
                       "is held as float64(g)/float64(scale); the reported change is (un + ch) - un in binary64) and compared bit for bit "
                       "(up to the sign of zero) with the change and the objective value the Go model reports, on every replayed iteration",
                       "limits generated off the grid",
                       "the attempt-limit panic of the randomisation loops (D14b) is an outcome of the model (LPanic), tracked under C19; "
                       "C03 speaks about the states that exist"]
