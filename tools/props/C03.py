"""C03 — a configured variable limit is never exceeded by any held or reported state."""
from concurrent.futures import ThreadPoolExecutor
import coqgen as g
import catchgen as cg

HEADER = cg.HEADER + "From Crem Require Import Limits LimitsCorr.\n"
CHEADER = cg.HEADER + "From Crem Require Import Limits NdArchive Compose ComposeCorr.\n"


def limit(l):
    return "(%s, %s)" % (cg.VK[l["var"]], g.fl(l["max"]))


def loopcase(c):
    start = "None" if c["start"] is None else "(Some %s)" % cg.bits(c["start"])
    out = {"ok": 0, "panic": 1, "nopicks": 2}.get(c["outcome"], 9)
    return "(mkLoop (Some %s) %s %s %s %s)" % (limit(c["limit"]), start, g.lst([cg.nat(i) for i in c["picks"]]),
                                                cg.nat(out), cg.obs(c["obs"]))


def boundary(b):
    arch = g.lst(["(%s, %s)" % (cg.bits(e["bits"]), g.z(e["val"])) for e in b["arch"]])
    return "(mkB %s %s %s)" % (cg.bits(b["bits"]), g.z(b["val"]), arch)


def runcase(c):
    return "(mkRun %s %s %s)" % (g.b(c["family"] == "kirkpatrick"), limit(c["limit"]), g.lst([boundary(b) for b in c["trace"]]))


def cstep(c):
    arch = g.lst(["(%s, %s)" % (cg.bits(e["bits"]), g.lst([g.z(v) for v in e["vals"]])) for e in c["arch"]])
    return "(mkCS %s %s %s %s %s)" % (cg.bits(c["cand"]), g.b(c["accepted"]), g.b(c["rtb"]), cg.bits(c["cur"]), arch)


def crun(c):
    return "(mkCRun %s %s %s)" % (limit(c["limit"]), cg.bits(c["start"]), g.lst([cstep(x) for x in c["steps"]]))


def run(ctx):
    ctx.build_harness()
    lines = ctx.run_harness("C03", [ctx.tier], timeout=3000)
    for l in lines:
        if l.get("kind") == "oracle":
            ctx.failing_inputs.append(l)
        if l.get("kind") == "stat":
            ctx.stats = l["stats"]
    ctx.check_theorems("Properties/C03.v")
    ctx.check_theorems("Properties/Composed.v")
    datasets = {l["name"]: l for l in lines if l.get("kind") == "dataset"}
    loops = [l for l in lines if l.get("kind") == "case" and l["sub"] == "loop"]
    runs = [l for l in lines if l.get("kind") == "case" and l["sub"] == "run"]
    cruns = [l for l in lines if l.get("kind") == "case" and l["sub"] == "crun"]
    jobs = []
    for di, (dname, ds) in enumerate(datasets.items()):
        dterm = cg.dataset(ds)
        dl = [c for c in loops if c.get("dataset", dname) == dname]
        for k, sh in enumerate(g.chunks(dl, 12)):
            body = HEADER + "Definition d : dataset :=\n  %s.\n" % dterm
            body += "Definition cases : list loopcase := %s.\n" % g.lst([loopcase(c) for c in sh])
            body += "Definition M := Eval vm_compute in (if wf_dataset d then bool_mismatches (check_loop d) cases 0 else [9999%nat]).\nPrint M.\n"
            jobs.append(("cases_C03_loop_%d_%d" % (di, k), body, "correspondence:C03:%s:randomisation-loops:%d" % (dname, k), sh))
        dr = [c for c in runs if c.get("dataset", dname) == dname]
        for k, sh in enumerate(g.chunks(dr, 1)):
            body = HEADER + "Definition d : dataset :=\n  %s.\n" % dterm
            body += "Definition cases : list runcase := %s.\n" % g.lst([runcase(c) for c in sh])
            body += "Definition M := Eval vm_compute in (if wf_dataset d then bool_mismatches (check_run d) cases 0 else [9999%nat]).\nPrint M.\n"
            jobs.append(("cases_C03_run_%d_%d" % (di, k), body, "correspondence:C03:%s:run-%s:%d" % (dname, sh[0]["family"], k), sh))
        dc = [c for c in cruns if c.get("dataset", dname) == dname]
        for k, c in enumerate(dc):
            body = CHEADER + "Definition d : dataset :=\n  %s.\n" % dterm
            body += "Definition r : crun := %s.\n" % crun(c)
            body += "Definition R := Eval vm_compute in (if wf_dataset d then check_crun d r else Some 9999%nat).\nPrint R.\n"
            body += "Definition M := Eval vm_compute in (match R with None => [] | Some k => [k] end).\nPrint M.\n"
            jobs.append(("cases_C03_crun_%d_%d" % (di, k), body, "correspondence:C03:%s:composed-multi-objective-run:%d" % (dname, k), [c]))

    def one(job):
        name, body, label, sh = job
        return job, ctx.correspondence(name, body, label=label, ncases=len(sh))

    with ThreadPoolExecutor(max_workers=8) as ex:
        results = list(ex.map(one, jobs))
    for (name, body, label, sh), idx in results:
        if idx:
            for i in idx[:2]:
                if i < len(sh):
                    c = dict(sh[i])
                    if "trace" in c:
                        c["trace"] = c["trace"][:3]
                    ctx.notes.append({"mismatch": c})
    boundaries = sum(len(r["trace"]) for r in runs)
    distinct = len({(r.get("dataset"), r["family"], r["limit"]["var"], str(b["bits"])) for r in runs for b in r["trace"]}) + \
        len({(c.get("dataset"), str(c["limit"]), str(c["start"]), str(c["picks"])) for c in loops})
    ctx.coverage.update({
        "evaluations": boundaries + len(loops), "distinct_nontrivial": distinct,
        "rule": "on the shipped ValidModel data set and on generated random data sets: (a) the real CoreModel.Randomize under a limit driven by scripted picks from the starting extreme or a mid-range valid "
                "state, for all six limitable variables and limits at 5/30/60/95/150 % of the attainable range: outcome (ok / attempt-limit "
                "panic / picks exhausted) and resulting observables vs Limits.rand_loop; (b) full runs of the kirkpatrick and suppapitnarm "
                "explorers on the catchment model under limits: every boundary state (after the initial randomisation and after every "
                "iteration) and every archive entry: value == canonical valuation of its action set and <= limit; single-objective traces "
                "must be chains of Limits.kp_iter steps. distinct_nontrivial = distinct (family, variable, action set) boundary states + "
                "distinct loop cases",
        "exhaustive": False, "loop_cases": len(loops), "runs": len(runs), "boundaries": boundaries})
    if loops:
        c = loops[0]
        ctx.samples = [{k: c[k] for k in ("limit", "start", "picks", "outcome")}]
    ctx.assumptions = ["A-FLOAT (DESIGN 3a)", "limits generated off the grid",
                       "the attempt-limit panic of the randomisation loops (D14b) is an outcome of the model (LPanic), tracked under C19; "
                       "C03 speaks about the states that exist"]
