"""C19 — accepted configurations run to completion; rejected ones give errors, not panics.

1. translators  harness/astfacts19 -> coq/gen/Facts19.v  (defaults, mandatory-field conditions, enumerated keys, registered
                model / annealer types, log destinations) and harness/astfacts -> coq/gen/Specs19.v (the parameter
                specification tables, as for C18), both from the repository's CURRENT source
2. obligations  coq/gen/obl_C19.v: the side conditions of Properties/C19.v (`facts_ok`, `tables_ok`) evaluated by computation on
                the generated records, and the theorems instantiated with them
3. exercise     harness C19: grammar-generated TOML documents through the real loader -> interpreter -> Scenario.Run() in child
                processes; the model's prediction (ConfigCorr.v) is compared with the observed outcome set, error tags, files
"""
import os, json
from concurrent.futures import ThreadPoolExecutor
import coqgen as g
import catchgen as cg
import check as ck

SHARD = 60

COMPONENTS = {  # field of Config.tables -> the specification function astfacts reports
    "t_annealer": "internal/pkg/annealing/annealers.DefineSpecifications",
    "t_kp_explorer": "internal/pkg/annealing/explorer/kirkpatrick.ParameterSpecifications",
    "t_kp_coolant": "internal/pkg/annealing/cooling/coolants/kirkpatrick.ParameterSpecifications",
    "t_supp_explorer": "internal/pkg/annealing/explorer/suppapitnarm.ParameterSpecifications",
    "t_supp_coolant": "internal/pkg/annealing/cooling/coolants/suppapitnarm.ParameterSpecifications",
    "t_avg_coolant": "internal/pkg/annealing/cooling/coolants/averaged.ParameterSpecifications",
    "t_catchment": "internal/pkg/model/models/catchment/parameters.ParameterSpecifications",
    "t_dumb": "internal/pkg/model/models/dumb.ParameterSpecifications",
    "t_modumb": "internal/pkg/model/models/modumb/parameters.ParameterSpecifications",
}
ORDER = ["t_annealer", "t_kp_explorer", "t_kp_coolant", "t_supp_explorer", "t_supp_coolant", "t_avg_coolant",
         "t_catchment", "t_dumb", "t_modumb"]


class Pool:
    def __init__(self):
        self.names = {}

    def s(self, text):
        if text not in self.names:
            self.names[text] = "s%d" % len(self.names)
        return self.names[text]

    def defs(self):
        return "".join("Definition %s : string := %s.\n" % (n, g.string(t)) for t, n in self.names.items())


def _value(v, pool):
    t = v["t"]
    if t == "int":
        return "(VInt %s)" % g.z(v["v"])
    if t == "float":
        return "(VFloat %s)" % g.fl(v["f"])
    if t == "string":
        return "(VString %s)" % pool.s(v["s"])
    if t == "bool":
        return "(VBool %s)" % g.b(v["b"])
    return {"array": "VArray", "table": "VTable", "nil": "VNil", "other": "VOther"}[t]


def _field(f, conv):
    st = f["state"]
    if st == "absent":
        return "Absent"
    if st == "wrong":
        return "WrongType"
    return "(Value %s)" % conv(f["v"])


def _pmap(ps, pool):
    return g.lst(["(%s, %s)" % (pool.s(p["k"]), _value(p["v"], pool)) for p in ps])


def _config(c, pool):
    s = lambda f: _field(f, pool.s)
    z = lambda f: _field(f, g.z)
    b = lambda f: _field(f, g.b)
    dests = _field(c["log_dests"], lambda l: g.lst(["(%s, %s)" % (pool.s(e["k"]), pool.s(e["v"])) for e in l]))
    return "(mkConfig %s %s %s %s %s %s %s %s %s %s %s %s %s %s %s %s %s %s %s)" % (
        g.b(c["decodes"]), g.b(c["unknown"]), s(c["name"]), z(c["run_number"]), z(c["max_concurrent"]), s(c["output_path"]),
        s(c["output_type"]), s(c["output_level"]), s(c["cpu_profile"]), z(c["report_every"]), b(c["check_invariant"]),
        s(c["logger_type"]), s(c["formatter"]), dests, s(c["annealer_type"]), s(c["event_notifier"]),
        _pmap(c["annealer_params"], pool), s(c["model_type"]), _pmap(c["model_params"], pool))


def _err(tag, pool):
    if ":" in tag:
        k, a = tag.split(":", 1)
        return "(%s %s)" % (k, pool.s(a))
    return tag


def _cell(c):
    return "(CNum %s)" % g.z(c["id"]) if c["num"] else "CText"


def _shape(sh, pool):
    return "(mkShape %s %s %s %s %s %s)" % (
        g.lst([_cell(c) for c in sh["subs"]]), g.b(sh["sub_ok"]), g.lst([_cell(c) for c in sh["gullies"]]), g.b(sh["gully_ok"]),
        g.lst(["(%s, %s)" % (_cell(a["pu"]), pool.s(a["type"])) for a in sh["actions"]]), g.b(sh["action_ok"]))


def _data_src(e, pool, remap):
    if "shape" in e:
        return "(SrcTables %s %s)" % (_shape(e["shape"], pool), cg.nat(remap(e["di"])))
    return "(SrcClass %s)" % cg.nat(e["class"])


def _case(c, pool, remap):
    return "(mkCase %s %s %s %s %s %s %s %s %s %s %s %s)" % (
        _config(c["config"], pool), g.lst([pool.s(p) for p in c["readable"]]),
        g.lst(["(%s, %s)" % (pool.s(e["k"]), _data_src(e, pool, remap)) for e in c["data"]]),
        g.lst(["(%s, %s)" % (pool.s(e["k"]), g.lst([pool.s(f) for f in e["v"]])) for e in c.get("data_files", [])]),
        g.b(c["out_is_file"]), g.b(c["out_creatable"]), g.b(c["profile_dir_ok"]), g.b(c["profile_creatable"]),
        g.b(c["file_creatable"]), g.lst([cg.nat(x) for x in c["outcomes"]]),
        g.lst([_err(t, pool) for t in (c["errs"] or [])]), g.lst([pool.s(f) for f in (c["summaries"] or [])]))


OBL = g.HEADER + """From Crem Require Import Base.Res Params Catchment Limits ConfigLoops Config ConfigSpec ConfigProofs.
From CremGen Require Import Specs19 Facts19.
Open Scope string_scope.

Definition tables19 : tables := %(tables)s.

(* what the translators found, checked by computation: the mandatory-field conditions the run depends on are present
   (1 <= RunNumber <= MaxInt64, ReportEveryNumberOfIterations >= 1), every condition reads a field the model knows,
   every valid annealer type is registered with a real annealer, defaults satisfy the conditions *)
Theorem C19_facts_ok : facts_ok facts19 = true.
Proof. vm_compute. reflexivity. Qed.

(* every parameter the interpreter reads through a typed getter is specified, non-optional, of the getter's type and has a default
   of that type; the limits are optional decimals; tables have distinct keys *)
Theorem C19_tables_ok : tables_ok tables19 = true.
Proof. vm_compute. reflexivity. Qed.

Theorem C19_crem_load_never_panics : forall c, load facts19 c <> Crash.
Proof. exact (load_never_crashes facts19). Qed.

Theorem C19_crem_interpret_never_panics_partial : forall E l,
  nodupb (map fst (l_annealer_params l)) = true -> nodupb (map fst (l_model_params l)) = true ->
  interpret_env_ok facts19 tables19 E l = true -> interpret facts19 tables19 E l <> Crash.
Proof. exact (interpret_never_crashes facts19 tables19 C19_tables_ok). Qed.

Theorem C19_crem_accepted_runs_partial : forall E c l sc choices T0 a,
  load facts19 c = Done l -> interpret facts19 tables19 E l = Done sc ->
  run_preconditions E sc = true -> choices_ok sc choices ->
  exists summaries, run_model E sc choices T0 a = Completed summaries /\\ List.length summaries = Z.to_nat (l_run_number l)
                    /\\ (1 <= l_run_number l)%%Z
                    /\\ summaries = map (summary_name sc) (seq 1 (Z.to_nat (l_run_number l)))
                    /\\ (writes_files sc = true -> NoDup summaries).
Proof. exact (accepted_runs facts19 tables19 C19_facts_ok C19_tables_ok). Qed.

Print Assumptions C19_facts_ok.
Print Assumptions C19_tables_ok.
Print Assumptions C19_crem_load_never_panics.
Print Assumptions C19_crem_interpret_never_panics_partial.
Print Assumptions C19_crem_accepted_runs_partial.
"""

OBL_NAMES = ["C19_facts_ok", "C19_tables_ok", "C19_crem_load_never_panics", "C19_crem_interpret_never_panics_partial",
             "C19_crem_accepted_runs_partial"]

DIAG = g.HEADER + """From Crem Require Import Base.Res Params ConfigLoops Config ConfigSpec ConfigProofs.
From CremGen Require Import Specs19 Facts19.
Definition tables19 : tables := %(tables)s.
Definition D := Eval vm_compute in (facts_diagnosis facts19, tables_diagnosis tables19).
Print D.
"""


def _build(ctx, name):
    adir = os.path.join(ck.VERIF, "harness", name)
    exe = os.path.join(ck.BUILD, name + ".C19")
    p = ck.sh(["go", "build", "-o", exe, "."], cwd=adir, env=ck.GOENV, timeout=600)
    if p.returncode != 0:
        raise ck.Abort(name + " build failed:\n" + p.stdout[-2000:] + p.stderr[-4000:])
    return exe


def _translate(ctx):
    """-> (tables term or None, facts19 json or None)"""
    ok = True
    # parameter specification tables (the C18 translator; own output file so that parallel checks do not race)
    exe = _build(ctx, "astfacts")
    specs_v = os.path.join(ck.GEN, "Specs19.v")
    specs_j = os.path.join(ck.BUILD, "C19.specs.json")
    for f in (specs_v, specs_j):
        if os.path.exists(f):
            os.remove(f)
    p = ck.sh([exe, "-repo", ck.REPO, "-coq", specs_v, "-json", specs_j], timeout=300)
    tables = None
    if p.returncode != 0:
        ctx.oblige("translator:astfacts(gen/Specs19.v)", False, p.stderr[-1500:])
        ctx.broken.append("translator harness/astfacts: " + " ".join(p.stderr.split())[-400:])
        ok = False
    else:
        ctx.oblige("translator:astfacts(gen/Specs19.v)", True)
        comps = json.load(open(specs_j))["components"]
        index = {c["name"]: i for i, c in enumerate(comps)}
        missing = [n for n in COMPONENTS.values() if n not in index]
        if missing:
            ctx.oblige("translator:every component the model composes is present", False, "missing: %s" % missing)
            ctx.broken.append("specification tables no longer found in the source: %s" % missing)
            ok = False
        else:
            tables = "mkTables " + " ".join("(ctable comp_%d)" % index[COMPONENTS[f]] for f in ORDER)
    # defaults / mandatory conditions / enumerations / registrations
    exe19 = _build(ctx, "astfacts19")
    facts_v = os.path.join(ck.GEN, "Facts19.v")
    if os.path.exists(facts_v):
        os.remove(facts_v)
    p = ck.sh([exe19, ck.REPO, facts_v], timeout=300)
    facts = None
    if p.returncode != 0:
        ctx.oblige("translator:astfacts19(gen/Facts19.v)", False, p.stderr[-1500:])
        ctx.broken.append("translator harness/astfacts19: " + " ".join(p.stderr.split())[-400:])
        ok = False
    else:
        ctx.oblige("translator:astfacts19(gen/Facts19.v)", True)
        facts = json.loads(p.stdout.strip().splitlines()[-1])
    return ok, tables, facts


def run(ctx):
    ctx.build_harness()
    ok, tables, facts = _translate(ctx)
    ctx.check_theorems("Properties/C19.v")
    compiled = False
    if ok:
        okf, so, se = ctx.coq_cases("Facts19", open(os.path.join(ck.GEN, "Facts19.v")).read())
        oks, so2, se2 = ctx.coq_cases("Specs19", open(os.path.join(ck.GEN, "Specs19.v")).read())
        ctx.oblige("generated:gen/Facts19.v and gen/Specs19.v compile", okf and oks, "" if okf and oks else (se or so or se2 or so2)[-1500:])
        compiled = okf and oks
        if not compiled:
            ctx.broken.append("generated facts do not compile: " + " ".join((se or so or se2 or so2).split())[-300:])
    if compiled:
        body = OBL % {"tables": tables}
        ok2, so, se = ctx.coq_cases("obl_C19", body)
        for n in OBL_NAMES:
            ctx.oblige("theorem:" + n, ok2, "" if ok2 else (se or so)[-1500:])
        if ok2:
            ctx.parse_assumptions(body, so, "gen/obl_C19.v")
        else:
            okd, sod, sed = ctx.coq_cases("diag_C19", DIAG % {"tables": tables})
            ctx.broken.append("gen/obl_C19.v (a side condition of the C19 theorems no longer holds by computation on the regenerated facts): " +
                              (" ".join(sod.split())[-700:] if okd else ctx._first_error(type("P", (), {"stderr": se, "stdout": so, "returncode": 1})())))
    # ---- exercise the implementation
    lines = ctx.run_harness("C19", [ctx.tier], timeout=3000)
    cases = [l for l in lines if l.get("kind") == "case"]
    for l in lines:
        if l.get("kind") == "oracle":
            ctx.failing_inputs.append(l)
        elif l.get("kind") == "stat":
            ctx.stats = l["stats"]
    dsl = [l for l in lines if l.get("kind") == "dataset"]
    nshards = 0
    if compiled and dsl and cases:
        dterms = [cg.dataset(d) for d in dsl]     # [0] the shipped data set, then the generated data sources the real loader took
        jobs = []
        nsh = max(1, (len(cases) + SHARD - 1) // SHARD)
        for si, shard in enumerate([cases[k::nsh] for k in range(nsh)]):   # round robin: the costly limit documents are spread
            pool = Pool()
            # a shard only carries the data sets its own cases refer to
            used = [0] + sorted({e["di"] for c in shard for e in c["data"] if "shape" in e and e["di"] != 0})
            remap = lambda di, used=used: used.index(di)
            items = [_case(c, pool, remap) for c in shard]
            body = cg.HEADER + "From Coq Require Import String.\nFrom Crem Require Import Base.Res Params ConfigLoops Config ConfigCorr.\n" \
                "From CremGen Require Import Specs19 Facts19.\nOpen Scope string_scope.\n"
            body += pool.defs()
            body += "Definition tables19 : tables := %s.\n" % tables
            for j, di in enumerate(used):
                body += "Definition d%d : dataset :=\n  %s.\n" % (j, dterms[di])
            body += "Definition cases : list case := [\n  " + ";\n  ".join(items) + "\n].\n"
            body += "Definition M := Eval vm_compute in mismatches facts19 tables19 [%s] cases.\nPrint M.\n" % "; ".join("d%d" % j for j in range(len(used)))
            jobs.append((si, shard, body))
        with ThreadPoolExecutor(max_workers=4) as ex:
            results = list(ex.map(lambda j: ctx.correspondence("cases_C19_%d" % j[0], j[2], ncases=len(j[1])), jobs))
        for (si, shard, _), idx in zip(jobs, results):
            nshards += 1
            if idx:
                for i in idx[:4]:
                    if i < len(shard):
                        c = shard[i]
                        ctx.notes.append({"mismatch": {k: c[k] for k in ("id", "note", "hazard", "toml", "outcomes", "errs", "summaries")}})
    elif not cases:
        ctx.oblige("harness produced cases", False)
        ctx.broken.append("harness C19 produced no case")
    distinct = len({c["toml"] for c in cases})
    ctx.coverage.update({
        "evaluations": sum(ctx.stats.get("executions", 0) for _ in [0]), "distinct_nontrivial": distinct,
        "rule": "one case = one generated TOML document (a base configuration of every annealer type x {catchment, dumb, multi-objective "
                "dumb} model, every single perturbation of the key grammar on several bases -- absent / wrong type / boundary values incl. "
                "0 and -1 / unknown keys / every enumerated text and an invalid one / all model types incl. NullModel / data source classes / "
                "limits at 0, mid-range and above everything for all six variables; documents whose parts refer to each other: CSV data "
                "sources written for the run whose tables disagree (gully / action rows in an unlisted subcatchment, duplicate rows, missing "
                "and non-numeric cells, empty tables -- the model decides acceptance from the exported table shapes), CpuProfilePath = / above "
                "/ inside OutputPath, = the data source's meta-file or a table file, = a directory, OutputPath empty / = the data directory, "
                "scenario names built from the saver's id / label / file-name patterns with three runs, floats at the edge of the formatters' "
                "and RoundFloat's range -- and random combinations of 2-4 perturbations), executed "
                "through the real RetrieveConfigFromString -> Interpret -> Scenario.Run() in a child process (limit-bearing documents "
                "several times); evaluations = child executions; distinct_nontrivial = distinct documents",
        "exhaustive": False, "documents": len(cases), "correspondence_shards": nshards,
        "translator_facts": facts,
    })
    ctx.samples = [{k: c[k] for k in ("note", "toml", "outcomes", "errs", "summaries")} for c in cases[9:12] + cases[len(cases) // 2: len(cases) // 2 + 2]]
    ctx.extra_trusted = [
        "translator harness/astfacts19 (go/ast pattern matcher over Retrieval.go, the UnmarshalText methods and the three interpreters; "
        "unrecognised shapes are hard errors) and harness/astfacts (C18); their output is cross-checked against the running code by the correspondence",
        "the TOML decoder (BurntSushi/toml), the logging back-ends, the CPU profiler, the Excel paths and the CSV/JSON encoders are not "
        "transcribed: a panic inside them can only be met by the correspondence stream (hence level: proof, partial)",
    ]
    ctx.assumptions = [
        "the abstract configuration is what the TOML decoder makes of the document (per key: absent / wrong type / value); the generator's "
        "reading of its own documents is checked against the decoder's behaviour by the correspondence",
        "oracles for what lives outside the configuration: file readability, the class of the data source (not loadable / malformed / the "
        "exported well-formed data set; for the generated data sources the SHAPE of their three tables as read by the harness's own CSV "
        "reader -- acceptance is then decided by the model -- and the constants the real model derives from accepted ones), the files a data "
        "source consists of, output path usable, CPU-profile file creatable, summary file name creatable, Excel available, RoundFloat "
        "range of the multi-objective dumb model's initial values; all asked of the file system in a directory laid out like the children's",
        "paths are compared lexically (filepath.Abs/Clean transcribed); the fix also compares with os.SameFile, which the generator does not "
        "exercise (no aliases of written paths: a written path must never lead through the fixture symlink into the repository)",
        "random choices (picks of the randomisation loops, acceptance decisions, moves, return-to-base selections) are universally quantified; "
        "termination of the loops is relative to boundedly fair pick lists (every index recurs in each of n windows)",
        "A-FLOAT (DESIGN 3a) for the catchment valuation under a limit",
    ]
