"""C14 -- engine resources reflect exactly the writes applied, whatever the route taken.
(Also hosts the JSON -> Gallina generator shared with C15: both properties use the model Engine.v.)"""
import json, os, re, concurrent.futures
import coqgen as g

SHARD_BYTES = 700_000   # of generated .v text per shard


# ---------------------------------------------------------------- JSON -> Gallina
def s(x):
    """Coq string literal for a str whose code points are bytes 0..255 (the harness maps bytes to code points).
    (coqgen.string emits one ')' too many for strings that need the constructor form, so this slice has its own.)"""
    x = x if x is not None else ""
    bs = x.encode("latin-1", errors="replace")
    if all(32 <= c < 127 and c != 34 for c in bs):
        return '"' + bs.decode("latin-1") + '"%string'
    # printable runs as literals, other bytes as constructors: ("abc" ++ String (ascii_of_nat 10) ("def" ++ ...))
    out, run = [], bytearray()
    for c in bs:
        if 32 <= c < 127 and c != 34:
            run.append(c)
        else:
            if run:
                out.append(("lit", run.decode("latin-1")))
                run = bytearray()
            out.append(("chr", c))
    if run:
        out.append(("lit", run.decode("latin-1")))
    term = "EmptyString"
    for kind, v in reversed(out):
        if kind == "lit":
            term = '(String.append "%s" %s)' % (v, term)
        else:
            term = "(String (Ascii.ascii_of_nat %d) %s)" % (v, term)
    return term


def z(x):
    return "(%d)%%Z" % int(x)


def optz(x):
    return "None" if x is None else "(Some %s)" % z(x)


def opts(x):
    return "None" if x is None else "(Some %s)" % s(x)


def optb(x):
    return "None" if x is None else "(Some %s)" % g.b(x)


def bits(k):
    return g.lst(["true" if c == "1" else "false" for c in k])


def fval(f):
    if f == "nan":
        return "(NonFin NaN)"
    if f == "pinf":
        return "(NonFin PInf)"
    if f == "ninf":
        return "(NonFin NInf)"
    return "(Fin %s)" % g.fl(f)


def aval(v):
    if v is None:
        return "ANull"
    if "b" in v:
        return "(ABool %s)" % g.b(v["b"])
    if "s" in v:
        return "(AStr %s)" % s(v["s"])
    return "(AOther %s)" % s(v["o"])


def attrs(l):
    return g.lst(["(%s, %s)" % (s(n), aval(v)) for n, v in l])


def amap(l):
    return g.lst(["(%s, %s)" % (z(pu), g.lst([s(t) for t in ts])) for pu, ts in l])


def cell(c):
    if c["t"] == "f":
        return "CF %s %s" % (fval(c["f"]), s(c["txt"]))
    if c["t"] == "b":
        return "CB %s %s" % (g.b(c["v"]), s(c["txt"]))
    return "CS %s" % s(c["v"])


def route(r):
    k = r["k"]
    if k == "solution":
        return "(RSolution %s)" % s(r["label"])
    if k == "sub":
        return "(RSubcatchment %s)" % optz(r["id"])
    return {"scenario": "RScenario", "solutions": "RSolutions", "model": "RModel", "applicable": "RApplicable",
            "active": "RActive", "none": "RNone"}[k]


def toml(t):
    if t["k"] == "err":
        return "TomlErr"
    if t["k"] == "panic":
        return "TomlLibPanic"
    m = t["model"]
    mv = {"interp": "MInterpErr", "notcatchment": "MNotCatchment", "init": "MInitErr", "panic": "MLibPanic"}.get(m["k"])
    if mv is None:
        mv = "(MOk d%d)" % m["desc"]
    return "(TomlOk %s %s)" % (s(t["name"]), mv)


def csvv(c):
    if c["k"] == "err":
        return "CsvErr"
    if c["k"] == "panic":
        return "CsvLibPanic"
    if "rle" in c:   # consecutive identical rows as (count, row): EngineCorr.rle
        rows = "(rle %s)" % g.lst(["(%s, %s)" % (g.n_(x["n"]), g.lst([cell(y) for y in x["r"]])) for x in c["rle"]])
    else:
        rows = g.lst([g.lst([cell(x) for x in r]) for r in c["rows"]])
    return "(CsvOk {| t_header := %s; t_rows := %s |})" % (g.lst([s(h) for h in c["header"]]), rows)


def jsonv(j):
    if j["k"] == "err":
        return "JsonErr"
    if j["k"] == "panic":
        return "JsonLibPanic"
    if "rle" in j:   # consecutive identical entries as (count, entry): EngineCorr.rle
        return "(JsonAttrs (rle %s))" % g.lst(["(%s, (%s, %s))" % (g.n_(n), s(k), aval(v)) for n, k, v in j["rle"]])
    return "(JsonAttrs %s)" % attrs(j["l"])


METH = {"GET": "MGet", "POST": "MPost", "PUT": "MPut", "PATCH": "MPatch", "OTHER": "MOther"}
CT = {"toml": "CtToml", "csv": "CtCsv", "json": "CtJson", "other": "CtOther"}


def request(r):
    return "(rq %s %s %s %s %s %s %s)" % (METH[r["m"]], route(r["route"]), CT[r["ct"]], s(r["raw"]), toml(r["toml"]),
                                          csvv(r["csv"]), jsonv(r["json"]))


def obody(b):
    k = b["k"]
    if k == "err":
        return "OErr"
    if k == "success":
        return "(OSuccess %s)" % s(b["msg"])
    if k == "text":
        return "(OText %s)" % s(b["t"])
    if k == "model":
        return "(OModel %s %s %s %s)" % (s(b["id"]), amap(b["active"]), g.b(b["vars_ok"]), attrs(b["attrs"]))
    if k == "active":
        return "(OActive %s)" % amap(b["l"])
    if k == "applicable":
        return "(OApplicable %s)" % amap(b["l"])
    if k == "sub":
        return "(OSubcatchment %s)" % g.lst(["(%s, %s)" % (s(n), g.b(v)) for n, v in b["l"]])
    if k == "status":
        return "(OStatus %s %s %s)" % (s(b["name"]), s(b["version"]), s(b["status"]))
    if k == "solution":
        return "(OSolution %s %s %s %s %s %s %s)" % (s(b["id"]), amap(b["active"]), g.b(b["vars_ok"]), opts(b["enc"]),
                                                   opts(b["summary"]), optb(b["pfm"]), optb(b["valid"]))
    return "(OOther %s)" % s(b.get("what", "")[:60])


class Interner:
    """Projected responses repeat a lot within a sequence (after every request every readable resource is fetched again,
    and most of them did not change; with 128 actions one such answer is several KiB of Gallina).  A response term of
    INTERN_MIN characters or more is emitted once per shard as [Definition o<i> : oresp := ...] and referred to by name."""
    def __init__(self):
        self.ids, self.texts, self.used = {}, [], set()

    def ref(self, t):
        i = self.ids.get(t)
        if i is None:
            i = self.ids[t] = len(self.texts)
            self.texts.append(t)
        self.used.add(i)
        return "o%d" % i

    def take_used(self):
        u, self.used = self.used, set()
        return u

    def defs(self, ids):
        return "".join("Definition o%d : oresp := %s.\n" % (i, self.texts[i]) for i in sorted(ids))


INTERN = None        # set by generate() for the duration of one generation
INTERN_MIN = 100


def oresp(r):
    if r["k"] == "panic":
        return "OPanic"
    t = "(OResp %d %s %s)" % (r["status"], CT[r["ct"]], obody(r["b"]))
    if INTERN is not None and len(t) >= INTERN_MIN:
        return INTERN.ref(t)
    return t


def obs(o):
    if o is None:
        return "None"
    subs = g.lst(["(%s, %s)" % (optz(i), oresp(r)) for i, r in o["subs"]])
    return "(Some (mkobs %s %s %s %s %s %s))" % (oresp(o["scenario"]), oresp(o["solutions"]), oresp(o["model"]),
                                                 oresp(o["active"]), oresp(o["applicable"]), subs)


def step(st):
    return "(mkstep %s %s %s)" % (request(st["req"]), oresp(st["resp"]), obs(st["obs"]))


def case(c):
    return "(mkcase %s)" % g.lst([step(x) for x in c["steps"]])


AROUTE = {"status": "AStatus", "shutdown": "AShutdown", "none": "ANone"}


def sstep(st):
    if st["t"] == "api":
        q = "(ToApi %s)" % request(st["req"])
    elif st["t"] == "root":
        q = "(ToApiRoot %s)" % METH[st["m"]]
    else:
        q = "(ToAdmin %s %s)" % (METH[st["m"]], AROUTE[st["route"]])
    return "(Build_sstep %s %s %s)" % (q, oresp(st["resp"]), g.b(st["signalled"]))


def scase(c):
    return "(Build_scase %s %s %s %s)" % (s(c["svc"][0]), s(c["svc"][1]), s(c["svc"][2]), g.lst([sstep(x) for x in c["steps"]]))


def desc(d):
    acts = g.lst(["(%s, %s)" % (z(pu), s(ty)) for pu, ty in d["actions"]])
    pus = g.lst([z(p) for p in d["pus"]])
    asis = g.lst(["(%s, %s)" % (s(n), g.fl(v)) for n, v in d["asis"]])
    inv = g.lst(["(%s, %s)" % (bits(k), s(tok)) for k, tok in d["invalid"]])
    return "Definition d%d : desc CV := mkdesc %s %s %s %s.\n" % (d["id"], acts, pus, asis, inv)


PRELUDE = g.HEADER + """From Crem Require Import Base.Res Base.Fl Engine EngineAdmin EngineCorr.
Open Scope string_scope.
Definition rq := @Build_request CV.
Definition mkobs := Build_obs.
Definition mkstep := Build_step.
Definition mkcase := Build_case.
"""


def generate(pid, ctx, lines):
    """Shards the cases of one harness run into gen/cases_<pid>_<i>.v, compiles them (2 at a time), records obligations."""
    global INTERN
    INTERN = it = Interner()
    try:
        return _generate(pid, ctx, lines, it)
    finally:
        INTERN = None


def _generate(pid, ctx, lines, it):
    cases = [l for l in lines if l.get("kind") == "case"]
    descs = sorted([l for l in lines if l.get("kind") == "desc"], key=lambda d: d["id"])
    convs = [l for l in lines if l.get("kind") == "conv"]
    head = PRELUDE + "".join(desc(d) for d in descs)

    def case_text(c):
        """(case, Gallina term, ids of the interned responses it refers to)"""
        it.take_used()
        t = case(c)
        return (c, t, it.take_used())
    # the sequences with large bodies are the expensive ones to evaluate (tables of thousands of rows): they are dealt
    # round-robin onto the shards made of the ordinary sequences, lightest shard first
    heavy = [c for c in cases if c.get("tag") == "large-body"]
    shards, cur, size, have = [], [], 0, set()
    for c in cases:
        if c.get("tag") == "large-body":
            continue
        item = case_text(c)
        cost = len(item[1]) + sum(len(it.texts[i]) + 30 for i in item[2] - have)
        if cur and size + cost > SHARD_BYTES:
            shards.append(cur)
            cur, size, have = [], 0, set()
            cost = len(item[1]) + sum(len(it.texts[i]) + 30 for i in item[2])
        cur.append(item)
        size += cost
        have |= item[2]
    if cur:
        shards.append(cur)
    if heavy and not shards:
        shards.append([])
    order = sorted(range(len(shards)), key=lambda i: sum(len(x[1]) for x in shards[i]))
    for k, c in enumerate(heavy):
        shards[order[k % len(order)]].append(case_text(c))
    gen_dir = os.path.join(os.path.dirname(os.path.dirname(os.path.dirname(os.path.abspath(__file__)))), "coq", "gen")
    for f in os.listdir(gen_dir):   # shards left by an earlier, larger run of this property
        m = re.match(r"\.?cases_%s_(\d+)\.(v|vo|vok|vos|glob|aux)$" % pid, f)
        if m and int(m.group(1)) >= len(shards):
            try:
                os.remove(os.path.join(gen_dir, f))
            except OSError:
                pass
    jobs = []
    for si, shard in enumerate(shards):
        used = set().union(*[x[2] for x in shard]) if shard else set()
        body = head + it.defs(used) + "Definition cases : list case := [\n  " + ";\n  ".join(x[1] for x in shard) + "\n].\n"
        # one evaluation of the cases: D = (case index, first bad step) of every mismatching case, M = its case indices
        # (EngineCorr: mismatches cs = map fst (diag cs), both are [first_bad c <> None])
        body += "Definition D := Eval vm_compute in diag cases.\nPrint D.\n"
        body += "Definition M := Eval vm_compute in List.map fst D.\nPrint M.\n"
        jobs.append(("cases_%s_%d" % (pid, si), body, shard))
    scases = [l for l in lines if l.get("kind") == "scase"]
    if scases:
        it.take_used()
        stexts = [scase(c) for c in scases]
        sbody = head + it.defs(it.take_used()) + "Definition scases : list scase := [\n  " + ";\n  ".join(stexts) + "\n].\n"
        sbody += "Definition M := Eval vm_compute in smismatches scases.\nPrint M.\n"
        jobs.append(("cases_%s_server" % pid, sbody, None))
    conv_items = ["(%s, %s)" % (fval(c["f"]), z(c["id"])) for c in convs]
    jobs.append(("cases_%s_conv" % pid, head + "Definition M := Eval vm_compute in conv_mismatches %s.\nPrint M.\n" % g.lst(conv_items), None))

    def compile_one(job):
        name, body, _ = job
        path = os.path.join(os.path.dirname(os.path.dirname(os.path.dirname(os.path.abspath(__file__)))), "coq", "gen", name + ".v")
        with open(path, "w") as fh:
            fh.write(body)
        return ctx.coqc(path, timeout=1800)

    with concurrent.futures.ThreadPoolExecutor(max_workers=8) as ex:
        results = list(ex.map(compile_one, jobs))
    bad_cases = []
    for (name, body, shard), p in zip(jobs, results):
        label = "correspondence:" + name
        so, se = p.stdout, p.stderr
        if p.returncode != 0:
            ctx.oblige(label, False, (se or so)[-1500:])
            ctx.broken.append("%s (gen/%s.v does not compile: %s)" % (label, name, " ".join((se or so).split())[-300:]))
            continue
        m = re.search(r"M\s*=\s*(\[.*?\])\s*:\s*list", so, flags=re.S)
        if not m:
            ctx.oblige(label, False, "cannot parse mismatch list: " + so[-500:])
            ctx.broken.append(label + " (unparsable output)")
            continue
        idx = [int(x) for x in re.findall(r"\d+", m.group(1))]
        ctx.oblige(label, not idx, "" if not idx else "mismatching case indices: %s" % idx[:20])
        if idx:
            n = len(shard) if shard is not None else len(convs)
            if name.endswith("_server"):
                n = len(scases)
                ctx.notes.append({"server_sequence_mismatch": [{"sequence": scases[i]["name"], "steps": [(x.get("go"), x["resp"]) for x in scases[i]["steps"]][:12]}
                                                               for i in idx[:3] if i < len(scases)]})
            ctx.broken.append("%s (model and implementation differ on %d of %d cases, first index %d)" % (label, len(idx), n, idx[0]))
            dm = re.search(r"D\s*=\s*(\[.*?\])\s*:\s*list", so, flags=re.S)
            pairs = re.findall(r"\((\d+),\s*(\d+)\)", dm.group(1)) if dm else []
            for ci, k in pairs[:6]:
                c = shard[int(ci)][0]
                k = int(k)
                sidx = k % 1000
                st = c["steps"][sidx] if sidx < len(c["steps"]) else {}
                ctx.notes.append({"mismatch_in": c.get("name"), "step": sidx,
                                  "what": "resources after the step" if k >= 1000 else "response",
                                  "request": st.get("go"), "implementation_response": st.get("resp"),
                                  "implementation_resources": st.get("obs") if k >= 1000 else None})
                bad_cases.append(c.get("name"))
    return cases, descs, len(shards), bad_cases


ORACLE_KINDS_C14 = ("error-status-but-resource-changed", "error-status-but-hidden-state-changed", "text-not-verbatim",
                    "routes-disagree", "served-valuation-differs-from-fresh-instance", "route-did-not-reach-its-action-set",
                    "served-encoding-is-not-the-encoding-of-the-set-written", "served-encoding-not-canonical",
                    "undecodable-encoding-accepted", "patched-encoding-is-not-the-set-served")


def common(pid, ctx, sub, alongside=None):
    ctx.build_harness()
    # the property file is re-checked while the harness runs (two independent child processes)
    import threading
    thm_failure = []

    def theorems():
        try:
            ctx.check_theorems("Properties/%s.v" % pid)
        except Exception as e:   # re-raised in the main thread below
            thm_failure.append(e)
    thm = threading.Thread(target=theorems)
    thm.start()
    try:
        lines = ctx.run_harness(sub, [ctx.tier], timeout=3000)
    finally:
        thm.join()
    if thm_failure:
        raise thm_failure[0]
    for l in lines:
        if l.get("kind") == "oracle":
            ctx.failing_inputs.append(l)
        if l.get("kind") == "stat":
            ctx.stats = l["stats"]
        if l.get("kind") == "note":
            ctx.notes.append(l)
    ctx.engine_lines = lines
    side = None
    if alongside is not None:   # further correspondence files compiled while the case shards are
        import threading
        failure = []

        def guarded():
            try:
                alongside(ctx, lines)
            except Exception as e:   # re-raised in the main thread below
                failure.append(e)
        side = threading.Thread(target=guarded)
        side.start()
    cases, descs, nshards, bad = generate(pid, ctx, lines)
    if side is not None:
        side.join()
        if failure:
            raise failure[0]
    nsteps = sum(len(c["steps"]) for c in cases)
    distinct = len({json.dumps(st["req"], sort_keys=True) for c in cases for st in c["steps"]})
    ctx.coverage.update({"evaluations": nsteps, "distinct_nontrivial": distinct, "sequences": len(cases),
                         "exhaustive": False, "correspondence_shards": nshards,
                         "scenario_descriptors": len(descs)})
    some = [c for c in cases if len(c["steps"]) >= 3][:2]
    ctx.samples = [{"sequence": c["name"], "first_steps": [{"request": st["go"], "response": st["resp"]} for st in c["steps"][:3]]} for c in some]
    return cases


def served_correspondence(ctx, lines):
    """The six totals (and ValidAgainstScenario) served by GET /model for sampled distinct (scenario, action set) pairs are
    recomputed in Coq from the data set exported from the scenario's model instance: Catchment.canon_total through
    EngineCatchment.served_mismatches (which also checks wf_dataset and that the descriptor used by the engine
    correspondence agrees with the one built from the data set)."""
    import catchgen
    descs = sorted([l for l in lines if l.get("kind") == "desc" and l.get("served")], key=lambda d: d["id"])
    jobs = []
    for d in descs:
        items = ["(mkServed %s %s %s)" % (bits(c["bits"]), g.lst([z(t) for t in c["totals"]]), optb(c["valid"])) for c in d["served"]]
        body = g.HEADER + "From Crem Require Import Base.Res Base.Fl Engine EngineCorr EngineCatchment.\n"
        body += "From Crem Require Import Catchment CatchmentCorr.\nOpen Scope Z_scope.\n"
        body += desc(d)
        body += "Definition ds : Catchment.dataset :=\n  %s.\n" % catchgen.dataset(d["dataset"])
        body += "Definition cs : list served := %s.\n" % g.lst(items)
        body += "Definition M := Eval vm_compute in served_mismatches ds d%d cs.\nPrint M.\n" % d["id"]
        jobs.append((d, body))

    def one(job):
        d, body = job
        return d, ctx.correspondence("cases_C14_served_%d" % d["id"], body, label="correspondence:served-values:scenario-%d" % d["id"],
                                     ncases=len(d["served"]))

    with concurrent.futures.ThreadPoolExecutor(max_workers=3) as ex:
        results = list(ex.map(one, jobs))
    n = 0
    for d, idx in results:
        n += len(d["served"])
        for i in (idx or [])[:3]:
            ctx.notes.append({"served_values_mismatch": d["served"][i] if i < len(d["served"]) else
                              {998: "descriptor built from the data set disagrees with the exported one", 999: "exported data set is not wf"}.get(i, i),
                              "scenario_descriptor": d["id"]})
    ctx.coverage["served_values_recomputed_in_coq"] = {"samples": n, "scenarios": len(descs),
        "rule": "first distinct (scenario, served action set) pairs of the run; six totals as grid integers = Catchment.canon_total "
                "of the exported data set, ValidAgainstScenario = limit check on those totals"}


def run(ctx):
    common("C14", ctx, "C14", alongside=served_correspondence)
    ctx.coverage["rule"] = (
        "request sequences through the real Mux.ServeHTTP (fresh Mux each): state-aware random walks over all routes and methods "
        "(valid and malformed bodies, texts with %, quotes, CR/LF, non-UTF-8) plus route triples (same prefix, same target action "
        "set reached by whole-table PUT / per-subcatchment PUTs / encoding PATCH), histories of REPLACED solution summaries (one "
        "engine, several different valid summaries -- other sizes, overlapping / disjoint label sets, same labels with other "
        "encodings -- with GET /solutions/<label> for labels of the current and of every earlier summary, refused POSTs, PATCH "
        "{Encoding}, re-POSTed scenario; one fixed history + random ones) and LARGE BODIES on every body-carrying write (POST "
        "/scenario, POST /solutions, PUT active, PUT subcatchment, PATCH /model): sizes 4 KiB / 64 KiB / 1 MiB each -1, =, +1 and "
        "'filler ends exactly on the boundary', 2 MiB + 4 KiB, 10 MiB + 1 (thorough: 512 B .. 8 MiB, 32 MiB + 1), built as prefix + "
        "count x unit + pad + suffix so that the body is valid as a whole and its meaning is decided by the suffix (variants: filler "
        "rows/entries/comment lines, blank-line or white-space gap after a prefix that parses by itself, one long line, trailing "
        "filler, malformed tail that must be refused, one long attribute value), delivered in varying chunk sizes (a third of the "
        "ordinary walks too), and THE SAME STREAMS ON GENERATED CATCHMENTS whose number of management actions sits on and around the "
        "64-bit word boundaries of the action encoding (quick: 1 or 2, 63, 64, 65, 128; thorough: 1, 2, 3, 63, 64, 65, 127, 128, 129, 191, "
        "192, 193, 256; catchSizedDataset through the real loader, scenario TOML naming the data set relative to the working directory): "
        "route triples from a state that differs from the target at the word-boundary actions, one per boundary set (all, none, only the "
        "last action, only action 62 / 63 / 64 / 127 / 128, 62..64, all but the last word, only the last word, all but the last action, "
        "only the first, random) plus a full per-subcatchment sweep, compared on EVERY readable resource; failed writes around a state "
        "whose last word is in use (a word too few / too many, 17-digit word, good then bad encoding, bad table cell, unsupported type, "
        "wrong content type, unknown unit, summary with a mis-sized Actions cell); random walks and a replaced-summary history with the "
        "generators biased to the boundary sets; the scenario with and without an implementation-cost limit.  Posted texts are interned tokens (same token <=> same bytes: byte equality of what GET returns is "
        "decided on tokens, and by the Go-side oracle text-not-verbatim), filler rows/entries are run-length encoded in the views "
        "(EngineCorr.rle), attribute values over 2 KiB are (length, sha256).  After EVERY request the six read-only resources "
        "and the per-subcatchment resource of every planning unit are fetched and compared with the model's.  evaluations = "
        "requests compared; distinct_nontrivial = distinct abstract requests (method, route, content type, parse-level body view)")
    st = ctx.stats or {}
    ctx.coverage["generated_catchments"] = {
        "action_counts": sorted(int(k.split(":")[-1]) for k in st if k.startswith("sized:actions:")),
        "route_triples": st.get("sized:route_triples", 0), "walks": st.get("sized:walks", 0),
        "failed_writes": st.get("sized:failed_writes", 0), "summary_histories": st.get("sized:summary_histories", 0),
        "rule": "route triples = (size, boundary set) pairs, three engines each; every request goes through the same model comparison as the "
                "shipped scenario's; Go oracles: route-did-not-reach-its-action-set, served-encoding-is-not-the-encoding-of-the-set-written, "
                "routes-disagree (any readable resource), served-encoding-not-canonical, undecodable-encoding-accepted, "
                "patched-encoding-is-not-the-set-served (own encoder / decoder, no code of pkg/archive)"}
    ctx.assumptions = [
        "the catchment valuation is a function of the action set (C01, another slice): the served decision variables are "
        "compared with a fresh model instance put into the served action set, not recomputed in Coq",
        "parse-level views (TOML decode + interpret + initialise, encoding/csv + caster, encoding/json, route regexps) are "
        "inputs of the model, computed by the harness with the same library calls on fresh objects ON ALL BYTES SENT (so a handler "
        "that sees only part of a body disagrees with the model)",
        "body sizes: nothing above 10 MiB + 1 (quick) / 32 MiB + 1 (thorough) is sent; a size-dependent behaviour beyond that is not explored",
        "the model is written from the engine sources as committed in /repo (fix series proposed_fixes/SERIES-C14C15.txt + CSV cell-text fix b0400cb)"]
