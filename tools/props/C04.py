"""C04 — single-objective acceptance follows the Metropolis rule in the set direction."""
import re
import coqgen as g

STEPS_PER_SHARD = 1800

DEC = {"RI": "RevertInvalid", "AD": "AcceptDesirable", "AU": "AcceptUndesirable", "RU": "RevertUndesirable"}
CALL = {"T": "CTry", "V": "CValid", "C": "CChange", "A": "CAccept", "R": "CRevert"}
DIR = {0: "DirUnset", 1: "Minimise", 2: "Maximise"}

PRELUDE = g.HEADER + """From Coq Require Import Floats Uint63.
From Crem Require Import Kirkpatrick KirkpatrickCorr.
Open Scope uint63_scope.
Definition P := of_bits false.  Definition N := of_bits true.
Definition t := true.  Definition f := false.
"""


def fl(bits):
    """IEEE-754 binary64 bit pattern (integer) -> Gallina term: sign + low 63 bits as a primitive-int literal."""
    bits = int(bits)
    return "(%s %d)" % ("N" if bits >> 63 else "P", bits & ((1 << 63) - 1))


def b(v):
    return "t" if v else "f"


def step_term(s):
    evprob = "None" if "evprob" not in s else "(Some %s)" % fl(s["evprob"])
    evdes = "None" if "evdes" not in s else "(Some %s)" % b(s["evdes"])
    calls = g.lst([CALL[c] for c in s["calls"]])
    return "mkS %s %s %s %s %s %s %s %s %s %s %s %s %s %s %s %s %s %d%%nat" % (
        b(s["valid"]), fl(s["change"]), fl(s["arg"]), fl(s["e"]), fl(s["u"]), b(s["cool"]),
        DEC[s["dec"]], fl(s["prob"]), evprob, calls, fl(s["obj"]), fl(s["T"]),
        evdes, b(s["desirable"]), b(s["accepted"]), b(s["invalid"]), fl(s["seen"]), min(int(s["draws"]), 9))


def case_term(c):
    return "mkC %s %s %s %s %s [\n   %s]" % (
        DIR[c["dir"]], fl(c["T0"]), fl(c["cf"]), fl(c["obj0"]), b(c["scripted"]),
        ";\n   ".join(step_term(s) for s in c["steps"]))


def shards(cases):
    cur, n = [], 0
    for c in cases:
        if cur and n + len(c["steps"]) > STEPS_PER_SHARD:
            yield cur
            cur, n = [], 0
        cur.append(c)
        n += len(c["steps"])
    if cur:
        yield cur


def body_of(cases):
    body = PRELUDE + "Definition cases : list case := [\n  " + ";\n  ".join(case_term(c) for c in cases) + "\n].\n"
    body += "Definition M := Eval vm_compute in mismatches cases.\nPrint M.\n"
    body += "Definition Internal := Eval vm_compute in mismatches_internal cases.\nPrint Internal.\n"
    body += "Definition ExpIn01 := Eval vm_compute in exp_results_in01 cases.\nPrint ExpIn01.\n"
    body += "Definition Recon := Eval vm_compute in reconstruction_ok.\nPrint Recon.\n"
    return body


def parse_list(name, so):
    m = re.search(name + r"\s*=\s*(\[.*?\])\s*:\s*list", so, flags=re.S)
    return None if not m else [int(x) for x in re.findall(r"\d+", m.group(1))]


def parse_bool(name, so):
    m = re.search(name + r"\s*=\s*(true|false)\s*:\s*bool", so)
    return None if not m else m.group(1) == "true"


def run(ctx):
    ctx.build_harness()
    lines = ctx.run_harness("C04", [ctx.tier])
    cases = [l for l in lines if l.get("kind") == "case"]
    unitary = []
    for l in lines:
        if l.get("kind") == "oracle":
            ctx.failing_inputs.append(l)
        if l.get("kind") == "stat":
            ctx.stats = l["stats"]
        if l.get("kind") == "unitary":
            unitary = l["pairs"]
    ctx.check_theorems("Properties/C04.v")

    bad_dec = [c for c in cases if any(s["dec"] not in DEC for s in c["steps"])]
    ctx.oblige("every proposal raised exactly one decision event", not bad_dec,
               "" if not bad_dec else "a proposal raised none or several of the four decision events")
    if bad_dec:
        ctx.broken.append("explorer events: a proposal raised none or several decision events")
        cases = [c for c in cases if c not in bad_dec]

    inside = [c for c in cases if c["class"] != "outside"]
    outside = [c for c in cases if c["class"] == "outside"]

    nshards, internal_bad, nsteps = 0, 0, 0
    for si, shard in enumerate(shards(inside)):
        name = "cases_C04_%d" % si
        label = "correspondence:" + name
        ok, so, se = ctx.coq_cases(name, body_of(shard))
        nshards += 1
        nsteps += sum(len(c["steps"]) for c in shard)
        if not ok:
            ctx.oblige(label, False, (se or so)[-1500:])
            ctx.broken.append("%s (gen/%s.v does not compile: %s)" % (label, name, " ".join((se or so).split())[-300:]))
            continue
        idx = parse_list("M", so)
        recon = parse_bool("Recon", so)
        if idx is None or recon is not True:
            ctx.oblige(label, False, "cannot parse the checker's output / float reconstruction self-test failed: " + so[-500:])
            ctx.broken.append(label + " (unparsable output)")
            continue
        ctx.oblige(label, not idx, "" if not idx else "mismatching case indices: %s" % idx[:20])
        if idx:
            ctx.broken.append("%s (model and implementation differ on %d of %d explorer instances, first index %d)" %
                              (label, len(idx), len(shard), idx[0]))
            for i in idx[:3]:
                c = shard[i]
                ctx.notes.append({"mismatching_instance": {k: c[k] for k in ("class", "dir", "T0", "cf", "obj0")},
                                  "first_steps": c["steps"][:3]})
        # hypothesis of the binary64 range theorem on every math.Exp result handed to the model
        e01 = parse_bool("ExpIn01", so)
        ctx.oblige("exp_results_in_unit_interval:" + name, e01 is True,
                   "" if e01 else "a value returned by math.Exp for a non-positive argument is outside [0,1]")
        if e01 is not True:
            ctx.broken.append("hypothesis 0 <= e <= 1 of C04_reported_probabilities_in_unit_interval fails on " + name)
        internal = parse_list("Internal", so)
        internal_bad += len(internal or [])
    ctx.notes.append({"internal_observables(unexported flags, stale probability after an invalid proposal, draw counts)":
                      "agree with the model on every instance" if internal_bad == 0 else
                      "%d instances differ (not an obligation: the property does not speak about them)" % internal_bad})

    # outside the quantifier: unset direction, temperature 0 -- compared, reported, never an obligation
    if outside:
        ok, so, se = ctx.coq_cases("cases_C04_outside", body_of(outside))
        idx = parse_list("M", so) if ok else None
        ctx.notes.append({"outside_quantifier(unset direction; temperature 0 from the start and by underflow)":
                          {"instances": len(outside), "steps": sum(len(c["steps"]) for c in outside),
                           "model_agrees": (idx == []) if idx is not None else "checker did not compile",
                           "nan_probabilities_observed": sum(1 for c in outside for s in c["steps"]
                                                             if ((s["prob"] >> 52) & 0x7FF) == 0x7FF and (s["prob"] & ((1 << 52) - 1)))}})
    if unitary:
        items = ["(%d, %s)" % (int(k) & ((1 << 63) - 1), fl(u)) for k, u in unitary]
        body = PRELUDE + "Definition U := Eval vm_compute in unitary_mismatches [\n " + ";\n ".join(items) + "].\nPrint U.\n"
        ok, so, se = ctx.coq_cases("cases_C04_unitary", body)
        m = re.search(r"U\s*=\s*(\d+)", so or "")
        ctx.notes.append({"Float64Unitary_vs_transcription(float64_unitary)": {"pairs": len(unitary),
                          "disagree": int(m.group(1)) if (ok and m) else "checker did not compile"}})

    def key(c, s):
        return (c["dir"], s["valid"], s["change"], s["T"], s["u"])
    inq = [(c, s) for c in inside for s in c["steps"]]
    ctx.coverage.update({
        "evaluations": len(inq),
        "distinct_nontrivial": len({key(c, s) for c, s in inq if s["valid"] and s["dec"] != "AD"}),
        "rule": "one evaluation = one proposal put to the REAL kirkpatrick.Explorer (scripted model x scripted rand.Source, "
                "or the real dumb/modumb model behind a recording proxy), compared step by step with the folded Coq model "
                "(decision event, calls on the explored model, reported probability bit-for-bit, objective, temperature). "
                "Domain: both directions x temperature over 12 decades (random mantissa) and 8 extreme magnitudes x change in "
                "{-,+} x 12 decades, +0, -0, 16 ratios |d|/T from 1e-17 to 750 (exp underflow edge), 8 extreme magnitudes x "
                "validity x draw in {0, 1, 1-ulp, =p or nearest, neighbours of p, random with garbage high bits} x CoolDown "
                "interleaved at random. distinct_nontrivial = distinct (direction, change, temperature, draw) tuples that "
                "reached the probabilistic branch. Structured-random, not exhaustive.",
        "exhaustive": False,
        "correspondence_shards": nshards,
        "explorer_instances": len(inside),
        "outside_quantifier_instances": len(outside),
    })
    pick = [c for c in inside if c["class"] == "scripted"][:1] + [c for c in inside if c["class"] == "live_dumb"][:1]
    ctx.samples = [{"class": c["class"], "dir": c["dir"], "T0_bits": c["T0"], "cf_bits": c["cf"], "step": s}
                   for c in pick for s in c["steps"][:3]]
    ctx.assumptions = [
        "math.Exp is not modelled: its result is an input of the model; the argument handed to it is modelled and compared "
        "bit-for-bit, and 0 <= result <= 1 is checked on every value used (hypothesis of the binary64 range theorem; "
        "proved for the ideal exponential over R)",
        "finite changes and positive finite temperatures (the property's quantifier); temperature 0 (reachable by underflow "
        "with cooling factor <= 1/2) yields NaN as reported probability for a zero change: theorem C04_nan_at_zero_temperature",
        "the objective recurrence is a theorem for every explored model obeying the accept/revert laws (the scripted model "
        "does, by computation); for crem's own dumb/modumb models it is judged by the implementation-side oracle",
    ]
    ctx.extra_trusted = ["Coq primitive binary64 (Floats.PrimFloat) = Go float64 on amd64 for + * / < <= abs neg (no FMA); "
                         "FloatAxioms ltb_spec/opp_spec under C04_directions_mirror; classical real-number axioms under the "
                         "C04_ideal_* theorems (as printed)"]
