"""C10 — validity verdicts are exact: rejected iff the limit would really be exceeded."""
import catchgen as cg


def run(ctx):
    ctx.build_harness()
    ctx.check_theorems("Properties/C10.v")
    cases = cg.run_tx_correspondence(ctx, "C10")
    distinct = len({(c["dataset"], str(c["bits"]), c["i"], str(c["limit"])) for c in cases})
    ctx.coverage.update({
        "evaluations": len(cases), "distinct_nontrivial": distinct,
        "rule": "(start set, proposed action, limited variable, limit) on the two shipped data sets and a row-permuted variant of ValidModel (Subcatchments rows reversed, Actions rows rotated); the limit is placed off the grid: "
                "midway between current and prospective total, half a grid unit below both, above both, or just below the prospective "
                "value; all six limitable variables; model vs implementation on verdict, quoted value, reported changes, observables and "
                "StateIsValid afterwards; implementation-side oracle: verdict == (total + reported change <= limit), quote == that value. "
                "distinct_nontrivial = distinct (data set, start set, action, variable, limit)",
        "exhaustive": False})
    if cases:
        c = cases[0]
        ctx.samples = [{k: c[k] for k in ("dataset", "bits", "i", "limit", "valid", "quote", "changes")}]
    ctx.assumptions = ["limits are generated strictly between grid values, so no float comparison is within rounding distance "
                       "(UndoableValue = Value + (done - undone) in float64)"]
