"""C05 — multi-objective solution set is a duplicate-free Pareto front of the offers."""
import coqgen as g

SHARD_OPS = 6000     # operations (sequence cases) per generated .v shard
SHARD_BLOCKS = 700   # exhaustive blocks per shard

KINDS = {0: "Offer", 1: "OfferForce", 2: "ForceRaw"}
ND = {"T": "(Ok true)", "F": "(Ok false)", "P": "Panic"}
BKINDS = {0: "KOffer", 1: "KOfferForce", 2: "KForceRaw"}


def bits(s):
    return g.lst(["true" if ch == "1" else "false" for ch in s])


def entry(v, a):
    return "(mkE %s %s)" % (g.fllist(v), bits(a))


def natlist(xs):
    return g.lst([g.nat(x) for x in xs])


def seq_case(c):
    ops = g.lst(["%s %s" % (KINDS[o["k"]], entry(o["v"], o["a"])) for o in c["ops"]])
    obs = g.lst(["mkO %s %s %s %s %s %s" % (g.b(o["p"]), natlist(o["r"]), natlist(o["rm"]), natlist(o["ad"]),
                                            g.nat(o["len"]), g.opt(o["nd"], ND.get)) for o in c["obs"]])
    return "CSeq %s %s" % (ops, obs)


def block_case(c):
    prefix = g.lst(["(%s, %s)" % (BKINDS[k], g.nat(i)) for k, i in c["prefix"]])
    outs = g.lst([g.z(x) for x in c["outcomes"]])
    return "CBlock alpha kinds %s %s %s" % (prefix, g.z(c["state"]), outs)


TAIL = ("Definition V := Eval vm_compute in verdicts cases.\n"
        "Definition M := Eval vm_compute in mismatches_of V.\nDefinition N := Eval vm_compute in self_check_notes_of V.\n"
        "Print M.\nPrint N.\n")


def correspond(ctx, name, body, ncases):
    """ctx.correspondence plus the second list N: cases that differ ONLY in the answer of the archive's self-check
    IsNonDominant() on streams outside the theorems' hypotheses (reported, not an obligation: DESIGN 8/C05 note)."""
    import re
    ok, so, se = ctx.coq_cases(name, body)
    label = "correspondence:" + name
    if not ok:
        ctx.oblige(label, False, (se or so)[-1500:])
        ctx.broken.append("%s (gen/%s.v does not compile: %s)" % (label, name, " ".join((se or so).split())[-300:]))
        return None, None
    m = re.search(r"M\s*=\s*(\[.*?\])\s*:\s*list", so, flags=re.S)
    n = re.search(r"N\s*=\s*(\[.*?\])\s*:\s*list", so, flags=re.S)
    if not m or not n:
        ctx.oblige(label, False, "cannot parse mismatch lists: " + so[-500:])
        ctx.broken.append(label + " (unparsable output)")
        return None, None
    idx = [int(x) for x in re.findall(r"\d+", m.group(1))]
    notes = [int(x) for x in re.findall(r"\d+", n.group(1))]
    ctx.oblige(label, not idx, "" if not idx else "mismatching case indices: %s" % idx[:20])
    if idx:
        ctx.broken.append("%s (model and implementation differ on %d of %s cases, first index %d)" %
                          (label, len(idx), ncases, idx[0]))
    return idx, notes


PRE = g.HEADER + "From Crem Require Import Base.Res Base.Fl Dominance NdArchive NdArchiveCorr.\nOpen Scope Q_scope.\n"


def run(ctx):
    ctx.build_harness()
    lines = ctx.run_harness("C05", [ctx.tier], timeout=3000)
    cases = [l for l in lines if l.get("kind") == "case"]
    alpha = None
    for l in lines:
        if l.get("kind") == "oracle":
            ctx.failing_inputs.append(l)
        elif l.get("kind") == "stat":
            ctx.stats = l["stats"]
        elif l.get("kind") == "alphabet":
            alpha = l["cands"]
    ctx.check_theorems("Properties/C05.v")

    selfcheck_notes = []
    seqs = [c for c in cases if c["type"] == "seq"]
    blocks = [c for c in cases if c["type"] == "block"]
    nshards = 0

    # explicit sequences, sharded by number of operations
    shard, nops, shards = [], 0, []
    for c in seqs:
        shard.append(c)
        nops += len(c["ops"])
        if nops >= SHARD_OPS:
            shards.append(shard)
            shard, nops = [], 0
    if shard:
        shards.append(shard)
    for si, sh in enumerate(shards):
        body = PRE + "Definition cases : list case := [\n  " + ";\n  ".join(seq_case(c) for c in sh) + "\n].\n"
        body += TAIL
        idx, notes = correspond(ctx, "cases_C05_seq_%d" % si, body, len(sh))
        nshards += 1
        for i in (notes or []):
            selfcheck_notes.append({"class": sh[i]["class"], "ops": len(sh[i]["ops"])})
        for i in (idx or [])[:3]:
            ctx.notes.append({"mismatch_sequence_case": {k: sh[i][k] for k in ("class", "ops", "obs")}})

    # exhaustive blocks
    if blocks:
        alpha_def = "Definition alpha : list entry := %s.\nDefinition kinds := [KOffer; KOfferForce].\n" % \
            g.lst([entry(c["v"], c["a"]) for c in alpha])
        for si, sh in enumerate(g.chunks(blocks, SHARD_BLOCKS)):
            body = PRE + alpha_def
            body += "Definition cases : list case := [\n  " + ";\n  ".join(block_case(c) for c in sh) + "\n].\n"
            body += TAIL
            idx, _ = correspond(ctx, "cases_C05_block_%d" % si, body, len(sh))
            nshards += 1
            for i in (idx or [])[:3]:
                ctx.notes.append({"mismatch_block_case": sh[i]})

    # the witness about IsNonDominant is informational (the self-check is not part of C05: a repaired self-check must not alarm)
    wit_ok = [k for k in (ctx.stats or {}) if k.startswith("witness_confirmed_") and "self_check" not in k]
    wit_bad = [k for k in (ctx.stats or {}) if k.startswith("witness_NOT_confirmed_") and "self_check" not in k]
    if (ctx.stats or {}).get("witness_NOT_confirmed_self_check_incomplete"):
        ctx.notes.append({"self_check": "IsNonDominant() no longer skips the last entry on the witness of C05_self_check_incomplete_refuted"})
    ctx.oblige("refutation_witnesses_replayed_on_implementation(%d)" % len(wit_ok), len(wit_ok) == 4 and not wit_bad,
               "" if not wit_bad else "not reproduced on the real archive: %s" % wit_bad)
    if wit_bad or len(wit_ok) != 4:
        ctx.broken.append("witness of a *_refuted theorem no longer reproduces on the implementation: %s" % (wit_bad or "missing"))
    if selfcheck_notes:
        ctx.notes.append({"self_check_model_differs_outside_hypotheses":
                          "IsNonDominant() answered differently from the model on %d sequence case(s) that use raw forces or "
                          "forced stores on inconsistent streams; not part of C05 (the self-check is not the property)" % len(selfcheck_notes),
                          "cases": selfcheck_notes[:10]})
    st = ctx.stats or {}
    distinct = len({(str(c["ops"])) for c in seqs if len(c["ops"]) >= 2}) + st.get("grid_sequences", 0)
    ctx.coverage.update({
        "evaluations": st.get("seq_ops", 0) + st.get("grid_sequences", 0),
        "distinct_nontrivial": distinct,
        "rule": "operation sequences over {Offer, OfferForce} (and ForceRaw in one random class) run against the real "
                "NonDominanceModelArchive with the StorageResult codes, Len(), IsNonDominant() and the archive content "
                "compared after EVERY operation. (1) exhaustive: every sequence of length <= 3 (quick) / <= 4 (thorough) over "
                "2 kinds x 27 candidates (3x3 value grid x 3 action sets; consistent and inconsistent streams) is executed "
                "on the implementation and judged by the oracle; for the model comparison the sequences are grouped as "
                "prefix + all 54 one-step extensions and prefixes reaching the same ordered archive content with the same "
                "54 outcomes are compared once (grid_blocks vs grid_blocks_deduplicated). (2) random sequences of length "
                "1..200, dimension 1..6, value grids with ties / equal vectors / signed zero / 3-decimal floats, action "
                "sets of 1..130 bits drawn from pools so that they repeat; classes consistent/inconsistent, with/without "
                "forced stores, with raw forces, and a few dimension mismatches (Panic outcome). (3) live archives of real "
                "suppapitnarm runs observed after every iteration. distinct_nontrivial = distinct explicit sequences of "
                "length >= 2 + exhaustively enumerated grid sequences (all distinct by construction)",
        "exhaustive": True,
        "correspondence_shards": nshards,
        "sequence_cases": len(seqs), "block_cases": len(blocks),
    })
    ctx.samples = [dict(c, ops=c["ops"][:4], obs=c["obs"][:4]) for c in seqs[:2]] + blocks[1:3]
    ctx.assumptions = [
        "finite float64 objective values (NaN/Inf outside the quantifier); -0.0 and 0.0 are the same rational",
        "action-set keys are BooleanArchives built by New/SetValue/Decode (bits above the size are zero), so "
        "IsEquivalentTo is equality of bit lists (word-level model: C09)",
        "all candidates offered to one archive have the same dimension (otherwise Float64Vector.Dominates may panic; "
        "modelled as Panic and exercised, but outside the theorems' hypotheses)",
        "the invariant and Pareto-front theorems assume `consistent` (equal action sets carry equal vectors), which the "
        "real system gets from C01; C05_needs_consistency_refuted shows it cannot be dropped",
    ]
