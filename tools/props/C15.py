"""C15 -- the engine answers every request with a well-formed response and never panics (claimed partial)."""
import os, json, re
import coqgen as g
import check as ck
from props import C14

OBL = g.HEADER + """From Crem Require Import Engine EngineCensus.
From CremGen Require Import Facts15.
Open Scope string_scope.
(* functions of the CURRENT source with panic sites the model does not account for *)
Definition U := Eval vm_compute in census_unexplained accounted_sites sites declared.
Print U.
(* accounted functions whose census went DOWN (the model over-approximates): reported only *)
Definition Dn := Eval vm_compute in census_decreases accounted_sites sites.
Print Dn.
Theorem census_ok : census_matches accounted_sites sites declared = true.
Proof. vm_compute. reflexivity. Qed.
"""


def census(ctx):
    """Panic-site census: harness/astfacts15 (go/ast, stdlib only) -> gen/Facts15.v from the CURRENT source;
    obligation gen/obl_C15.v: census_matches Engine.accounted_sites Facts15.sites Facts15.declared = true."""
    tdir = os.path.join(ck.VERIF, "harness", "astfacts15")
    exe = os.path.join(ck.BUILD, "astfacts15." + ctx.pid)
    p = ck.sh(["go", "build", "-o", exe, "."], cwd=tdir, env=ck.GOENV, timeout=600)
    if p.returncode != 0:
        raise ck.Abort("astfacts15 does not build:\n" + p.stdout[-2000:] + p.stderr[-4000:])
    out = os.path.join(ck.GEN, "Facts15.v")
    p = ck.sh([exe, ck.REPO, out], env=ck.GOENV, timeout=300)
    if p.returncode != 0:
        raise ck.Abort("astfacts15: source does not parse (hard error, not a verdict):\n" + p.stderr[-4000:])
    facts = json.loads(p.stdout.strip().splitlines()[-1])
    ok, so, se = ctx.coq_cases("Facts15", open(out).read())
    if not ok:
        raise ck.Abort("generated gen/Facts15.v does not compile:\n" + (se or so)[-3000:])
    ok, so, se = ctx.coq_cases("obl_C15", OBL)

    def names(var):
        m = re.search(var + r"\s*=\s*(\[.*?\])\s*:\s*list string", so, flags=re.S)
        return re.findall(r'"([^"]+)"', m.group(1)) if m else None

    unexplained, decreases = names("U"), names("Dn")
    if unexplained is None:
        raise ck.Abort("gen/obl_C15.v: cannot read the census comparison:\n" + (se or so)[-3000:])
    where = [s for s in facts["sites"] if s["func"] in unexplained]
    ctx.oblige("facts15:census_ok", ok and not unexplained,
               "" if ok and not unexplained else "panic sites the model does not account for: " +
               "; ".join("%s:%d %s in %s: %s" % (s["file"], s["line"], s["kind"], s["func"], s["text"]) for s in where)[:1500])
    if not ok or unexplained:
        ctx.broken.append("gen/obl_C15.v census_ok (Engine.accounted_sites does not cover the panic sites of the current source: %s)"
                          % json.dumps([{k: s[k] for k in ("file", "line", "func", "kind", "text")} for s in where])[:2500])
    if decreases:
        ctx.notes.append({"census_decrease": "accounted functions with FEWER panic sites in the current source than the model "
                          "accounts for (the model over-approximates; no alarm)", "functions": decreases})
    ctx.coverage["panic_site_census"] = {
        "scanned_files": facts["files"], "sites": len(facts["sites"]),
        "by_kind": {k: sum(1 for s in facts["sites"] if s["kind"] == k) for k in ("assert", "panic", "pcall")},
        "site_list": ["%s:%d %s %s" % (s["file"].split("/")[-1], s["line"], s["kind"], s["func"]) for s in facts["sites"]],
        "known_panicking_callees": sorted(facts["panicking_callees"]),
        "index_and_slice_expressions_reported_only": {"total": facts["indexed_total"], "per_function": facts["indexed"]},
        "rule": "alarm iff some function has more sites of a kind than Engine.accounted_sites lists for it (a function without "
                "accounting may inherit that of a no-longer-declared function with the identical profile = rename); fewer "
                "sites are a note"}
    ctx.extra_trusted.append("harness/astfacts15 (go/ast census of single-result type assertions, panic( calls and calls of the listed "
                             "known-panicking callees in cmd/cremengine/engine/api and internal/pkg/server/rest; a file that does not parse is a hard error)")


def run(ctx):
    census(ctx)
    C14.common("C15", ctx, "C15")
    ctx.coverage["rule"] = (
        "request sequences through the real Mux.ServeHTTP under recover (fresh Mux each): the catalogue of every request shape "
        "of the findings D11, D12a-j, D15 and of this slice's probe in three engine states (nothing loaded / scenario / scenario + "
        "solution set), the repaired finding D14c (YearsOfErosion = 0) as the last step of a sequence, and mostly-malformed state-aware random walks "
        "(empty / header-only / ragged CSV, wrong JSON types, huge numbers, ids beyond the int range, wrong methods and content "
        "types, unmatched paths), histories of replaced solution summaries with refused POSTs in between (labels of earlier "
        "summaries asked for again: 404, never a panic), and HUGE bodies: malformed ones on every body-carrying write (valid "
        "prefix + > 1 MiB filler + malformed tail, junk, 1 MiB of '[') at 4 KiB / 64 KiB / 1 MiB +-1 and 2 MiB, huge bodies on "
        "GET / wrong content type / unmatched routes, delivered in varying chunk sizes; outcome class, status, content type, projected body and all read-only resources after every "
        "request compared with the model's.  evaluations = requests compared; distinct_nontrivial = distinct abstract requests")
    ctx.assumptions = [
        "PARTIAL: proved for the transcribed handler logic (every unchecked Go expression of the handlers is a Panic branch of the "
        "model and is shown unreachable for requests whose library calls return); that the library calls themselves return "
        "(TOML decoder, model interpreter/initialisation, encoding/csv + caster, encoding/json, json.MarshalIndent, regexp) is "
        "sampled by this stream, not proved",
        "the model is written from the engine sources as committed in /repo (fix series proposed_fixes/SERIES-C14C15.txt + CSV cell-text fix b0400cb)"]
