"""C15 -- the engine answers every request with a well-formed response and never panics (claimed partial)."""
from props import C14


def run(ctx):
    C14.common("C15", ctx, "C15")
    ctx.coverage["rule"] = (
        "request sequences through the real Mux.ServeHTTP under recover (fresh Mux each): the catalogue of every request shape "
        "of the findings D11, D12a-j, D15 and of this slice's probe in three engine states (nothing loaded / scenario / scenario + "
        "solution set), the repaired finding D14c (YearsOfErosion = 0) as the last step of a sequence, and mostly-malformed state-aware random walks "
        "(empty / header-only / ragged CSV, wrong JSON types, huge numbers, ids beyond the int range, wrong methods and content "
        "types, unmatched paths); outcome class, status, content type, projected body and all read-only resources after every "
        "request compared with the model's.  evaluations = requests compared; distinct_nontrivial = distinct abstract requests")
    ctx.assumptions = [
        "PARTIAL: proved for the transcribed handler logic (every unchecked Go expression of the handlers is a Panic branch of the "
        "model and is shown unreachable for requests whose library calls return); that the library calls themselves return "
        "(TOML decoder, model interpreter/initialisation, encoding/csv + caster, encoding/json, json.MarshalIndent, regexp) is "
        "sampled by this stream, not proved",
        "the model is written from the engine sources as committed in /repo (fix series proposed_fixes/SERIES-C14C15.txt + CSV cell-text fix b0400cb)"]
