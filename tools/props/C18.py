"""C18 — parameter validation is sound.

Two ties (DESIGN.md 4, 8/C18):
 1. translator harness/astfacts (stand-alone Go program, go/ast only) regenerates coq/gen/Specs.v from the CURRENT
    source: every component's specification table, the Assign* variant it calls, every typed getter call site.
    `C18_tables_ok : forallb component_ok all_components = true` is then re-proved by vm_compute.
 2. correspondence of the hand-written model Params.v with the real parameters.Parameters machinery and with the
    real components (their own SetParameters), on a palette of values of every type incl. validator boundaries.
"""
import os, json, subprocess
import coqgen as g
import check

SHARD = 1500


class Pool:
    """string pool of one generated file: every distinct string literal is defined once (Coq elaborates a string
    literal into one constructor per character, so repeating the long key names thousands of times is slow)"""

    def __init__(self):
        self.names = {}

    def s(self, text):
        if text not in self.names:
            self.names[text] = "s%d" % len(self.names)
        return self.names[text]

    def defs(self):
        return "".join("Definition %s : string := %s.\n" % (n, g.string(t)) for t, n in self.names.items())


def _value(v, pool):
    t = v["t"]
    if t == "int":
        return "(VInt %s)" % g.z(v["v"])
    if t == "float":
        return "(VFloat %s)" % g.fl(v["f"])
    if t == "nan":
        return "VFloatNaN"
    if t == "inf":
        return "(VFloatInf %s)" % g.b(v["neg"])
    if t == "string":
        return "(VString %s)" % pool.s(v["s"])
    if t == "bool":
        return "(VBool %s)" % g.b(v["b"])
    return {"array": "VArray", "table": "VTable", "nil": "VNil", "other": "VOther"}[t]


def _probe(p, pool):
    k = p["p"]
    if k == "none":
        return "PNone"
    if k == "val":
        return "(PVal %s)" % _value(p["v"], pool)
    return "PWeird"


def _case(c, index, pool):
    comp = "(ctable comp_%d)" % index[c["component"]] if c["component"] in index else "(validators_table all_validators)"
    variant = "AssignAll" if c["variant"] == "all" else "AssignEnforced"
    user = g.lst(["(%s, %s)" % (pool.s(kv["k"]), _value(kv["v"], pool)) for kv in c["user"]])
    readable = g.lst([pool.s(s) for s in c["readable"]])
    errkeys = "None" if "errkeys" not in c else "(Some %s)" % g.lst([pool.s(s) for s in c["errkeys"]])
    unsup = g.lst([pool.s(s) for s in c["unsupported"]])
    probes = g.lst(["(%s, %s, %s)" % (pool.s(p["k"]), g.b(p["has"]), _probe(p["g"], pool)) for p in c["probes"]])
    return "mkCase %s %s %s %s %s %s %s %s" % (comp, variant, user, readable, g.n_(c["nerr"]), errkeys, unsup, probes)


OBL = g.HEADER + """From Crem Require Import Base.Res Base.Fl Params ParamsProofs.
From CremGen Require Import Specs.
Open Scope string_scope.

(* what the translator found, checked by computation: every stored default is accepted by its own validator (up to
   the file-system oracle), every typed getter call site reads a key whose validator has the getter's type and which
   is non-optional or guarded by HasEntry, and every model component uses the assign-all (reporting) variant *)
Theorem C18_tables_ok : forallb component_ok all_components = true.
Proof. vm_compute. reflexivity. Qed.

(* composition with the generic theorem: in crem as it is now, no typed getter call site can panic, whatever the
   user map and the file system, and every model reports the keys it does not support *)
Theorem C18_crem_no_getter_panic :
  forall c, In c all_components ->
  forall fs user st, nodupb (map fst user) = true -> In st (csites c) ->
    let m := fst (assign fs (cvariant c) (ctable c) user) in
    (site_guarded st = false \\/ has_entry (site_key st) m = true) ->
    exists v, getter (site_ty st) (site_key st) m = Ok v /\\ type_of_value v = site_ty st.
Proof.
  intros c Hc. apply component_ok_no_getter_panic.
  exact (proj1 (forallb_forall component_ok all_components) C18_tables_ok c Hc).
Qed.

Theorem C18_crem_models_report_unknown :
  forall c, In c all_components -> ckind_of c = CModel ->
  forall fs user k v, nodupb (map fst user) = true -> get k user = Some v -> lookup k (ctable c) = None ->
    reported k (snd (assign fs (cvariant c) (ctable c) user)) = true.
Proof.
  intros c Hc. apply component_ok_model_reports_unknown.
  exact (proj1 (forallb_forall component_ok all_components) C18_tables_ok c Hc).
Qed.

Print Assumptions C18_tables_ok.
Print Assumptions C18_crem_no_getter_panic.
Print Assumptions C18_crem_models_report_unknown.
"""

DIAG = g.HEADER + """From Crem Require Import Base.Res Base.Fl Params ParamsCorr.
From CremGen Require Import Specs.
Definition D := Eval vm_compute in diagnose_all all_components.
Print D.
"""


def _translate(ctx):
    """build + run harness/astfacts against the repository's current source"""
    adir = os.path.join(check.VERIF, "harness", "astfacts")
    exe = os.path.join(check.BUILD, "astfacts.C18")
    p = check.sh(["go", "build", "-o", exe, "."], cwd=adir, env=check.GOENV, timeout=600)
    if p.returncode != 0:
        raise check.Abort("astfacts build failed:\n" + p.stdout[-2000:] + p.stderr[-4000:])
    specs_v = os.path.join(check.GEN, "Specs.v")
    facts = os.path.join(check.BUILD, "C18.facts.json")
    for f in (specs_v, facts):
        if os.path.exists(f):
            os.remove(f)
    p = check.sh([exe, "-repo", check.REPO, "-coq", specs_v, "-json", facts], timeout=300)
    if p.returncode != 0:
        ctx.oblige("translator:astfacts(gen/Specs.v)", False, p.stderr[-1500:])
        ctx.broken.append("translator harness/astfacts: " + " ".join(p.stderr.split())[-400:])
        return None, None
    ctx.oblige("translator:astfacts(gen/Specs.v)", True)
    return specs_v, facts


def run(ctx):
    ctx.build_harness()
    specs_v, facts_path = _translate(ctx)
    ctx.check_theorems("Properties/C18.v")
    if specs_v is None:
        # Search only: drive the implementation-side oracle with the facts of the last accepted tree
        # (tools/props/C18.facts.baseline.json = what the specification WAS); no tables, no correspondence.
        ctx.notes.append("translator failed: no regenerated tables and no correspondence in this run; the oracle was run "
                         "against the committed baseline facts (the specification as it was when this check was built)")
        base = os.path.join(check.VERIF, "tools", "props", "C18.facts.baseline.json")
        lines = ctx.run_harness("C18", [ctx.tier], extra_env={"VERIF_C18_FACTS": base}, allow_fail=True)
        for l in lines:
            if l.get("kind") == "oracle":
                ctx.failing_inputs.append(l)
            elif l.get("kind") == "stat":
                ctx.stats = l["stats"]
        return
    facts = json.load(open(facts_path))
    comps = facts["components"]
    index = {c["name"]: i for i, c in enumerate(comps)}
    ok, so, se = ctx.coq_cases("Specs", open(specs_v).read())
    ctx.oblige("generated:gen/Specs.v compiles", ok, "" if ok else (se or so)[-1500:])
    if not ok:
        ctx.broken.append("gen/Specs.v does not compile: " + " ".join((se or so).split())[-300:])
    # ---- the generated obligations
    if ok:
        ok2, so2, se2 = ctx.coq_cases("obl_C18", OBL)
        for n in ("C18_tables_ok", "C18_crem_no_getter_panic", "C18_crem_models_report_unknown"):
            ctx.oblige("theorem:" + n, ok2, "" if ok2 else (se2 or so2)[-1500:])
        if ok2:
            ctx.parse_assumptions(OBL, so2, "gen/obl_C18.v")
        else:
            okd, sod, sed = ctx.coq_cases("diag_C18", DIAG)
            ctx.broken.append("gen/obl_C18.v (C18_tables_ok no longer holds by computation on the regenerated tables): " +
                              (" ".join(sod.split())[-600:] if okd else ctx._first_error(type("P", (), {"stderr": se2, "stdout": so2, "returncode": 1})())))
    # ---- exercise the implementation
    lines = ctx.run_harness("C18", [ctx.tier], extra_env={"VERIF_C18_FACTS": facts_path})
    cases = [l for l in lines if l.get("kind") == "case"]
    for l in lines:
        k = l.get("kind")
        if k == "oracle":
            ctx.failing_inputs.append(l)
        elif k == "stat":
            ctx.stats = l["stats"]
        elif k == "uncovered":
            ctx.oblige("harness covers component " + l["component"], False,
                       "the translator found a specification table the harness has no driver for")
            ctx.broken.append("component %s found in the source is not driven by harness/c18.go" % l["component"])
        elif k == "validators":
            ctx.coverage["validators_exercised_directly"] = l["direct"]
        elif k == "covered":
            ctx.oblige("harness covers all %d components found in the source" % len(comps), len(l["components"]) == len(comps))
    nshards = 0
    if ok:
        jobs = []
        for si, shard in enumerate(g.chunks(cases, SHARD)):
            pool = Pool()
            items = [_case(c, index, pool) for c in shard]
            body = g.HEADER + "From Crem Require Import Base.Res Base.Fl Params ParamsCorr.\nFrom CremGen Require Import Specs.\nOpen Scope string_scope.\n"
            body += pool.defs()
            body += "Definition cases : list case := [\n  " + ";\n  ".join(items) + "\n].\n"
            body += "Definition M := Eval vm_compute in mismatches cases.\nPrint M.\n"
            jobs.append((si, shard, body))
        from concurrent.futures import ThreadPoolExecutor
        with ThreadPoolExecutor(max_workers=3) as ex:
            results = list(ex.map(lambda j: ctx.correspondence("cases_C18_%d" % j[0], j[2], ncases=len(j[1])), jobs))
        for (si, shard, _), idx in zip(jobs, results):
            nshards += 1
            if idx:
                for i in idx[:5]:
                    ctx.notes.append({"mismatch": shard[i]})
    distinct = len({json.dumps([c["component"], c["variant"], c["user"]], sort_keys=True) for c in cases if c["user"]})
    ctx.coverage.update({
        "evaluations": len(cases), "distinct_nontrivial": distinct,
        "rule": "one case = (component table, Assign* variant, user map) run on the real parameters.Parameters (level generic) or through "
                "the real component's SetParameters (level component); exhaustive over every component x every specified key x the value "
                "palette (all TOML types, non-TOML Go types, NaN/Inf, every validator's bounds and their one-ulp / +-1 neighbours), "
                "keys outside the specification, and random combinations; distinct_nontrivial = distinct (component, variant, non-empty user map)",
        "exhaustive": True,
        "correspondence_shards": nshards,
        "components": [c["name"] for c in comps],
        "translator_extracted": {c["name"]: {"variant": c["variant"], "kind": c["kind"], "keys": [s["key"] for s in c["specs"]],
                                             "getter_sites": len([s for s in c["sites"] if s["getter"] != "HasEntry"]),
                                             "assign_calls": c["assign_calls"]} for c in comps},
    })
    ctx.samples = cases[1:3] + cases[len(cases) // 2: len(cases) // 2 + 2]
    ctx.extra_trusted = ["translator harness/astfacts (go/ast pattern matcher; unrecognised shapes are hard errors); its output "
                         "(validator kinds, bounds, defaults) is cross-checked against the running code by the correspondence",
                         "getter call sites are attributed to a component by the package that declares the key constant (no go/types)"]
    ctx.assumptions = ["IsReadableFile consults the file system: modelled by an oracle fs : string -> bool, universally quantified in the theorems; "
                       "in the correspondence the oracle is what os.OpenFile answered to the harness on the same paths",
                       "NaN is accepted by every bounded decimal validator (both comparisons false); it is not expressible in the pinned TOML "
                       "library, the model says so explicitly (C18_nan_passes_bounds) and the range theorem exempts it",
                       "the user map has distinct keys (it is a Go map); the theorems assume nodupb (map fst user) = true"]
