"""C07 — annealing loop contract: exact budget, ordered events, cooling, teardown."""
import coqgen as g

from concurrent.futures import ThreadPoolExecutor

MAX_WEIGHT = 9000    # per generated shard: compressed log entries + 6 x big literals (parse time ~ proportional)
MAX_CASES = 400
WORKERS = 4


def zs(xs):
    return "[" + ";".join(str(int(x)) if x >= 0 else "(%d)" % x for x in xs) + "]"


def compress(c):
    """lossless re-encoding of the log: distinct temperature patterns in a table; an event delivered to all m observers
    one after the other (who = 1..m, same event) becomes ONE quadruple with who = -m"""
    temps, index, out = [], {}, []
    log, m, i = c["log"], c["m"], 0
    while i < len(log):
        w, code, k, bits = log[i]
        if bits not in index:
            index[bits] = len(temps)
            temps.append(bits)
        if m >= 2 and w == 1 and i + m <= len(log) and all(log[i + j] == [j + 1, code, k, bits] for j in range(m)):
            out += [-m, code, k, index[bits]]
            i += m
        else:
            out += [w, code, k, index[bits]]
            i += 1
    return temps, out


def case_term(c):
    temps, flat = compress(c)
    return "mkCase %d %d %d %d %d %d %d %d %d %d %s %s %s %s %d %d %s %d" % (
        c["ann"], c["N"], c["m"], c["init"], c["k"], c["where"], c["pay"], c["who"], c["td"], c["c0"], hex(c["T0"]), hex(c["a"]),
        "[" + ";".join(hex(t) for t in temps) + "]", zs(flat), c["out"], c["fin"], hex(c["ft"]), c["anom"])


def weight(c):
    temps, flat = compress(c)
    return len(flat) // 4 + 6 * len(temps)


def shards(cases):
    cur, n = [], 0
    for c in cases:
        w = weight(c)
        if cur and (n + w > MAX_WEIGHT or len(cur) >= MAX_CASES):
            yield cur
            cur, n = [], 0
        cur.append(c)
        n += w
    if cur:
        yield cur


def run(ctx):
    ctx.build_harness()
    lines = ctx.run_harness("C07", [ctx.tier])
    cases = [l for l in lines if l.get("kind") == "case"]
    for l in lines:
        if l.get("kind") == "oracle":
            ctx.failing_inputs.append(l)
        if l.get("kind") == "stat":
            ctx.stats = l["stats"]
    ctx.check_theorems("Properties/C07.v")
    all_shards = list(shards(cases))

    def one(arg):
        si, shard = arg
        body = g.HEADER + "From Coq Require Import Floats.\nFrom Crem Require Import AnnealLoop AnnealLoopCorr.\nOpen Scope Z_scope.\n"
        body += "Definition cases : list case := [\n  " + ";\n  ".join(case_term(c) for c in shard) + "\n].\n"
        body += "Definition M := Eval vm_compute in mismatches cases.\nPrint M.\n"
        return ctx.correspondence("cases_C07_%d" % si, body, ncases=len(shard))

    # the shards are independent coqc runs; a few at a time (shared machine)
    with ThreadPoolExecutor(max_workers=WORKERS) as ex:
        results = list(ex.map(one, enumerate(all_shards)))
    nshards = len(all_shards)
    for shard, idx in zip(all_shards, results):
        if idx:
            for i in idx[:3]:
                small = dict(shard[i])
                small["log"] = small["log"][:40]
                ctx.notes.append({"mismatch": small})
    key = lambda c: (c["ann"], c["expl"], c["N"], c["m"], c["init"], c["k"], c["where"], c["pay"], c["who"], c["td"], c["c0"] != 0, c["clone"])
    nontrivial = {key(c) for c in cases if c["N"] > 0 or c["init"] != 0}
    ctx.coverage.update({
        "evaluations": len(cases), "distinct_nontrivial": len(nontrivial),
        "rule": "one case = one Anneal() of the real SimpleAnnealer / ElapsedTimeTrackingAnnealer; explorers: a bare explorer on each of "
                "the three real coolants and the three real explorer configurations (kirkpatrick, suppapitnarm, averaged suppapitnarm) "
                "on the modumb model, all behind a call-recording / fault-injecting wrapper; N in {0,1,2,7,100} (thorough: "
                "{0,1,2,3,7,20,50,100,1000}); 0..3 observers; no fault, Initialise() panicking, and a panic at iteration k (every k for "
                "N<=7, {1,N,random} above) in TryRandomChange / CoolDown-before-multiply / CoolDown-after-multiply with payload "
                "error / string / nil (all three for N<=2, one drawn otherwise; thorough: all); an OBSERVER (index drawn, thorough: every index for 1..3 "
                "observers) panicking while handed the start event, StartedIteration k, FinishedIteration k (every k for N<=7) or the finish event; "
                "TearDown() panicking (error / string / nil) after a fault-free run, after a failed Initialise and on top of another fault whose panic "
                "it replaces; a fault scripted beyond the budget; a second "
                "Anneal() of the same instance; a DeepClone() in a third of the cases; T0 and factor from a palette incl. 0, 1, subnormal, "
                "1e300, factor 0 / 1 / 1e-200 and random values; out-of-range values (factor > 1, < 0, inf, NaN; T0 inf, negative) forced "
                "into the kirkpatrick coolant. Compared: the full global log (who, event or explorer call, iteration, temperature bits), whether "
                "Anneal() returned or re-raised (the value of the panic in flight: the injected error or a wrapper / the injected string / a new error "
                "for a nil payload), final currentIteration, final temperature; NOT compared: log lines, relayed "
                "explorer notes, whether a re-raised error is wrapped. distinct_nontrivial = distinct (annealer, explorer, N, observers, fault) "
                "configurations with N>0 or an Initialise fault",
        "exhaustive": False,
        "correspondence_shards": nshards,
        "log_entries_compared": sum(len(c["log"]) for c in cases),
    })
    pick = [c for c in cases if c["N"] == 2 and c["m"] == 1][:2] + [c for c in cases if c["N"] == 7 and c["where"] == 3 and c["m"] == 2][:1]
    ctx.samples = pick or cases[:2]
    ctx.assumptions = [
        "faults modelled: a panic raised by the explorer (Initialise, TryRandomChange, CoolDown, TearDown) or by an observer of the annealer while it is handed "
        "one of the four annealing-state events; one primary fault per run (+ optionally a panicking TearDown); a panic inside an observer of the EXPLORER "
        "(relayed notes) or inside the logger is not modelled",
        "fresh annealer (currentIteration = 0), as scenario.Runner anneals a DeepClone of a never-annealed instance; re-annealing is modelled (c0 <> 0) and "
        "compared but is outside the property's quantifier",
        "panic(nil) (go.mod `go 1.17`: recover() reports nil) during a run is re-raised as a wrapped descriptive error since the fix of finding C07-panic-nil "
        "(`completed` flag); residue, outside the property and noted as C07_note_teardown_nil_after_completed_run: panic(nil) raised by TearDown() after a "
        "COMPLETED run is still indistinguishable from a normal return",
        "primitive binary64 multiplication in Coq = Go's float64 multiplication on amd64 (no fused multiply-add); NaN payload bits are not compared",
    ]
