"""C16 — concurrent engine requests behave as if executed one at a time.

1. translator  harness/astfacts16 (go/ast, stdlib only, own go.mod)  ->  coq/gen/Facts16.v  from /repo's CURRENT source
2. obligations coq/gen/Obl16a.v (each side condition evaluated by computation on the generated record) and
               coq/gen/Obl16.v  (Properties/C16.v's instantiation theorems applied to Facts16.facts, `eq_refl`)
3. exercise    harness C16: N in 2..8 concurrent clients against the real Mux.ServeHTTP; implementation-side oracle
               "outcome = that of SOME serial order"; cases for the model's serial execution (SerialiseCorr.v)
4. thorough    additionally loop-back httptest.Server batches and a `go build -race` variant when it can be built offline
"""
import os, json, re, subprocess
import coqgen as g
import check as ck

SHARD = 400


def _bools(xs):
    return g.lst([g.b(x) for x in xs])


def _nats(xs):
    return g.lst([g.nat(x) for x in xs])


def _req(r):
    k = r["k"]
    if k == "set":
        return "RSet " + g.lst(["(%s, %s)" % (g.nat(s[0]), g.b(s[1])) for s in r.get("sets") or []])
    if k == "rep":
        return "RRep " + _bools(r.get("flags") or [])
    if k == "get":
        return "RGet " + _nats(r.get("idxs") or [])
    if k == "noop":
        return "RNoop"
    if k == "panic":
        return "RPanic"
    raise ck.Abort("C16: unknown abstract request kind %r" % k)


def _case(c):
    resp = g.lst(["(%s, %s)" % (g.nat(r["st"]), _bools(r.get("flags") or [])) for r in c["resp"]])
    return "mk %s %s %s %s %s %s" % (_bools(c["init"]), g.lst([_req(r) for r in c["reqs"]]), _nats(c["order"]),
                                     resp, _bools(c["final"]), _nats(c["sched"]))


OBLIGATIONS = [
    ("lock_first", "sf_lock_first facts"),
    ("unlock_present", "sf_unlock_present facts"),
    ("unlock_deferred", "sf_unlock_deferred facts"),
    ("no_call_before_lock", "Nat.eqb (sf_calls_before_lock facts) 0"),
    ("no_other_mutex_ops", "Nat.eqb (sf_other_mutex_ops facts) 0"),
    ("dispatch_only_in_serve", "sf_dispatch_only_in_serve facts"),
    ("no_type_shadows_ServeHTTP", "no_shadowing facts"),
    ("engine_mux_embeds_MuxImpl", "engine_embeds facts"),
    ("no_go_statement_in_handler_packages", "Nat.eqb (sf_go_stmts facts) 0"),
    ("no_written_package_level_variable", "Nat.eqb (sf_pkg_vars_written facts) 0"),
    ("no_reentrant_ServeHTTP_call", "Nat.eqb (sf_reentrant_serve_calls facts) 0"),
    ("serve_is_locked", "serve_is_locked facts"),
    ("facts_ok", "facts_ok facts"),
    # the engine's unlocked state-changing entry points (SetScenario, SetSolution, SetSolutionSummary) are reached only from
    # straight-line start-up code that runs before the server is started
    ("boot_loaders_run_before_serving", "match boot_concurrent_sites with [] => true | _ => false end"),
]

OBL16 = g.HEADER + """From Coq Require Import Permutation.
From Crem Require Import Serialise SerialiseCorr SerialiseProofs Properties.C16.
From CremGen Require Import Facts16.

(* the instantiation theorems of Properties/C16.v applied to the facts translated from the current source;
   [eq_refl] type-checks iff the side condition evaluates to [true] *)
Theorem C16_this_tree_serialisable : forall (St Lc : Type) (progs : list (prog St Lc)) (s0 : St) tr c,
  exec (serve_init facts progs s0) tr c -> all_done c = true ->
  exists ord, Permutation ord (seq 0 (List.length progs)) /\\
              sh c = fst (serial progs ord s0) /\\ results c = snd (serial progs ord s0).
Proof. exact (C16_engine_serialisable_partial facts (eq_refl true)). Qed.

Theorem C16_this_tree_synchronised : forall (St Lc : Type) (progs : list (prog St Lc)) (s0 : St) tr c i c',
  exec (serve_init facts progs s0) tr c -> step c (EAct i) c' -> lock c = true.
Proof. exact (C16_engine_synchronised_partial facts (eq_refl true)). Qed.

Theorem C16_this_tree_no_deadlock : forall (St Lc : Type) (progs : list (prog St Lc)) (s0 : St) tr c,
  exec (serve_init facts progs s0) tr c -> all_done c = true \\/ exists e c', step c e c'.
Proof. exact (C16_engine_no_deadlock_partial facts (eq_refl true) (eq_refl true)). Qed.

Print Assumptions C16_this_tree_serialisable.
Print Assumptions C16_this_tree_synchronised.
Print Assumptions C16_this_tree_no_deadlock.
"""


def translate(ctx):
    tdir = os.path.join(ck.VERIF, "harness", "astfacts16")
    exe = os.path.join(ck.BUILD, "astfacts16." + ctx.pid)
    p = ck.sh(["go", "build", "-o", exe, "."], cwd=tdir, env=ck.GOENV, timeout=600)
    if p.returncode != 0:
        raise ck.Abort("astfacts16 does not build:\n" + p.stdout[-2000:] + p.stderr[-4000:])
    out = os.path.join(ck.GEN, "Facts16.v")
    p = ck.sh([exe, ck.REPO, out], env=ck.GOENV, timeout=300)
    if p.returncode != 0:
        raise ck.Abort("astfacts16: unrecognised source shape (hard error, not a verdict):\n" + p.stderr[-4000:])
    facts = json.loads(p.stdout.strip().splitlines()[-1])
    return facts


def obligations(ctx, facts):
    ok, so, se = ctx.coq_cases("Facts16", open(os.path.join(ck.GEN, "Facts16.v")).read())
    if not ok:
        raise ck.Abort("generated gen/Facts16.v does not compile:\n" + (se or so)[-3000:])
    body = g.HEADER + "From Crem Require Import Serialise.\nFrom CremGen Require Import Facts16.\nOpen Scope string_scope.\n"
    body += "Definition O := Eval vm_compute in [\n  " + ";\n  ".join('("%s", %s)' % (n, e) for n, e in OBLIGATIONS) + "\n].\nPrint O.\n"
    ok, so, se = ctx.coq_cases("Obl16a", body)
    if not ok:
        raise ck.Abort("gen/Obl16a.v does not compile:\n" + (se or so)[-3000:])
    vals = dict(re.findall(r'\(\s*"([A-Za-z_]+)",\s*(true|false)\)', so))
    failed = []
    for n, _ in OBLIGATIONS:
        v = vals.get(n)
        ctx.oblige("facts:" + n, v == "true", "" if v == "true" else "evaluates to %s on gen/Facts16.v" % v)
        if v != "true":
            failed.append(n)
    ok, so, se = ctx.coq_cases("Obl16", OBL16)
    names = ["C16_this_tree_serialisable", "C16_this_tree_synchronised", "C16_this_tree_no_deadlock"]
    for n in names:
        ctx.oblige("theorem:" + n, ok, "" if ok else " ".join((se or so).split())[-600:])
    if ok:
        ctx.parse_assumptions(OBL16, so, "gen/Obl16.v")
    if failed or not ok:
        detail = {k: facts.get(k) for k in ("serve_body_statements", "mutex_field", "pointer_receiver", "other_mutex_ops_at",
                                            "dispatch_notes", "sf_embedders", "go_stmts_at", "pkg_vars_written_at",
                                            "reentrant_serve_calls_at", "boot_concurrent_at")}
        ctx.broken.append("gen/Obl16.v: side conditions %s of C16_engine_serialisable_partial are false for the facts translated "
                          "from the current source (%s)" % (failed, json.dumps(detail)[:1500]))
    return failed


def exercise(ctx, exe=None, tier=None, label="", extra_env=None, timeout=3000):
    """Runs the harness sub-command; a Go runtime fatal error (unrecoverable) is turned into a failing input naming the
    trial in flight."""
    saved = ctx.exe
    if exe:
        ctx.exe = exe
    try:
        lines = ctx.run_harness("C16", [tier or ctx.tier], allow_fail=True, extra_env=extra_env, timeout=timeout)
    finally:
        ctx.exe = saved
    p = ctx.last_harness
    begins = [l for l in lines if l.get("kind") == "begin"]
    fatal = None
    if p.returncode != 0 and not begins:
        # died before any batch was released (fixture missing, chdir failed ...): the machinery could not run, not a verdict
        raise ck.Abort("C16 harness failed during set-up (%d):\n%s" % (p.returncode, (p.stderr or "")[-4000:]))
    if p.returncode != 0:
        err = p.stderr or ""
        m = re.search(r"(?m)^(fatal error: .*|panic: .*|WARNING: DATA RACE.*)$", err)
        first = m.group(1) if m else (err.strip().splitlines() or ["exit %d" % p.returncode])[0]
        frames = [ln.strip() for ln in err.splitlines() if "/crem/" in ln and "(" in ln and "verifharness" not in ln][:6]
        last = begins[-1] if begins else {}
        fatal = {"kind": "oracle", "what": "the process died while serving concurrent requests%s: %s" % (label, first[:300]),
                 "frames": frames, "trial": last.get("trial"), "mode": last.get("mode"), "prefix": last.get("prefix"),
                 "requests": last.get("requests"), "exit_code": p.returncode}
    return lines, fatal, p


def race_variant(ctx):
    """thorough only: the same batches under the Go race detector, if a -race harness can be built offline."""
    ov = os.path.join(ck.BUILD, "overlay.json")
    exe = os.path.join(ck.BUILD, "verifharness.C16.race")
    env = dict(ck.GOENV, CGO_ENABLED="1")
    try:
        p = ck.sh(["go", "build", "-race", "-tags", "verif", "-overlay", ov, "-o", exe, "./internal/verifharness"],
                  cwd=ck.REPO, env=env, timeout=1500)
    except subprocess.TimeoutExpired:
        return {"built": False, "reason": "go build -race timed out"}
    if p.returncode != 0:
        return {"built": False, "reason": "go build -race failed offline (cgo / race runtime unavailable?): " + " ".join(p.stderr.split())[-400:]}
    lines, fatal, proc = exercise(ctx, exe=exe, tier="quick", label=" (race build)",
                                  extra_env={"VERIF_C16_TRIALS": "1200", "GORACE": "halt_on_error=1 exitcode=66"}, timeout=3000)
    info = {"built": True, "trials": sum(1 for l in lines if l.get("kind") == "begin"), "exit_code": proc.returncode}
    for l in lines:
        if l.get("kind") == "oracle":
            l["what"] += " (race build)"
            ctx.failing_inputs.append(l)
    if fatal:
        if "DATA RACE" in (proc.stderr or ""):
            blocks = (proc.stderr or "").split("WARNING: DATA RACE")
            fatal["what"] = "data race reported by the Go race detector while serving concurrent requests"
            fatal["race_report"] = blocks[1][:2500] if len(blocks) > 1 else ""
        ctx.failing_inputs.append(fatal)
        info["report"] = fatal["what"]
    # second run: the status handler shared by the API and the admin multiplexer (two different request locks)
    lines, fatal2, proc2 = exercise(ctx, exe=exe, tier="crossmux", label=" (race build, cross-mux status probe)",
                                    extra_env={"GORACE": "halt_on_error=1 exitcode=66"}, timeout=600)
    info["cross_mux_status_probe"] = {"exit_code": proc2.returncode}
    for l in lines:
        if l.get("kind") == "oracle":
            ctx.failing_inputs.append(l)
    if fatal2:
        fatal2["probe"] = "cross-mux-status"
        if "DATA RACE" in (proc2.stderr or ""):
            blocks = (proc2.stderr or "").split("WARNING: DATA RACE")
            fatal2["what"] = "data race reported by the Go race detector: GET / on the API port against GET /status on the admin port"
            fatal2["race_report"] = blocks[1][:2500] if len(blocks) > 1 else ""
        ctx.failing_inputs.append(fatal2)
        info["cross_mux_status_probe"]["report"] = fatal2["what"]
    return info


def run(ctx):
    facts = translate(ctx)
    ctx.build_harness()
    failed = obligations(ctx, facts)
    ctx.check_theorems("Properties/C16.v")

    lines, fatal, _ = exercise(ctx)
    cases = [l for l in lines if l.get("kind") == "case"]
    for l in lines:
        if l.get("kind") == "oracle":
            ctx.failing_inputs.append(l)
        if l.get("kind") == "stat":
            ctx.stats = l["stats"]
    if fatal:
        ctx.failing_inputs.append(fatal)
    if not cases and not fatal:
        raise ck.Abort("C16 harness produced no cases:\n" + (ctx.last_harness.stderr or "")[-3000:])

    nshards = 0
    for si, shard in enumerate(g.chunks(cases, SHARD)):
        body = g.HEADER + "From Crem Require Import Serialise SerialiseCorr.\n"
        body += "Definition cases : list case := [\n  " + ";\n  ".join(_case(c) for c in shard) + "\n].\n"
        body += "Definition M := Eval vm_compute in mismatches cases.\nPrint M.\n"
        idx = ctx.correspondence("cases_C16_%d" % si, body, ncases=len(shard))
        nshards += 1
        if idx:
            for i in idx[:3]:
                c = shard[i]
                ctx.notes.append({"mismatch": {k: c[k] for k in ("trial", "init", "order", "resp", "final")},
                                  "requests": [{k: r.get(k) for k in ("k", "method", "path", "body")} for r in c["reqs"]]})

    race = None
    if ctx.tier == "thorough":
        race = race_variant(ctx)
        ctx.notes.append({"race_variant": race})

    st = ctx.stats or {}
    ctx.stats = dict(st, translated_facts={k: facts[k] for k in facts if k.startswith("sf_")},
                     serve_body_statements=facts.get("serve_body_statements"), mutex_field=facts.get("mutex_field"),
                     package_level_vars=facts.get("package_level_vars"),
                     reported_not_obligations={"cross_mux_registrations": facts.get("cross_mux_registrations"),
                                               "unlocked_entry_points": facts.get("unlocked_entry_points"),
                                               "go_stmts_in_import_closure": facts.get("go_stmts_in_import_closure")},
                     files_parsed=facts.get("files_parsed"))
    logged = sum(1 for c in cases if c.get("logged"))
    ctx.coverage.update({
        "evaluations": len(cases),
        "distinct_nontrivial": sum(1 for c in {json.dumps([c["init"], [(r["k"], r.get("sets"), r.get("flags"), r.get("idxs")) for r in c["reqs"]]])
                                               for c in cases if sum(1 for r in c["reqs"] if r["k"] in ("set", "rep")) >= 2}),
        "rule": "one evaluation = one batch of N in 2..8 requests served CONCURRENTLY by the real engine Mux.ServeHTTP (goroutines "
                "released by one barrier; thorough: also through a loop-back httptest.Server) on a fresh engine loaded with the "
                "ValidTestScenario fixture (7 subcatchments, 13 actions), optionally after a random full action table; request mix by "
                "mode commuting / conflicting / mixed / write-heavy: PUT subcatchment actions (different or the same subcatchment), "
                "PATCH /model encodings, PUT whole and partial action tables, rejected PUTs (400), GET model / active / subcatchment / "
                "applicable. Implementation-side oracle: all responses (timestamps dropped, map-ordered lists sorted) and the final "
                "GET /model + actions/active equal those of SOME serial replay on a fresh engine (first the order logged by the mux "
                "inside the lock, else memoised search over all writer orders). Coq side: the abstract requests as multi-step thread "
                "bodies; model's serial execution in the explaining order must give the same statuses, the same action flags in "
                "every read, the same final action set; plus the model's small-step machine under a drawn schedule against its own "
                "serial order. distinct_nontrivial = distinct (initial set, abstract batch) with >= 2 state-changing requests",
        "exhaustive": False,
        "correspondence_shards": nshards,
        "cases_explained_by_logged_lock_order": logged,
        "translator": "harness/astfacts16 (go/ast + go/parser, stdlib only): %s files parsed" % facts.get("files_parsed"),
    })
    if race is not None:
        ctx.coverage["race_variant"] = race
    ctx.samples = [{k: (c[k] if k != "reqs" else [{kk: r.get(kk) for kk in ("k", "method", "path", "sets", "flags", "idxs")} for r in c["reqs"]])
                    for k in ("trial", "init", "reqs", "order", "resp", "final")} for c in cases[:2] + cases[len(cases) // 2: len(cases) // 2 + 1]]
    ctx.assumptions = [
        "PARTIAL: Go-memory-model data races as such and torn reads inside library code are runtime behaviour the model cannot "
        "exhibit; accesses ordered by one sync.Mutex are assumed sequentially consistent (DRF guarantee of the Go memory model)",
        "a handler body is a finite sequence of atomic actions of ONE goroutine over state reachable only through the mux "
        "(side conditions translated from the source: no `go` statement, no written package-level variable, no type shadowing "
        "ServeHTTP, handlers dispatched only inside ServeHTTP, no re-entrant ServeHTTP call)",
        "engine start-up (SetScenario/SetSolution/SetSolutionSummary) happens before the servers are started; Shutdown's model "
        "TearDown is outside the lock (reported, not covered)",
        "listed finding admin-status-two-locks: the admin status handler is registered on BOTH muxes (RestServer.WithApiMux), so "
        "admin.Mux.Status is written under two different mutexes (confirmed by the race detector in the thorough tier; repair in "
        "proposed_fixes/C16-1-admin-status-lock.diff); it is not engine resource state and lies outside this property's anchors",
    ]
    ctx.extra_trusted = [
        "translator harness/astfacts16: pattern-matches the shape of rest.MuxImpl.ServeHTTP and the handler packages; an unrecognised "
        "shape is a hard error; what it extracted is in input_distribution.translated_facts",
        "reading of the facts as a thread program (Serialise.serve_thread): Lock;defer Unlock;dispatch = acquire; body; release",
    ]
