"""C08 — runs of a scenario are independent and safe to execute concurrently (proof, partial)."""
import json
import coqgen as g

SHARD = 40
FAM = {"kirkpatrick": "Kirk", "suppapitnarm": "Supp", "averaged": "Avg"}

ALLOW_RULES = {
    "func": "func values (code pointers: parameter validators, OLE wrapper); closure-captured variables not inspected",
    "params": "parameter / specification maps and their validation-error lists: written at configuration time only",
    "data": "loaded data-set tables: read-only after Load",
    "logger": "log handlers: shared by design",
    "notifier": "the annealer's event notifier and the observers behind it (saver, loggers): shared by design; "
                "observers must be goroutine-safe (Saver serialises decompression with a mutex)",
    "attrs": "attributes.Attributes backing array with len == cap (Add reallocates) whose names are disjoint from the "
             "explorer's event attribute names (Join never Replaces in place); both conditions checked by the walker",
    "tz": "*time.Location (immutable)",
    "zero": "zero-size allocations are skipped (they all share runtime.zerobase)",
}


def nlist(ids):
    return "[" + "; ".join("%d" % i for i in ids) + "]%N"


def alias_file(a):
    fam = a["fam"]
    owners = ["P", "A", "B", "C"]
    body = g.HEADER
    body += "From Crem Require Import Base.Res CloneIndep CloneIndepProofs Properties.C08.\nOpen Scope string_scope.\n"
    body += "(* alias translator output for the %s annealer: prototype P and clones A, B, C prepared as Runner.run\n" % fam
    body += "   prepares a run, walked after SolutionExplorer().Initialise().  Location ids are discovery indices. *)\n"
    for o in owners:
        body += "Definition fp_%s : list loc := %s.\n" % (o, nlist(a["fp"].get(o, [])))
    body += "Definition footprints : list (list loc) := [fp_P; fp_A; fp_B; fp_C].\n"
    allowed = [s for s in a["shared"] if s["allow"]]
    unlisted = [s for s in a["shared"] if not s["allow"]]

    def entry(s):
        return "(%d%%N, %s, %s, %s)" % (s["id"], g.string(s["allow"] or "UNLISTED"), g.string(s["between"]),
                                        g.string((s["kind"] + " " + s["type"] + " @ " + s["path"])[:240]))
    body += "Definition shared_allow_listed : list (N * string * string * string) := [\n  %s\n].\n" % ";\n  ".join(entry(s) for s in allowed)
    body += "Definition shared_unlisted : list (N * string * string * string) := [%s].\n" % "; ".join(entry(s) for s in unlisted)
    body += "Definition overlaps : nat := %d.\n" % len(a.get("overlaps", []))
    body += "Lemma shared_unlisted_empty : shared_unlisted = []. Proof. reflexivity. Qed.\n"
    body += "Lemma no_overlaps : overlaps = 0%nat. Proof. reflexivity. Qed.\n"
    body += "Lemma no_shared_mutable : pairwise_disjointb footprints = true. Proof. vm_compute. reflexivity. Qed.\n"
    body += ("(* the non-interference theorem instantiated at the translated footprints, for ARBITRARY step functions:\n"
             "   its side condition is discharged by the lemma above *)\n"
             "Definition C08_instance sP sA sB sC c ch m0 sch :=\n"
             "  C08_noninterference [mkProg fp_P sP; mkProg fp_A sA; mkProg fp_B sB; mkProg fp_C sC] c ch m0 sch no_shared_mutable.\n"
             "Check C08_instance.\n")
    return body


def run_race_build(ctx):
    """go build -race of the harness (cgo needed); returns the harness lines of the `race` tier or None."""
    import os, check
    exe = ctx.exe + ".race"
    env = dict(check.GOENV, CGO_ENABLED="1")
    try:
        p = check.sh(["go", "build", "-race", "-tags", "verif", "-overlay", os.path.join(check.BUILD, "overlay.json"),
                      "-o", exe, "./internal/verifharness"], cwd=check.REPO, env=env, timeout=900)
    except Exception:
        return None
    if p.returncode != 0:
        return None
    saved = ctx.exe
    ctx.exe = exe
    try:
        return ctx.run_harness("C08", ["race"], timeout=1800)
    finally:
        ctx.exe = saved


def run(ctx):
    ctx.build_harness()
    lines = ctx.run_harness("C08", [ctx.tier], timeout=2400)
    cases = [l for l in lines if l.get("kind") == "case"]
    aliases = [l for l in lines if l.get("kind") == "alias"]
    astfacts = [l for l in lines if l.get("kind") == "astfact"]
    for l in lines:
        if l.get("kind") == "oracle":
            ctx.failing_inputs.append(l)
        if l.get("kind") == "stat":
            ctx.stats = l["stats"]

    # thorough tier: the same scenarios under the race detector, as search support only
    if ctx.tier == "thorough":
        race_lines = run_race_build(ctx)
        if race_lines is None:
            ctx.notes.append("go build -race unavailable here (needs cgo): race-detector runs skipped")
        else:
            rc = [l for l in race_lines if l.get("kind") == "case"]
            cases += rc
            for l in race_lines:
                if l.get("kind") == "oracle":
                    ctx.failing_inputs.append(l)
            ctx.stats["race_detector_scenarios"] = len(rc)
            ctx.stats["race_detector_reports"] = sum(1 for l in race_lines if l.get("kind") == "oracle" and "race" in l.get("what", ""))

    ctx.check_theorems("Properties/C08.v")

    # ---- translated facts -> gen/Alias*.v, checked by computation
    alias_summary = {}
    for a in aliases:
        fam = a["fam"]
        ok, so, se = ctx.coq_cases("Alias_" + fam.replace("+", "_"), alias_file(a))
        unl = [s for s in a["shared"] if not s["allow"]]
        name = "alias:no_shared_mutable(%s)" % fam
        ctx.oblige(name, ok, "" if ok else ("unlisted shared locations: %s; %s" % (
            [(s["between"], s["kind"], s["type"], s["path"][-120:]) for s in unl][:5], " ".join((se or so).split())[-400:])))
        if not ok:
            ctx.broken.append("%s (gen/Alias_<%s>.v: footprints of prototype and clones are not pairwise disjoint, "
                              "or a shared location is not allow-listed)" % (name, fam))
        alias_summary[fam] = {
            "reachable": a["reachable"], "shared_total": a["shared_total"],
            "shared_frontier": [{"allow": s["allow"] or "UNLISTED", "between": s["between"], "kind": s["kind"],
                                 "type": s["type"], "path": s["path"][-160:],
                                 **({"len": s["len"], "cap": s["cap"]} if "len" in s else {}),
                                 **({"attr_names": s["attr_names"]} if "attr_names" in s else {})} for s in a["shared"]],
            "footprint_sizes": {k: len(v) for k, v in a["fp"].items()}, "overlaps": a.get("overlaps", []),
            "explorer_attribute_names": a.get("explorer_attribute_names"),
        }
    if len(aliases) != 7:
        ctx.oblige("alias:translator_ran_for_all_families", False, "got %d alias lines" % len(aliases))
        ctx.broken.append("alias translator did not report all seven annealer/model configurations")
    sites = astfacts[0]["global_write_sites"] if astfacts else ["<ast translator did not run>"]
    body = g.HEADER + "Open Scope string_scope.\n"
    body += "(* AST fact: call sites of os.Chdir / os.Setenv / os.Unsetenv / os.Clearenv in non-test code *)\n"
    body += "Definition global_write_sites : list string := %s.\n" % g.lst([g.string(s) for s in sites])
    body += "Lemma no_process_global_writes : global_write_sites = []. Proof. reflexivity. Qed.\n"
    unlocked = astfacts[0].get("saver_unlocked", ["<missing>"]) if astfacts else ["<ast translator did not run>"]
    locked = astfacts[0].get("saver_locked", []) if astfacts else []
    shape = bool(astfacts and astfacts[0].get("saver_shape_recognised"))
    body += "(* AST fact: methods of scenario.Saver touching the shared decompressionModel without Lock(); defer Unlock() *)\n"
    body += "Definition saver_unlocked_methods : list string := %s.\n" % g.lst([g.string(s) for s in unlocked])
    body += "Definition saver_locked_methods : list string := %s.\n" % g.lst([g.string(s) for s in locked])
    body += "Definition saver_shape_recognised : bool := %s.\n" % g.b(shape)
    run_stmts = astfacts[0].get("runner_run_statements", ["<missing>"]) if astfacts else ["<ast translator did not run>"]
    body += "(* AST fact: the statements of scenario.Runner.run (what the accessor Runner.VerifPrepareRun repeats) *)\n"
    body += "Definition runner_run_statements : list string := %s.\n" % g.lst([g.string(x) for x in run_stmts])
    ok, so, se = ctx.coq_cases("Alias", body)
    ctx.oblige("astfact:no_process_global_writes", ok, "" if ok else "sites: %s" % sites)
    if not ok:
        ctx.broken.append("astfact:no_process_global_writes (process-global state written by non-test code: %s)" % sites)
    body2 = g.HEADER + "From CremGen Require Import Alias.\nOpen Scope string_scope.\n"
    body2 += "Lemma saver_lock_discipline : saver_unlocked_methods = [] /\\ saver_shape_recognised = true. Proof. split; reflexivity. Qed.\n"
    body2 += ("Lemma runner_run_is_clone_setup_anneal : runner_run_statements = [\"annealerCopy := runner.annealer.DeepClone()\"; "
              "\"runner.assignNewRunId(runNumber, annealerCopy)\"; \"runner.wireObservers(annealerCopy)\"; \"annealerCopy.Anneal()\"; "
              "\"runner.logRunFinishedMessage(runNumber)\"]. Proof. reflexivity. Qed.\n")
    ok2, so2, se2 = ctx.coq_cases("AliasSaver", body2) if ok else (False, "", "gen/Alias.v did not compile")
    ctx.oblige("astfact:saver_lock_discipline", ok2, "" if ok2 else "unlocked methods touching decompressionModel: %s; shape recognised: %s; statements of Runner.run (must be clone, assignNewRunId, wireObservers, Anneal, log): %s" % (unlocked, shape, run_stmts))
    if not ok2:
        ctx.broken.append("astfact:saver_lock_discipline (scenario.Saver methods touching the shared decompressionModel without "
                          "Lock(); defer Unlock(): %s; shape recognised: %s; or Runner.run no longer has the statements the accessor VerifPrepareRun repeats: %s)" % (unlocked, shape, run_stmts))

    # ---- package-level variables touched by run code: translated from the current source, matched against the census
    import os, check as ck
    tdir = os.path.join(ck.VERIF, "harness", "astfacts08")
    texe = os.path.join(ck.BUILD, "astfacts08." + ctx.pid)
    pb = ck.sh(["go", "build", "-o", texe, "."], cwd=tdir, env=ck.GOENV, timeout=600)
    if pb.returncode != 0:
        raise ck.Abort("astfacts08 does not build:\n" + pb.stdout[-2000:] + pb.stderr[-4000:])
    pv_out = os.path.join(ck.GEN, "PkgVars.v")
    pr_ = ck.sh([texe, ck.REPO, pv_out], env=ck.GOENV, timeout=300)
    if pr_.returncode != 0:
        raise ck.Abort("astfacts08: cannot read the source (hard error, not a verdict):\n" + pr_.stderr[-4000:])
    pv_facts = json.loads(pr_.stdout.strip().splitlines()[-1])
    okp, sop, sep = ctx.coq_cases("PkgVars", open(pv_out).read())
    bodyp = g.HEADER + "From Crem Require Import PkgVarsCensus.\nFrom CremGen Require Import PkgVars.\nOpen Scope string_scope.\n"
    bodyp += "Definition U := Eval vm_compute in uncovered accounted pkg_var_uses.\nPrint U.\n"
    bodyp += "Definition W := Eval vm_compute in run_time_writes accounted.\nPrint W.\n"
    bodyp += "Lemma every_use_is_in_the_census : uncovered accounted pkg_var_uses = [] /\\ run_time_writes accounted = []. Proof. split; reflexivity. Qed.\n"
    okq, soq, seq_ = ctx.coq_cases("obl_C08_pkgvars", bodyp) if okp else (False, "", "gen/PkgVars.v did not compile: " + (sep or sop)[-400:])
    import re as _re
    unc = _re.findall(r'\("([^"]+)",\s*"([^"]+)"\)', soq.split("W =")[0]) if "U =" in soq else []
    ctx.oblige("astfact:package_level_variables_in_census", okq, "" if okq else
               "package-level variable uses by run code that the census does not account for: %s; %s" % (unc[:12], " ".join((seq_ or "").split())[-300:]))
    if not okq:
        ctx.broken.append("astfact:package_level_variables_in_census (gen/obl_C08_pkgvars.v: run code touches a package-level variable in a way "
                          "the census PkgVarsCensus.accounted does not list: %s)" % (unc[:12],))
    ctx.stats["package_level_variables"] = {"files_scanned": pv_facts["files_scanned"], "variables": pv_facts["package_level_variables"],
                                            "touched_by_run_code": sum(1 for f in pv_facts["facts"] if f["uses"]), "not_in_census": unc}

    # ---- access recording of a real save -> instruction sequences of SharedSection.v, discipline checked by computation
    probes = [l for l in lines if l.get("kind") == "saverprobe"]

    def instr(i):
        if i == "acq":
            return "Acq"
        if i == "rel":
            return "Rel"
        return "%s %d" % ("Ld" if i[0] == "ld" else "Rd", i[1])
    body3 = g.HEADER + "From Crem Require Import SharedSection SharedSectionProofs Properties.C08.\nOpen Scope string_scope.\nOpen Scope nat_scope.\n"
    body3 += ("(* access recording of one real save (multi-objective solution set; single-objective result) through\n"
              "   scenario.Saver with the shared decompression model wrapped by the probe: Acq/Rel = the mutex was found\n"
              "   taken/free at the access, Ld k = k-th write phase, Rd k = read after write phase k *)\n")
    for pr in probes:
        body3 += "Definition saver_prog_%s : list (instr nat) := [%s].\n" % (pr["fam"], "; ".join(instr(i) for i in pr["prog"]))
        body3 += "Definition saver_unprotected_%s : list string := %s.\n" % (pr["fam"], g.lst([g.string(m) for m in pr["unlocked"]]))
    names = ["saver_prog_%s" % pr["fam"] for pr in probes]
    body3 += "Definition saver_progs : list (list (instr nat)) := [%s].\n" % "; ".join(names)
    body3 += ("Lemma saver_progs_disciplined : forallb (disciplined nat Nat.eqb Outside) saver_progs = true /\\ "
              "forallb (fun p => Nat.ltb 3 (List.length p)) saver_progs = true /\\ List.length saver_progs = 2%nat.\n"
              "Proof. vm_compute. repeat split; reflexivity. Qed.\n"
              "(* the interleaving theorem instantiated: any number of concurrent saves, each running one of the recorded programs *)\n"
              "Definition C08_saver_instance M Out load obs eval Hload m0 (progs : list (list (instr nat))) sched Hall :=\n"
              "  C08_shared_saver_reads_are_own M nat Out load obs eval Nat.eqb Hload (fun a b H => proj1 (Nat.eqb_eq a b) H) m0 progs sched Hall.\n"
              "Check C08_saver_instance.\n")
    ok3, so3, se3 = ctx.coq_cases("SaverTrace", body3)
    unprot = sorted({m for pr in probes for m in pr["unlocked"]})
    ctx.oblige("probe:saver_accesses_keep_lock_discipline", ok3, "" if ok3 else
               "accesses of the shared decompression model outside decompressionMutex: %s; probes: %d; %s" % (
                   unprot, len(probes), " ".join((se3 or so3).split())[-300:]))
    if not ok3:
        ctx.broken.append("probe:saver_accesses_keep_lock_discipline (gen/SaverTrace.v: the recorded instruction sequence of a real save "
                          "does not keep Lock / load / read / Unlock; accesses outside the lock: %s)" % unprot)
    ctx.stats["saver_probe"] = [{k: pr[k] for k in ("fam", "members", "accesses", "unlocked", "interleavings_tried", "interleavings_with_wrong_rows")} for pr in probes]

    # ---- correspondence
    def runobs(r):
        return "mkRO %s %s %s %s %s %s %s %s %s %s" % (
            g.nat(r["r"]), g.b(r["suffix"]), g.nat(r["rtot"]), g.nat(r["nStartA"]), g.fl(r["startT"]), g.z(r["startArch"]),
            g.z(r["firstIter"]), g.nat(r["nStartIt"]), g.nat(r["nFin"]), g.z(r["finIter"]))

    nshards = 0
    for si, shard in enumerate(g.chunks(cases, SHARD)):
        items = []
        for c in shard:
            items.append("mkC %s %s %s %s %s %s %s %s %s %s %s %s" % (
                FAM[c["fam"]], g.nat(c["R"]), g.nat(c["c"]), g.nat(c["N"]), g.fl(c["T0"]), g.fl(c["cf"]), g.b(c["crashed"]),
                g.lst([runobs(r) for r in c["runs"]]), g.lst([g.nat(i) for i in c["order"]]),
                g.nat(c["maxInflight"]), g.nat(c["nfiles"]), g.b(c["filesOk"])))
        body = g.HEADER + "From Crem Require Import Base.Res Base.Fl CloneIndep CloneIndepCorr.\nOpen Scope Q_scope.\n"
        body += "Definition cases : list case := [\n  " + ";\n  ".join(items) + "\n].\n"
        body += "Definition M := Eval vm_compute in mismatches cases.\nPrint M.\n"
        idx = ctx.correspondence("cases_C08_%d" % si, body, ncases=len(shard))
        nshards += 1
        if idx:
            for i in idx[:5]:
                ctx.notes.append({"mismatch": {k: shard[i][k] for k in ("fam", "R", "c", "N", "crashed", "runs", "maxInflight", "nfiles")}})
    if not cases:
        ctx.oblige("correspondence:cases_C08", False, "harness produced no case")
        ctx.broken.append("correspondence: no scenario was executed")

    distinct = len({(c["fam"], c["R"], c["c"], c["N"], str(c["T0"]), str(c["cf"]), str(c["order"])) for c in cases if c["R"] >= 2})
    ctx.coverage.update({
        "evaluations": len(cases), "distinct_nontrivial": distinct,
        "rule": "one case = one execution of the real scenario.Runner in a child process: annealer family in {kirkpatrick, "
                "suppapitnarm, averaged-suppapitnarm} x (R,c) in {(1,1),(1,2),(2,1),(2,2),(5,1),(5,2),(5,5)} (+ (3,3),(8,1),(8,3),(8,8),(12,4) "
                "and 6 repetitions in thorough) with N, T0, cooling factor drawn from small palettes, plus longer 4x4 scenarios so that "
                "goroutines really overlap; the model replays the interleaving the Go runtime produced (observed event order) and "
                "compares per run: id form, StartedAnnealing count/temperature/archive size, first iteration number and temperature, "
                "iteration count, FinishedAnnealing count and iteration, spawn/done counts, observed in-flight maximum <= c, result files. "
                "distinct_nontrivial = distinct (family,R,c,N,T0,cf,observed order) with R >= 2",
        "exhaustive": False,
        "correspondence_shards": nshards,
        "translator_facts": {"alias": alias_summary, "global_write_sites": sites, "allow_rules": ALLOW_RULES,
                             "saver_locked_methods": locked, "saver_unlocked_methods": unlocked},
    })
    ctx.samples = [{k: c[k] for k in ("fam", "R", "c", "N", "T0", "cf", "crashed", "maxInflight", "order", "runs")} for c in cases[4:6] + cases[-1:]]
    ctx.extra_trusted += [
        "alias translator harness/c08.go (reflect+unsafe walker, allow list of objects immutable after set-up or shared by design; "
        "closure-captured variables behind func values are not inspected); clones taken through the add-only accessor "
        "Runner.VerifPrepareRun (overlay), which calls the real DeepClone/assignNewRunId/wireObservers",
        "sharing between any two of R clones is inferred from three clones and the prototype (DeepClone is the same code for every run)",
        "events are attributed to runs by goroutine id (observers are notified synchronously on the run's goroutine)",
    ]
    ctx.assumptions = [
        "PARTIAL: Go-memory-model data races as such, races on process-wide state, and goroutine-safety of the observers shared by "
        "design (saver, log handlers) are runtime behaviour outside the model; they are covered by the translated sharing facts, "
        "the AST fact and (thorough tier, when cgo is available) a -race build only as search support",
        "a panic in a run goroutine terminates the process (Go semantics; SimpleAnnealer re-panics): the model records it as "
        "[crashed] and proves non-interference up to that point; 'attempt limit reached' start panics (D14b) are retried",
        "time-seeded random sources: only schedule- and seed-independent observables are compared",
    ]
