"""C20 — CSV text is parsed totally and faithfully into tables."""
import coqgen as g

SHARD = 300


def coq_string(bs):
    """Coq string literal from bytes (one ascii per byte).  (coqgen.string closes one parenthesis too many
    for non-printable input, so this slice brings its own.)"""
    bs = bytes(bs)
    if all(32 <= c < 127 and c != 34 for c in bs):
        return '"' + bs.decode("latin-1") + '"%string'
    n = len(bs)
    return "(" + " (".join("String (Ascii.ascii_of_nat %d)" % c for c in bs) + " EmptyString" + ")" * n


def hx(h):
    return coq_string(bytes.fromhex(h))


def num(j):
    sp = j.get("sp", "")
    if sp == "nan":
        return "NaN"
    if sp == "+inf":
        return "(Inf false)"
    if sp == "-inf":
        return "(Inf true)"
    return "(Fin %s %s)" % (g.b(j["neg"]), g.fl(j["fl"]))


def tag(j):
    if j["t"] == "N":
        return "(TNum %s)" % num(j)
    if j["t"] == "B":
        return "(TBool %s)" % g.b(j["b"])
    return "TText"


def fld(j):
    return "mkF %s %s %s" % (hx(j["s"]), tag(j), hx(j.get("f", "")))


def cellv(j):
    if j is None:
        return "None"
    if j["t"] == "N":
        return "(Some (VNum %s))" % num(j)
    if j["t"] == "B":
        return "(Some (VBool %s))" % g.b(j["b"])
    if j["t"] == "S":
        return "(Some (VStr %s))" % hx(j["s"])
    return '(Some (VStr "<a cell that is neither float64, bool nor string>"%string))'


def cobs(o):
    return "mkO %s %s" % (cellv(o["cell"]), "None" if o["str"] is None else "(Some %s)" % hx(o["str"]))


def case_term(c):
    if c["csv"] is None:
        csv = "None"
    else:
        csv = "(Some %s)" % g.lst([g.lst([fld(f) for f in r]) for r in c["csv"]])
    outcome = {"panic": "OPanic", "rejected": "ORejected", "loaded": "OLoaded"}[c["outcome"]]
    header = g.lst([hx(h) for h in c.get("header", [])])
    dims = c.get("dims")
    dims_t = "None" if dims is None else "(Some (%d, %d)%%nat)" % (dims[0], dims[1])
    cells = g.lst([g.lst([cobs(o) for o in r]) for r in c.get("cells", [])])
    probes = g.lst(["(%d, %d, %s)%%nat" % (p[0], p[1], g.b(p[2])) if False else "((%d)%%nat, (%d)%%nat, %s)" % (p[0], p[1], g.b(p[2]))
                    for p in c.get("probes", [])])
    return "mk %s %s %s %s %s %s" % (csv, outcome, header, dims_t, cells, probes)


def run(ctx):
    ctx.build_harness()
    lines = ctx.run_harness("C20", [ctx.tier])
    cases = [l for l in lines if l.get("kind") == "case"]
    for l in lines:
        if l.get("kind") == "oracle":
            ctx.failing_inputs.append(l)
        elif l.get("kind") == "stat":
            ctx.stats = l["stats"]
        elif l.get("kind") == "witness":
            ctx.oblige("witness:%s replayed on the implementation (%s)" % (l["name"], l["input"]), l["confirmed"],
                       "" if l["confirmed"] else "the implementation no longer shows the listed defect; the _refuted theorem is about older code")
            if not l["confirmed"]:
                ctx.broken.append("refutation witness %s is no longer reproduced by the implementation" % l["name"])
    ctx.check_theorems("Properties/C20.v")
    nshards = 0
    for si, shard in enumerate(g.chunks(cases, SHARD)):
        body = g.HEADER + "From Crem Require Import Base.Res Base.Fl CsvTable GoCast CsvTableCorr.\n"
        body += "Definition cases : list case := [\n  " + ";\n  ".join(case_term(c) for c in shard) + "\n].\n"
        body += "Definition M := Eval vm_compute in mismatches cases.\nPrint M.\n"
        idx = ctx.correspondence("cases_C20_%d" % si, body, ncases=len(shard))
        nshards += 1
        if idx:
            for i in idx[:5]:
                c = shard[i]
                ctx.notes.append({"mismatch": {"class": c["class"], "text_hex": c["text"][:400], "outcome": c["outcome"],
                                               "dims": c.get("dims")}})
    loaded = [c for c in cases if c["outcome"] == "loaded"]
    distinct = len({c["text"] for c in loaded if c.get("dims") and c["dims"][1] > 0})
    ctx.coverage.update({
        "evaluations": len(cases), "distinct_nontrivial": distinct,
        "rule": "byte strings through the REAL ParseCsvTextIntoTable under recover: fixed degenerate texts (empty, newlines only, "
                "header-only, ragged, bare/unterminated quotes, BOM, CRLF, blank lines, 400-digit and 1e99999 literals), every "
                "ParseBool literal alone in a cell, very long fields, many rows, structured random tables (1-5 columns, 0-5 rows, "
                "16 field classes incl. numeric-looking, exponent, boolean-looking, inf/nan/hex-float/underscore syntax, quoted "
                "fields with commas/newlines/quotes, leading spaces, non-UTF-8 bytes) and random strings over a malformed alphabet; "
                "every cell below the reported dimensions and 9 boundary probes compared with the model. "
                "distinct_nontrivial = distinct texts that loaded with at least one data row",
        "exhaustive": False,
        "correspondence_shards": nshards,
        "cells_compared": sum(len(r) for c in loaded for r in c.get("cells", [])),
    })
    ctx.samples = [{"class": c["class"], "text_hex": c["text"][:120], "outcome": c["outcome"], "dims": c.get("dims")}
                   for c in (cases[:3] + cases[len(cases) // 2: len(cases) // 2 + 3])]
    ctx.assumptions = [
        "encoding/csv (text -> records, rectangular with FieldsPerRecord=0), strconv.ParseFloat/ParseBool and fmt %v are trusted oracles: "
        "the model starts from the records and from the caster's verdict per field (both obtained from the oracles, not from the code under test)",
        "theorems hold for every caster and every float formatter; go_cast/go_fmt_v (GoCast.v) are tied separately on their modelled domain",
    ]
