#!/bin/sh
# runs every registered quick (or $1=thorough) check on /repo and prints one line per property
cd "$(dirname "$0")/.."
tier=${1:-quick}
for p in $(python3 -c "import json; print(' '.join(c['property_id'] for c in json.load(open('MANIFEST.json'))['checks']))"); do
  s=$(date +%s)
  out=$(python3 tools/check.py $p --tier $tier 2>&1); rc=$?
  e=$(( $(date +%s) - s ))
  echo "$p rc=$rc ${e}s $(echo "$out" | grep -c KNOWN-FINDING) known $(echo "$out" | grep VIOLATION | cut -c1-120)"
done
