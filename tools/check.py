#!/usr/bin/env python3
"""Orchestrator of /verif: one invocation decides one property.

  tools/check.py <ID> [--tier quick|thorough] [--replay <path>]

Protocol (DESIGN.md section 5): build the harness from /repo's working tree, run the
translators, exercise the implementation, re-check the Coq obligations (theorems, generated
side conditions, correspondence), and only if one of them breaks search for a failing input.
Exit 0: property held on everything explored.  Exit 1 + "VIOLATION property=<id> replay=<path>".
Exit 2: the machinery itself could not run (build error) -- not a verdict.
"""
import sys, os, json, time, subprocess, hashlib, importlib, re, fcntl, shutil, tempfile

VERIF = os.path.dirname(os.path.dirname(os.path.abspath(__file__)))
REPO = os.environ.get("VERIF_REPO", "/repo")
COQ = os.path.join(VERIF, "coq")
GEN = os.path.join(COQ, "gen")
BUILD = os.path.join(VERIF, "build")
sys.path.insert(0, os.path.join(VERIF, "tools"))

GOENV = dict(os.environ, GOFLAGS="-mod=mod", GOPROXY="off", GOSUMDB="off", GOTOOLCHAIN="local",
             CGO_ENABLED=os.environ.get("CGO_ENABLED", "0"))

FORBIDDEN = re.compile(r"\b(Admitted|admit|Axiom|Axioms|Parameter|Parameters|Conjecture|Conjectures|"
                       r"Admit Obligations|bypass_check|type-in-type|impredicative-set)\b|"
                       r"Unset\s+(Guard|Positivity|Universe)\s+Checking")

COQ_TRUSTED_BASE = [
    "Coq 8.16.1 kernel + vm_compute (no native_compute); full .vo build via coq_makefile (never -vos/-vok)",
    "no axiom declared by this development (grep for Axiom/Parameter/Conjecture/Admitted/admit/"
    "out-of-section Variable/Hypothesis enforced on every run; guard/positivity/universe checks untouched)",
    "hand-written Gallina model, tied to /repo by the correspondence check of this run "
    "(Go harness compiled into /repo's working tree with -overlay; JSON -> .v generator tools/coqgen.py)",
    "Go runtime, standard library and CPU IEEE-754 conformance are modelled, not verified",
]


class TreeBreaks(Exception):
    """The harness does not build against, or crashes on, the tree under check: not an infrastructure error but a
    broken tie -- the code changed under the accessors/drivers, or it panicked where the drivers call it unprotected.
    Reported as VIOLATION ... no-failing-input-found with the compiler / panic text in the replay."""


class Abort(Exception):
    pass


def sh(cmd, cwd=None, env=None, timeout=None, check=False, input=None):
    p = subprocess.run(cmd, cwd=cwd, env=env, timeout=timeout, input=input,
                       stdout=subprocess.PIPE, stderr=subprocess.PIPE, text=True)
    if check and p.returncode != 0:
        raise Abort("command failed (%d): %s\n%s\n%s" % (p.returncode, " ".join(cmd), p.stdout[-4000:], p.stderr[-4000:]))
    return p


class Ctx:
    def __init__(self, pid, tier, seed):
        self.pid, self.tier, self.seed = pid, tier, seed
        self.t0 = time.time()
        self.obligations = []      # (name, ok:bool, detail)
        self.failing_inputs = []   # dicts: implementation-side failing inputs (oracle)
        self.broken = []           # names of theorems / correspondences that no longer check
        self.assumptions_printed = {}
        self.coverage = {}
        self.samples = []
        self.stats = {}
        self.notes = []
        self.extra_trusted = []
        self.assumptions = []
        os.makedirs(GEN, exist_ok=True)
        os.makedirs(BUILD, exist_ok=True)
        os.makedirs(os.path.join(VERIF, "replays"), exist_ok=True)
        os.makedirs(os.path.join(VERIF, "evidence"), exist_ok=True)

    # ---------- harness ----------
    def build_harness(self):
        """go build -tags verif -overlay: /verif/harness/*.go appear as /repo/internal/verifharness/*.go"""
        with open(os.path.join(BUILD, ".lock"), "w") as lk:
            fcntl.flock(lk, fcntl.LOCK_EX)
            hdir = os.path.join(VERIF, "harness")
            repl = {}
            for f in sorted(os.listdir(hdir)):
                if f.endswith(".go"):
                    repl[os.path.join(REPO, "internal", "verifharness", f)] = os.path.join(hdir, f)
            # add-only accessor files for existing packages: harness/overlay/<path below /repo>/<file>.go
            # (all carry //go:build verif; nothing is written into /repo)
            odir = os.path.join(hdir, "overlay")
            for dp, _, fs in os.walk(odir):
                for f in fs:
                    if f.endswith(".go"):
                        rel = os.path.relpath(os.path.join(dp, f), odir)
                        target = os.path.join(REPO, rel)
                        if os.path.exists(target):
                            raise Abort("overlay file would replace an existing file of /repo: " + rel)
                        repl[target] = os.path.join(dp, f)
            ov = os.path.join(BUILD, "overlay.json")
            with open(ov, "w") as fh:
                json.dump({"Replace": repl}, fh)
            exe = os.path.join(BUILD, "verifharness")
            p = sh(["go", "build", "-tags", "verif", "-overlay", ov, "-o", exe, "./internal/verifharness"],
                   cwd=REPO, env=GOENV, timeout=900)
            if p.returncode != 0:
                raise TreeBreaks("the harness (drivers + add-only accessors overlaid on the tree under check) does not build against this tree:\n" + p.stdout[-3000:] + p.stderr[-6000:])
            # each check works on its own copy so that parallel checks do not race on the binary
            mine = os.path.join(BUILD, "verifharness." + self.pid)
            shutil.copy2(exe, mine)
        self.exe = mine
        return mine

    def run_harness(self, sub, args=(), timeout=1200, cwd=None, allow_fail=False, extra_env=None):
        env = dict(GOENV, VERIF_SEED=str(self.seed), VERIF_TIER=self.tier)
        if extra_env:
            env.update(extra_env)
        try:
            p = sh([self.exe, sub] + list(args), cwd=cwd or REPO, env=env, timeout=timeout)
        except subprocess.TimeoutExpired as e:
            # the implementation (or the harness) did not finish: not a verdict by itself; recorded as a broken
            # obligation so that the run ends with a VIOLATION ... no-failing-input-found unless an oracle line says more
            class P: returncode = 124; stdout = (e.stdout or b"").decode("utf-8", "replace") if isinstance(e.stdout, bytes) else (e.stdout or ""); stderr = "harness timeout"
            p = P()
            self.oblige("harness:%s terminates within %ss" % (sub, timeout), False, "timeout")
            self.broken.append("harness %s did not terminate within %s s (the implementation may be spinning)" % (sub, timeout))
            allow_fail = True
        if p.returncode == 3:
            allow_fail = True   # watchdog fired: the oracle line emitted before exit carries the failing input
        if p.returncode != 0 and not allow_fail:
            raise TreeBreaks("harness %s ended abnormally (exit %d) on this tree:\n%s" % (sub, p.returncode, p.stderr[-6000:]))
        lines = []
        for ln in p.stdout.splitlines():
            ln = ln.strip()
            if ln.startswith("{"):
                try:
                    lines.append(json.loads(ln))
                except Exception:
                    pass
        self.last_harness = p
        return lines

    # ---------- Coq ----------
    def grep_forbidden(self):
        bad = []
        for root in (os.path.join(COQ, "theories"), os.path.join(COQ, "obl")):
            for dp, _, fs in os.walk(root):
                for f in fs:
                    if f.endswith(".v"):
                        txt = open(os.path.join(dp, f)).read()
                        txt = re.sub(r"\(\*.*?\*\)", "", txt, flags=re.S)
                        for m in FORBIDDEN.finditer(txt):
                            bad.append("%s: %s" % (os.path.join(dp, f), m.group(0)))
        self.oblige("no_forbidden_vernacular(Admitted/admit/Axiom/Parameter/Conjecture/unset checks)", not bad, "; ".join(bad[:5]))
        return not bad

    def coq_make(self):
        """(re)build every theory that is stale; no-op after setup_cmd."""
        with open(os.path.join(BUILD, ".lock"), "w") as lk:
            fcntl.flock(lk, fcntl.LOCK_EX)
            if not os.path.exists(os.path.join(COQ, "Makefile")) or self._coqproject_stale():
                sh([os.path.join(VERIF, "tools", "mkcoqproject.sh")], check=True)
            p = sh(["make", "-C", COQ, "-j16", "-k"], timeout=3000)
        ok = p.returncode == 0
        self.make_log = p.stdout[-3000:] + p.stderr[-6000:]
        return ok

    def _coqproject_stale(self):
        want = set()
        for dp, _, fs in os.walk(os.path.join(COQ, "theories")):
            for f in fs:
                if f.endswith(".v"):
                    want.add(os.path.relpath(os.path.join(dp, f), COQ))
        have = set(l.strip() for l in open(os.path.join(COQ, "_CoqProject")) if l.strip().endswith(".v"))
        return want != have

    def coqc(self, path, timeout=1800):
        args = ["coqc", "-R", os.path.join(COQ, "theories"), "Crem", "-R", GEN, "CremGen",
                "-w", "-notation-overridden,-deprecated-hint-without-locality,-deprecated-instance-without-locality,-ambiguous-paths",
                path]
        try:
            p = sh(args, cwd=COQ, timeout=timeout)
        except subprocess.TimeoutExpired:
            class R: returncode = 124; stdout = ""; stderr = "coqc timeout"
            return R()
        return p

    def check_theorems(self, relpath):
        """Re-compiles theories/<relpath> (statements + `exact lemma` + Print Assumptions), records one
        obligation per Theorem/Corollary/Example in it and the printed assumptions."""
        path = os.path.join(COQ, "theories", relpath)
        src = open(path).read()
        names = re.findall(r"^\s*(?:Theorem|Corollary|Example|Lemma)\s+([A-Za-z0-9_']+)", src, flags=re.M)
        p = self.coqc(path)
        ok = p.returncode == 0
        if ok:
            self.parse_assumptions(src, p.stdout, relpath)
        for n in names:
            self.oblige("theorem:" + n, ok, "" if ok else (p.stderr or p.stdout)[-1500:])
        if not ok:
            self.broken.append("theories/%s (%s)" % (relpath, self._first_error(p)))
        return ok

    def _first_error(self, p):
        m = re.search(r'File "([^"]+)", line (\d+).*?\n(Error:.*?)(?:\n\n|\Z)', p.stderr + p.stdout, flags=re.S)
        if m:
            return "%s:%s %s" % (os.path.basename(m.group(1)), m.group(2), " ".join(m.group(3).split())[:300])
        return "coqc exit %s" % p.returncode

    def parse_assumptions(self, src, stdout, relpath):
        printed = re.findall(r"Print Assumptions\s+([A-Za-z0-9_']+)\.", src)
        blocks = re.split(r"(?m)^(?=Closed under the global context|Axioms:)", stdout)
        blocks = [b.strip() for b in blocks if b.strip().startswith(("Closed under", "Axioms:"))]
        for n, b in zip(printed, blocks):
            if b.startswith("Closed"):
                self.assumptions_printed[n] = "Closed under the global context"
            else:
                axs = re.findall(r"(?m)^([A-Za-z0-9_.']+)\s*:", b)
                self.assumptions_printed[n] = "Axioms: " + ", ".join(axs)

    def coq_cases(self, name, body, timeout=1800):
        """Writes gen/<name>.v, compiles it, returns (ok, stdout, stderr)."""
        path = os.path.join(GEN, name + ".v")
        with open(path, "w") as fh:
            fh.write(body)
        p = self.coqc(path, timeout=timeout)
        return p.returncode == 0, p.stdout, p.stderr

    def correspondence(self, name, body, label=None, ncases=None, timeout=1800):
        """body must end by printing a definition M : list nat of mismatching case indices."""
        ok, so, se = self.coq_cases(name, body, timeout=timeout)
        label = label or ("correspondence:" + name)
        if not ok:
            self.oblige(label, False, (se or so)[-1500:])
            self.broken.append("%s (gen/%s.v does not compile: %s)" % (label, name, " ".join((se or so).split())[-300:]))
            return None
        m = re.search(r"M\s*=\s*(\[.*?\])\s*:\s*list", so, flags=re.S)
        if not m:
            self.oblige(label, False, "cannot parse mismatch list: " + so[-500:])
            self.broken.append(label + " (unparsable output)")
            return None
        idx = [int(x) for x in re.findall(r"\d+", m.group(1))]
        self.oblige(label, not idx, "" if not idx else "mismatching case indices: %s" % idx[:20])
        if idx:
            self.broken.append("%s (model and implementation differ on %d of %s cases, first index %d)" %
                               (label, len(idx), ncases if ncases is not None else "?", idx[0]))
        return idx

    def oblige(self, name, ok, detail=""):
        self.obligations.append((name, bool(ok), detail))

    # ---------- verdict ----------
    def finish(self, known_matchers=None):
        findings = load_known()
        pid = self.pid
        viol_lines, known_lines = [], []
        undischarged = [o for o in self.obligations if not o[1]]
        # 1. failing inputs shown on the real code
        unlisted = []
        for fi in self.failing_inputs:
            k = match_known(findings, pid, fi)
            if k:
                known_lines.append("KNOWN-FINDING: property=%s %s" % (pid, k["what"]))
            else:
                unlisted.append(fi)
        replay = None
        if unlisted:
            replay = self.write_replay({"property": pid, "kind": "failing-input", "seed": self.seed, "tier": self.tier,
                                        "failing_inputs": unlisted[:20], "count": len(unlisted),
                                        "broken_obligations": self.broken})
            viol_lines.append("VIOLATION property=%s replay=%s" % (pid, replay))
        elif undischarged and not self._all_explained_by_known(undischarged, findings):
            replay = self.write_replay({"property": pid, "kind": "broken-obligation", "seed": self.seed, "tier": self.tier,
                                        "no_longer_checks": self.broken or [o[0] for o in undischarged],
                                        "undischarged": [{"obligation": o[0], "detail": o[2]} for o in undischarged[:20]],
                                        "search": "implementation-side oracle found no failing input in this tier's domain"})
            viol_lines.append("VIOLATION property=%s replay=%s no-failing-input-found" % (pid, replay))
        for l in sorted(set(known_lines)):
            print(l)
        for l in viol_lines:
            print(l)
        self.write_evidence(len(viol_lines), sorted(set(known_lines)))
        return 1 if viol_lines else 0

    def _all_explained_by_known(self, undischarged, findings):
        return False

    def write_replay(self, obj):
        h = hashlib.sha1(json.dumps(obj, sort_keys=True, default=str).encode()).hexdigest()[:10]
        path = os.path.join(VERIF, "replays", "%s-%s.json" % (self.pid, h))
        with open(path, "w") as fh:
            json.dump(obj, fh, indent=1, default=str)
        return path

    def write_evidence(self, violations, known_lines):
        nob = len(self.obligations)
        ndis = sum(1 for o in self.obligations if o[1])
        cov = {
            "obligations": nob, "discharged": ndis,
            "checker_cmd": "make -C /verif/coq (coq_makefile, coqc 8.16.1, full .vo) + coqc on theories/Properties/%s.v and gen/cases_%s*.v; run by: tools/check.py %s --tier %s" % (self.pid, self.pid, self.pid, self.tier),
            "trusted_base": COQ_TRUSTED_BASE + self.extra_trusted,
            "obligation_list": [{"name": o[0], "discharged": o[1], **({"detail": o[2]} if o[2] else {})} for o in self.obligations],
            "assumptions_printed": self.assumptions_printed,
            "samples": self.samples[:8] if self.samples else [{"note": "no samples recorded"}],
            "input_distribution": self.stats,
            "known_findings_printed": known_lines,
            "notes": self.notes,
        }
        cov.update(self.coverage)
        ev = {"property_id": self.pid, "tier": self.tier, "seed": self.seed, "level": "proof",
              "coverage": cov, "assumptions": self.assumptions, "wall_s": round(time.time() - self.t0, 2),
              "violations": violations}
        # evidence/<id>.json describes runs against /repo itself; runs against a scratch tree (VERIF_REPO=..., used for
        # mutation tests) write to build/evidence-scratch/ so that they never overwrite the committed record
        edir = os.path.join(VERIF, "evidence")
        if os.path.realpath(REPO) != "/repo":
            edir = os.path.join(BUILD, "evidence-scratch")
            os.makedirs(edir, exist_ok=True)
        with open(os.path.join(edir, self.pid + ".json"), "w") as fh:
            json.dump(ev, fh, indent=1, default=str)


def load_known():
    """known_findings.json plus per-property fragments tools/props/CXX.known.json (same format; fragments exist
    so that slices developed in parallel never edit a shared file).  Read-only at run time."""
    import glob
    p = os.path.join(VERIF, "known_findings.json")
    k = {"findings": [], "fixed": []}
    if os.path.exists(p):
        k = json.load(open(p))
    for f in sorted(glob.glob(os.path.join(VERIF, "tools", "props", "C*.known.json"))):
        frag = json.load(open(f))
        k["findings"] += frag.get("findings", [])
        k["fixed"] += frag.get("fixed", [])
    return k


def match_known(findings, pid, fi):
    """A failing input is `known` iff a listed finding of the same property has a matcher all of whose
    key/regex pairs match the failing input's fields."""
    for f in findings.get("findings", []):
        if f.get("property") != pid:
            continue
        m = f.get("match", {})
        if m and all(re.search(v, str(fi.get(k, ""))) for k, v in m.items()):
            return f
    return None


def main():
    import argparse
    ap = argparse.ArgumentParser()
    ap.add_argument("pid")
    ap.add_argument("--tier", default=os.environ.get("VERIF_TIER") or "quick")
    ap.add_argument("--replay")
    a = ap.parse_args()
    seed = int(os.environ.get("VERIF_SEED") or 1)
    tier = a.tier if a.tier in ("quick", "thorough") else "quick"
    ctx = Ctx(a.pid, tier, seed)
    try:
        mod = importlib.import_module("props." + a.pid)
        if a.replay:
            print(open(a.replay).read())
            if hasattr(mod, "replay"):
                return mod.replay(ctx, a.replay)
            print("re-running the check that produced this replay (same seed/tier) ...")
            rp = json.load(open(a.replay))
            ctx.seed, ctx.tier = int(rp.get("seed", seed)), rp.get("tier", tier)
        ctx.grep_forbidden()
        if not ctx.coq_make():
            # a theory no longer compiles: every theorem file below decides which obligation broke
            ctx.notes.append("make failed: " + ctx.make_log[-1500:])
        mod.run(ctx)
        return ctx.finish()
    except TreeBreaks as e:
        msg = " ".join(str(e).split())
        ctx.oblige("harness:builds_and_runs_to_completion_on_the_tree", False, msg[:1500])
        ctx.broken.append("tie to the source broken: " + msg[:700])
        try:
            return ctx.finish()
        except Exception as e2:  # finishing needs nothing from the cut-short run, but never hide the verdict
            print("VIOLATION property=%s replay=%s no-failing-input-found" % (a.pid, "(none: " + str(e2)[:200] + ")"))
            return 1
    except Abort as e:
        print("ERROR: " + str(e), file=sys.stderr)
        return 2


if __name__ == "__main__":
    sys.exit(main())
