#!/usr/bin/env python3
"""Writes /verif/MANIFEST.json from the table below (kept in one place so it stays valid)."""
import json, os
V = os.path.dirname(os.path.dirname(os.path.abspath(__file__)))
ALL = ["C%02d" % i for i in range(1, 21)]

CHECKS = {
 "C17": dict(
   text="Theorems in Coq over lists of exact rationals of ANY equal length: the two-pass scan of Dominates never panics and returns true "
        "iff the strict Pareto order holds; irreflexive, asymmetric, transitive; IsDominatedBy is the converse; NoDominancePresent is symmetric "
        "and true on equal vectors. Tie: correspondence check (vm_compute of the model on the implementation's inputs/outputs) exhaustive on a "
        "value grid with signed zeros + random float64 pairs with ties and one-ulp neighbours.",
   note="Trusted: Coq kernel+vm_compute; hand-written model Dominance.v tied by differential runs (generator quality bounds the tie); floats exported "
        "exactly as m*2^e; NaN/Inf outside the quantifier; Print Assumptions: closed under the global context.",
   technique="Coq proof (induction over vector length) + exhaustive/random correspondence via vm_compute",
   design="8/C17"),
}

def load_fragments():
    """tools/props/CXX.manifest.json: {"text","note","technique","design"} -- one per claimed property, so that
    slices developed in parallel never edit a shared file."""
    import glob
    for f in sorted(glob.glob(os.path.join(V, "tools", "props", "C*.manifest.json"))):
        pid = os.path.basename(f).split(".")[0]
        CHECKS[pid] = json.load(open(f))

NA_REASONS = {}

def main():
    load_fragments()
    checks = []
    for pid in ALL:
        if pid not in CHECKS:
            continue
        c = CHECKS[pid]
        checks.append({
            "property_id": pid,
            "quick_cmd": "python3 tools/check.py %s --tier quick" % pid,
            "thorough_cmd": "python3 tools/check.py %s --tier thorough" % pid,
            "evidence_file": "/verif/evidence/%s.json" % pid,
            "replay_cmd_template": "python3 tools/check.py %s --replay {path}" % pid,
            "engine": "coq-proof+correspondence",
            "level_claimed": {"category": "proof", "text": c["text"], "design_ref": "DESIGN.md section " + c["design"]},
            "level_note": c["note"],
            "technique": c["technique"],
        })
    na = [{"property_id": pid, "reason": NA_REASONS.get(pid) or "no check registered yet: the Coq model/proof for this property is still being built in this round (DESIGN.md section 8 gives the planned theorem); nothing is claimed for it"}
          for pid in ALL if pid not in CHECKS]
    m = {
        "version": 1,
        "setup_cmd": "sh tools/setup.sh",
        "hooks": {"guard": "verif",
                  "enable": "go build -tags verif -overlay build/overlay.json (harness sources of /verif/harness are overlaid as /repo/internal/verifharness; hooks inside existing packages are //go:build verif files)",
                  "baseline_off_cmd": "cd /repo && GOFLAGS=-mod=mod GOPROXY=off GOSUMDB=off GOTOOLCHAIN=local go test -vet=off -count=1 -timeout 25m ./...",
                  "source_commits": HOOK_COMMITS, "add_only": True},
        "engines": [{"name": "coq-proof+correspondence", "path": "/verif/coq", "serves_properties": [c["property_id"] for c in checks],
                     "kind_free_text": "Coq 8.16.1 theories (models, proofs, Properties/Cxx.v) + Go harness overlaid into /repo + tools/check.py orchestrator"}],
        "checks": checks,
        "not_applicable": na,
        "notes": "Every check: rebuilds the harness from /repo's working tree, re-checks the Coq obligations, runs the correspondence; on a break searches for a failing input (DESIGN.md section 5).",
    }
    with open(os.path.join(V, "MANIFEST.json"), "w") as fh:
        json.dump(m, fh, indent=1)

HOOK_COMMITS = []   # hook commits in /repo (none: all hooks are overlaid from /verif/harness/overlay at build time)
if __name__ == "__main__":
    main()
