#!/bin/bash
# tools/seedtest.sh <seed-name> <property> <outdir-of-red-team-agent> [more properties to run]
# Confirms a seeded change independently (applies on a clean scratch worktree of /repo HEAD; suite passes; demo fails
# with it and passes without it), runs the /verif check(s) against it, and files it under /verif/seeded/<seed-name>/.
set -u
name=$1; prop=$2; out=$3; shift 3; extra="$@"
export GOFLAGS=-mod=mod GOPROXY=off GOSUMDB=off GOTOOLCHAIN=local
V=${VERIF_HOME:-/verif}; W=/tmp/sv-$name
git -C /repo worktree remove --force $W 2>/dev/null
git -C /repo worktree add -q $W HEAD || exit 2
res=$V/seeded/$name; mkdir -p $res; cp -r $out/. $res/ 2>/dev/null
log=$res/confirm.log; : > $log
cd $W
( bash $out/demo.sh ) >> $log 2>&1; demo_without=$?
git checkout -q . ; git clean -fdq
git apply $out/patch.diff >> $log 2>&1 || { echo "$name: PATCH DOES NOT APPLY"; exit 2; }
go build ./... >> $log 2>&1; build=$?
go test -vet=off -count=1 ./... > $res/suite.log 2>&1; suite=$?
( bash $out/demo.sh ) >> $log 2>&1; demo_with=$?
git clean -fdq   # remove the demonstration, keep the patch
cd $V
verdicts=""
for p in $prop $extra; do
  o=$(VERIF_REPO=$W timeout 1500 python3 tools/check.py $p 2>&1); rc=$?
  echo "== check $p rc=$rc" >> $log; echo "$o" | cut -c1-400 >> $log
  verdicts="$verdicts $p:rc=$rc"
  rp=$(echo "$o" | grep -o 'replay=[^ ]*' | head -1 | cut -d= -f2)
  [ -n "$rp" ] && [ -f "$rp" ] && cp "$rp" $res/replay-$p.json
done
echo "$name build=$build suite=$suite demo_without=$demo_without demo_with=$demo_with checks:$verdicts" | tee -a $log
python3 - "$res" "$name" "$prop" "$build" "$suite" "$demo_without" "$demo_with" "$verdicts" <<'PY'
import json,sys,os
res,name,prop,build,suite,dw,dwi,verd=sys.argv[1:9]
p=os.path.join(res,'meta.json')
m=json.load(open(p)) if os.path.exists(p) else {}
m['confirmed_by_main']={'repo_head':os.popen('git -C /repo rev-parse --short HEAD').read().strip(),'build_rc':int(build),'suite_rc':int(suite),
  'demo_rc_without_change':int(dw),'demo_rc_with_change':int(dwi),'checks':verd.strip(),
  'ran':'tools/seedtest.sh: fresh worktree of /repo HEAD; demo.sh without patch; git apply patch.diff; go build; go test -vet=off -count=1 ./...; demo.sh with patch; VERIF_REPO=<worktree> python3 tools/check.py <property>'}
json.dump(m,open(p,'w'),indent=1)
PY
git -C /repo worktree remove --force $W
rm -f $V/replays/*.json
