#!/bin/sh
# independent re-check of every compiled property file (and everything it depends on); writes the axiom summary
cd "$(dirname "$0")/../coq"
mods=$(ls theories/Properties/*.v | sed 's|theories/||; s|/|.|g; s|\.v$||; s|^|Crem.|')
coqchk -silent -o -R theories Crem $mods > ../build/coqchk.log 2>&1; rc=$?
{ echo "coqchk -silent -o over: $mods"; echo "exit status: $rc"; grep -v '^ *$' ../build/coqchk.log; } > ../coqchk_axioms.txt
exit $rc
