"""JSON (harness/catch.go) -> Gallina terms of Catchment.v / CatchmentCorr.v (trusted correspondence glue)."""
import coqgen as g

MV = {
    "OriginalBufferVegetation": "OriginalBufferVegetation", "ActionedBufferVegetation": "ActionedBufferVegetation",
    "OriginalRiparianSedimentProduction": "OriginalRiparianSedimentProduction",
    "ActionedRiparianSedimentProduction": "ActionedRiparianSedimentProduction",
    "OriginalGullySediment": "OriginalGullySediment", "ActionedGullySediment": "ActionedGullySediment",
    "HillSlopeErosionOriginal": "HillSlopeErosionOriginalAttribute", "HillSlopeErosionActioned": "HillSlopeErosionActionedAttribute",
    "SedimentRemovalEfficiency": "SedimentRemovalEfficiency",
    "ParticulateNitrogenOriginal": "ParticulateNitrogenOriginalAttribute", "ParticulateNitrogenActioned": "ParticulateNitrogenActionedAttribute",
    "FineSedimentOriginal": "FineSedimentOriginalAttribute", "FineSedimentActioned": "FineSedimentActionedAttribute",
    "ParticulateNitrogenRemovalEfficiency": "ParticulateNitrogenRemovalEfficiency",
    "DissolvedNitrogenOriginal": "DissolvedNitrogenOriginalAttribute", "DissolvedNitrogenActioned": "DissolvedNitrogenActionedAttribute",
    "DissolvedNitrogenRemovalEfficiency": "DissolvedNitrogenRemovalEfficiency",
}
TYPES = {"GullyRestoration": "Gully", "HillSlopeRestoration": "HillSlope", "RiverBankRestoration": "Riparian",
         "WetlandsEstablishment": "Wetland"}
VK = ["VSed", "VPN", "VDN", "VTN", "VIC", "VOC"]


def mvname(goname, atype):
    if goname.endswith("OpportunityCost"):
        return "OpportunityCostVar"
    if goname.endswith("Cost"):
        return "ImplementationCostVar"
    if goname not in MV:
        raise KeyError("unknown model variable name exported by the implementation: " + goname)
    return MV[goname]


def ctx(six):
    return "(mkCtx %s)" % " ".join(g.fl(x) for x in six)


def action(a):
    t = TYPES[a["type"]]
    vs = ["(%s, %s)" % (mvname(v["n"], t), g.fl(v["v"])) for v in a["vars"]]
    return "(mkAction %s %s %s)" % (g.z(a["pu"]), t, g.lst(vs))


def dataset(ds):
    pus = ds["pus"]
    rows = []
    for k in range(3):
        rows.append(g.lst(["(%s, %s)" % (g.z(pu), ctx(ds["base"][k][j])) for j, pu in enumerate(pus)]))
    lim = "None"
    if ds.get("limit"):
        lim = "(Some (%s, %s))" % (VK[ds["limit"]["var"]], g.fl(ds["limit"]["max"]))
    return "(mkData %s\n   %s\n   (base_of %s\n            %s\n            %s)\n   %s)" % (
        g.lst([g.z(p) for p in pus]), g.lst([action(a) for a in ds["actions"]]), rows[0], rows[1], rows[2], lim)


def nat(n):
    return "%d%%nat" % int(n)


def bits(bs):
    return g.lst([g.b(x == 1 or x is True) for x in bs])


def op(o):
    k = o["op"]
    if k == "TA":
        return "(TryAccept %s)" % nat(o["i"])
    if k == "TR":
        return "(TryRevert %s)" % nat(o["i"])
    if k == "TAR":
        return "(TryAcceptRevert %s)" % nat(o["i"])
    if k == "SET":
        return "(SetAct %s %s)" % (nat(o["i"]), g.b(o["b"]))
    if k == "INIT":
        return "(InitSet %s %s %s)" % (nat(o["i"]), g.b(o["b"]), g.b(o["l"]))
    if k == "SYNC":
        return "(Sync %s)" % bits(o["bits"])
    if k == "REINIT":
        return "Reinit"
    raise KeyError(k)


def obs(o):
    vars_ = ["(mkVO %s %s)" % (g.z(t), g.lst([g.z(v) for v in vs])) for t, vs in zip(o["totals"], o["vals"])]
    return "(mkObs %s %s)" % (bits(o["active"]), g.lst(vars_))


def attrs(a):
    return g.lst([g.lst([ctx(x) for x in row]) for row in a])


def walk(w):
    return "(mkWalk %s\n    %s\n    %s)" % (g.lst([op(o) for o in w["ops"]]), g.lst([obs(o) for o in w["obs"]]), attrs(w["final_attrs"]))


HEADER = g.HEADER + "From Crem Require Import Base.Res Base.Fl Catchment CatchmentCorr.\nOpen Scope Z_scope.\n"


def txcase(c):
    lim = "None"
    if c.get("limit"):
        lim = "(Some (%s, %s))" % (VK[c["limit"]["var"]], g.fl(c["limit"]["max"]))
    quote = "(Some %s)" % g.z(c["quote"]) if c.get("has_quote") else "None"
    return "(mkTx %s %s %s %s\n    %s\n    %s\n    %s %s %s\n    %s %s)" % (
        lim, bits(c["bits"]), nat(c["i"]), nat(c.get("dec", 0 if c["accept"] else 1)), obs(c["before"]), obs(c["during"]),
        g.lst([g.z(x) for x in c["changes"]]), g.b(c["valid"]), quote, obs(c["after"]), g.b(c["state_valid"]))


def run_tx_correspondence(ctx, prop, shard=30):
    """Shared by C02/C10/C11: (state, action, decision) transactions -> gen/cases_<prop>_<k>.v."""
    lines = ctx.run_harness(prop, [ctx.tier], timeout=3000)
    for l in lines:
        if l.get("kind") == "oracle":
            ctx.failing_inputs.append(l)
        if l.get("kind") == "stat":
            ctx.stats = l["stats"]
    datasets = [l for l in lines if l.get("kind") == "dataset"]
    from concurrent.futures import ThreadPoolExecutor
    all_cases, jobs, k = [], [], 0
    for ds in datasets:
        name = ds["name"]
        cases = [l for l in lines if l.get("kind") == "case" and l["dataset"] == name]
        all_cases += cases
        dterm = dataset(ds)
        for sh in g.chunks(cases, shard):
            body = HEADER
            body += "Definition d : dataset :=\n  %s.\n" % dterm
            body += "Definition cases : list txcase := %s.\n" % g.lst([txcase(c) for c in sh])
            body += "Definition M := Eval vm_compute in (if wf_dataset d then tx_mismatches d cases 0 else [9999%nat]).\nPrint M.\n"
            jobs.append((k, name, sh, body))
            k += 1

    def one(job):
        k, name, sh, body = job
        return job, ctx.correspondence("cases_%s_%d" % (prop, k), body, label="correspondence:%s:%s:%d" % (prop, name, k), ncases=len(sh))

    with ThreadPoolExecutor(max_workers=8) as ex:
        results = list(ex.map(one, jobs))
    for (k, name, sh, body), idx in results:
        if idx:
            for i in idx[:3]:
                if i < len(sh):
                    ctx.notes.append({"mismatch": {kk: sh[i][kk] for kk in ("dataset", "bits", "i", "accept", "limit", "changes", "valid", "quote")}})
    return all_cases
