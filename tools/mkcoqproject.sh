#!/bin/sh
# Regenerates coq/_CoqProject from the files present under coq/theories
# (full .vo build through coq_makefile; never -vos/-vok).
set -e
cd "$(dirname "$0")/../coq"
{
  echo "-R theories Crem"
  echo "-arg -w -arg -notation-overridden,-deprecated-hint-without-locality,-deprecated-instance-without-locality,-ambiguous-paths"
  find theories -name '*.v' | LC_ALL=C sort
} > _CoqProject
coq_makefile -f _CoqProject -o Makefile >/dev/null
