#!/usr/bin/env python3
"""Regenerates the machine-derived tables of DESIGN.md section 15 (between the AS-BUILT markers) from
evidence/*.json, seeded/*/meta.json, known findings and /repo's fix: commits."""
import json, glob, os, re, subprocess
V = os.path.dirname(os.path.dirname(os.path.abspath(__file__)))


def evidence_table():
    rows = ["| id | tier | wall s | obligations (discharged) | theorems+examples | evaluations / distinct | stdlib axioms printed |",
            "|---|---|---|---|---|---|---|"]
    for f in sorted(glob.glob(os.path.join(V, "evidence", "C*.json"))):
        e = json.load(open(f)); c = e["coverage"]
        ax = set()
        for v in c.get("assumptions_printed", {}).values():
            if not v.startswith("Closed"):
                ax.update(x.strip() for x in v.replace("Axioms:", "").split(","))
        ax = sorted(a for a in ax if a and a != "Axioms" and "Prim" not in a and not a[0].islower())
        fam = []
        if any("ClassicalDedekind" in a or "Classical_Prop" in a for a in ax):
            fam.append("classical reals (sig_forall_dec, sig_not_dec, classic)")
        if any("functional_extensionality" in a for a in ax):
            fam.append("functional_extensionality_dep")
        if any(a.startswith("Uint63") for a in ax):
            fam.append("Uint63 primitive-int specs")
        nthm = len([o for o in c.get("obligation_list", []) if o["name"].startswith("theorem:")])
        rows.append("| %s | %s | %s | %s (%s) | %s | %s / %s | %s |" % (
            e["property_id"], e["tier"], e["wall_s"], c["obligations"], c["discharged"], nthm,
            c.get("evaluations"), c.get("distinct_nontrivial"), "; ".join(fam) or "none (closed under the global context)"))
    return "\n".join(rows)


def seeds_table():
    rows = ["| seed | property | what the independent change breaks | needs to manifest | suite with change | demo without / with | /verif check verdict |",
            "|---|---|---|---|---|---|---|"]
    for d in sorted(glob.glob(os.path.join(V, "seeded", "*"))):
        mp = os.path.join(d, "meta.json")
        if not os.path.exists(mp):
            continue
        m = json.load(open(mp)); c = m.get("confirmed_by_main", {})
        verd = c.get("checks", "")
        verd = verd.replace("rc=1", "VIOLATION").replace("rc=0", "quiet (missed)")
        note = m.get("main_note", "")
        rows.append("| %s | %s | %s | %s | %s | %s / %s | %s %s |" % (
            os.path.basename(d), m.get("property", ""), str(m.get("what_breaks", "")).replace("|", "/").replace("\n", " ")[:260],
            str(m.get("needs_to_manifest", "")).replace("|", "/").replace("\n", " ")[:200],
            "pass" if c.get("suite_rc") == 0 else "FAIL", "pass" if c.get("demo_rc_without_change") == 0 else "fail",
            "fail" if c.get("demo_rc_with_change") not in (0, None) else "pass", verd, note))
    return "\n".join(rows)


def fixes_table():
    out = subprocess.run(["git", "-C", "/repo", "log", "--format=%h %s", "--reverse", "f120658..HEAD"], stdout=subprocess.PIPE, text=True).stdout
    rows = ["| commit | fix |", "|---|---|"]
    for l in out.splitlines():
        h, s = l.split(" ", 1)
        rows.append("| %s | %s |" % (h, s.replace("|", "/")[:230]))
    return "\n".join(rows)


def findings_table():
    import sys
    sys.path.insert(0, os.path.join(V, "tools"))
    import check
    k = check.load_known()
    rows = ["| property | id | what fails (listed, not repaired) |", "|---|---|---|"]
    for f in k["findings"]:
        rows.append("| %s | %s | %s |" % (f["property"], f.get("id", ""), f["what"].replace("|", "/")[:300]))
    return "\n".join(rows)


def main():
    p = os.path.join(V, "DESIGN.md")
    s = open(p).read()
    for tag, fn in (("EVIDENCE", evidence_table), ("SEEDS", seeds_table), ("FIXES", fixes_table), ("FINDINGS", findings_table)):
        b, e = "<!-- AS-BUILT:%s:BEGIN -->" % tag, "<!-- AS-BUILT:%s:END -->" % tag
        if b in s and e in s:
            i, j = s.index(b) + len(b), s.index(e)
            s = s[:i] + "\n" + fn() + "\n" + s[j:]
    open(p, "w").write(s)


if __name__ == "__main__":
    main()
