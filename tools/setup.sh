#!/bin/sh
# MANIFEST.setup_cmd: offline build of the framework from files on disk only.
set -e
cd "$(dirname "$0")/.."
export GOFLAGS=-mod=mod GOPROXY=off GOSUMDB=off GOTOOLCHAIN=local
mkdir -p build coq/gen evidence replays
# 1. forbidden vernacular must not occur anywhere in the development (comments stripped)
python3 - <<'PY'
import sys; sys.path.insert(0, "tools")
import check
c = check.Ctx("setup", "quick", 1)
if not c.grep_forbidden():
    print("forbidden vernacular:", c.obligations[-1][2], file=sys.stderr); sys.exit(1)
PY
# 2. clean full .vo build (never -vos/-vok)
tools/mkcoqproject.sh
make -C coq clean >/dev/null 2>&1 || true
timeout 3000 make -C coq -j16 > build/setup_make.log 2>&1 || { tail -50 build/setup_make.log; exit 1; }
# 3. pre-build the harness against /repo (warms the Go build cache)
python3 - <<'PY'
import sys; sys.path.insert(0, "tools")
import check
c = check.Ctx("setup", "quick", 1)
c.build_harness()
PY
echo "setup ok"
