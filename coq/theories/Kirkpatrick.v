(* Model of the single-objective (Kirkpatrick) acceptance rule (C04).

   Go sources transcribed, as written:
     internal/pkg/annealing/explorer/kirkpatrick/Explorer.go
        TryRandomChange, AcceptOrRevertChange, reportInvalidChange, changeTriedIsDesirable,
        calculateChangeInObjectiveValue, setAcceptanceProbability, AcceptLastChange,
        RevertLastChange, CoolDown
     internal/pkg/annealing/cooling/coolants/kirkpatrick/Coolant.go
        DecideIfAcceptable, calculateAcceptanceProbability, CoolDown
     internal/pkg/rand/Rand.go
        Float64Unitary

   Numerics (DESIGN section 3(b)): every float64 is a Coq primitive binary64 ([PrimFloat], IEEE
   round-to-nearest-even, evaluated natively by vm_compute).  [math.Exp] has no Coq primitive:
   its RESULT [e] is an input of the step; the ARGUMENT the code hands to it is modelled
   ([exp_arg]) and cross-checked bit-for-bit by the correspondence.

   Order of tests in AcceptOrRevertChange (and what each branch stores in the exported field
   Coolant.AcceptanceProbability, the "reported probability"):

     1. ke.Model().ChangeIsValid() false
          -> reportInvalidChange (reads the change, sets changeInvalid), revertChange().
             AcceptanceProbability is NOT touched: it keeps the value of the previous proposal
             (0 before the first one).  changeIsDesirable is not touched either.  No draw.
     2. changeTriedIsDesirable():  Minimising: change < 0 ;  Maximising: change > 0
        (strict: a ZERO change is NOT desirable in either direction; a NaN change neither)
          -> setAcceptanceProbability(Guaranteed) = math.Min(1, 1) = 1, acceptChange().  No draw.
     3. otherwise DecideIfAcceptable(change):
             AcceptanceProbability = math.Exp(-math.Abs(change) / Temperature)   (no clamp)
             randomValue = Float64Unitary()                                      (ONE draw)
             accept  iff  AcceptanceProbability > randomValue                    (strict)

   The objective value itself is NOT kept by the explorer: ObjectiveValue() reads
   Model().DecisionVariable(name).Value(), and the explorer only calls Model().AcceptChange() or
   Model().RevertChange().  "Objective after = objective before + reported change" is therefore a
   law of the model being explored; it is stated over an abstract model interface in
   KirkpatrickProofs.v ([ObjectiveTrace]).

   Outside the property's quantifier (positive temperatures), for the record:
     T = 0, change = 0 : -|0| / 0 = NaN, math.Exp(NaN) = NaN, NaN > u is false -> the proposal is
                         reverted and the reported probability is NaN (not in [0,1]);
     T = 0, change <> 0: -|c| / 0 = -Inf, exp = 0 -> never accepted, probability 0 (harmless).
   SetParameters accepts StartingTemperature = 0 (validator IsNonNegativeDecimal, default 0);
   only SetTemperature rejects T <= 0.  See [C04_nan_at_zero_temperature] and [C04_temperature_can_underflow_to_zero] in Properties/C04.v. *)
From Coq Require Import Floats ZArith Uint63 Bool List.
Import ListNotations.
Open Scope float_scope.

(* optimisationDirection.  The Go type has a third value, Invalid (= 0, the zero value), for which
   the switch in changeTriedIsDesirable has no case: nothing is desirable AND the change is not read
   from the model (the stale objectiveValueChange of the previous proposal is handed to the coolant).
   It is what New() leaves in place until SetParameters runs (annealers.Builder.WithDumbSolutionExplorer
   builds such an explorer); SetParameters can only produce Minimising or Maximising, because an
   unparsable direction string is refused by the validator and the default "Minimising" stays in
   force.  [DirUnset] is outside the property's quantifier ("the configured direction"); it is modelled
   so that the transcription is complete, and exercised by the harness outside the obligations. *)
Inductive direction := DirUnset | Minimise | Maximise.

Definition configured (d : direction) : bool :=
  match d with DirUnset => false | _ => true end.

Inductive decision := RevertInvalid | AcceptDesirable | AcceptUndesirable | RevertUndesirable.

Definition accepts (d : decision) : bool :=
  match d with AcceptDesirable | AcceptUndesirable => true | _ => false end.

(* Explorer + embedded Coolant fields that the acceptance rule reads or writes *)
Record state := mkState {
  st_T : float;            (* Coolant.Temperature *)
  st_cf : float;           (* Coolant.CoolingFactor *)
  st_prob : float;         (* Coolant.AcceptanceProbability  -- the reported probability *)
  st_desirable : bool;     (* Explorer.changeIsDesirable *)
  st_accepted : bool;      (* Explorer.changeAccepted *)
  st_invalid : bool;       (* Explorer.changeInvalid *)
  st_change : float        (* Explorer.objectiveValueChange *)
}.

(* New(): all zero values; WithParameters sets Temperature and CoolingFactor *)
Definition init_state (T cf : float) : state := mkState T cf 0 false false false 0.

(* what one proposal looks like to the explorer *)
Record input := mkInput {
  valid : bool;      (* verdict of Model().ChangeIsValid() *)
  change : float;    (* Model().DecisionVariableChange(objective) *)
  e : float;         (* what math.Exp returned for [exp_arg T change] *)
  u : float          (* what Float64Unitary() returned *)
}.

(* const Guaranteed = 1 *)
Definition guaranteed : float := 1.

(* math.Min, special cases as documented and implemented in Go's math package:
     Min(x, -Inf) = Min(-Inf, x) = -Inf ; Min(x, NaN) = Min(NaN, x) = NaN ; Min(-0, +-0) = Min(+-0, -0) = -0 *)
Definition go_min (x y : float) : float :=
  if (PrimFloat.eqb x neg_infinity || PrimFloat.eqb y neg_infinity)%bool then neg_infinity
  else if (is_nan x || is_nan y)%bool then nan
  else if (PrimFloat.eqb x 0 && PrimFloat.eqb x y)%bool then (if get_sign x then x else y)
  else if x <? y then x else y.

(* setAcceptanceProbability(probability): ke.AcceptanceProbability = math.Min(explorer.Guaranteed, probability) *)
Definition set_acceptance_probability (p : float) : float := go_min guaranteed p.

(* the argument of math.Exp in calculateAcceptanceProbability:
     absoluteChangeInObjectiveValue := math.Abs(objectiveFunctionChange)
     math.Exp(-absoluteChangeInObjectiveValue / c.Temperature)            i.e. (-a) / T *)
Definition exp_arg (T c : float) : float := (- (abs c)) / T.

(* changeTriedIsDesirable: Minimising: change < 0 ; Maximising: change > 0 *)
Definition desirable (d : direction) (c : float) : bool :=
  match d with
  | DirUnset => false
  | Minimise => c <? 0
  | Maximise => 0 <? c
  end.

(* does changeTriedIsDesirable call calculateChangeInObjectiveValue (Model().DecisionVariableChange)? *)
Definition reads_change (d : direction) : bool := configured d.

(* ke.objectiveValueChange after changeTriedIsDesirable: refreshed, or stale *)
Definition change_seen (d : direction) (s_change c : float) : float :=
  if reads_change d then c else s_change.

(* Coolant.DecideIfAcceptable: c.AcceptanceProbability > randomValue *)
Definition decide_if_acceptable (p rnd : float) : bool := rnd <? p.

(* AcceptOrRevertChange (through TryRandomChange / defaultAcceptOrRevertChange) *)
Definition step (d : direction) (s : state) (i : input) : state * decision :=
  if negb (valid i) then
    (* reportInvalidChange: reads the change, sets changeInvalid; revertChange() clears changeAccepted;
       AcceptanceProbability and changeIsDesirable keep their previous values *)
    (mkState (st_T s) (st_cf s) (st_prob s) (st_desirable s) false true (change i), RevertInvalid)
  else
    let c := change_seen d (st_change s) (change i) in
    if desirable d c then
      (mkState (st_T s) (st_cf s) (set_acceptance_probability guaranteed) true true false c,
       AcceptDesirable)
    else if decide_if_acceptable (e i) (u i) then
      (mkState (st_T s) (st_cf s) (e i) false true false c, AcceptUndesirable)
    else
      (mkState (st_T s) (st_cf s) (e i) false false false c, RevertUndesirable).

(* the argument of math.Exp during this step (meaningful when the step draws) *)
Definition step_exp_arg (d : direction) (s : state) (i : input) : float :=
  exp_arg (st_T s) (change_seen d (st_change s) (change i)).

(* does the step consult the random number generator? (observable: calls on the rand.Source) *)
Definition draws (d : direction) (s : state) (i : input) : bool :=
  valid i && negb (desirable d (change_seen d (st_change s) (change i))).

(* calls the explorer makes on its model during one TryRandomChange *)
Inductive call := CTry | CValid | CChange | CAccept | CRevert.

Definition calls_of (d : direction) (dec : decision) : list call :=
  match dec with
  | RevertInvalid => [CTry; CValid; CChange; CRevert]
  | _ => [CTry; CValid] ++ (if reads_change d then [CChange] else [])
                        ++ [if accepts dec then CAccept else CRevert]
  end.

(* Coolant.CoolDown: c.Temperature *= c.CoolingFactor *)
Definition cool_down (s : state) : state :=
  mkState (st_T s * st_cf s) (st_cf s) (st_prob s) (st_desirable s) (st_accepted s) (st_invalid s) (st_change s).

(* rand.Float64Unitary on top of math/rand.Rand.Int63n for the power of two 2^53:
     distributionRange := int64(math.Pow(2, 53))
     float64(r.Int63n(distributionRange)) / float64(distributionRange-1)
   and Int63n(n) = r.Int63() & (n-1) when n is a power of two.  [i63] is what Source.Int63 returned
   (0 <= i63 < 2^63, exactly a Coq uint63).  The decision takes the draw [u] as an input; this
   definition documents where [u] comes from and is compared with the real function outside the
   obligations of C04 (the property does not depend on how the draw is produced). *)
Definition distribution_range_minus_one : int := 9007199254740991%uint63.   (* 2^53 - 1 *)
Definition float64_unitary (i63 : int) : float :=
  of_uint63 (Uint63.land i63 distribution_range_minus_one) / of_uint63 distribution_range_minus_one.

(* ---- a whole history against the explorer alone: proposals, each optionally followed by a
        CoolDown (the annealer calls CoolDown after every TryRandomChange; any interleaving is
        covered).  Output: per proposal the decision and the value of AcceptanceProbability. ---- *)

Definition after_cool (cool : bool) (s : state) : state := if cool then cool_down s else s.

Fixpoint run (d : direction) (s : state) (is : list (input * bool)) : state * list (decision * float) :=
  match is with
  | [] => (s, [])
  | (i, cool) :: is' =>
      let '(s1, dec) := step d s i in
      let '(s2, tr) := run d (after_cool cool s1) is' in
      (s2, (dec, st_prob s1) :: tr)
  end.

(* the range predicate on binary64 values (false on NaN) *)
Definition in01 (x : float) : bool := (0 <=? x) && (x <=? 1).

(* ---- independent statement of the Metropolis table for a configured direction ---- *)
Definition improves (d : direction) (c : float) : bool :=
  match d with Minimise => c <? 0 | Maximise => 0 <? c | DirUnset => false end.

Definition metropolis_spec (d : direction) (i : input) : decision :=
  match valid i, improves d (change i), u i <? e i with
  | false, _, _ => RevertInvalid
  | true, true, _ => AcceptDesirable
  | true, false, true => AcceptUndesirable
  | true, false, false => RevertUndesirable
  end.

(* ---- the explorer composed with a model of the thing being explored (abstract interface).
   [M] model states, [P] what determines a proposal (the model's own random choice), [V] objective
   values.  One annealing iteration = TryRandomChange (model proposes, explorer decides, model
   accepts or reverts) followed or not by CoolDown. ---- *)
Record model_ops (M P V : Type) := mkOps {
  m_propose : M -> P -> M;         (* Model().TryRandomChange() *)
  m_valid : M -> bool;             (* Model().ChangeIsValid() of the pending proposal *)
  m_change : M -> float;           (* Model().DecisionVariableChange(objective) of the pending proposal *)
  m_accept : M -> M;               (* Model().AcceptChange() *)
  m_revert : M -> M;               (* Model().RevertChange() *)
  m_objective : M -> V             (* Model().DecisionVariable(objective).Value() *)
}.
Arguments m_propose {M P V}. Arguments m_valid {M P V}. Arguments m_change {M P V}.
Arguments m_accept {M P V}. Arguments m_revert {M P V}. Arguments m_objective {M P V}.

(* per-iteration inputs that do not come from the model *)
Record draw := mkDraw { d_e : float; d_u : float; d_cool : bool }.

Definition iterate {M P V} (ops : model_ops M P V) (d : direction)
           (sm : state * M) (pq : P * draw) : (state * M) * decision :=
  let '(s, m) := sm in
  let '(p, q) := pq in
  let m1 := m_propose ops m p in
  let '(s1, dec) := step d s (mkInput (m_valid ops m1) (m_change ops m1) (d_e q) (d_u q)) in
  let m2 := if accepts dec then m_accept ops m1 else m_revert ops m1 in
  ((after_cool (d_cool q) s1, m2), dec).

Fixpoint iterations {M P V} (ops : model_ops M P V) (d : direction)
         (sm : state * M) (pqs : list (P * draw)) : (state * M) * list decision :=
  match pqs with
  | [] => (sm, [])
  | pq :: rest =>
      let '(sm1, dec) := iterate ops d sm pq in
      let '(sm2, decs) := iterations ops d sm1 rest in
      (sm2, dec :: decs)
  end.

(* the scripted model of the correspondence harness: the proposal IS the script entry (validity,
   change); the objective is a binary64 to which AcceptChange adds the pending change *)
Record scripted := mkScripted { sc_obj : float; sc_pending_valid : bool; sc_pending_change : float }.

Definition scripted_ops : model_ops scripted (bool * float) float :=
  mkOps scripted (bool * float) float
    (fun m p => mkScripted (sc_obj m) (fst p) (snd p))
    sc_pending_valid
    sc_pending_change
    (fun m => mkScripted (sc_obj m + sc_pending_change m) true 0)
    (fun m => mkScripted (sc_obj m) true 0)
    sc_obj.
