(* C04: the real-number meaning of the binary64 range predicate [in01], through Flocq's bridge between
   Coq's primitive floats and the IEEE-754 formalisation (Flocq.IEEE754.PrimFloat / BinarySingleNaN).
   Kept apart from KirkpatrickProofs.v so that the model's own lemmas do not depend on Flocq. *)
From Coq Require Import Floats ZArith Reals Lra Bool List.
From Flocq Require Import Core BinarySingleNaN.
From Flocq Require IEEE754.PrimFloat.
From Crem Require Import Kirkpatrick KirkpatrickProofs.
Module FP := Flocq.IEEE754.PrimFloat.
Notation pfloat := Coq.Floats.PrimFloat.float.

(* the real number a finite binary64 denotes (0 for infinities and NaN, as in Flocq) *)
Definition real_of (x : pfloat) : R := B2R (FP.Prim2B x).
Definition finite (x : pfloat) : bool := is_finite (FP.Prim2B x).

Lemma real_of_one : real_of 1 = 1%R.
Proof.
  unfold real_of, FP.Prim2B.
  generalize (Prim2SF_valid 1).
  replace (Prim2SF 1) with (S754_finite false 4503599627370496 (-52)) by (vm_compute; reflexivity).
  intros H. cbn [SF2B B2R]. unfold F2R, cond_Zopp.
  cbn [Fnum Fexp bpow radix_val radix2 Z.pow_pos Pos.iter Z.mul Pos.mul].
  simpl. lra.
Qed.

Lemma real_of_zero : real_of 0 = 0%R.
Proof.
  unfold real_of, FP.Prim2B.
  generalize (Prim2SF_valid 0).
  replace (Prim2SF 0) with (S754_zero false) by (vm_compute; reflexivity).
  intros H. reflexivity.
Qed.

Lemma in01_finite : forall x, in01 x = true -> finite x = true.
Proof.
  intros x H. unfold in01 in H. apply andb_prop in H. destruct H as [H0 H1].
  rewrite FP.leb_equiv in H0, H1. unfold finite.
  assert (F1 : is_finite (FP.Prim2B 1) = true) by (vm_compute; reflexivity).
  assert (F0 : is_finite (FP.Prim2B 0) = true) by (vm_compute; reflexivity).
  destruct (FP.Prim2B x) as [s|[]| |s m e Hb] eqn:E; try reflexivity.
  (* -inf and NaN fail 0 <= x; +inf fails x <= 1 *)
  all: try (revert H0; destruct (FP.Prim2B 0) eqn:E0; try discriminate F0; vm_compute; intro Hd; discriminate Hd).
  all: revert H1; destruct (FP.Prim2B 1) eqn:E1; try discriminate F1; vm_compute; intro Hd; discriminate Hd.
Qed.

(* [in01 x] says: x is a finite binary64 whose real value lies in [0,1] *)
Lemma in01_real : forall x, in01 x = true -> finite x = true /\ (0 <= real_of x <= 1)%R.
Proof.
  intros x H. pose proof (in01_finite x H) as Fx. split; [exact Fx|].
  unfold in01 in H. apply andb_prop in H. destruct H as [H0 H1].
  rewrite FP.leb_equiv in H0, H1. unfold finite in Fx.
  assert (F1 : is_finite (FP.Prim2B 1) = true) by (vm_compute; reflexivity).
  assert (F0 : is_finite (FP.Prim2B 0) = true) by (vm_compute; reflexivity).
  rewrite (Bleb_correct _ _ _ _ F0 Fx) in H0.
  rewrite (Bleb_correct _ _ _ _ Fx F1) in H1.
  revert H0. case Rle_bool_spec; [intros H0 _ | intros _ Hd; discriminate Hd].
  revert H1. case Rle_bool_spec; [intros H1 _ | intros _ Hd; discriminate Hd].
  fold (real_of 0) in H0. fold (real_of x) in H0, H1. fold (real_of 1) in H1.
  rewrite real_of_zero in H0. rewrite real_of_one in H1. split; assumption.
Qed.

(* every reported probability of every history is a finite binary64 denoting a real in [0,1] *)
Lemma run_probs_real :
  forall d is s, in01 (st_prob s) = true ->
    Forall (fun ic => in01 (e (fst ic)) = true) is ->
    Forall (fun dp => finite (snd dp) = true /\ (0 <= real_of (snd dp) <= 1)%R) (snd (run d s is)).
Proof.
  intros d is s Hs Hall.
  destruct (run_probs_in01 d is s Hs Hall) as [H _].
  eapply Forall_impl; [|exact H]. intros dp Hdp. apply in01_real. exact Hdp.
Qed.
