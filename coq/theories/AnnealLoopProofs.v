(* Lemmas about the annealing-loop model (C07): traces for every budget N and every fault position. *)
From Coq Require Import List Arith Bool Floats Lia.
From Crem Require Import AnnealLoop.
Import ListNotations.

(* ------------------------------------------------------------------------------------------------ *)
(* generic list facts *)

Lemma filter_flat_map : forall {A B} (p : B -> bool) (f : A -> list B) (l : list A),
  filter p (flat_map f l) = flat_map (fun x => filter p (f x)) l.
Proof.
  intros A B p f l. induction l as [|x l IH]; simpl; [reflexivity|].
  now rewrite filter_app, IH.
Qed.

Lemma map_flat_map : forall {A B C} (g : B -> C) (f : A -> list B) (l : list A),
  map g (flat_map f l) = flat_map (fun x => map g (f x)) l.
Proof.
  intros A B C g f l. induction l as [|x l IH]; simpl; [reflexivity|].
  now rewrite map_app, IH.
Qed.

(* ------------------------------------------------------------------------------------------------ *)
(* the loop, from an arbitrary counter c and temperature t *)

Section LoopFacts.
  Variable N : nat.
  Variable script : nat -> step_outcome.
  Variable a : float.

  Definition block1 (k : nat) (t : float) : list stamped :=
    [(EvStartIter k, t); (ExplorerTry k, t); (ExplorerCool k, t); (EvCooling k, cool a t); (EvFinishIter k, cool a t)].

  Fixpoint blocks (n c : nat) (t : float) : list stamped :=
    match n with
    | O => []
    | S n' => block1 (S c) t ++ blocks n' (S c) (cool a t)
    end.

  Definition partial1 (k : nat) (t : float) (o : step_outcome) : list stamped :=
    match o with
    | StepOk | PanicInFinishObserver _ _ => block1 k t
    | PanicInStartObserver _ _ => [(EvStartIter k, t)]
    | PanicInTry _ => [(EvStartIter k, t); (ExplorerTry k, t)]
    | PanicInCoolBefore _ => [(EvStartIter k, t); (ExplorerTry k, t); (ExplorerCool k, t)]
    | PanicInCoolAfter _ => [(EvStartIter k, t); (ExplorerTry k, t); (ExplorerCool k, t); (EvCooling k, cool a t)]
    end.

  Definition temp1 (t : float) (o : step_outcome) : float :=
    match o with
    | StepOk | PanicInCoolAfter _ | PanicInFinishObserver _ _ => cool a t
    | _ => t
    end.

  Lemma iter_cool_shift : forall n t, Nat.iter n (cool a) (cool a t) = Nat.iter (S n) (cool a) t.
  Proof. induction n as [|n IH]; intro t; [reflexivity|]. simpl. f_equal. apply IH. Qed.

  Lemma blocks_app : forall n c t,
    blocks (S n) c t = blocks n c t ++ block1 (S (c + n)) (Nat.iter n (cool a) t).
  Proof.
    induction n as [|n IH]; intros c t.
    - simpl. now rewrite Nat.add_0_r.
    - change (blocks (S (S n)) c t) with (block1 (S c) t ++ blocks (S n) (S c) (cool a t)).
      rewrite IH. change (blocks (S n) c t) with (block1 (S c) t ++ blocks n (S c) (cool a t)).
      rewrite <- app_assoc. rewrite iter_cool_shift.
      replace (S c + n) with (c + S n) by lia. reflexivity.
  Qed.

  (* n >= 1 iterations without a fault, the n-th one reaching the budget *)
  Lemma loop_ok : forall n fuel c t,
    1 <= n -> n <= fuel ->
    (forall j, c < j <= c + n -> script j = StepOk) ->
    (forall j, c < j < c + n -> j < N) ->
    N <= c + n ->
    loop N script a fuel c t = (blocks n c t, c + n, Nat.iter n (cool a) t, Returned).
  Proof.
    induction n as [|n IH]; intros fuel c t Hn Hfuel Hok Hlt Hge; [lia|].
    destruct fuel as [|fuel]; [lia|].
    cbn [loop]. rewrite (Hok (S c)) by lia.
    destruct n as [|n].
    - replace (N <=? S c) with true by (symmetry; apply Nat.leb_le; lia).
      simpl. replace (c + 1) with (S c) by lia. reflexivity.
    - replace (N <=? S c) with false by (symmetry; apply Nat.leb_gt; apply Hlt; lia).
      rewrite (IH fuel (S c) (cool a t)); try lia.
      + rewrite iter_cool_shift. replace (S c + S n) with (c + S (S n)) by lia. reflexivity.
      + intros j Hj. apply Hok. lia.
      + intros j Hj. apply Hlt. lia.
  Qed.

  (* n >= 0 complete iterations, then a fault in iteration c+n+1 *)
  Lemma loop_fault : forall n fuel c t o p,
    S n <= fuel ->
    (forall j, c < j <= c + n -> script j = StepOk) ->
    (forall j, c < j <= c + n -> j < N) ->
    script (S (c + n)) = o -> payload_of o = Some p ->
    loop N script a fuel c t =
      (blocks n c t ++ partial1 (S (c + n)) (Nat.iter n (cool a) t) o,
       S (c + n), temp1 (Nat.iter n (cool a) t) o, Panicking (S (c + n)) p).
  Proof.
    induction n as [|n IH]; intros fuel c t o p Hfuel Hok Hlt Ho Hp.
    - destruct fuel as [|fuel]; [lia|].
      cbn [loop]. rewrite Nat.add_0_r in Ho. rewrite Nat.add_0_r. rewrite Ho.
      destruct o; simpl in Hp; inversion Hp; subst; reflexivity.
    - destruct fuel as [|fuel]; [lia|].
      cbn [loop]. rewrite (Hok (S c)) by lia.
      replace (N <=? S c) with false by (symmetry; apply Nat.leb_gt; apply Hlt; lia).
      rewrite (IH fuel (S c) (cool a t) o p); try lia; try assumption.
      + rewrite iter_cool_shift. replace (S c + n) with (c + S n) by lia.
        cbn [blocks]. rewrite <- app_assoc. reflexivity.
      + intros j Hj. apply Hok. lia.
      + intros j Hj. apply Hlt. lia.
      + replace (S c + n) with (c + S n) by lia. exact Ho.
  Qed.

  (* the fuel N is always enough *)
  Lemma loop_fuel_enough : forall fuel c t,
    1 <= fuel -> N <= c + fuel -> snd (loop N script a fuel c t) <> FuelExhausted.
  Proof.
    induction fuel as [|fuel IH]; intros c t H1 HN; [lia|].
    cbn [loop]. destruct (script (S c)); try (simpl; discriminate).
    destruct (N <=? S c) eqn:E; [simpl; discriminate|].
    apply Nat.leb_gt in E.
    specialize (IH (S c) (cool a t)).
    destruct (loop N script a fuel (S c) (cool a t)) as [[[es c'] t'] r]. simpl in *.
    apply IH; lia.
  Qed.
End LoopFacts.

(* ------------------------------------------------------------------------------------------------ *)
(* closed forms *)

Lemma temp_after_S : forall a T0 k, temp_after a T0 (S k) = cool a (temp_after a T0 k).
Proof. reflexivity. Qed.

Lemma blocks_closed_form : forall a T0 n c,
  blocks a n c (temp_after a T0 c) = flat_map (iteration_block a T0) (seq (S c) n).
Proof.
  intros a T0 n. induction n as [|n IH]; intro c; [reflexivity|].
  cbn [blocks seq flat_map]. rewrite <- temp_after_S, IH. reflexivity.
Qed.

Lemma blocks_closed_form0 : forall a T0 n,
  blocks a n 0 T0 = flat_map (iteration_block a T0) (seq 1 n).
Proof. intros a T0 n. exact (blocks_closed_form a T0 n 0). Qed.

Lemma partial_closed_form : forall a T0 k o, 1 <= k ->
  partial1 a k (temp_after a T0 (pred k)) o = partial_block a T0 k o.
Proof.
  intros a T0 k o Hk. destruct k as [|k]; [lia|]. destruct o; reflexivity.
Qed.

Lemma temp1_closed_form : forall a T0 k o, 1 <= k ->
  temp1 a (temp_after a T0 (pred k)) o = temp_after a T0 (cooled_after k o).
Proof.
  intros a T0 k o Hk. destruct k as [|k]; [lia|]. destruct o; reflexivity.
Qed.

(* ------------------------------------------------------------------------------------------------ *)
(* Anneal() of a fresh annealer *)

Definition prefix (T0 : float) : list stamped := [(ExplorerInit, T0); (EvStart, T0)].

(* the panic the recovery handler sees: TearDown's, if TearDown panics, else the one in flight *)
Definition in_flight (td : option payload) (p : payload) : payload :=
  match td with Some q => q | None => p end.

Definition full_trace (N : nat) (T0 a : float) : list stamped :=
  prefix T0 ++ flat_map (iteration_block a T0) (seq 1 N)
    ++ [(EvFinish N, temp_after a T0 N); (ExplorerTearDown, temp_after a T0 N)].

(* no fault in iterations 1..N; TearDown may panic *)
Theorem anneal_ok_run_td : forall td N script T0 a,
  (forall j, 1 <= j <= N -> script j = StepOk) ->
  anneal_gen SimpleAnnealer (mkFaults InitOk None None td) 0 N script T0 a =
    recover_handler true None (full_trace N T0 a) N (temp_after a T0 N)
      (match td with Some q => Panicking N q | None => Returned end).
Proof.
  intros td N script T0 a Hok.
  unfold anneal_gen, anneal_simple, for_loop. cbn [f_init f_start f_finish f_teardown].
  destruct N as [|N].
  - destruct td; reflexivity.
  - change (S N =? 0) with false. cbv iota.
    rewrite (loop_ok (S N) script a (S N) (S N) 0 T0); try lia.
    + rewrite blocks_closed_form0. unfold full_trace, prefix, temp_after.
      change (0 + S N) with (S N).
      destruct td; cbn [after_teardown app]; rewrite <- !app_assoc; reflexivity.
    + intros j Hj. apply Hok. lia.
Qed.

Theorem anneal_ok_run : forall N script T0 a,
  (forall j, 1 <= j <= N -> script j = StepOk) ->
  anneal N script T0 a =
    mkRun (prefix T0 ++ flat_map (iteration_block a T0) (seq 1 N)
             ++ [(EvFinish N, temp_after a T0 N); (ExplorerTearDown, temp_after a T0 N)])
          None N (temp_after a T0 N) Finished.
Proof. intros N script T0 a Hok. exact (anneal_ok_run_td None N script T0 a Hok). Qed.

(* first fault in iteration k <= N, of kind o (carrying payload p); TearDown may panic too *)
Theorem anneal_fault_run_td : forall td N script T0 a k o p,
  1 <= k <= N ->
  (forall j, 1 <= j < k -> script j = StepOk) ->
  script k = o -> payload_of o = Some p ->
  anneal_gen SimpleAnnealer (mkFaults InitOk None None td) 0 N script T0 a =
    recover_handler false (observer_of o)
      (prefix T0 ++ (flat_map (iteration_block a T0) (seq 1 (pred k)) ++ partial_block a T0 k o)
         ++ [(ExplorerTearDown, temp_after a T0 (cooled_after k o))])
      k (temp_after a T0 (cooled_after k o)) (Panicking k (in_flight td p)).
Proof.
  intros td N script T0 a k o p Hk Hok Ho Hp.
  unfold anneal_gen, anneal_simple, for_loop. cbn [f_init f_start f_finish f_teardown].
  replace (N =? 0) with false by (symmetry; apply Nat.eqb_neq; lia).
  destruct k as [|k]; [lia|]. cbn [pred].
  rewrite (loop_fault N script a k N 0 T0 o p); try lia; try assumption.
  - change (0 + k) with k. rewrite Ho.
    rewrite blocks_closed_form0.
    change (Nat.iter k (cool a) T0) with (temp_after a T0 (pred (S k))).
    rewrite partial_closed_form, temp1_closed_form by lia.
    unfold prefix. destruct td; reflexivity.
  - intros j Hj. apply Hok. lia.
Qed.

Theorem anneal_fault_run : forall N script T0 a k o p,
  1 <= k <= N ->
  (forall j, 1 <= j < k -> script j = StepOk) ->
  script k = o -> payload_of o = Some p ->
  anneal N script T0 a =
    recover_handler false (observer_of o)
      (prefix T0 ++ (flat_map (iteration_block a T0) (seq 1 (pred k)) ++ partial_block a T0 k o)
         ++ [(ExplorerTearDown, temp_after a T0 (cooled_after k o))])
      k (temp_after a T0 (cooled_after k o)) (Panicking k p).
Proof. intros N script T0 a k o p. exact (anneal_fault_run_td None N script T0 a k o p). Qed.

(* an observer panics on the start event: nothing but TearDown follows *)
Theorem start_observer_fault_run : forall j p fin td c0 N script T0 a,
  anneal_gen SimpleAnnealer (mkFaults InitOk (Some (j, p)) fin td) c0 N script T0 a =
    recover_handler false (Some j) [(ExplorerInit, T0); (EvStart, T0); (ExplorerTearDown, T0)] c0 T0
      (Panicking c0 (in_flight td p)).
Proof. intros. destruct td; reflexivity. Qed.

(* an observer panics on the finish event of a fault-free run *)
Theorem finish_observer_fault_run : forall j p td N script T0 a,
  (forall i, 1 <= i <= N -> script i = StepOk) ->
  anneal_gen SimpleAnnealer (mkFaults InitOk None (Some (j, p)) td) 0 N script T0 a =
    recover_handler false (Some j) (full_trace N T0 a) N (temp_after a T0 N) (Panicking N (in_flight td p)).
Proof.
  intros j p td N script T0 a Hok.
  unfold anneal_gen, anneal_simple, for_loop. cbn [f_init f_start f_finish f_teardown].
  destruct N as [|N].
  - destruct td; reflexivity.
  - change (S N =? 0) with false. cbv iota.
    rewrite (loop_ok (S N) script a (S N) (S N) 0 T0); try lia.
    + rewrite blocks_closed_form0. unfold full_trace, prefix, temp_after.
      change (0 + S N) with (S N).
      destruct td; cbn [after_teardown app]; rewrite <- !app_assoc; reflexivity.
    + intros i Hi. apply Hok. lia.
Qed.

(* the same, for the two scripts the property talks about *)
Corollary anneal_no_panic_run : forall N T0 a,
  anneal N no_panic T0 a =
    mkRun (prefix T0 ++ flat_map (iteration_block a T0) (seq 1 N)
             ++ [(EvFinish N, temp_after a T0 N); (ExplorerTearDown, temp_after a T0 N)])
          None N (temp_after a T0 N) Finished.
Proof. intros. apply anneal_ok_run. reflexivity. Qed.

Lemma panic_at_before : forall k o j, j <> k -> panic_at k o j = StepOk.
Proof. intros k o j H. unfold panic_at. now rewrite (proj2 (Nat.eqb_neq j k) H). Qed.

Lemma panic_at_at : forall k o, panic_at k o k = o.
Proof. intros k o. unfold panic_at. now rewrite Nat.eqb_refl. Qed.

Corollary anneal_panic_at_run : forall N T0 a k o p,
  1 <= k <= N -> payload_of o = Some p ->
  anneal N (panic_at k o) T0 a =
    recover_handler false (observer_of o)
      (prefix T0 ++ (flat_map (iteration_block a T0) (seq 1 (pred k)) ++ partial_block a T0 k o)
         ++ [(ExplorerTearDown, temp_after a T0 (cooled_after k o))])
      k (temp_after a T0 (cooled_after k o)) (Panicking k p).
Proof.
  intros N T0 a k o p Hk Hp. apply anneal_fault_run; auto.
  - intros j Hj. apply panic_at_before. lia.
  - apply panic_at_at.
Qed.

(* a fault scripted beyond the budget (or at "iteration 0") never happens *)
Corollary anneal_panic_beyond : forall N T0 a k o,
  (k = 0 \/ N < k) -> anneal N (panic_at k o) T0 a = anneal N no_panic T0 a.
Proof.
  intros N T0 a k o Hk. rewrite anneal_no_panic_run. apply anneal_ok_run.
  intros j Hj. apply panic_at_before. lia.
Qed.

(* every script is covered by one of the two theorems *)
Lemma first_fault : forall (script : nat -> step_outcome) N,
  (forall j, 1 <= j <= N -> script j = StepOk) \/
  (exists k p, 1 <= k <= N /\ (forall j, 1 <= j < k -> script j = StepOk) /\ payload_of (script k) = Some p).
Proof.
  intros script N. induction N as [|N IH].
  - left. intros j Hj. lia.
  - destruct IH as [IH|(k & p & Hk & Hb & Hp)].
    + assert (Hb : forall j, 1 <= j < S N -> script j = StepOk) by (intros j Hj; apply IH; lia).
      destruct (script (S N)) as [|p|p|p|jj p|jj p] eqn:E.
      * left. intros j Hj. destruct (Nat.eq_dec j (S N)) as [->|Hne]; [exact E|apply IH; lia].
      * right. exists (S N), p. rewrite E. repeat split; try lia; assumption.
      * right. exists (S N), p. rewrite E. repeat split; try lia; assumption.
      * right. exists (S N), p. rewrite E. repeat split; try lia; assumption.
      * right. exists (S N), p. rewrite E. repeat split; try lia; assumption.
      * right. exists (S N), p. rewrite E. repeat split; try lia; assumption.
    + right. exists k, p. repeat split; try lia; assumption.
Qed.

(* ------------------------------------------------------------------------------------------------ *)
(* projections of the traces *)

Definition log_suffix (completed : bool) (t : float) (r : body_result) : list stamped :=
  match r with
  | Panicking _ PayloadError => [(LogError, t)]
  | Panicking _ PayloadNil => if completed then [] else [(LogError, t)]
  | _ => []
  end.

Lemma recover_trace : forall completed cu tr c t r,
  trace (recover_handler completed cu tr c t r) = tr ++ log_suffix completed t r.
Proof.
  intros completed cu tr c t r. destruct r as [|k p|]; try (simpl; now rewrite app_nil_r).
  destruct p; try destruct completed; simpl; rewrite ?app_nil_r; reflexivity.
Qed.

(* a run that was cut short: EVERY payload is re-raised *)
Lemma recover_result : forall cu tr c t k p,
  result (recover_handler false cu tr c t (Panicking k p)) = Repanicked k p.
Proof. intros cu tr c t k p. destruct p; reflexivity. Qed.

(* after a completed run (only TearDown can still panic) *)
Lemma recover_result_completed : forall cu tr c t k p,
  result (recover_handler true cu tr c t (Panicking k p)) =
  match p with PayloadNil => Swallowed k | _ => Repanicked k p end.
Proof. intros cu tr c t k p. destruct p; reflexivity. Qed.

Lemma recover_final : forall completed cu tr c t r,
  cut (recover_handler completed cu tr c t r) = cu /\
  final_iteration (recover_handler completed cu tr c t r) = c /\
  final_temperature (recover_handler completed cu tr c t r) = t.
Proof. intros completed cu tr c t r. destruct r as [|k p|]; try destruct p; try destruct completed; simpl; auto. Qed.

Lemma skeleton_of_blocks : forall a T0 l,
  filter is_skeleton_event (map fst (flat_map (iteration_block a T0) l)) =
  flat_map (fun k => [EvStartIter k; EvFinishIter k]) l.
Proof.
  intros a T0 l. induction l as [|k l IH]; [reflexivity|].
  change (flat_map (iteration_block a T0) (k :: l)) with (iteration_block a T0 k ++ flat_map (iteration_block a T0) l).
  rewrite map_app, filter_app.
  change (flat_map (fun k0 : nat => [EvStartIter k0; EvFinishIter k0]) (k :: l))
    with ([EvStartIter k; EvFinishIter k] ++ flat_map (fun k0 : nat => [EvStartIter k0; EvFinishIter k0]) l).
  f_equal. exact IH.
Qed.

Lemma skeleton_of_partial : forall a T0 k o,
  filter is_skeleton_event (map fst (partial_block a T0 k o)) = skeleton_of_step k o.
Proof. intros a T0 k o. destruct o; reflexivity. Qed.

Lemma skeleton_of_log_suffix : forall completed t r,
  filter is_skeleton_event (map fst (log_suffix completed t r)) = [].
Proof. intros completed t r. destruct r as [|k p|]; try destruct p; try destruct completed; reflexivity. Qed.

Lemma skeleton_of_full_trace : forall N T0 a,
  filter is_skeleton_event (map fst (full_trace N T0 a)) = skeleton N.
Proof.
  intros N T0 a. unfold full_trace, skeleton.
  rewrite !map_app, !filter_app, skeleton_of_blocks. reflexivity.
Qed.

Theorem skeleton_no_panic : forall N script T0 a,
  (forall j, 1 <= j <= N -> script j = StepOk) ->
  skeleton_events (anneal N script T0 a) = skeleton N.
Proof.
  intros N script T0 a Hok. rewrite (anneal_ok_run N script T0 a Hok).
  unfold skeleton_events, events. cbn [trace]. apply skeleton_of_full_trace.
Qed.

Theorem skeleton_fault_td : forall td N script T0 a k o p,
  1 <= k <= N -> (forall j, 1 <= j < k -> script j = StepOk) ->
  script k = o -> payload_of o = Some p ->
  skeleton_events (anneal_gen SimpleAnnealer (mkFaults InitOk None None td) 0 N script T0 a) = skeleton_until_fault k o.
Proof.
  intros td N script T0 a k o p Hk Hok Ho Hp.
  rewrite (anneal_fault_run_td td N script T0 a k o p Hk Hok Ho Hp).
  unfold skeleton_events, events, skeleton_until_fault. rewrite recover_trace.
  rewrite !map_app, !filter_app, skeleton_of_blocks, skeleton_of_partial, skeleton_of_log_suffix.
  cbn [prefix map fst filter is_skeleton_event]. rewrite !app_nil_r. reflexivity.
Qed.

Theorem skeleton_fault : forall N script T0 a k o p,
  1 <= k <= N -> (forall j, 1 <= j < k -> script j = StepOk) ->
  script k = o -> payload_of o = Some p ->
  skeleton_events (anneal N script T0 a) = skeleton_until_fault k o.
Proof. intros N script T0 a k o p. exact (skeleton_fault_td None N script T0 a k o p). Qed.

(* a completed run whose TearDown panics, or whose finish event makes an observer panic: the whole skeleton was sent *)
Theorem skeleton_late_fault : forall fin td N script T0 a,
  (forall j, 1 <= j <= N -> script j = StepOk) ->
  skeleton_events (anneal_gen SimpleAnnealer (mkFaults InitOk None fin td) 0 N script T0 a) = skeleton N.
Proof.
  intros fin td N script T0 a Hok. unfold skeleton_events, events.
  destruct fin as [[j p]|].
  - rewrite (finish_observer_fault_run j p td N script T0 a Hok), recover_trace.
    rewrite map_app, filter_app, skeleton_of_full_trace, skeleton_of_log_suffix. apply app_nil_r.
  - rewrite (anneal_ok_run_td td N script T0 a Hok), recover_trace.
    rewrite map_app, filter_app, skeleton_of_full_trace, skeleton_of_log_suffix. apply app_nil_r.
Qed.

(* ------------------------------------------------------------------------------------------------ *)
(* observers: each of the m observers is handed exactly the observer events of the trace, in order *)

Lemma filter_for_seq : forall {B} (x : B) i m s,
  filter (is_for i) (map (fun j => (Some j, x)) (seq s m)) =
  if (s <=? i) && (i <? s + m) then [(Some i, x)] else [].
Proof.
  intros B x i m. induction m as [|m IH]; intro s.
  - simpl. destruct (Nat.leb_spec s i); destruct (Nat.ltb_spec i (s + 0)); cbn [andb]; try reflexivity; lia.
  - cbn [seq map filter]. rewrite IH. unfold is_for at 1. cbn [fst].
    destruct (Nat.eqb_spec i s) as [Heq|Hne];
      destruct (Nat.leb_spec s i); destruct (Nat.leb_spec (S s) i);
      destruct (Nat.ltb_spec i (S s + m)); destruct (Nat.ltb_spec i (s + S m));
      cbn [andb]; try reflexivity; try (subst i; reflexivity); lia.
Qed.

Lemma seen_deliver : forall {A} (m i : nat) (x : event * A), i < m ->
  map snd (filter (is_for i) (deliver m x)) = if is_observer_event (fst x) then [x] else [].
Proof.
  intros A m i x Hi. unfold deliver. destruct (is_observer_event (fst x)); [|reflexivity].
  rewrite filter_for_seq. replace (0 <=? i) with true by (symmetry; apply Nat.leb_le; lia).
  replace (i <? 0 + m) with true by (symmetry; apply Nat.ltb_lt; lia). reflexivity.
Qed.

Lemma seen_deliver_upto : forall {A} (m j i : nat) (x : event * A), i < m ->
  map snd (filter (is_for i) (deliver_upto m j x)) = if i <=? j then [x] else [].
Proof.
  intros A m j i x Hi. unfold deliver_upto. rewrite filter_for_seq.
  replace (0 <=? i) with true by (symmetry; apply Nat.leb_le; lia). cbn [andb].
  destruct (Nat.leb_spec i j); destruct (Nat.ltb_spec i (0 + Nat.min m (S j))); try reflexivity; lia.
Qed.

Theorem seen_by_each : forall {A} (m i : nat) (tr : list (event * A)), i < m ->
  seen_by i (deliveries m tr) = filter (fun x => is_observer_event (fst x)) tr.
Proof.
  intros A m i tr Hi. unfold seen_by, deliveries.
  induction tr as [|x tr IH]; [reflexivity|].
  cbn [flat_map]. rewrite filter_app, map_app, IH, (seen_deliver m i x Hi).
  cbn [filter]. destruct (is_observer_event (fst x)); reflexivity.
Qed.

Lemma no_observer_event_filter : forall {A} (tr : list (event * A)),
  has_observer_event tr = false -> filter (fun x => is_observer_event (fst x)) tr = [].
Proof.
  intros A tr. induction tr as [|x tr IH]; [reflexivity|].
  unfold has_observer_event in *. cbn [existsb filter].
  destruct (is_observer_event (fst x)); [discriminate|]. exact IH.
Qed.

Lemma observer_event_filter : forall {A} (tr : list (event * A)),
  has_observer_event tr = true -> filter (fun x => is_observer_event (fst x)) tr <> [].
Proof.
  intros A tr. induction tr as [|x tr IH]; [discriminate|].
  unfold has_observer_event in *. cbn [existsb filter].
  destruct (is_observer_event (fst x)); [discriminate|]. exact IH.
Qed.

(* observer j panicked on the last observer event: observers 0..j were handed everything, the others all but that event *)
Theorem seen_by_cut : forall {A} (m j i : nat) (tr : list (event * A)), i < m ->
  seen_by i (deliveries_cut m j tr) =
  if i <=? j then filter (fun x => is_observer_event (fst x)) tr
  else removelast (filter (fun x => is_observer_event (fst x)) tr).
Proof.
  intros A m j i tr Hi. unfold seen_by.
  induction tr as [|x tr IH]; [destruct (i <=? j); reflexivity|].
  cbn [deliveries_cut]. rewrite filter_app, map_app, IH. cbn [filter].
  destruct (is_observer_event (fst x)) eqn:Ex; cbn [andb].
  - destruct (has_observer_event tr) eqn:Eh; cbn [negb].
    + rewrite (seen_deliver m i x Hi), Ex.
      destruct (i <=? j); [reflexivity|].
      pose proof (observer_event_filter tr Eh) as Hne.
      destruct (filter (fun x0 => is_observer_event (fst x0)) tr) eqn:Ef; [contradiction|reflexivity].
    + rewrite (seen_deliver_upto m j i x Hi), (no_observer_event_filter tr Eh).
      destruct (i <=? j); reflexivity.
  - rewrite (seen_deliver m i x Hi), Ex. reflexivity.
Qed.

(* pseudo-events (calls on the explorer, log lines) are delivered to nobody *)
Theorem nobody_sees_calls : forall {A} (m i : nat) (tr : list (event * A)),
  Forall (fun x => is_observer_event (fst x) = true) (seen_by i (deliveries m tr)).
Proof.
  intros A m i tr. unfold seen_by, deliveries.
  induction tr as [|x tr IH]; [constructor|].
  cbn [flat_map]. rewrite filter_app, map_app. apply Forall_app. split; [|exact IH].
  unfold deliver. destruct (is_observer_event (fst x)) eqn:E.
  - apply Forall_forall. intros y Hy. apply in_map_iff in Hy. destruct Hy as (d & <- & Hd).
    apply filter_In in Hd. destruct Hd as (Hd & _). apply in_map_iff in Hd.
    destruct Hd as (j & <- & _). exact E.
  - constructor.
Qed.

(* ------------------------------------------------------------------------------------------------ *)
(* Initialise *)

Theorem init_precedes_start : forall kind fl c0 N script T0 a, f_init fl = InitOk ->
  exists rest, trace (anneal_gen kind fl c0 N script T0 a) = (ExplorerInit, T0) :: (EvStart, T0) :: rest.
Proof.
  intros kind [ini st fin td] c0 N script T0 a Hi. cbn [f_init] in Hi. subst ini.
  unfold anneal_gen, anneal_simple. cbn [f_init f_start f_finish f_teardown].
  destruct st as [[j p]|].
  - destruct td as [q|]; [destruct q|destruct p]; destruct kind; cbn; eexists; reflexivity.
  - destruct (for_loop N script a c0 T0) as [[[es c] t] r].
    destruct r as [|k p|]; [destruct fin as [[j p]|]| |];
      destruct td as [q|]; try destruct q; try destruct p; destruct kind; cbn; eexists; reflexivity.
Qed.

Theorem init_panic_run : forall fl c0 N script T0 a p, f_init fl = InitPanics p ->
  anneal_gen SimpleAnnealer fl c0 N script T0 a =
  recover_handler false None [(ExplorerInit, T0)] c0 T0 (Panicking c0 p).
Proof. intros fl c0 N script T0 a p H. unfold anneal_gen, anneal_simple. now rewrite H. Qed.

(* ------------------------------------------------------------------------------------------------ *)
(* the wrapper *)

Theorem elapsed_run_faults : forall fl c0 N script T0 a,
  let r := anneal_gen SimpleAnnealer fl c0 N script T0 a in
  let r' := anneal_gen ElapsedTimeTrackingAnnealer fl c0 N script T0 a in
  result r' = result r /\ final_iteration r' = final_iteration r /\ final_temperature r' = final_temperature r /\
  cut r' = cut r /\
  trace r' = trace r ++ match result r with
                        | Finished | Swallowed _ => [(LogInfo, final_temperature r)]
                        | _ => []
                        end.
Proof.
  intros fl c0 N script T0 a. cbv zeta. unfold anneal_gen.
  destruct (result (anneal_simple fl c0 N script T0 a)) eqn:E; cbn [result trace final_iteration final_temperature cut];
    rewrite ?E, ?app_nil_r; auto.
Qed.

(* the same with only an Initialise fault (statement kept as it was before observer / TearDown faults were added:
   ConfigProofs (C19) uses it) *)
Theorem elapsed_run : forall init c0 N script T0 a,
  let r := anneal_gen SimpleAnnealer (init_faults init) c0 N script T0 a in
  let r' := anneal_gen ElapsedTimeTrackingAnnealer (init_faults init) c0 N script T0 a in
  result r' = result r /\ final_iteration r' = final_iteration r /\ final_temperature r' = final_temperature r /\
  trace r' = trace r ++ match result r with
                        | Finished | Swallowed _ => [(LogInfo, final_temperature r)]
                        | _ => []
                        end.
Proof.
  intros init c0 N script T0 a. cbv zeta.
  destruct (elapsed_run_faults (init_faults init) c0 N script T0 a) as (H1 & H2 & H3 & _ & H5). auto.
Qed.

(* ------------------------------------------------------------------------------------------------ *)
(* fuel, and the one way left to return normally from a run that panicked *)

Lemma after_teardown_fuel : forall td c r, r <> FuelExhausted -> after_teardown td c r <> FuelExhausted.
Proof. intros td c r H. destruct td; destruct r; simpl; congruence. Qed.

Lemma recover_not_out_of_fuel : forall completed cu tr c t r,
  r <> FuelExhausted -> result (recover_handler completed cu tr c t r) <> OutOfFuel.
Proof.
  intros completed cu tr c t r H. destruct r as [|k p|]; [simpl; discriminate| |contradiction].
  destruct p; try destruct completed; simpl; discriminate.
Qed.

Theorem anneal_never_out_of_fuel : forall kind fl c0 N script T0 a,
  result (anneal_gen kind fl c0 N script T0 a) <> OutOfFuel.
Proof.
  intros kind [ini st fin td] c0 N script T0 a.
  assert (H : result (anneal_simple (mkFaults ini st fin td) c0 N script T0 a) <> OutOfFuel).
  { unfold anneal_simple. cbn [f_init f_start f_finish f_teardown]. destruct ini as [|p].
    - destruct st as [[j p]|].
      + apply recover_not_out_of_fuel, after_teardown_fuel. discriminate.
      + assert (F : snd (for_loop N script a c0 T0) <> FuelExhausted).
        { unfold for_loop. destruct (N =? 0) eqn:E; [simpl; discriminate|].
          apply Nat.eqb_neq in E. apply loop_fuel_enough; lia. }
        destruct (for_loop N script a c0 T0) as [[[es c] t] r]. simpl in F.
        destruct r as [|k p|]; [destruct fin as [[j p]|]| |contradiction];
          apply recover_not_out_of_fuel, after_teardown_fuel; discriminate.
    - apply recover_not_out_of_fuel. discriminate. }
  unfold anneal_gen. destruct kind; [exact H|].
  destruct (result (anneal_simple (mkFaults ini st fin td) c0 N script T0 a)) eqn:E; cbn [result]; rewrite ?E; try discriminate.
  contradiction.
Qed.

Lemma recover_swallowed : forall completed cu tr c t r k,
  result (recover_handler completed cu tr c t r) = Swallowed k ->
  completed = true /\ r = Panicking k PayloadNil.
Proof.
  intros completed cu tr c t r k H. destruct r as [|k' p|]; try discriminate.
  destruct p; try destruct completed; simpl in H; try discriminate. inversion H. auto.
Qed.

(* Anneal() returns normally from a run in which something panicked ONLY when TearDown does panic(nil)
   and nothing else had panicked (by anneal_fault_run_td a fault in an iteration is never swallowed either) *)
Theorem swallowed_only_if : forall kind fl c0 N script T0 a k,
  result (anneal_gen kind fl c0 N script T0 a) = Swallowed k ->
  f_teardown fl = Some PayloadNil /\ f_init fl = InitOk /\ f_start fl = None /\ f_finish fl = None.
Proof.
  intros kind [ini st fin td] c0 N script T0 a k H.
  assert (Hs : result (anneal_simple (mkFaults ini st fin td) c0 N script T0 a) = Swallowed k).
  { unfold anneal_gen in H. destruct kind; [exact H|].
    destruct (result (anneal_simple (mkFaults ini st fin td) c0 N script T0 a)) eqn:E; cbn [result] in H; congruence. }
  clear H. revert Hs. unfold anneal_simple. cbn [f_init f_start f_finish f_teardown].
  destruct ini as [|p]; [|intro Hs; apply recover_swallowed in Hs; destruct Hs; discriminate].
  destruct st as [[j p]|]; [intro Hs; apply recover_swallowed in Hs; destruct Hs; discriminate|].
  destruct (for_loop N script a c0 T0) as [[[es c] t] r].
  destruct r as [|k' p|].
  - destruct fin as [[j p]|]; intro Hs; pose proof (recover_swallowed _ _ _ _ _ _ _ Hs) as (Hc & Hr); [discriminate|].
    destruct td as [q|]; simpl in Hr; [|discriminate]. inversion Hr; subst. repeat split; auto.
  - intro Hs. apply recover_swallowed in Hs. destruct Hs; discriminate.
  - intro Hs. apply recover_swallowed in Hs. destruct Hs; discriminate.
Qed.

(* ------------------------------------------------------------------------------------------------ *)
(* outside the property's quantifier: Anneal() on an instance that has been annealed before.
   currentIteration is not reset: with c0 >= N >= 1 the loop body runs exactly once, numbered c0+1. *)

Theorem reanneal_runs_one_iteration : forall c0 N script T0 a,
  1 <= N -> N <= c0 -> script (S c0) = StepOk ->
  anneal_gen SimpleAnnealer no_faults c0 N script T0 a =
    mkRun (prefix T0 ++ block1 a (S c0) T0 ++ [(EvFinish (S c0), cool a T0); (ExplorerTearDown, cool a T0)])
          None (S c0) (cool a T0) Finished.
Proof.
  intros c0 N script T0 a H1 H2 Hs.
  unfold anneal_gen, anneal_simple, for_loop. cbn [no_faults f_init f_start f_finish f_teardown].
  replace (N =? 0) with false by (symmetry; apply Nat.eqb_neq; lia).
  rewrite (loop_ok N script a 1 N c0 T0); try lia.
  - replace (c0 + 1) with (S c0) by lia. cbn [blocks Nat.iter nat_rect recover_handler after_teardown].
    rewrite app_nil_r. unfold prefix. cbn [app]. rewrite <- !app_assoc. reflexivity.
  - intros j Hj. replace j with (S c0) by lia. exact Hs.
Qed.

(* ------------------------------------------------------------------------------------------------ *)
(* counting calls *)

Lemma count_in_blocks : forall (p : event -> bool) a T0 l n,
  (forall k, length (filter p (map fst (iteration_block a T0 k))) = n) ->
  length (filter p (map fst (flat_map (iteration_block a T0) l))) = n * length l.
Proof.
  intros p a T0 l n Hn. induction l as [|k l IH]; [simpl; lia|].
  change (flat_map (iteration_block a T0) (k :: l)) with (iteration_block a T0 k ++ flat_map (iteration_block a T0) l).
  rewrite map_app, filter_app, app_length, Hn.
  change (length (k :: l)) with (S (length l)).
  rewrite Nat.mul_succ_r, Nat.add_comm. f_equal. exact IH.
Qed.

Lemma count_in_log_suffix : forall p completed t r, p LogError = false ->
  length (filter p (map fst (log_suffix completed t r))) = 0.
Proof.
  intros p completed t r Hp. destruct r as [|k q|]; try destruct q; try destruct completed; simpl; rewrite ?Hp; reflexivity.
Qed.

Theorem counts_no_fault : forall N script T0 a,
  (forall j, 1 <= j <= N -> script j = StepOk) ->
  let r := anneal N script T0 a in
  count is_try r = N /\ count is_cool r = N /\ count is_teardown r = 1 /\ count is_finish r = 1 /\
  final_iteration r = N /\ final_temperature r = temp_after a T0 N /\ result r = Finished.
Proof.
  intros N script T0 a Hok. cbv zeta. rewrite (anneal_ok_run N script T0 a Hok).
  unfold count, events. cbn [trace final_iteration final_temperature result].
  rewrite !map_app, !filter_app, !app_length.
  rewrite (count_in_blocks is_try _ _ _ 1) by (intro; reflexivity).
  rewrite (count_in_blocks is_cool _ _ _ 1) by (intro; reflexivity).
  rewrite (count_in_blocks is_teardown _ _ _ 0) by (intro; reflexivity).
  rewrite (count_in_blocks is_finish _ _ _ 0) by (intro; reflexivity).
  rewrite seq_length. cbn. repeat split; lia.
Qed.

Theorem counts_fault_td : forall td N script T0 a k o p,
  1 <= k <= N -> (forall j, 1 <= j < k -> script j = StepOk) ->
  script k = o -> payload_of o = Some p ->
  let r := anneal_gen SimpleAnnealer (mkFaults InitOk None None td) 0 N script T0 a in
  count is_try r = match o with PanicInStartObserver _ _ => pred k | _ => k end /\
  count is_cool r = match o with PanicInTry _ | PanicInStartObserver _ _ => pred k | _ => k end /\
  count is_teardown r = 1 /\ count is_finish r = 0 /\
  final_iteration r = k /\ final_temperature r = temp_after a T0 (cooled_after k o) /\
  cut r = observer_of o.
Proof.
  intros td N script T0 a k o p Hk Hok Ho Hp. cbv zeta.
  rewrite (anneal_fault_run_td td N script T0 a k o p Hk Hok Ho Hp).
  destruct (recover_final false (observer_of o)
              (prefix T0 ++ (flat_map (iteration_block a T0) (seq 1 (pred k)) ++ partial_block a T0 k o)
                 ++ [(ExplorerTearDown, temp_after a T0 (cooled_after k o))])
              k (temp_after a T0 (cooled_after k o)) (Panicking k (in_flight td p))) as (F0 & F1 & F2).
  rewrite F0, F1, F2. unfold count, events. rewrite recover_trace.
  rewrite !map_app, !filter_app, !app_length.
  rewrite !count_in_log_suffix by reflexivity.
  rewrite (count_in_blocks is_try _ _ _ 1) by (intro; reflexivity).
  rewrite (count_in_blocks is_cool _ _ _ 1) by (intro; reflexivity).
  rewrite (count_in_blocks is_teardown _ _ _ 0) by (intro; reflexivity).
  rewrite (count_in_blocks is_finish _ _ _ 0) by (intro; reflexivity).
  rewrite seq_length.
  destruct o; simpl in Hp; try discriminate; cbn; repeat split; lia.
Qed.

Theorem counts_fault : forall N script T0 a k o p,
  1 <= k <= N -> (forall j, 1 <= j < k -> script j = StepOk) ->
  script k = o -> payload_of o = Some p ->
  let r := anneal N script T0 a in
  count is_try r = match o with PanicInStartObserver _ _ => pred k | _ => k end /\
  count is_cool r = match o with PanicInTry _ | PanicInStartObserver _ _ => pred k | _ => k end /\
  count is_teardown r = 1 /\ count is_finish r = 0 /\
  final_iteration r = k /\ final_temperature r = temp_after a T0 (cooled_after k o) /\
  cut r = observer_of o.
Proof. intros N script T0 a k o p. exact (counts_fault_td None N script T0 a k o p). Qed.

(* ------------------------------------------------------------------------------------------------ *)
(* re-raising: EVERY panic of an iteration comes out of Anneal(); if TearDown panics too, TearDown's does *)

Theorem panic_reraised_td : forall td N script T0 a k o p,
  1 <= k <= N -> (forall j, 1 <= j < k -> script j = StepOk) ->
  script k = o -> payload_of o = Some p ->
  result (anneal_gen SimpleAnnealer (mkFaults InitOk None None td) 0 N script T0 a) = Repanicked k (in_flight td p).
Proof.
  intros td N script T0 a k o p Hk Hok Ho Hp.
  rewrite (anneal_fault_run_td td N script T0 a k o p Hk Hok Ho Hp). apply recover_result.
Qed.

Theorem panic_reraised : forall N script T0 a k o p,
  1 <= k <= N -> (forall j, 1 <= j < k -> script j = StepOk) ->
  script k = o -> payload_of o = Some p ->
  result (anneal N script T0 a) = Repanicked k p.
Proof. intros N script T0 a k o p. exact (panic_reraised_td None N script T0 a k o p). Qed.

(* a fault-free run whose TearDown panics (or whose finish event makes an observer panic) *)
Theorem late_fault_result : forall fin td N script T0 a,
  (forall j, 1 <= j <= N -> script j = StepOk) ->
  result (anneal_gen SimpleAnnealer (mkFaults InitOk None fin td) 0 N script T0 a) =
  match fin, td with
  | Some (_, p), _ => Repanicked N (in_flight td p)          (* cut short: the finish call never returned *)
  | None, Some PayloadNil => Swallowed N                     (* completed, and recover() reports nil *)
  | None, Some q => Repanicked N q
  | None, None => Finished
  end.
Proof.
  intros fin td N script T0 a Hok. destruct fin as [[j p]|].
  - rewrite (finish_observer_fault_run j p td N script T0 a Hok). apply recover_result.
  - rewrite (anneal_ok_run_td td N script T0 a Hok). destruct td as [q|]; [|reflexivity].
    rewrite recover_result_completed. destruct q; reflexivity.
Qed.

Theorem temp_recurrence : forall a T0 k,
  temp_after a T0 0 = T0 /\ temp_after a T0 (S k) = (temp_after a T0 k * a)%float.
Proof. intros a T0 k. split; reflexivity. Qed.
