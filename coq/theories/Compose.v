(* Composition of the separately modelled components of a multi-objective optimisation run:
     catchment valuation (Catchment.v, C01)  +  randomisation loops (Limits.v, C03)
     + the REAL archive model (NdArchive.v, C05: AttemptToArchiveState / ForceIntoArchive as transcribed)
     + the explorer's step rule (suppapitnarm.Explorer.TryRandomChange, C06: desirable iff stored or duplicate,
       otherwise the coolant decides and an accepted candidate is forced in).
   The archive's objective vectors are the catchment model's valuation of the candidate's action set
   (ModelCompressor.Compress: the decision-variable values in sorted-name order).  No proofs in this file. *)
From Coq Require Import List ZArith QArith Bool Arith.
From Crem Require Import Base.Res Catchment Limits NdArchive NdArchiveProofs.
Import ListNotations.
Open Scope Z_scope.

Definition bits_fn (bits : list bool) : nat -> bool := fun j => nth j bits false.

(* compressVariables: variables sorted by name: DissolvedNitrogen, ImplementationCost, OpportunityCost,
   ParticulateNitrogen, SedimentProduction, TotalNitrogen *)
Definition sorted_vk : list vk := [VDN; VIC; VOC; VPN; VSed; VTN].

Definition eval_vec (d : dataset) (bits : list bool) : list Q :=
  map (fun k => grid_to_Q k (canon_total d k (bits_fn bits))) sorted_vk.

Definition entry_of (d : dataset) (bits : list bool) : entry := eval_entry (eval_vec d) bits.

Record cm_state := mkCM {
  cm_cur : state;                        (* currentModel *)
  cm_pot : state;                        (* potentialModel *)
  cm_arch : archive;                     (* modelArchive *)
  cm_hist : list (bool * list bool)      (* ghost: the offers made so far (forced?, action set) *)
}.

Record cm_input := mkCMIn {
  ci_picks : list nat;                   (* the picks of potentialModel.Randomize() *)
  ci_coolant_accepts : bool;             (* DecideIfAcceptable, consulted only for an undesirable candidate *)
  ci_rtb : option nat                    (* return to base fires, selecting this archive index *)
}.

Inductive cm_res := CMOk (m : cm_state) | CMPanic | CMOutOfPicks.

Definition desirable_verdict (r : sres) : bool :=
  match r with
  | StoredWithNoDominanceDetected | StoredReplacingDominatedEntries | RejectedWithDuplicateEntryDetected => true
  | _ => false
  end.

(* everything after the candidate has been generated: archive, move, return to base *)
Definition cm_apply (d : dataset) (m : cm_state) (pot2 : state) (coolant_accepts : bool) (rtb : option nat) : cm_res :=
  let bits := active_list d pot2 in
  let cand := entry_of d bits in
  let verdict := fst (attempt_b (cm_arch m) cand) in
  (* the archive operation the explorer performs: attempt, and force iff dominated and the coolant accepts *)
  let forced := negb (desirable_verdict verdict) && coolant_accepts in
  let o := if forced then OfferForce cand else Offer cand in
  let arch1 := snd (step_b (cm_arch m) o) in
  let moves := desirable_verdict verdict || coolant_accepts in
  let cur1 := if moves then synchronise d (cm_cur m) bits else cm_cur m in
  let hist1 := cm_hist m ++ [(forced, bits)] in
  match rtb with
  | None => CMOk (mkCM cur1 pot2 arch1 hist1)
  | Some j =>
      match nth_error arch1 j with
      | Some base => CMOk (mkCM (decompress d cur1 (e_acts base)) pot2 arch1 hist1)
      | None => CMPanic
      end
  end.

Definition cm_iter (d : dataset) (m : cm_state) (x : cm_input) : cm_res :=
  let pot1 := synchronise d (cm_pot m) (active_list d (cm_cur m)) in
  match randomize d (ci_picks x) pot1 with
  | LPanic => CMPanic
  | LOutOfPicks => CMOutOfPicks
  | LOk pot2 => cm_apply d m pot2 (ci_coolant_accepts x) (ci_rtb x)
  end.

Fixpoint cm_iters (d : dataset) (m : cm_state) (inputs : list cm_input) : option (list cm_state) :=
  match inputs with
  | [] => Some []
  | x :: rest =>
      match cm_iter d m x with
      | CMOk m' => match cm_iters d m' rest with Some l => Some (m' :: l) | None => None end
      | _ => None
      end
  end.

Definition cm_run (d : dataset) (picks0 : list nat) (inputs : list cm_input) : option (list cm_state) :=
  match randomize d picks0 (start_extreme d) with
  | LOk s0 =>
      let m0 := mkCM s0 (start_extreme d) [] [] in
      match cm_iters d m0 inputs with Some l => Some (m0 :: l) | None => None end
  | _ => None
  end.

Definition cm_inputs_ok (d : dataset) (inputs : list cm_input) : bool :=
  forallb (fun x => picks_ok d (ci_picks x)) inputs.
