(* C19 — the predicates the theorems of Properties/C19.v are stated with (boolean wherever something is computed from
   generated facts or from a configuration).  No proofs in this file. *)
From Coq Require Import List ZArith QArith String Bool Arith.
From Crem Require Import Base.Res Params Saver Catchment Limits ConfigLoops Config.
Import ListNotations.
Open Scope string_scope.
Open Scope list_scope.

(* ---- side conditions on the regenerated facts (checked by vm_compute in gen/obl_C19.v) ---- *)
Definition path_known (p : string) : bool :=
  existsb (String.eqb p)
    ["Scenario.Name"; "Model.Type"; "Annealer.Type"; "Scenario.OutputPath"; "Scenario.RunNumber";
     "Scenario.MaximumConcurrentRunNumber"; "Scenario.Reporting.ReportEveryNumberOfIterations"].

Definition requires_at_least_one (path : string) (m : mcond) : bool :=
  match m with MLess p k => (p =? path) && (1 <=? k)%Z | _ => false end.

(* a negative TOML integer, stored modulo 2^64, is refused: if config.<path> > k with k < 2^63 *)
Definition refuses_negative (path : string) (m : mcond) : bool :=
  match m with MGreater p k => (p =? path) && (k <? two63)%Z | _ => false end.

Definition facts_ok (F : facts) : bool :=
  existsb (requires_at_least_one "Scenario.RunNumber") (f_mandatory F)
  && existsb (refuses_negative "Scenario.RunNumber") (f_mandatory F)
  && existsb (requires_at_least_one "Scenario.Reporting.ReportEveryNumberOfIterations") (f_mandatory F)
  && forallb (fun m => path_known (mpath m)) (f_mandatory F)
  (* every text the decoder lets through as Annealer.Type is registered with a real annealer *)
  && forallb (fun n => match assoc n (f_annealers F) with Some (AKFam _) => true | _ => false end) (f_annealer_types F).

Definition facts_diagnosis (F : facts) : list (string * bool) :=
  [ ("checkMandatoryFields requires Scenario.RunNumber >= 1", existsb (requires_at_least_one "Scenario.RunNumber") (f_mandatory F));
    ("checkMandatoryFields refuses a negative Scenario.RunNumber", existsb (refuses_negative "Scenario.RunNumber") (f_mandatory F));
    ("checkMandatoryFields requires Scenario.Reporting.ReportEveryNumberOfIterations >= 1",
     existsb (requires_at_least_one "Scenario.Reporting.ReportEveryNumberOfIterations") (f_mandatory F));
    ("every mandatory condition reads a field the model knows", forallb (fun m => path_known (mpath m)) (f_mandatory F));
    ("every valid Annealer.Type is registered with an annealer",
     forallb (fun n => match assoc n (f_annealers F) with Some (AKFam _) => true | _ => false end) (f_annealer_types F)) ].

(* a key read through the typed getter [ty] without a HasEntry guard *)
Definition key_spec_ok (t : table) (k : string) (ty : ty) : bool :=
  match lookup k t with
  | Some s => negb (soptional s) && ty_eqb (type_of (svalidator s)) ty && default_typed s
  | None => false
  end.

(* a key read through the typed getter [ty] under a HasEntry guard *)
Definition guarded_key_ok (t : table) (k : string) (ty : ty) : bool :=
  match lookup k t with
  | Some s => ty_eqb (type_of (svalidator s)) ty && default_typed s
  | None => true                  (* never stored: HasEntry answers false *)
  end.

Definition all_tables (T : tables) : list table :=
  [t_annealer T; t_kp_explorer T; t_kp_coolant T; t_supp_explorer T; t_supp_coolant T; t_avg_coolant T; t_catchment T; t_dumb T; t_modumb T].

Definition tables_ok (T : tables) : bool :=
  forallb (fun t => nodupb (Params.keys t)) (all_tables T)
  && key_spec_ok (t_annealer T) "MaximumIterations" TInt
  && key_spec_ok (t_kp_explorer T) "DecisionVariable" TString
  && forallb (fun kv => guarded_key_ok (t_catchment T) (fst kv) TFloat) limit_keys.

Definition tables_diagnosis (T : tables) : list (string * bool) :=
  [ ("distinct keys", forallb (fun t => nodupb (Params.keys t)) (all_tables T));
    ("MaximumIterations: non-optional integer", key_spec_ok (t_annealer T) "MaximumIterations" TInt);
    ("DecisionVariable: non-optional string", key_spec_ok (t_kp_explorer T) "DecisionVariable" TString);
    ("limits: decimals", forallb (fun kv => guarded_key_ok (t_catchment T) (fst kv) TFloat) limit_keys) ].

(* ---- what interpretation needs from the environment in order not to panic: only the C18 finding is left (initial values of the
        multi-objective dumb model outside RoundFloat's range panic while that model is constructed) ---- *)
Definition interpret_env_ok (F : facts) (T : tables) (E : env) (l : loaded) : bool :=
  match interpret_model F T E l with
  | Some m => match mb_kind m, mb_errors m with MKMoDumb, [] => e_round_ok E (mb_params m) | _, _ => true end
  | None => true
  end.

(* ---- what a run needs beyond acceptance.  After the series C19-3 .. C19-13 and C19c-1 .. C19c-5 two things about the CONFIGURATION
        are left, both listed findings: a dumb model's InitialObjectiveValue within math.RoundFloat's range, and a scenario name short
        enough for a file name.  Everything else -- the model type,
        the decision variable, the data source class, a binding limit, the output type, the run counts are all checked by the loader /
        interpreter (derived in ConfigProofs.accepted_shape).  What remains is about the ENVIRONMENT at run time and about the
        unverified derivation of the model's constants from the data files. ---- *)
Definition limit_attainable (d0 : dataset) (lim : option (vk * Q)) : bool :=
  match lim with
  | None => true
  | Some _ => let d := with_limit d0 lim in state_is_valid d (start_extreme d)
  end.

Definition run_preconditions (E : env) (sc : scenario) : bool :=
  match s_mkind sc, s_data sc with
  | MKCatchment, DataOk d0 => wf_dataset d0              (* the constants exported from the loaded tables are well formed (checked by computation
                                                             on every data set the harness loads) *)
                              && limit_attainable d0 (s_limit sc)   (* the optimisers' starting extreme satisfies the limit (cf. C03) *)
  | _, _ => true
  end
  && e_out_usable E (s_out_path sc)                                  (* run-time environment: the saver can create its directory and files *)
  && forallb (fun r => e_file_creatable E (summary_name sc r)) (seq 1 (Z.to_nat (s_runs sc)))
                                                                     (* run-time environment: ... under the names the scenario name gives them
                                                                        (listed finding: an over-long name is accepted, the encoder's error is
                                                                        only logged and the run ends without a result) *)
  && match s_mkind sc with MKDumb => dumb_round_ok (s_model_params sc) | _ => true end
                                                                     (* listed finding: InitialObjectiveValue beyond math.RoundFloat's range *)
  && ((s_profile sc =? "") || e_profile_ok E (s_profile sc))         (* run-time environment: the profile file can be created *)
  && no_nl (s_name sc).                                              (* side condition of C12's naming lemma, not a defect *)

(* ---- bounded fairness of a pick list: k windows, each containing every index below n ---- *)
Definition covers (n : nat) (l : list nat) : Prop := forall i, (i < n)%nat -> In i l.

Inductive fairk (n : nat) : nat -> list nat -> Prop :=
| fair_0 : forall l, fairk n 0 l
| fair_S : forall k pre post, covers n pre -> fairk n k post -> fairk n (S k) (pre ++ post).

Definition dataset_of (sc : scenario) : option dataset :=
  match s_mkind sc, s_data sc with
  | MKCatchment, DataOk d0 => Some (with_limit d0 (s_limit sc))
  | _, _ => None
  end.

Definition choice_ok (d : dataset) (ch : choice) : Prop :=
  picks_ok d (ch_picks0 ch) = true /\ fairk (nactions d) (nactions d) (ch_picks0 ch) /\
  Forall (fun x => it_ok d x = true /\ fairk (nactions d) (nactions d) (it_picks x)) (ch_iters ch).

Definition choices_ok (sc : scenario) (choices : nat -> choice) : Prop :=
  match dataset_of sc with
  | Some d => forall r, choice_ok d (choices r)
  | None => True
  end.
