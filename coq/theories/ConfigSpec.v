(* C19 — the predicates the theorems of Properties/C19.v are stated with (boolean wherever something is computed from
   generated facts or from a configuration).  No proofs in this file. *)
From Coq Require Import List ZArith QArith String Bool Arith.
From Crem Require Import Base.Res Params Saver Catchment Limits ConfigLoops Config.
Import ListNotations.
Open Scope string_scope.
Open Scope list_scope.

(* ---- side conditions on the regenerated facts (checked by vm_compute in gen/obl_C19.v) ---- *)
Definition path_known (p : string) : bool :=
  existsb (String.eqb p)
    ["Scenario.Name"; "Model.Type"; "Annealer.Type"; "Scenario.OutputPath"; "Scenario.RunNumber";
     "Scenario.MaximumConcurrentRunNumber"; "Scenario.Reporting.ReportEveryNumberOfIterations"].

Definition requires_at_least_one (path : string) (m : mcond) : bool :=
  match m with MLess p k => (p =? path) && (1 <=? k)%Z | _ => false end.

Definition facts_ok (F : facts) : bool :=
  existsb (requires_at_least_one "Scenario.RunNumber") (f_mandatory F)
  && existsb (requires_at_least_one "Scenario.Reporting.ReportEveryNumberOfIterations") (f_mandatory F)
  && forallb (fun m => path_known (mpath m)) (f_mandatory F)
  (* every text the decoder lets through as Annealer.Type is registered with a real annealer *)
  && forallb (fun n => match assoc n (f_annealers F) with Some (AKFam _) => true | _ => false end) (f_annealer_types F).

Definition facts_diagnosis (F : facts) : list (string * bool) :=
  [ ("checkMandatoryFields requires Scenario.RunNumber >= 1", existsb (requires_at_least_one "Scenario.RunNumber") (f_mandatory F));
    ("checkMandatoryFields requires Scenario.Reporting.ReportEveryNumberOfIterations >= 1",
     existsb (requires_at_least_one "Scenario.Reporting.ReportEveryNumberOfIterations") (f_mandatory F));
    ("every mandatory condition reads a field the model knows", forallb (fun m => path_known (mpath m)) (f_mandatory F));
    ("every valid Annealer.Type is registered with an annealer",
     forallb (fun n => match assoc n (f_annealers F) with Some (AKFam _) => true | _ => false end) (f_annealer_types F)) ].

(* a key read through the typed getter [ty] without a HasEntry guard *)
Definition key_spec_ok (t : table) (k : string) (ty : ty) : bool :=
  match lookup k t with
  | Some s => negb (soptional s) && ty_eqb (type_of (svalidator s)) ty && default_typed s
  | None => false
  end.

(* a key read through the typed getter [ty] under a HasEntry guard *)
Definition guarded_key_ok (t : table) (k : string) (ty : ty) : bool :=
  match lookup k t with
  | Some s => ty_eqb (type_of (svalidator s)) ty && default_typed s
  | None => true                  (* never stored: HasEntry answers false *)
  end.

Definition all_tables (T : tables) : list table :=
  [t_annealer T; t_kp_explorer T; t_kp_coolant T; t_supp_explorer T; t_supp_coolant T; t_avg_coolant T; t_catchment T; t_dumb T; t_modumb T].

Definition tables_ok (T : tables) : bool :=
  forallb (fun t => nodupb (Params.keys t)) (all_tables T)
  && key_spec_ok (t_annealer T) "MaximumIterations" TInt
  && key_spec_ok (t_kp_explorer T) "DecisionVariable" TString
  && forallb (fun kv => guarded_key_ok (t_catchment T) (fst kv) TFloat) limit_keys.

Definition tables_diagnosis (T : tables) : list (string * bool) :=
  [ ("distinct keys", forallb (fun t => nodupb (Params.keys t)) (all_tables T));
    ("MaximumIterations: non-optional integer", key_spec_ok (t_annealer T) "MaximumIterations" TInt);
    ("DecisionVariable: non-optional string", key_spec_ok (t_kp_explorer T) "DecisionVariable" TString);
    ("limits: decimals", forallb (fun kv => guarded_key_ok (t_catchment T) (fst kv) TFloat) limit_keys) ].

(* ---- what interpretation needs from the environment in order not to panic ---- *)
Definition model_kind_of (F : facts) (l : loaded) : option mkind := assoc (l_model_type l) (f_models F).

Definition interpret_env_ok (F : facts) (T : tables) (E : env) (l : loaded) : bool :=
  match interpret_model F T E l with
  | Some m =>
      match mb_kind m with
      | MKCatchment => match data_of E m with DataMalformed => false | _ => true end
      | MKMoDumb => e_round_ok E (mb_params m)
      | _ => true
      end
  | None => true
  end.

(* ---- what a run needs beyond acceptance: each conjunct has a refutation witness in Properties/C19.v ---- *)
Definition limit_ok (d0 : dataset) (lim : option (vk * Q)) : bool :=
  match lim with
  | None => true
  | Some _ => let d := with_limit d0 lim in state_is_valid d (start_extreme d) && limit_binding d
  end.

Definition run_preconditions (E : env) (sc : scenario) : bool :=
  negb (match s_mkind sc with MKNull => true | _ => false end)                                          (* null-model *)
  && (negb (single_objective (s_family sc)) || variable_exists (s_mkind sc) (s_decision_var sc))           (* decision-variable-not-offered *)
  && match s_mkind sc with
     | MKCatchment => match s_data sc with
                      | DataOk d0 => wf_dataset d0 && limit_ok d0 (s_limit sc)                             (* limit-not-binding *)
                      | _ => false                                                                         (* data-source-* *)
                      end
     | _ => true
     end
  && e_out_usable E (s_out_path sc)                                                                        (* output-path-not-a-directory *)
  && ((s_profile sc =? "") || e_profile_ok E (s_profile sc))                                               (* cpu-profile-path-uncreatable *)
  && (match otype_ext (s_otype sc) with Some _ => true | None => e_excel E end)                            (* excel-output-without-excel *)
  && (s_runs sc <? two63)%Z && (s_concurrent sc <? two63)%Z                                                (* negative-(concurrent-)run-number *)
  && no_nl (s_name sc).                                                                                    (* side condition of C12's naming lemma *)

(* ---- bounded fairness of a pick list: k windows, each containing every index below n ---- *)
Definition covers (n : nat) (l : list nat) : Prop := forall i, (i < n)%nat -> In i l.

Inductive fairk (n : nat) : nat -> list nat -> Prop :=
| fair_0 : forall l, fairk n 0 l
| fair_S : forall k pre post, covers n pre -> fairk n k post -> fairk n (S k) (pre ++ post).

Definition dataset_of (sc : scenario) : option dataset :=
  match s_mkind sc, s_data sc with
  | MKCatchment, DataOk d0 => Some (with_limit d0 (s_limit sc))
  | _, _ => None
  end.

Definition choice_ok (d : dataset) (ch : choice) : Prop :=
  picks_ok d (ch_picks0 ch) = true /\ fairk (nactions d) (nactions d) (ch_picks0 ch) /\
  Forall (fun x => it_ok d x = true /\ fairk (nactions d) (nactions d) (it_picks x)) (ch_iters ch).

Definition choices_ok (sc : scenario) (choices : nat -> choice) : Prop :=
  match dataset_of sc with
  | Some d => forall r, choice_ok d (choices r)
  | None => True
  end.
