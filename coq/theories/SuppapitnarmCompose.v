(* C06 over C05's archive model and the composed model (Compose.v):
   1. every run of the explorer model performs, on the archive, exactly a sequence of C05's [Offer] /
      [OfferForce] operations ([run_b_from [] (ops_of is os)]); hence C05's invariant (mutually
      non-dominated, duplicate-free, members are offered candidates) holds in every reachable state, and
      the "held and also dominated" corner of the move rule is impossible;
   2. the float-exact move rule [accept_phase] / [iteration] refines the step rule [cm_apply] of the composed
      model, with  coolant_accepts := (acceptance probability > uniform draw)  in binary64. *)
From Coq Require Import List ZArith NArith QArith Bool Arith Floats Lia.
From Crem Require Import Base.Res Dominance DominanceProofs NdArchive NdArchiveProofs
  Catchment CatchmentProofs Limits LimitsProofs Compose ComposeProofs
  SuppRtbFloat Suppapitnarm SuppapitnarmProofs SuppapitnarmSchedule.
Import ListNotations.

(* ---------- 1. runs as sequences of archive operations ---------- *)

Lemma iteration_arch p d s i o s' :
  dim_ok d (arch s) -> wf_len d (i_cand i) -> iteration p s i = Ok (o, s') ->
  arch s' = snd (step_b (arch s) (op_of i o)) /\ dim_ok d (arch s').
Proof.
  intros Ha Hc H.
  destruct (iteration_decompose _ _ _ _ _ H) as (s1 & s2 & H1 & H2 & _ & _ & Ea & _).
  destruct (rtb_phase_spec _ _ _ _ _ H2) as (_ & Ea2 & _).
  destruct (accept_phase_pure p d s i Ha Hc) as (s1' & E & Earch & _ & Hd).
  set (v := fst (attempt_b (arch s) (i_cand i))) in *.
  set (acc := decide (accept_prob (p_kind p) (i_es i)) (unitary (i_draw i))) in *.
  rewrite H1 in E. injection E as Ev Ed Es. subst s1'.
  rewrite Ea, Ea2. split; [|exact Hd].
  rewrite Earch. unfold op_of. rewrite Ed.
  destruct (stored_or_held v), acc; reflexivity.
Qed.

Lemma run_arch p d is : forall s os s',
  dim_ok d (arch s) -> Forall (fun i => wf_len d (i_cand i)) is ->
  run p s is = Ok (os, s') ->
  arch s' = run_b_from (arch s) (ops_of is os) /\ dim_ok d (arch s')
  /\ cands (ops_of is os) = map i_cand is /\ no_raw_b (ops_of is os) = true.
Proof.
  induction is as [|i is IH]; intros s os s' Ha His H; cbn [run] in H.
  - inversion H; subst. cbn. auto.
  - inversion His as [|? ? Hi His']; subst.
    apply bind_ok in H. destruct H as ([o s1] & Hit & H). cbn [fst snd] in H.
    apply bind_ok in H. destruct H as ([os1 s2] & Hrun & H). inversion H; subst; clear H.
    destruct (iteration_arch _ _ _ _ _ _ Ha Hi Hit) as (E1 & Hd1).
    destruct (IH _ _ _ Hd1 His' Hrun) as (E2 & Hd2 & Hc & Hr).
    cbn [ops_of run_b_from]. rewrite <- E1. split; [exact E2|]. split; [exact Hd2|].
    split.
    + unfold cands in *. cbn [map]. rewrite Hc. f_equal. unfold op_of. destruct (decision_eqb _ _); reflexivity.
    + unfold no_raw_b in *. cbn [forallb]. rewrite Hr. unfold op_of. destruct (decision_eqb _ _); reflexivity.
Qed.

Lemma init_state_arch p c0 t0 s0 : init_state p c0 t0 = Ok s0 -> arch s0 = [].
Proof.
  unfold init_state. intros H. apply bind_ok in H. destruct H as (u & _ & H). inversion H. reflexivity.
Qed.

Lemma same_dim_forall d (is : list input) :
  same_dim_b d (map i_cand is) = true -> Forall (fun i => wf_len d (i_cand i)) is.
Proof.
  intros H. apply same_dim_b_iff in H. apply Forall_forall. intros i Hi. apply H. apply in_map. exact Hi.
Qed.

(* C05's invariant in every state reached by the explorer model *)
Lemma run_archive_invariant p d c0 t0 s0 is os s cs :
  init_state p c0 t0 = Ok s0 -> run p s0 is = Ok (os, s) ->
  same_dim_b d (map i_cand is) = true -> incl (map i_cand is) cs -> consistent cs ->
  arch s = run_b_from [] (ops_of is os)
  /\ dim_ok d (arch s) /\ nondominated (arch s) /\ dup_free (arch s) /\ incl (arch s) cs.
Proof.
  intros H0 Hrun Hdim Hincl Hcons.
  pose proof (init_state_arch _ _ _ _ H0) as E0.
  destruct (run_arch p d is s0 os s) as (Ea & Hd & Hc & Hr); [rewrite E0; apply dim_ok_nil | apply same_dim_forall; exact Hdim | exact Hrun |].
  rewrite E0 in Ea. split; [exact Ea|]. split; [exact Hd|].
  assert (I : inv cs (run_b_from [] (ops_of is os))).
  { apply inv_run; [apply inv_nil | rewrite Hc; exact Hincl | exact Hr | left; exact Hcons]. }
  rewrite Ea. exact I.
Qed.

Lemma run_archive_invariant_b p d c0 t0 s0 is os s :
  init_state p c0 t0 = Ok s0 -> run p s0 is = Ok (os, s) ->
  same_dim_b d (map i_cand is) = true -> consistent_b (map i_cand is) = true ->
  arch s = run_b_from [] (ops_of is os)
  /\ nondominated (arch s) /\ dup_free (arch s) /\ incl (arch s) (map i_cand is).
Proof.
  intros H0 Hrun Hdim Hcons. apply consistent_b_iff in Hcons.
  destruct (run_archive_invariant p d c0 t0 s0 is os s (map i_cand is) H0 Hrun Hdim (incl_refl _) Hcons)
    as (A & _ & B & C & D). auto.
Qed.

(* the "held and also dominated" corner cannot occur: in every run, a candidate whose action set is held
   is answered "duplicate" and the move is certain *)
Lemma held_in_any_run p d c0 t0 s0 is os s i :
  init_state p c0 t0 = Ok s0 -> run p s0 is = Ok (os, s) ->
  same_dim_b d (map i_cand (is ++ [i])) = true -> consistent_b (map i_cand (is ++ [i])) = true ->
  (exists x, In x (arch s) /\ same_acts x (i_cand i)) ->
  exists s1, accept_phase p s i = Ok (RejectedWithDuplicateEntryDetected, AcceptDesirable, s1)
             /\ cur s1 = i_cand i /\ arch s1 = arch s /\ accprob s1 = 1%float.
Proof.
  intros H0 Hrun Hdim Hcons (x & Hx & Hs).
  apply consistent_b_iff in Hcons.
  assert (Hdim' : same_dim_b d (map i_cand is) = true).
  { apply same_dim_b_iff. apply same_dim_b_iff in Hdim. intros m Hm. apply Hdim.
    rewrite map_app. apply in_or_app. left. exact Hm. }
  assert (Hinc : incl (map i_cand is) (map i_cand (is ++ [i]))).
  { rewrite map_app. apply incl_appl. apply incl_refl. }
  destruct (run_archive_invariant p d c0 t0 s0 is os s _ H0 Hrun Hdim' Hinc Hcons)
    as (_ & Hd & Hnd & _ & Hin).
  assert (Hci : In (i_cand i) (map i_cand (is ++ [i]))).
  { rewrite map_app. apply in_or_app. right. left. reflexivity. }
  assert (Hlen : length (e_vec (i_cand i)) = d).
  { apply same_dim_b_iff in Hdim. apply Hdim. exact Hci. }
  apply move_certain_when_held; [exists x; auto|].
  intros m Hm.
  rewrite dominates_domb by (rewrite (Hd m Hm); symmetry; exact Hlen).
  f_equal. apply domb_false_iff. intros D.
  assert (Ev : vec_eq (e_vec (i_cand i)) (e_vec x)).
  { apply Hcons; [exact Hci | apply Hin; exact Hx | symmetry; apply acts_eqb_iff; exact Hs]. }
  apply (Hnd m x Hm Hx). unfold dom in *. eapply pareto_compat_r; eassumption.
Qed.

(* ---------- 2. refinement of the composed model's step rule ---------- *)

Lemma desirable_verdict_is_stored_or_held v : desirable_verdict v = stored_or_held v.
Proof. destruct v; reflexivity. Qed.

Definition coolant_accepts (p : params) (i : input) : bool :=
  decide (accept_prob (p_kind p) (i_es i)) (unitary (i_draw i)).

Definition moves (dd : decision) : bool := negb (decision_eqb dd RevertUndesirable).

(* the move rule and the archive step: [accept_phase] on the candidate [entry_of d bits] computes exactly what
   [cm_apply] computes with coolant_accepts := (p > u), whatever return-to-base selection follows *)
Lemma step_rule_refines_composed p d m pot2 s i rtb m' :
  arch s = cm_arch m -> dim_ok 6 (cm_arch m) ->
  i_cand i = entry_of d (active_list d pot2) ->
  cm_apply d m pot2 (coolant_accepts p i) rtb = CMOk m' ->
  exists dd s1,
    accept_phase p s i = Ok (fst (attempt_b (cm_arch m) (i_cand i)), dd, s1)
    /\ arch s1 = cm_arch m'
    /\ cm_hist m' = cm_hist m ++ [(decision_eqb dd AcceptUndesirable, e_acts (i_cand i))]
    /\ cur s1 = (if moves dd then i_cand i else cur s)
    /\ (rtb = None ->
        cm_cur m' = (if moves dd then synchronise d (cm_cur m) (e_acts (i_cand i)) else cm_cur m)).
Proof.
  intros Ea Hd Hc Happ.
  assert (Hlen : wf_len 6 (i_cand i)) by (rewrite Hc; reflexivity).
  rewrite <- Ea in Hd.
  destruct (accept_phase_pure p 6 s i Hd Hlen) as (s1 & E & Earch & Ecur & _).
  unfold cm_apply in Happ. rewrite <- Hc, <- Ea in Happ.
  rewrite !desirable_verdict_is_stored_or_held in Happ.
  fold (coolant_accepts p i) in E, Earch, Ecur.
  rewrite <- Ea.
  set (v := fst (attempt_b (arch s) (i_cand i))) in *.
  set (acc := coolant_accepts p i) in *.
  eexists. exists s1. split; [exact E|].
  assert (Hf : decision_eqb (if stored_or_held v then AcceptDesirable else if acc then AcceptUndesirable else RevertUndesirable)
                 AcceptUndesirable = negb (stored_or_held v) && acc).
  { destruct (stored_or_held v), acc; reflexivity. }
  assert (Hm : moves (if stored_or_held v then AcceptDesirable else if acc then AcceptUndesirable else RevertUndesirable)
               = stored_or_held v || acc).
  { destruct (stored_or_held v), acc; reflexivity. }
  rewrite Hf, Hm.
  assert (Hbits : e_acts (i_cand i) = active_list d pot2) by (rewrite Hc; reflexivity).
  destruct rtb as [j|].
  - destruct (nth_error _ j) as [base|]; [|discriminate]. inversion Happ; subst m'. cbn [cm_arch cm_hist cm_cur].
    rewrite Hbits. repeat split; auto. discriminate.
  - inversion Happ; subst m'. cbn [cm_arch cm_hist cm_cur]. rewrite Hbits. repeat split; auto.
Qed.

(* ---------- 3. forward simulation of whole iterations (move rule + return to base) ---------- *)

(* the explorer model's state and the composed model's state describe the same archive and the same current
   action set *)
Definition sim (d : dataset) (s : st) (m : cm_state) : Prop :=
  arch s = cm_arch m /\ e_acts (cur s) = active_list d (cm_cur m).

Lemma active_list_sync d s bits : length bits = nactions d -> active_list d (synchronise d s bits) = bits.
Proof.
  intros Hl. apply nth_ext with (d := false) (d' := false).
  - rewrite active_list_length. symmetry. exact Hl.
  - intros n Hn. rewrite active_list_length in Hn. rewrite active_list_nth by exact Hn.
    apply sync_active; assumption.
Qed.

Lemma rtb_phase_pick p s i b s2 :
  rtb_phase p s i = Ok (Some b, s2) ->
  nth_error (arch s) (Nat.modulo (i_pick i) (length (arch s))) = Some b.
Proof.
  unfold rtb_phase. destruct (dec64 (until s) <=? 0)%N; [|intros H; inversion H].
  destruct (arch s) as [|e0 a] eqn:Ea; [discriminate|].
  assert (Hk : (Nat.modulo (i_pick i) (length (e0 :: a)) < length (e0 :: a))%nat)
    by (apply Nat.mod_upper_bound; discriminate).
  remember (Nat.modulo (i_pick i) (length (e0 :: a))) as k eqn:Ek. clear Ek.
  intros H. apply bind_ok in H. destruct H as (u' & _ & H).
  assert (Hb : nth k (e0 :: a) e0 = b) by congruence.
  rewrite <- Hb. apply nth_error_nth'. exact Hk.
Qed.

(* the return-to-base selection of the composed model that corresponds to what the iteration did *)
Definition rtb_of (i : input) (o : obs) (s' : st) : option nat :=
  match o_base o with
  | Some _ => Some (Nat.modulo (i_pick i) (length (arch s')))
  | None => None
  end.

Lemma iteration_refines_composed p d m pot2 s i o s' :
  CMValid d m -> sim d s m ->
  i_cand i = entry_of d (active_list d pot2) ->
  iteration p s i = Ok (o, s') ->
  exists m', cm_apply d m pot2 (coolant_accepts p i) (rtb_of i o s') = CMOk m' /\ sim d s' m'.
Proof.
  intros HV [Ea Ec] Hcand Hit.
  assert (Hd : dim_ok 6 (arch s)).
  { rewrite Ea. intros e He. destruct (arch_members d m e HV He) as (E & _). rewrite E. reflexivity. }
  assert (Hlen : wf_len 6 (i_cand i)) by (rewrite Hcand; reflexivity).
  assert (Hbits : e_acts (i_cand i) = active_list d pot2) by (rewrite Hcand; reflexivity).
  destruct (iteration_decompose _ _ _ _ _ Hit) as (s1 & s2 & H1 & H2 & _ & Ecur & Earch & _).
  destruct (accept_phase_pure p 6 s i Hd Hlen) as (s1' & E & Earch1 & Ecur1 & _).
  fold (coolant_accepts p i) in E, Earch1, Ecur1.
  rewrite H1 in E. injection E as Ev Ed Es. subst s1'.
  destruct (rtb_phase_spec _ _ _ _ _ H2) as (_ & Earch2 & _ & _ & _ & _ & _ & _ & Hbase).
  unfold cm_apply, rtb_of. rewrite <- Hcand, <- Ea. rewrite !desirable_verdict_is_stored_or_held.
  set (v := fst (attempt_b (arch s) (i_cand i))) in *.
  set (acc := coolant_accepts p i) in *.
  rewrite <- Earch1.
  set (cur1 := if stored_or_held v || acc then synchronise d (cm_cur m) (active_list d pot2) else cm_cur m).
  assert (Hcur1 : e_acts (cur s1) = active_list d cur1).
  { rewrite Ecur1. unfold cur1. destruct (stored_or_held v || acc).
    - rewrite active_list_sync by apply active_list_length. exact Hbits.
    - exact Ec. }
  unfold sim. rewrite !Earch, !Earch2.
  destruct (o_base o) as [b|] eqn:Eb.
  - rewrite (rtb_phase_pick _ _ _ _ _ H2).
    eexists. split; [reflexivity|]. split; cbn [cm_arch cm_cur]; [reflexivity|].
    destruct Hbase as (Hin & Hc2 & _). rewrite Ecur, Hc2.
    unfold decompress. rewrite active_list_sync; [reflexivity|].
    (* the base is a member of arch s1, i.e. an old member or the candidate *)
    rewrite Earch1 in Hin. apply step_b_incl in Hin. apply in_app_or in Hin.
    destruct Hin as [Hin|[Hin|[]]].
    + rewrite Ea in Hin. destruct (arch_members d m b HV Hin) as (_ & Hl & _). exact Hl.
    + assert (Hb : b = i_cand i) by (rewrite <- Hin; destruct (negb (stored_or_held v) && acc); reflexivity).
      rewrite Hb, Hbits. apply active_list_length.
  - eexists. split; [reflexivity|]. split; cbn [cm_arch cm_cur]; [reflexivity|].
    destruct Hbase as (Hc2 & _). rewrite Ecur, Hc2. exact Hcur1.
Qed.

(* consequence: every state of the explorer model that simulates a valid composed state carries an archive with
   the end-to-end guarantees of composed_multi_objective_run, and so does its successor *)
Lemma iteration_keeps_composed_guarantees p d m pot2 s i o s' :
  wf_dataset d = true -> CMValid d m -> Valid d pot2 -> sim d s m ->
  i_cand i = entry_of d (active_list d pot2) ->
  iteration p s i = Ok (o, s') ->
  exists m', CMValid d m' /\ sim d s' m'
    /\ nondominated (arch s') /\ dup_free (arch s')
    /\ forall e, In e (arch s') -> e_vec e = eval_vec d (e_acts e) /\ set_valid d (e_acts e) = true.
Proof.
  intros Hwf HV V2 Hsim Hcand Hit.
  destruct (iteration_refines_composed p d m pot2 s i o s' HV Hsim Hcand Hit) as (m' & Happ & Hsim').
  pose proof (cm_apply_valid d Hwf _ _ _ _ _ HV V2 Happ) as HV'.
  exists m'. split; [exact HV'|]. split; [exact Hsim'|].
  destruct (CMValid_boundary d m' HV') as (_ & Hnd & Hdf & Hmem).
  destruct Hsim' as [Ea' _]. rewrite Ea'. auto.
Qed.
