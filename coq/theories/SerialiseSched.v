(* C16 -- converse of the serialisation theorem: EVERY one-at-a-time order is realised by an execution of the
   small-step relation (with a deferred Unlock, handlers may panic).  So the hypothesis of [locked_serialisable] is
   satisfiable for every program and every order, and the outcomes of the lock-wrapped executions are EXACTLY the
   serial outcomes. *)
From Coq Require Import String List Arith Bool Lia Permutation.
From Crem Require Import Serialise SerialiseCorr SerialiseProofs.
Import ListNotations.

Section Sched.
Variables St Lc : Type.
Variable progs : list (prog St Lc).

Notation thr_of := (@thr_of St Lc true progs).

Lemma exec_one : forall (c : cfg St Lc) e c', step c e c' -> exec c [e] c'.
Proof. intros c e c' H. change [e] with ([] ++ [e]). eapply exec_snoc; [apply exec_nil|exact H]. Qed.

(* the holder of the mutex runs the rest of its body *)
Lemma body_run : forall (xs : list (astep St Lc)) (c : cfg St Lc) i l T y,
  lock c = true -> nth_error T i = Some y ->
  thr c = upd T i {| loc := l; code := map (@IAct St Lc) xs ++ [IRel true] |} ->
  exists tr c', exec c tr c' /\ acq_order tr = [] /\ lock c' = true /\
                sh c' = fst (run_body xs (sh c) l) /\
                thr c' = upd T i {| loc := snd (run_body xs (sh c) l); code := [IRel true] |}.
Proof.
  induction xs as [|a r IH]; intros c i l T y Hl Hy Ht.
  - exists [], c. cbn. repeat split; auto. apply exec_nil.
  - destruct (a (sh c) l) as [[s' l1] pf] eqn:Ha.
    assert (Hn : nth_error (thr c) i = Some {| loc := l; code := IAct a :: map (@IAct St Lc) r ++ [IRel true] |}).
    { rewrite Ht. eapply nth_error_upd_eq; eauto. }
    pose proof (step_act c i Hn Ha) as Hstep.
    destruct pf.
    + eexists. eexists. split; [apply exec_one; exact Hstep|].
      cbn [acq_order sh lock thr run_body]. rewrite Ha. cbn [fst snd].
      repeat split; auto.
      rewrite Ht, upd_upd, unwind_acts. reflexivity.
    + set (c1 := {| sh := s'; lock := lock c;
                    thr := upd (thr c) i {| loc := l1; code := map (@IAct St Lc) r ++ [IRel true] |} |}) in *.
      destruct (IH c1 i l1 T y) as (tr & c' & He & Ha' & Hl' & Hs' & Ht'); auto.
      { cbn. rewrite Ht, upd_upd. reflexivity. }
      exists ([EAct i] ++ tr), c'. split; [eapply exec_app; [apply exec_one; exact Hstep|exact He]|].
      cbn [app acq_order run_body]. rewrite Ha. cbn in Hs', Ht'. repeat split; auto.
Qed.

(* a waiting thread acquires the free mutex, runs its whole body, releases *)
Lemma thread_run : forall (c : cfg St Lc) i p res,
  lock c = false -> thr c = thr_of res ->
  nth_error progs i = Some p -> nth_error res i = Some None ->
  exists tr c', exec c tr c' /\ acq_order tr = [i] /\ lock c' = false /\
                sh c' = fst (run_body (body p) (sh c) (l0 p)) /\
                thr c' = thr_of (upd res i (Some (snd (run_body (body p) (sh c) (l0 p))))).
Proof.
  intros c i p res Hl Ht Hp Hr.
  assert (Hn : nth_error (thr c) i = Some {| loc := l0 p; code := IAcq :: map (@IAct St Lc) (body p) ++ [IRel true] |}).
  { rewrite Ht, nth_error_thr_of, Hp, Hr. reflexivity. }
  pose proof (step_acq c i Hn Hl) as Hacq.
  set (c1 := {| sh := sh c; lock := true;
                thr := upd (thr c) i {| loc := l0 p; code := map (@IAct St Lc) (body p) ++ [IRel true] |} |}) in *.
  destruct (body_run (body p) c1 i (l0 p) (thr c) _ eq_refl Hn eq_refl) as (tr & c2 & He & Ha & Hl2 & Hs2 & Ht2).
  cbn [sh] in Hs2, Ht2.
  assert (Hn2 : nth_error (thr c2) i = Some {| loc := snd (run_body (body p) (sh c) (l0 p)); code := [IRel true] |}).
  { rewrite Ht2. eapply nth_error_upd_eq; eauto. }
  pose proof (step_rel c2 i Hn2 Hl2) as Hrel.
  eexists. eexists. split.
  { eapply exec_app; [apply exec_one; exact Hacq|]. eapply exec_app; [exact He|apply exec_one; exact Hrel]. }
  rewrite !acq_order_app, Ha. cbn [acq_order app sh lock thr].
  repeat split; auto.
  rewrite Ht2, upd_upd, Ht.
  change {| loc := snd (run_body (body p) (sh c) (l0 p)); code := [] |}
    with (thread_of true p (Some (snd (run_body (body p) (sh c) (l0 p))))).
  apply thr_of_upd. exact Hp.
Qed.

Lemma serial_schedule : forall ord (c : cfg St Lc) res,
  lock c = false -> thr c = thr_of res -> NoDup ord ->
  (forall i, In i ord -> i < length progs /\ nth_error res i = Some None) ->
  exists tr c' res', exec c tr c' /\ acq_order tr = ord /\ lock c' = false /\ thr c' = thr_of res' /\
                     length res' = length res /\
                     (forall j, ~ In j ord -> nth_error res' j = nth_error res j) /\
                     (forall j, In j ord -> exists l, nth_error res' j = Some (Some l)).
Proof.
  induction ord as [|i r IH]; intros c res Hl Ht Hnd Hin.
  - exists [], c, res. repeat split; auto; [apply exec_nil|intros j []].
  - inversion Hnd as [|? ? Hni Hnd']; subst.
    destruct (Hin i (or_introl eq_refl)) as [Hlt Hri].
    destruct (nth_error progs i) as [p|] eqn:Hp; [|apply nth_error_None in Hp; lia].
    destruct (thread_run c i p res Hl Ht Hp Hri) as (tr1 & c1 & He1 & Ha1 & Hl1 & _ & Ht1).
    set (res1 := upd res i (Some (snd (run_body (body p) (sh c) (l0 p))))) in *.
    destruct (IH c1 res1 Hl1 Ht1 Hnd') as (tr2 & c2 & res2 & He2 & Ha2 & Hl2 & Ht2 & Hlen2 & Hkeep & Hset).
    { intros j Hj. destruct (Hin j (or_intror Hj)) as [Hjl Hjr]. split; auto.
      unfold res1. rewrite nth_error_upd_neq; auto. intro; subst; contradiction. }
    exists (tr1 ++ tr2), c2, res2. split; [eapply exec_app; eauto|].
    rewrite acq_order_app, Ha1, Ha2. repeat split; auto.
    + rewrite Hlen2. unfold res1. apply upd_length.
    + intros j Hj. rewrite Hkeep by (intro; apply Hj; right; auto).
      unfold res1. apply nth_error_upd_neq. intro; subst. apply Hj. left; auto.
    + intros j [<-|Hj]; [|auto].
      rewrite Hkeep by exact Hni. unfold res1. eexists. eapply nth_error_upd_eq; eauto.
Qed.

(* every order is realised by a completed execution ... *)
Theorem every_order_realisable : forall (s0 : St) ord,
  Permutation ord (seq 0 (length progs)) ->
  exists tr c, exec (init true progs s0) tr c /\ all_done c = true /\ acq_order tr = ord.
Proof.
  intros s0 ord Hperm.
  assert (Hnd : NoDup ord) by (eapply Permutation_NoDup; [apply Permutation_sym; exact Hperm|apply seq_NoDup]).
  assert (Hin : forall i, In i ord <-> i < length progs).
  { intro i. split; intro H.
    - eapply Permutation_in in H; [|exact Hperm]. apply in_seq in H. lia.
    - eapply Permutation_in; [apply Permutation_sym; exact Hperm|]. apply in_seq. lia. }
  destruct (serial_schedule ord (init true progs s0) (map (fun _ => None) progs)) as (tr & c & res & He & Ha & Hl & Ht & Hlen & _ & Hset); auto.
  { cbn. symmetry. apply thr_of_init. }
  { intros i Hi. apply Hin in Hi. split; auto. rewrite nth_error_map.
    destruct (nth_error progs i) eqn:E; [reflexivity|apply nth_error_None in E; lia]. }
  exists tr, c. repeat split; auto.
  unfold all_done. rewrite Ht. apply forallb_forall. intros t Hin_t.
  apply In_nth_error in Hin_t. destruct Hin_t as [j Hj].
  rewrite nth_error_thr_of in Hj.
  destruct (nth_error progs j) as [p|] eqn:Hp; [|discriminate].
  assert (Hjl : j < length progs) by (apply nth_error_Some; congruence).
  destruct (Hset j (proj2 (Hin j) Hjl)) as [l Hl']. rewrite Hl' in Hj. inversion Hj. reflexivity.
Qed.

(* ... whose outcome is that order's serial outcome: lock-wrapped executions attain EXACTLY the serial outcomes *)
Theorem serial_outcomes_attained : forall (s0 : St) ord,
  Permutation ord (seq 0 (length progs)) ->
  exists tr c, exec (init true progs s0) tr c /\ all_done c = true /\
               sh c = fst (serial progs ord s0) /\ results c = snd (serial progs ord s0).
Proof.
  intros s0 ord Hperm. destruct (every_order_realisable s0 ord Hperm) as (tr & c & He & Hd & Ha).
  exists tr, c. split; auto. split; auto.
  destruct (locked_serialisable He Hd) as (_ & Hs & Hr). rewrite Ha in Hs, Hr. auto.
Qed.

End Sched.
