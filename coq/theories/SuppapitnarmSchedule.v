(* C06 — the return-to-base schedule: the float-exact countdown machine never wraps, fires exactly at
   the partial sums of the countdowns, and the countdowns are floor(max(min, step*factor)), bounded
   below by the minimum and non-increasing.  Uses the Flocq bridge lemmas of SuppRtbFloatProofs.v. *)
From Coq Require Import List ZArith NArith QArith Bool Floats Lia Reals Lra.
From Flocq Require Import Core.
From Crem Require Import Base.Res Dominance DominanceProofs NdArchive NdArchiveProofs SuppRtbFloat SuppRtbFloatProofs
  Suppapitnarm SuppapitnarmProofs.
Import ListNotations.

Section Schedule.
Variable p : params.
Hypothesis OK : params_ok p = true.

Let Hinit : exact_int_range (p_init p) = true.
Proof. unfold params_ok in OK. apply andb_prop in OK. destruct OK as [H _]. apply andb_prop in H. tauto. Qed.
Let Hmin : exact_int_range (p_min p) = true.
Proof. unfold params_ok in OK. apply andb_prop in OK. destruct OK as [H _]. apply andb_prop in H. tauto. Qed.
Let Hfac : factor_in_range (p_factor p) = true.
Proof. unfold params_ok in OK. apply andb_prop in OK. tauto. Qed.

Let M := of_int64 (p_min p).
Let goodM : good M /\ val M = IZR (p_min p) := good_of_int64 _ Hmin.

Lemma init_range : (1 <= p_init p <= 2 ^ 53)%Z.
Proof. pose proof Hinit as H. unfold exact_int_range in H. apply andb_prop in H. destruct H as [A B].
  apply Z.leb_le in A. apply Z.leb_le in B. lia. Qed.
Lemma min_range : (1 <= p_min p <= 2 ^ 53)%Z.
Proof. pose proof Hmin as H. unfold exact_int_range in H. apply andb_prop in H. destruct H as [A B].
  apply Z.leb_le in A. apply Z.leb_le in B. lia. Qed.

Lemma sched_step_good j : good (sched_step p j).
Proof.
  induction j as [|j IH]; cbn [sched_step].
  - apply good_of_int64. exact Hinit.
  - apply next_step_good; [apply goodM | exact Hfac | exact IH].
Qed.

Lemma sched_step_ge_min j : (val M <= val (sched_step p (S j)))%R.
Proof.
  cbn [sched_step]. apply next_step_good; [apply goodM | exact Hfac | apply sched_step_good].
Qed.

(* the real-number reading of the recurrence: step_{j+1} = max(min, step_j (x) factor, (x) the binary64 product) *)
Lemma sched_step_recurrence j :
  val (sched_step p (S j)) = Rmax (IZR (p_min p)) (val (sched_step p j * p_factor p)%float).
Proof.
  cbn [sched_step]. unfold next_step. fold M.
  destruct goodM as [[FM [M1 _]] VM].
  destruct (factor_in_range_spec _ Hfac) as [Ff Vf].
  destruct (sched_step_good j) as [Fs [S1 _]].
  destruct (mul_shrinks _ _ Fs ltac:(lra) Ff Vf) as [Fp _].
  destruct (go_max_val M _ FM Fp ltac:(lra)) as [_ V]. rewrite V, VM. reflexivity.
Qed.

Lemma countdown_is_floor j :
  sched_countdown p j = Ok (Z.to_N (Zfloor (val (sched_step p j)))).
Proof.
  unfold sched_countdown.
  destruct (good_countdown _ (sched_step_good j)) as (n & E & -> & _). exact E.
Qed.

Lemma countdown_defined j : exists c, sched_countdown p j = Ok c /\ (1 <= c < 2 ^ 64)%N.
Proof.
  unfold sched_countdown.
  destruct (good_countdown _ (sched_step_good j)) as (n & E & _ & R). eauto.
Qed.

Lemma countdown_first : sched_countdown p 0 = Ok (Z.to_N (p_init p)).
Proof.
  destruct (countdown_defined 0) as (c & E & _). rewrite E. f_equal.
  unfold sched_countdown in E. cbn [sched_step] in E.
  destruct (good_of_int64 _ Hinit) as [G V].
  eapply countdown_of_int; [|exact G|exact V|exact E]. pose proof init_range. lia.
Qed.

Lemma countdown_ge_min j c : sched_countdown p (S j) = Ok c -> (Z.to_N (p_min p) <= c)%N.
Proof.
  intros E. unfold sched_countdown in E.
  eapply countdown_ge_int; [| apply sched_step_good | | exact E].
  - pose proof min_range. lia.
  - destruct goodM as [_ VM]. rewrite <- VM. apply sched_step_ge_min.
Qed.

Lemma countdown_nonincreasing j c c' :
  sched_countdown p (S j) = Ok c -> sched_countdown p (S (S j)) = Ok c' -> (c' <= c)%N.
Proof.
  intros E E'. unfold sched_countdown in *.
  eapply countdown_mono; [apply sched_step_good | apply sched_step_good | | exact E' | exact E].
  pose proof (sched_step_ge_min j) as Hge.
  destruct (next_step_good M (p_factor p) (sched_step p (S j)) (proj1 goodM) Hfac (sched_step_good (S j)))
    as (_ & _ & Hub).
  change (next_step M (p_factor p) (sched_step p (S j))) with (sched_step p (S (S j))) in Hub.
  rewrite Rmax_right in Hub by exact Hge. exact Hub.
Qed.

Lemma countdown_first_nonincreasing c0 c1 :
  (p_min p <= p_init p)%Z ->
  sched_countdown p 0 = Ok c0 -> sched_countdown p 1 = Ok c1 -> (c1 <= c0)%N.
Proof.
  intros Hle E0 E1. unfold sched_countdown in *.
  eapply countdown_mono; [apply sched_step_good | apply sched_step_good | | exact E1 | exact E0].
  destruct (next_step_good M (p_factor p) (sched_step p 0) (proj1 goodM) Hfac (sched_step_good 0))
    as (_ & _ & Hub).
  change (next_step M (p_factor p) (sched_step p 0)) with (sched_step p 1) in Hub.
  rewrite Rmax_right in Hub; [exact Hub|].
  destruct goodM as [_ VM]. rewrite VM. cbn [sched_step].
  destruct (good_of_int64 _ Hinit) as [_ VI]. rewrite VI. apply IZR_le. exact Hle.
Qed.

(* ---- return iterations ---- *)
Lemma ret_iter_defined k : exists t, ret_iter p k = Ok t.
Proof.
  induction k as [|k [t IH]]; cbn [ret_iter]; [eauto|].
  destruct (countdown_defined k) as (c & E & _). rewrite IH, E. cbn. eauto.
Qed.

Lemma ret_iter_S k t c :
  ret_iter p k = Ok t -> sched_countdown p k = Ok c -> ret_iter p (S k) = Ok (t + c)%N.
Proof. intros Ht Hc. cbn [ret_iter]. rewrite Ht, Hc. reflexivity. Qed.

Lemma ret_iter_mono j k tj tk :
  (j <= k)%nat -> ret_iter p j = Ok tj -> ret_iter p k = Ok tk -> (tj <= tk)%N.
Proof.
  intros Hjk. revert tk. induction Hjk as [|k Hjk IH]; intros tk Hj Hk.
  - rewrite Hj in Hk. inversion Hk. lia.
  - destruct (ret_iter_defined k) as (t & Ht). destruct (countdown_defined k) as (c & Ec & _).
    rewrite (ret_iter_S _ _ _ Ht Ec) in Hk. inversion Hk; subst. specialize (IH t Hj Ht). lia.
Qed.

Lemma ret_iter_strict j k tj tk :
  (j < k)%nat -> ret_iter p j = Ok tj -> ret_iter p k = Ok tk -> (tj < tk)%N.
Proof.
  intros Hjk Hj Hk.
  destruct (ret_iter_defined (S j)) as (t' & Ht'). destruct (countdown_defined j) as (c & Ec & Hc & _).
  pose proof (ret_iter_S _ _ _ Hj Ec) as E. rewrite E in Ht'. inversion Ht'; subst.
  pose proof (ret_iter_mono (S j) k _ _ Hjk E Hk). lia.
Qed.

(* ---- the invariant of reachable states ---- *)

Lemma init_state_ok c0 t0 : exists s0, init_state p c0 t0 = Ok s0.
Proof.
  unfold init_state. destruct (countdown_defined 0) as (c & E & _).
  unfold sched_countdown in E. cbn [sched_step] in E. rewrite E. cbn. eauto.
Qed.

Lemma sched_inv_init c0 t0 s0 : init_state p c0 t0 = Ok s0 -> sched_inv p 0 s0.
Proof.
  unfold init_state. intros H. apply bind_ok in H. destruct H as (u & Hu & H). inversion H; subst.
  destruct (countdown_defined 0) as (c & E & Hc1 & _).
  assert (c = u) by (unfold sched_countdown in E; cbn [sched_step] in E; congruence). subst c.
  exists 0%nat, 0%N, u. cbn. repeat split; auto; lia.
Qed.

Lemma dec64_pos n : (1 <= n)%N -> dec64 n = N.pred n.
Proof. intros H. unfold dec64. destruct (N.eqb_spec n 0); [lia | reflexivity]. Qed.

Lemma sched_inv_step n s i o s' :
  sched_inv p n s -> iteration p s i = Ok (o, s') ->
  sched_inv p (S n) s'
  /\ (is_some (o_base o) = true <-> exists k, ret_iter p (S k) = Ok (N.of_nat (S n))).
Proof.
  intros (k & t & c & Ht & Hc & Hrange & Hu & Hs & Hi & Hl) H.
  destruct (iteration_sched _ _ _ _ _ H) as (Htick & Hi' & Hl').
  unfold sched_tick in Htick. cbn [fst snd] in Htick.
  rewrite dec64_pos in Htick by lia.
  pose proof (ret_iter_S _ _ _ Ht Hc) as HtS.
  destruct (N.leb_spec (N.pred (until s)) 0) as [Z|NZ].
  - (* fires *)
    apply bind_ok in Htick. destruct Htick as (u' & Hu' & E). inversion E as [[Eb Eu Es]]; clear E.
    assert (Hn : (N.of_nat (S n) = t + c)%N) by lia.
    assert (Hc' : sched_countdown p (S k) = Ok u').
    { unfold sched_countdown. cbn [sched_step]. rewrite <- Hs. exact Hu'. }
    destruct (countdown_defined (S k)) as (c' & E' & Hc1 & _). rewrite Hc' in E'. inversion E'; subst c'.
    split.
    + exists (S k), (t + c)%N, u'. rewrite <- Eb in Hl'. cbn in Hl'.
      repeat split; try assumption; try lia.
      rewrite <- Es. cbn [sched_step]. rewrite Hs. reflexivity.
    + split; [intros _|intros _; reflexivity]. exists k. rewrite HtS. f_equal. lia.
  - (* does not fire *)
    inversion Htick as [[Eb Eu Es]]; clear Htick.
    split.
    + exists k, t, c. rewrite <- Eb in Hl'. cbn in Hl'.
      repeat split; try assumption; try lia. congruence.
    + split; [discriminate|]. intros (k' & Hk'). exfalso.
      destruct (Nat.lt_trichotomy k' k) as [L|[E|G]].
      * pose proof (ret_iter_mono (S k') k _ _ L Hk' Ht). lia.
      * subst k'. rewrite HtS in Hk'. inversion Hk'. lia.
      * pose proof (ret_iter_strict (S k) (S k') _ _ ltac:(lia) HtS Hk'). lia.
Qed.

Lemma reach_sched_inv c0 t0 s0 n s :
  init_state p c0 t0 = Ok s0 -> reach p s0 n s -> sched_inv p n s.
Proof.
  intros H0 R. induction R as [|n s i o s' R IH Hit].
  - eapply sched_inv_init. exact H0.
  - eapply sched_inv_step; eassumption.
Qed.

Lemma reach_no_wrap c0 t0 s0 n s :
  init_state p c0 t0 = Ok s0 -> reach p s0 n s -> (1 <= until s < 2 ^ 64)%N.
Proof.
  intros H0 R. destruct (reach_sched_inv _ _ _ _ _ H0 R) as (k & t & c & _ & Hc & Hr & Hu & _).
  destruct (countdown_defined k) as (c' & E & _ & Hlt). rewrite Hc in E. inversion E; subst c'. lia.
Qed.

Lemma reach_fire_iff c0 t0 s0 n s i o s' :
  init_state p c0 t0 = Ok s0 -> reach p s0 n s -> iteration p s i = Ok (o, s') ->
  (o_base o <> None <-> exists k, ret_iter p (S k) = Ok (N.of_nat (S n))).
Proof.
  intros H0 R Hit.
  destruct (sched_inv_step _ _ _ _ _ (reach_sched_inv _ _ _ _ _ H0 R) Hit) as [_ Hiff].
  rewrite <- Hiff. destruct (o_base o); cbn; split; intros; congruence.
Qed.


(* ---- totality: with CheckNonDominance off and vectors of one length, no iteration can panic ---- *)

Lemma forall_wf_dim d a : Forall (wf_len d) a <-> dim_ok d a.
Proof. unfold dim_ok, wf_len. rewrite Forall_forall. tauto. Qed.

(* under one vector length the move rule is total, and it is C05's pure archive step [step_b]:
   Offer, or OfferForce when the verdict is undesirable and the coolant accepts *)
Lemma accept_phase_pure d s i :
  dim_ok d (arch s) -> wf_len d (i_cand i) ->
  let c := i_cand i in
  let v := fst (attempt_b (arch s) c) in
  let acc := decide (accept_prob (p_kind p) (i_es i)) (unitary (i_draw i)) in
  let forced := negb (stored_or_held v) && acc in
  let moves := stored_or_held v || acc in
  exists s1,
    accept_phase p s i =
      Ok (v, (if stored_or_held v then AcceptDesirable else if acc then AcceptUndesirable else RevertUndesirable), s1)
    /\ arch s1 = snd (step_b (arch s) (if forced then OfferForce c else Offer c))
    /\ cur s1 = (if moves then c else cur s)
    /\ dim_ok d (arch s1).
Proof.
  intros Ha Hc. cbv zeta. unfold accept_phase.
  rewrite (attempt_link d) by assumption. cbn [res_bind].
  pose proof (attempt_b_dim d _ _ Ha Hc) as Ha1.
  destruct (scan_b_range (arch s) (i_cand i)) as [R|[R|R]].
  - (* stored *)
    rewrite (attempt_b_stored _ _ R) in *. cbn [fst snd] in *.
    destruct (existsb _ _); cbn [change_desirable stored_or_held negb andb orb fst snd];
      (eexists; split; [reflexivity|]; cbn [arch cur step_b]; rewrite (attempt_b_stored _ _ R);
       cbn [fst snd]; repeat split; auto).
  - (* dominated *)
    rewrite attempt_b_refused in * by congruence. rewrite R in *. cbn [fst snd] in *.
    cbn [change_desirable stored_or_held negb andb orb].
    destruct (decide _ _) eqn:D.
    + rewrite (force_link d) by assumption. cbn [res_bind fst snd force_b].
      eexists. split; [reflexivity|]. cbn [arch cur step_b].
      rewrite attempt_b_refused by congruence. rewrite R. cbn [fst snd force_b]. repeat split; auto.
      apply (force_b_dim d); assumption.
    + eexists. split; [reflexivity|]. cbn [arch cur step_b].
      rewrite attempt_b_refused by congruence. rewrite R. cbn [fst snd]. repeat split; auto.
  - (* duplicate *)
    rewrite attempt_b_refused in * by congruence. rewrite R in *. cbn [fst snd] in *.
    cbn [change_desirable stored_or_held negb andb orb].
    eexists. split; [reflexivity|]. cbn [arch cur step_b].
    rewrite attempt_b_refused by congruence. rewrite R. cbn [fst snd]. repeat split; auto.
Qed.

Lemma accept_phase_total d s i :
  Forall (wf_len d) (arch s) -> wf_len d (i_cand i) ->
  exists v dd s1, accept_phase p s i = Ok (v, dd, s1) /\ Forall (wf_len d) (arch s1).
Proof.
  intros Ha Hc. apply forall_wf_dim in Ha.
  destruct (accept_phase_pure d s i Ha Hc) as (s1 & E & _ & _ & Hd).
  do 3 eexists. split; [exact E | apply forall_wf_dim; exact Hd].
Qed.

Lemma iteration_total d n s i :
  p_check_nd p = false -> sched_inv p n s -> Forall (wf_len d) (arch s) -> wf_len d (i_cand i) ->
  exists o s', iteration p s i = Ok (o, s') /\ Forall (wf_len d) (arch s').
Proof.
  intros Hnd (k & t & c & Ht & Hc & Hrange & Hu & Hs & _) Ha Hcand.
  destruct (accept_phase_total d s i Ha Hcand) as (v & dd & s1 & E1 & Ha1).
  pose proof (accept_phase_nonempty _ _ _ _ _ _ E1) as Hne.
  destruct (accept_phase_spec _ _ _ _ _ _ E1) as (_ & (Su & Ss & _) & _).
  assert (E2 : exists b s2, rtb_phase p s1 i = Ok (b, s2) /\ arch s2 = arch s1).
  { unfold rtb_phase. destruct (dec64 (until s1) <=? 0)%N.
    - destruct (arch s1) as [|e0 a] eqn:Ea; [contradiction|].
      destruct (countdown_defined (S k)) as (c' & Ec' & _).
      unfold sched_countdown in Ec'. cbn [sched_step] in Ec'. rewrite <- Hs, <- Ss in Ec'.
      rewrite Ec'. cbn [res_bind]. do 2 eexists. split; reflexivity.
    - do 2 eexists. split; reflexivity. }
  destruct E2 as (b & s2 & E2 & Ea2).
  unfold iteration, try_random_change. rewrite E1. cbn [res_bind]. rewrite E2. cbn [res_bind].
  unfold check_phase. rewrite Hnd. cbn [res_bind fst snd].
  do 2 eexists. split; [reflexivity|]. cbn [cool_down arch]. rewrite Ea2. exact Ha1.
Qed.

Lemma run_total_from d is : forall n s,
  p_check_nd p = false -> sched_inv p n s -> Forall (wf_len d) (arch s) ->
  Forall (fun i => wf_len d (i_cand i)) is ->
  exists os s', run p s is = Ok (os, s').
Proof.
  induction is as [|i is IH]; intros n s Hnd Hinv Ha His; cbn [run]; [eauto|].
  inversion His as [|? ? Hi His']; subst.
  destruct (iteration_total d n s i Hnd Hinv Ha Hi) as (o & s' & E & Ha').
  rewrite E. cbn [res_bind snd fst].
  destruct (sched_inv_step _ _ _ _ _ Hinv E) as [Hinv' _].
  destruct (IH (S n) s' Hnd Hinv' Ha' His') as (os & s'' & E').
  rewrite E'. cbn. eauto.
Qed.

Lemma run_total d c0 t0 is :
  p_check_nd p = false -> Forall (fun i => wf_len d (i_cand i)) is ->
  exists s0 os s', init_state p c0 t0 = Ok s0 /\ run p s0 is = Ok (os, s').
Proof.
  intros Hnd His. destruct (init_state_ok c0 t0) as (s0 & E0).
  destruct (run_total_from d is 0 s0 Hnd (sched_inv_init _ _ _ E0)) as (os & s' & E); [|exact His|eauto].
  unfold init_state in E0. apply bind_ok in E0. destruct E0 as (u & _ & E0). inversion E0. constructor.
Qed.

End Schedule.

(* ---- boundary witnesses ---- *)
Lemma large_init_refuted :
  exists p, (1 <= p_init p)%Z /\ (1 <= p_min p)%Z /\ factor_in_range (p_factor p) = true
            /\ sched_countdown p 0 <> Ok (Z.to_N (p_init p)).
Proof.
  exists (mk_params (2 ^ 53 + 1) 10 (mkf 8556839292003942 (-53)) 1%float Product false).
  split; [cbn; lia|]. split; [cbn; lia|]. split; [vm_compute; reflexivity|].
  vm_compute. discriminate.
Qed.

Lemma init_below_min_refuted :
  exists p c0 c1, params_ok p = true /\ sched_countdown p 0 = Ok c0 /\ sched_countdown p 1 = Ok c1
                  /\ (c0 < c1)%N /\ (c0 < Z.to_N (p_min p))%N.
Proof.
  exists (mk_params 1 10 (mkf 8556839292003942 (-53)) 1%float Product false), 1%N, 10%N.
  repeat split; vm_compute; reflexivity.
Qed.

(* ---- a concrete run: desirable acceptance, undesirable acceptance (forced) with a return to base,
   reversion with another return ---- *)
Definition ex_params := mk_params 2 1 (mkf 1 (-1)) 1%float Product false.
Definition ex_A := mk_entry [9#1; 9#1] [true; false].
Definition ex_B := mk_entry [11#1; 11#1] [true; true].
Definition ex_C := mk_entry [12#1; 12#1] [false; true].
Definition ex_inputs :=
  [ mk_input ex_A [] 0 0;
    mk_input ex_B [mkf 1 (-1); mkf 1 (-1)] 0 0;                       (* p = 0.25 > u = 0 *)
    mk_input ex_C [mkf 1 (-1); mkf 1 (-1)] (2 ^ 53 - 1) 0 ].          (* p = 0.25 > u = 1 is false *)

Definition example_run_statement : Prop :=
  exists s0 os s',
    init_state ex_params (mk_entry [10#1; 10#1] [false; false]) 1%float = Ok s0
    /\ run ex_params s0 ex_inputs = Ok (os, s')
    /\ map o_decision os = [AcceptDesirable; AcceptUndesirable; RevertUndesirable]
    /\ map o_verdict os = [StoredWithNoDominanceDetected; RejectedWithStoredEntryDominanceDetected;
                           RejectedWithStoredEntryDominanceDetected]
    /\ map o_base os = [None; Some ex_B; Some ex_B]
    /\ arch s' = [ex_B] /\ cur s' = ex_B /\ last_rtb s' = 3%N /\ until s' = 1%N.

Lemma example_run_holds : example_run_statement.
Proof.
  unfold example_run_statement.
  eexists. eexists. eexists.
  split; [vm_compute; reflexivity|].
  split; [vm_compute; reflexivity|].
  repeat split; vm_compute; reflexivity.
Qed.
