(* C19 — executable model of what an optimisation run does to the catchment model, with the randomisation
   loops RandomlyValidly{Activate,Deactivate}Actions AS THEY ARE AFTER proposed fix C19-1
   (internal/pkg/model/models/catchment/CoreModel.go):

       isValid := true
       for isValid && attemptLimit > 0 {
           if len(m.managementActions.ActiveActions()) == actionNumber { break }   // nothing left to try   (fix)
           actionChanged := m.managementActions.RandomlyInitialiseAnyAction()
           if actionChanged == nil { continue }                  // the pick is already active: no attempt consumed
           isValid, _ = m.ChangeIsValid()
           if !isValid { actionChanged.InitialisingDeactivation() }
           attemptLimit--
       }
       if isValid && attemptLimit == 0 { panic(...) }             // was: if attemptLimit == 0              (fix)

   [Limits.rand_loop] (C03) transcribes the loop BEFORE the fix (panic whenever the counter is 0, no exit when
   nothing is left); proposed_fixes/C19-1-*.coq.diff brings Limits.v in line ([rand_loop_fx] is then Limits.rand_loop).
   This file does not depend on which of the two Limits.v contains.  Picks are explicit index lists; running out of picks = the loop is still spinning.
   No proofs in this file. *)
From Coq Require Import List ZArith QArith Bool Arith.
From Crem Require Import Catchment Limits.
Import ListNotations.
Open Scope Z_scope.

(* len(ActiveActions()) == actionNumber   (dir = true)   /   == 0   (dir = false) *)
Definition all_target (d : dataset) (s : state) (dir : bool) : bool :=
  forallb (fun i => Bool.eqb (st_active s i) dir) (seq 0 (nactions d)).

Fixpoint rand_loop_fx (d : dataset) (dir : bool) (picks : list nat) (attempts : nat) (valid : bool) (s : state) : lres :=
  match attempts with
  | O => if valid then LPanic else LOk s
  | S a' =>
      if negb valid then LOk s else
      if all_target d s dir then LOk s else
      match picks with
      | [] => LOutOfPicks
      | i :: ps =>
          if Bool.eqb (st_active s i) dir then rand_loop_fx d dir ps attempts valid s
          else
            let s1 := initialising_set d s i dir true in
            let v := change_is_valid d s1 in
            let s2 := if v then s1 else initialising_set d s1 i (negb dir) false in
            rand_loop_fx d dir ps a' v s2
      end
  end.

(* the loop as it was BEFORE fix C19-1 (panic whenever the counter is 0 when the loop is left; no exit when nothing is left to
   toggle) -- the defect D14b; kept here, independently of Limits.v, for the theorems that state what was wrong *)
Fixpoint rand_loop_old (d : dataset) (dir : bool) (picks : list nat) (attempts : nat) (valid : bool) (s : state) : lres :=
  match attempts with
  | O => LPanic
  | S a' =>
      if negb valid then LOk s else
      match picks with
      | [] => LOutOfPicks
      | i :: ps =>
          if Bool.eqb (st_active s i) dir then rand_loop_old d dir ps attempts valid s
          else
            let s1 := initialising_set d s i dir true in
            let v := change_is_valid d s1 in
            let s2 := if v then s1 else initialising_set d s1 i (negb dir) false in
            rand_loop_old d dir ps a' v s2
      end
  end.

Definition randomize_old (d : dataset) (picks : list nat) (s : state) : lres :=
  match d_limit d with
  | Some (k, _) => rand_loop_old d (loop_dir k) picks (nactions d) true s
  | None => LOk s
  end.

(* CoreModel.Randomize under a limit *)
Definition randomize_fx (d : dataset) (picks : list nat) (s : state) : lres :=
  match d_limit d with
  | Some (k, _) => rand_loop_fx d (loop_dir k) picks (nactions d) true s
  | None => LOk s       (* randomlyInitialiseActionsUnbounded: no loop, no limit; not modelled (cf. Limits.randomize) *)
  end.

(* the state in which every action is in the loop's target state (the extreme opposite to the starting one) *)
Definition opposite_extreme (d : dataset) : state :=
  match d_limit d with
  | Some (k, _) => init_all d (fresh d) (loop_dir k)
  | None => fresh d
  end.

(* the configured limit is BINDING: it does not admit the opposite extreme (e.g. a cost limit below the total cost of
   all actions; a pollutant limit below the as-is load) *)
Definition limit_binding (d : dataset) : bool := negb (state_is_valid d (opposite_extreme d)).

(* ---- what one run does to the model(s) ---- *)
Inductive family := FKirkpatrick | FSuppapitnarm | FAveraged.

Definition single_objective (f : family) : bool := match f with FKirkpatrick => true | _ => false end.

(* the random inputs of ONE iteration (universally quantified in the theorems) *)
Record iter_in := mkIt {
  it_pick : nat; it_dec : bool;                 (* kirkpatrick: the action toggled, the acceptance decision *)
  it_picks : list nat;                          (* suppapitnarm: the picks of potentialModel.Randomize() *)
  it_move : bool;                               (* current := candidate *)
  it_rtb : option (list bool)                   (* return to base fires: the archived action set selected *)
}.

Record cstate := mkC { c_cur : state; c_pot : state }.

Inductive cres := COk (c : cstate) | CPanic | CSpin.

(* Explorer.Initialise: currentModel.Initialise(Random); currentModel.Randomize(); (suppapitnarm) potentialModel.Initialise(Random) *)
Definition c_init (d : dataset) (picks0 : list nat) : cres :=
  match randomize_fx d picks0 (start_extreme d) with
  | LOk s0 => COk (mkC s0 (start_extreme d))
  | LPanic => CPanic
  | LOutOfPicks => CSpin
  end.

(* Explorer.TryRandomChange *)
Definition c_iter (d : dataset) (f : family) (c : cstate) (x : iter_in) : cres :=
  if single_objective f then COk (mkC (kp_iter d (c_cur c) (it_pick x) (it_dec x)) (c_pot c))
  else
    let pot1 := synchronise d (c_pot c) (active_list d (c_cur c)) in
    match randomize_fx d (it_picks x) pot1 with
    | LPanic => CPanic
    | LOutOfPicks => CSpin
    | LOk pot2 =>
        let cur1 := if it_move x then synchronise d (c_cur c) (active_list d pot2) else c_cur c in
        let cur2 := match it_rtb x with Some base => decompress d cur1 base | None => cur1 end in
        COk (mkC cur2 pot2)
    end.

(* the first k iterations; [None] = all fine, [Some (j, r)] = iteration j (1-based) ended with r (CPanic / CSpin) *)
Fixpoint c_iters (d : dataset) (f : family) (c : cstate) (inputs : list iter_in) (j : nat) : cstate * option (nat * bool) :=
  match inputs with
  | [] => (c, None)
  | x :: rest =>
      match c_iter d f c x with
      | COk c' => c_iters d f c' rest (S j)
      | CPanic => (c, Some (j, true))
      | CSpin => (c, Some (j, false))
      end
  end.

Definition it_ok (d : dataset) (x : iter_in) : bool :=
  Nat.ltb (it_pick x) (nactions d) && picks_ok d (it_picks x) &&
  match it_rtb x with
  | Some base => Nat.eqb (length base) (nactions d) && set_valid d base
  | None => true
  end.
