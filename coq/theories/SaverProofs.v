(* C12 — lemmas about the model in Saver.v. *)
From Coq Require Import String Ascii List Bool Arith Lia DecimalString DecimalNat Permutation Sorted.
From Crem Require Import Base.Res Saver.
Import ListNotations.
Open Scope string_scope.

(* ------------------------------------------------------------------------------------------------------------ *)
(* byte strings *)

Lemma app_assoc_s : forall a b c : string, (a ++ b) ++ c = a ++ (b ++ c).
Proof. induction a as [|x a IH]; intros b c; cbn; [reflexivity | now rewrite IH]. Qed.

Lemma app_nil_r_s : forall a : string, a ++ "" = a.
Proof. induction a as [|x a IH]; cbn; [reflexivity | now rewrite IH]. Qed.

Lemma length_app_s : forall a b : string, String.length (a ++ b) = String.length a + String.length b.
Proof. induction a as [|x a IH]; intros b; cbn; [reflexivity | now rewrite IH]. Qed.

Lemma app_inv_head_s : forall a b c : string, a ++ b = a ++ c -> b = c.
Proof. induction a as [|x a IH]; intros b c H; cbn in H; [exact H | injection H as H; auto]. Qed.

Lemma char_in_app : forall c a b, char_in c (a ++ b) = char_in c a || char_in c b.
Proof. induction a as [|x a IH]; intros b; cbn; [reflexivity | now rewrite IH, orb_assoc]. Qed.

Lemma starts_with_refl : forall p t, starts_with p (p ++ t) = true.
Proof. induction p as [|x p IH]; intros t; cbn; [reflexivity | now rewrite Ascii.eqb_refl, IH]. Qed.

Lemma starts_with_length : forall p s, starts_with p s = true -> String.length p <= String.length s.
Proof.
  induction p as [|x p IH]; intros s H; cbn in *; [lia|].
  destruct s as [|y s]; [discriminate|]. apply andb_true_iff in H as [_ H]. apply IH in H. cbn. lia.
Qed.

(* whether p is a prefix is decided by the first |p| bytes *)
Lemma starts_with_app_long : forall p u t, String.length p <= String.length u -> starts_with p (u ++ t) = starts_with p u.
Proof.
  induction p as [|x p IH]; intros u t H; cbn; [reflexivity|].
  destruct u as [|y u]; cbn in *; [lia|]. rewrite IH by lia. reflexivity.
Qed.

Lemma drop_app_long : forall n u t, n <= String.length u -> drop n (u ++ t) = drop n u ++ t.
Proof.
  induction n as [|n IH]; intros u t H; [reflexivity|].
  destruct u as [|y u]; cbn in *; [lia|]. apply IH. lia.
Qed.

Lemma drop_length_app : forall p t, drop (String.length p) (p ++ t) = t.
Proof. induction p as [|x p IH]; intros t; cbn; [destruct t; reflexivity | apply IH]. Qed.

(* a separator byte that does not occur in p cuts the search for p in two *)
Lemma starts_with_app_sep : forall p c a b, char_in c p = false ->
  starts_with p (a ++ String c b) = starts_with p a.
Proof.
  induction p as [|x p IH]; intros c a b H; cbn; [reflexivity|].
  cbn in H. apply orb_false_iff in H as [Hx Hp].
  destruct a as [|y a]; cbn.
  - rewrite Hx. reflexivity.
  - rewrite IH by exact Hp. reflexivity.
Qed.

Lemma contains_app_sep : forall p c a b, char_in c p = false ->
  contains p (a ++ String c b) = contains p a || contains p b.
Proof.
  intros p c a b H. induction a as [|y a IH].
  - pose proof (starts_with_app_sep p c "" b H) as E. cbn [append] in *. cbn [contains]. rewrite E.
    destruct (starts_with p ""); reflexivity.
  - cbn [append contains]. rewrite IH. change (String y (a ++ String c b)) with (String y a ++ String c b).
    rewrite starts_with_app_sep by exact H. now rewrite orb_assoc.
Qed.

Lemma contains_no_first : forall c p s, char_in c s = false -> contains (String c p) s = false.
Proof.
  intros c p. induction s as [|y s IH]; intros H; cbn; [reflexivity|].
  cbn in H. apply orb_false_iff in H as [Hy Hs]. rewrite (Ascii.eqb_sym c y), Hy. cbn. auto.
Qed.

Lemma remove_char_app : forall c a b, remove_char c (a ++ b) = remove_char c a ++ remove_char c b.
Proof. induction a as [|x a IH]; intros b; cbn; [reflexivity|]. destruct (Ascii.eqb x c); cbn; now rewrite IH. Qed.

Lemma char_in_remove_char : forall d c s, char_in d (remove_char c s) = false \/ char_in d s = true.
Proof.
  induction s as [|x s IH]; cbn; [now left|].
  destruct (Ascii.eqb x c); cbn; destruct (Ascii.eqb x d); cbn; auto.
Qed.

Lemma no_nl_app : forall a b, no_nl (a ++ b) = no_nl a && no_nl b.
Proof. intros a b. unfold no_nl. rewrite char_in_app. now rewrite negb_orb. Qed.

Lemma no_nl_remove_char : forall c s, no_nl s = true -> no_nl (remove_char c s) = true.
Proof.
  intros c s H. unfold no_nl in *. destruct (char_in_remove_char nl c s) as [E|E]; rewrite E in *; [reflexivity | discriminate].
Qed.

Lemma lines_no_nl : forall s, no_nl s = true -> lines s = [s].
Proof.
  induction s as [|x s IH]; intros H; [reflexivity|].
  unfold no_nl in *. cbn in H. apply negb_true_iff, orb_false_iff in H as [Hx Hs].
  cbn. rewrite Hx, IH; [reflexivity | now rewrite Hs].
Qed.

Lemma per_line_no_nl : forall f s, no_nl s = true -> per_line f s = f s.
Proof. intros f s H. unfold per_line. rewrite lines_no_nl by exact H. reflexivity. Qed.

(* ------------------------------------------------------------------------------------------------------------ *)
(* the regular-expression replacements *)

Lemma split_first_unfold : forall pat s,
  split_first pat s =
  if starts_with pat s then Some ("", drop (String.length pat) s)
  else match s with
       | "" => None
       | String c s' => match split_first pat s' with Some (b, a) => Some (String c b, a) | None => None end
       end.
Proof. intros pat s. destruct s; reflexivity. Qed.

Lemma split_first_length : forall pat s b a, split_first pat s = Some (b, a) -> String.length pat <= String.length s.
Proof.
  intros pat. induction s as [|x s IH]; intros b a H; rewrite split_first_unfold in H.
  - destruct (starts_with pat "") eqn:E; [|discriminate]. now apply starts_with_length in E.
  - destruct (starts_with pat (String x s)) eqn:E; [now apply starts_with_length in E|].
    destruct (split_first pat s) as [[b' a']|] eqn:E2; [|discriminate].
    specialize (IH _ _ eq_refl). cbn. lia.
Qed.

(* the first occurrence of pat in u stays the first occurrence in u ++ t *)
Lemma split_first_app : forall pat u t b a,
  split_first pat u = Some (b, a) -> split_first pat (u ++ t) = Some (b, a ++ t).
Proof.
  intros pat. induction u as [|x u IH]; intros t b a H.
  - pose proof (split_first_length _ _ _ _ H) as L. cbn in L.
    destruct pat; [|cbn in L; lia]. cbn in H. injection H as <- <-. cbn [append].
    rewrite split_first_unfold. reflexivity.
  - pose proof (split_first_length _ _ _ _ H) as L.
    rewrite split_first_unfold in H. rewrite split_first_unfold.
    rewrite starts_with_app_long by exact L.
    destruct (starts_with pat (String x u)) eqn:E.
    + injection H as <- <-. rewrite drop_app_long by exact L. reflexivity.
    + cbn [append]. destruct (split_first pat u) as [[b' a']|] eqn:E2; [|discriminate].
      injection H as <- <-. rewrite (IH t b' a' eq_refl). reflexivity.
Qed.

Lemma split_first_lit : forall pat X, exists b a, split_first pat (X ++ pat) = Some (b, a).
Proof.
  intros pat. induction X as [|x X IH].
  - cbn [append]. rewrite split_first_unfold.
    replace (starts_with pat pat) with true by (rewrite <- (app_nil_r_s pat) at 2; now rewrite starts_with_refl).
    eauto.
  - cbn [append]. rewrite split_first_unfold. destruct (starts_with pat (String x (X ++ pat))); [eauto|].
    destruct IH as (b & a & ->). eauto.
Qed.

Lemma split_last_char_end : forall c u, split_last_char c (u ++ String c "") = Some (u, "").
Proof.
  intros c. induction u as [|x u IH]; cbn.
  - now rewrite Ascii.eqb_refl.
  - now rewrite IH.
Qed.

(* Key independence of both replacements: whatever (non-empty, one-line) text t stands between the LAST
   "lit" ... ")" of the id, the result is the same. *)
Lemma replace_lit_tail : forall lit repl X, exists b, forall t, t <> "" ->
  replace_lit_dots_rparen lit repl (X ++ lit ++ t ++ ")") = b ++ repl.
Proof.
  intros lit repl X. destruct (split_first_lit lit X) as (b & a & H). exists b. intros t Ht.
  unfold replace_lit_dots_rparen.
  rewrite <- (app_assoc_s X lit). rewrite (split_first_app _ _ (t ++ ")") _ _ H).
  rewrite <- app_assoc_s. rewrite split_last_char_end.
  destruct (a ++ t) as [|y m] eqn:E.
  - destruct a; [|discriminate]. cbn in E. contradiction.
  - now rewrite app_nil_r_s.
Qed.

Lemma split_last_app : forall pat u s b a,
  split_last pat s = Some (b, a) -> split_last pat (u ++ s) = Some (u ++ b, a).
Proof. intros pat. induction u as [|x u IH]; intros s b a H; cbn; [exact H | now rewrite (IH _ _ _ H)]. Qed.

Lemma split_last_none : forall pat s, pat <> "" -> contains pat s = false -> split_last pat s = None.
Proof.
  intros pat s Hp. induction s as [|x s IH]; intros H.
  - cbn. destruct pat; [contradiction | reflexivity].
  - cbn [contains] in H. apply orb_false_iff in H as [H1 H2]. cbn [split_last]. rewrite IH by exact H2. now rewrite H1.
Qed.

(* ------------------------------------------------------------------------------------------------------------ *)
(* decimal numerals *)

Fixpoint all_digits (s : string) : bool :=
  match s with "" => true | String c s' => is_digit c && all_digits s' end.

Lemma string_of_uint_digits : forall d, all_digits (NilEmpty.string_of_uint d) = true.
Proof. induction d; cbn; auto. Qed.

Lemma dec_digits : forall n, all_digits (dec n) = true.
Proof. intros n. apply string_of_uint_digits. Qed.

Lemma string_of_uint_inj : forall d d', NilEmpty.string_of_uint d = NilEmpty.string_of_uint d' -> d = d'.
Proof.
  intros d d' H. pose proof (NilEmpty.usu d) as A. pose proof (NilEmpty.usu d') as B.
  rewrite H in A. rewrite A in B. now injection B.
Qed.

Lemma dec_inj : forall n m, dec n = dec m -> n = m.
Proof. intros n m H. apply Unsigned.to_uint_inj. now apply string_of_uint_inj. Qed.

Lemma dec_nonempty : forall n, dec n <> "".
Proof.
  intros n H. unfold dec in H.
  assert (E : Nat.to_uint n = Decimal.Nil) by (apply string_of_uint_inj; exact H).
  pose proof (Unsigned.of_to n) as O. rewrite E in O. cbn in O. subst n. discriminate E.
Qed.

Lemma all_digits_char_in : forall c s, is_digit c = false -> all_digits s = true -> char_in c s = false.
Proof.
  intros c. induction s as [|x s IH]; intros Hc H; [reflexivity|].
  cbn in *. apply andb_true_iff in H as [Hx Hs]. rewrite IH by assumption.
  destruct (Ascii.eqb_spec x c) as [->|]; [congruence | reflexivity].
Qed.

Lemma all_digits_app : forall a b, all_digits (a ++ b) = all_digits a && all_digits b.
Proof. induction a as [|x a IH]; intros b; cbn; [reflexivity | now rewrite IH, andb_assoc]. Qed.

(* digits up to a non-digit separator determine both sides *)
Lemma digits_sep_inj : forall d1 d2 c x y,
  all_digits d1 = true -> all_digits d2 = true -> is_digit c = false ->
  d1 ++ String c x = d2 ++ String c y -> d1 = d2 /\ x = y.
Proof.
  induction d1 as [|a d1 IH]; intros d2 c x y H1 H2 Hc E.
  - destruct d2 as [|b d2]; cbn in E.
    + injection E as ->. auto.
    + injection E as <- _. cbn in H2. rewrite Hc in H2. discriminate.
  - destruct d2 as [|b d2]; cbn in E.
    + injection E as -> _. cbn in H1. rewrite Hc in H1. discriminate.
    + injection E as -> E. cbn in H1, H2. apply andb_true_iff in H1 as [_ H1]. apply andb_true_iff in H2 as [_ H2].
      destruct (IH d2 c x y H1 H2 Hc E) as [-> ->]. auto.
Qed.

Lemma frac_inj_l : forall k1 k2 n, frac k1 n = frac k2 n -> k1 = k2.
Proof.
  intros k1 k2 n H. unfold frac in H. cbn [append] in H. injection H as H.
  apply digits_sep_inj in H as [H _]; auto using dec_digits. now apply dec_inj.
Qed.

Lemma char_in_frac : forall c a b, is_digit c = false ->
  char_in c (frac a b) = Ascii.eqb "("%char c || Ascii.eqb "/"%char c || Ascii.eqb ")"%char c.
Proof.
  intros c a b Hc. unfold frac. cbn [append]. cbn [char_in]. rewrite char_in_app. cbn [char_in]. rewrite char_in_app. cbn [char_in].
  rewrite (all_digits_char_in c (dec a) Hc (dec_digits a)), (all_digits_char_in c (dec b) Hc (dec_digits b)).
  destruct (Ascii.eqb "(" c), (Ascii.eqb "/" c), (Ascii.eqb ")" c); reflexivity.
Qed.

(* ------------------------------------------------------------------------------------------------------------ *)
(* naming: the three derivations on the ids of one run *)

(* every id the saver builds has this shape; t = "As-Is" or "k/n" *)
Definition key_of (run t : string) : string := run ++ " Solution (" ++ t ++ ")".

Definition tag_ok (t : string) : bool :=
  negb (t =? "")%string && no_nl t && negb (char_in " "%char t) && negb (char_in "("%char t) && negb (char_in ")"%char t).

Lemma as_is_id_key : forall run, as_is_id run = key_of run "As-Is".
Proof. reflexivity. Qed.

Lemma member_id_key : forall run k n, member_id run k n = key_of run (dec k ++ "/" ++ dec n).
Proof. intros. unfold member_id, key_of, frac. cbn [append]. now rewrite !app_assoc_s. Qed.

Lemma optimised_id_key : forall run, optimised_id run = key_of run (dec 1 ++ "/" ++ dec 1).
Proof. reflexivity. Qed.

Lemma tag_ok_as_is : tag_ok "As-Is" = true.
Proof. reflexivity. Qed.

Lemma char_in_frac_tag : forall c k n, is_digit c = false -> Ascii.eqb "/" c = false -> char_in c (dec k ++ "/" ++ dec n) = false.
Proof.
  intros c k n Hd Hs. rewrite char_in_app. cbn [append char_in]. rewrite Hs.
  now rewrite (all_digits_char_in c (dec k)), (all_digits_char_in c (dec n)) by auto using dec_digits.
Qed.

Lemma tag_ok_frac : forall k n, tag_ok (dec k ++ "/" ++ dec n) = true.
Proof.
  intros k n. unfold tag_ok. repeat (apply andb_true_iff; split).
  - destruct (dec k) eqn:E; [now apply dec_nonempty in E | reflexivity].
  - unfold no_nl. now rewrite char_in_frac_tag.
  - now rewrite char_in_frac_tag.
  - now rewrite char_in_frac_tag.
  - now rewrite char_in_frac_tag.
Qed.

Lemma tag_ok_spec : forall t, tag_ok t = true -> t <> "" /\ no_nl t = true /\ char_in " "%char t = false.
Proof.
  intros t H. unfold tag_ok in H. apply andb_true_iff in H as [H _]. apply andb_true_iff in H as [H _].
  apply andb_true_iff in H as [H H3]. apply andb_true_iff in H as [H1 H2].
  repeat split; [| exact H2 | now apply negb_true_iff in H3].
  intros ->. discriminate.
Qed.

Lemma tag_ok_parens : forall t, tag_ok t = true -> char_in "("%char t = false /\ char_in ")"%char t = false.
Proof.
  intros t H. unfold tag_ok in H. apply andb_true_iff in H as [H H5]. apply andb_true_iff in H as [_ H4].
  split; now apply negb_true_iff.
Qed.

Lemma no_nl_key : forall run t, no_nl run = true -> no_nl t = true -> no_nl (key_of run t) = true.
Proof. intros run t Hr Ht. unfold key_of. rewrite !no_nl_app, Hr, Ht. reflexivity. Qed.

Lemma remove_char_absent : forall c s, char_in c s = false -> remove_char c s = s.
Proof.
  induction s as [|x s IH]; intros H; [reflexivity|]. cbn in *. apply orb_false_iff in H as [Hx Hs].
  now rewrite Hx, IH.
Qed.

(* set.Summary.Id does not depend on which id of the run it is given *)
Lemma set_id_key : forall run, no_nl run = true -> exists v, forall t, tag_ok t = true -> set_id (key_of run t) = v.
Proof.
  intros run Hr. destruct (replace_lit_tail "Solution (" "Summary" (run ++ " ")) as [b Hb].
  exists (b ++ "Summary"). intros t Ht. apply tag_ok_spec in Ht as (Hne & Hnl & _).
  unfold set_id. rewrite per_line_no_nl by now apply no_nl_key.
  rewrite <- (Hb t Hne). unfold key_of. now rewrite !app_assoc_s.
Qed.

(* a pattern containing a byte that s does not contain does not occur in s *)
Lemma starts_with_split0 : forall p s, starts_with p s = true -> exists t, s = p ++ t.
Proof.
  induction p as [|x p IH]; intros s H; [now exists s|].
  destruct s as [|y s]; [discriminate|]. cbn in H. apply andb_true_iff in H as [E H].
  apply Ascii.eqb_eq in E. subst y. destruct (IH s H) as [t ->]. now exists t.
Qed.

Lemma contains_needs_char : forall c p s, char_in c p = true -> char_in c s = false -> contains p s = false.
Proof.
  intros c p. induction s as [|y s IH]; intros Hp Hs.
  - cbn. destruct p; [discriminate | reflexivity].
  - cbn [contains]. cbn [char_in] in Hs. apply orb_false_iff in Hs as [Hy Hs']. rewrite (IH Hp Hs'), orb_false_r.
    destruct (starts_with p (String y s)) eqn:E; [|reflexivity].
    apply starts_with_split0 in E as [t E]. assert (X : char_in c (String y s) = true) by (rewrite E, char_in_app, Hp; reflexivity).
    cbn [char_in] in X. now rewrite Hy, Hs' in X.
Qed.

Lemma marker_body_tag : forall t, char_in "("%char t = false -> char_in ")"%char t = false -> marker_body (t ++ ")") = true.
Proof.
  induction t as [|c t IH]; intros H1 H2; [reflexivity|].
  cbn [char_in] in H1, H2. apply orb_false_iff in H1 as [A1 B1]. apply orb_false_iff in H2 as [A2 B2].
  specialize (IH B1 B2). cbn [append]. destruct (t ++ ")") as [|a u] eqn:E; [destruct t; discriminate|].
  change (marker_body (String c (String a u))) with (negb (Ascii.eqb c "(") && negb (Ascii.eqb c ")") && marker_body (String a u)).
  now rewrite A1, A2, IH.
Qed.

(* the marker that ends a key is its LAST "Solution(" *)
Lemma split_last_marker : forall R t, char_in "("%char t = false ->
  split_last "Solution(" (R ++ "Solution(" ++ t ++ ")") = Some (R, t ++ ")").
Proof.
  intros R t Ht.
  assert (N : contains "Solution(" (t ++ ")") = false).
  { apply (contains_needs_char "("%char); [reflexivity|]. rewrite char_in_app, Ht. reflexivity. }
  assert (E : split_last "Solution(" ("Solution(" ++ t ++ ")") = Some ("", t ++ ")")).
  { change ("Solution(" ++ t ++ ")") with (String "S" ("olution(" ++ t ++ ")")). cbn [split_last].
    rewrite split_last_none; [|discriminate|].
    - change (String "S" ("olution(" ++ t ++ ")")) with ("Solution(" ++ (t ++ ")")).
      now rewrite starts_with_refl, drop_length_app.
    - cbn [append contains starts_with]. cbn [Ascii.eqb Bool.eqb andb orb]. exact N. }
  rewrite (split_last_app _ R _ _ _ E). now rewrite app_nil_r_s.
Qed.

(* set.Summary.FileNameSafeId likewise, for EVERY run id: the stem is the run id without spaces, "/" spelled "_of_" *)
Lemma file_stem_key_eq : forall run t, tag_ok t = true ->
  file_stem (key_of run t) = replace_char "/" "_of_" (remove_char " " run).
Proof.
  intros run t Ht. destruct (tag_ok_parens t Ht) as [P1 P2]. apply tag_ok_spec in Ht as (Hne & Hnl & Hsp).
  unfold file_stem, key_of. rewrite !remove_char_app, (remove_char_absent _ t Hsp).
  change (remove_char " " " Solution (") with "Solution(". change (remove_char " " ")") with ")".
  unfold strip_final_marker. rewrite (split_last_marker _ _ P1), (marker_body_tag _ P1 P2). reflexivity.
Qed.

Lemma file_stem_key : forall run, no_nl run = true -> exists v, forall t, tag_ok t = true -> file_stem (key_of run t) = v.
Proof. intros run _. eexists. intros t Ht. now apply file_stem_key_eq. Qed.

Lemma contains_space_solution : forall t, char_in " "%char t = false ->
  contains " Solution" ("Solution (" ++ t ++ ")") = false.
Proof.
  intros t Ht. cbn. apply contains_no_first. rewrite char_in_app, Ht. reflexivity.
Qed.

(* the JSON set name is the run id, never a panic *)
Lemma json_set_name_key : forall run t, no_nl run = true -> tag_ok t = true -> json_set_name (key_of run t) = Ok run.
Proof.
  intros run t Hr Ht. apply tag_ok_spec in Ht as (Hne & Hnl & Hsp).
  unfold json_set_name. rewrite lines_no_nl by now apply no_nl_key. cbn [first_some].
  unfold key_of.
  assert (E : split_last " Solution" (" Solution (" ++ t ++ ")") = Some ("", " (" ++ t ++ ")")).
  { change (" Solution (" ++ t ++ ")") with (String " " ("Solution (" ++ t ++ ")")).
    cbn [split_last]. rewrite split_last_none; [reflexivity | discriminate | now apply contains_space_solution]. }
  rewrite (split_last_app _ run _ _ _ E). now rewrite app_nil_r_s.
Qed.

(* ------------------------------------------------------------------------------------------------------------ *)
(* labels *)

Lemma starts_with_split : forall p s, starts_with p s = true -> exists t, s = p ++ t.
Proof.
  induction p as [|x p IH]; intros s H; [now exists s|].
  destruct s as [|y s]; cbn in H; [discriminate|]. apply andb_true_iff in H as [H1 H2].
  apply Ascii.eqb_eq in H1 as ->. destruct (IH _ H2) as [t ->]. now exists t.
Qed.

Lemma contains_11_frac : forall a b, contains "(1/1)" (frac a b) = true -> a = 1 /\ b = 1.
Proof.
  intros a b H. unfold frac in H. cbn [append] in H. cbn [contains] in H.
  rewrite (contains_no_first "("%char "1/1)") in H.
  2:{ rewrite char_in_app. cbn [char_in]. rewrite char_in_app. cbn [char_in].
      now rewrite (all_digits_char_in "("%char (dec a)), (all_digits_char_in "("%char (dec b)) by auto using dec_digits. }
  rewrite orb_false_r in H.
  apply starts_with_split in H as [t H]. cbn [append] in H. injection H as H.
  change (String "1" (String "/" (String "1" (String ")" t)))) with ("1" ++ String "/" ("1)" ++ t)) in H.
  apply digits_sep_inj in H as [Ha H]; auto using dec_digits.
  change ("1)" ++ t) with ("1" ++ String ")" t) in H.
  apply digits_sep_inj in H as [Hb _]; auto using dec_digits.
  split; apply dec_inj; assumption.
Qed.

Lemma contains_asis_frac : forall a b, contains "As-Is" (frac a b) = false.
Proof. intros a b. apply contains_no_first. now rewrite char_in_frac. Qed.

Definition run_ok (run : string) : Prop := contains "(1/1)" run = false /\ contains "As-Is" run = false.

Lemma label_safe_spec : forall name, label_safe name = true ->
  contains "(1/1)" name = false /\ contains "As-Is" name = false.
Proof. intros name H. unfold label_safe in H. apply andb_true_iff in H as [A B]. now apply negb_true_iff in A, B. Qed.

Lemma label_safe_effective : forall name, label_safe name = true -> label_safe (effective_name name) = true.
Proof. intros name H. unfold effective_name. destruct (name =? "")%string; [reflexivity | exact H]. Qed.

Lemma run_ok_clone : forall name R r, label_safe name = true -> run_ok (clone_id name R r).
Proof.
  intros name R r H. apply label_safe_spec in H as [A B]. unfold clone_id.
  destruct (1 <? R)%nat eqn:ER; [|now split].
  split.
  - change (name ++ " " ++ frac r R) with (name ++ String " " (frac r R)).
    rewrite contains_app_sep by reflexivity. rewrite A. cbn [orb].
    destruct (contains "(1/1)" (frac r R)) eqn:E; [|reflexivity].
    apply contains_11_frac in E as [_ ->]. discriminate.
  - change (name ++ " " ++ frac r R) with (name ++ String " " (frac r R)).
    rewrite contains_app_sep by reflexivity. now rewrite B, contains_asis_frac.
Qed.

Lemma run_ok_run_id : forall name R r, label_safe name = true -> run_ok (run_id name R r).
Proof. intros. apply run_ok_clone. now apply label_safe_effective. Qed.

Lemma contains_key : forall p run t, char_in " "%char p = false ->
  contains p (key_of run t) = contains p run || (contains p "Solution" || contains p ("(" ++ t ++ ")")).
Proof.
  intros p run t H.
  change (key_of run t) with (run ++ String " " ("Solution" ++ String " " ("(" ++ t ++ ")"))).
  now rewrite !contains_app_sep by exact H.
Qed.

Lemma row_label_as_is : forall run, run_ok run -> row_label (as_is_id run) = "As-Is".
Proof.
  intros run [A B]. rewrite as_is_id_key. unfold row_label.
  rewrite !contains_key by reflexivity. rewrite A, B. reflexivity.
Qed.

(* the scanner for digits "/" digits *)
Lemma drun_app : forall a b st,
  drun st (a ++ b) = let (st1, o1) := drun st a in let (st2, o2) := drun st1 b in (st2, (o1 ++ o2)%list).
Proof.
  induction a as [|x a IH]; intros b st.
  - cbn. destruct (drun st b). reflexivity.
  - cbn [append drun]. destruct (dstep st x) as [s1 o1]. rewrite IH.
    destruct (drun s1 a) as [s2 o2]. destruct (drun s2 b) as [s3 o3]. now rewrite app_assoc.
Qed.

Lemma drun_digits_D1 : forall d a, all_digits d = true -> drun (D1 a) d = (D1 (a ++ d), []).
Proof.
  induction d as [|x d IH]; intros a H; cbn.
  - now rewrite app_nil_r_s.
  - cbn in H. apply andb_true_iff in H as [Hx Hd]. rewrite Hx. rewrite IH by exact Hd.
    unfold snoc. now rewrite app_assoc_s.
Qed.

Lemma drun_digits_D3 : forall d a b, all_digits d = true -> drun (D3 a b) d = (D3 a (b ++ d), []).
Proof.
  induction d as [|x d IH]; intros a b H; cbn.
  - now rewrite app_nil_r_s.
  - cbn in H. apply andb_true_iff in H as [Hx Hd]. rewrite Hx. rewrite IH by exact Hd.
    unfold snoc. now rewrite app_assoc_s.
Qed.

Lemma drun_frac : forall st k n, exists o, drun st (frac k n) = (D0, (o ++ [(dec k ++ "/" ++ dec n)%string])%list).
Proof.
  intros st k n. unfold frac. cbn [append].
  pose proof (dec_digits k) as Dk. pose proof (dec_digits n) as Dn.
  pose proof (dec_nonempty k) as Nk. pose proof (dec_nonempty n) as Nn.
  destruct (dec k) as [|ck dk]; [contradiction|]. destruct (dec n) as [|cn dn]; [contradiction|].
  cbn in Dk, Dn. apply andb_true_iff in Dk as [Dck Ddk]. apply andb_true_iff in Dn as [Dcn Ddn].
  assert (S0 : exists o, dstep st "(" = (D0, o)) by (destruct st; cbn; eauto).
  destruct S0 as [o0 S0]. exists o0.
  cbn [drun]. rewrite S0. cbn [append drun dstep]. rewrite Dck.
  rewrite drun_app. rewrite drun_digits_D1 by exact Ddk.
  cbn [drun dstep is_digit Ascii.eqb Bool.eqb]. cbn [append]. rewrite Dcn.
  rewrite drun_app. rewrite drun_digits_D3 by exact Ddn.
  cbn [drun dstep is_digit]. cbn [append app]. reflexivity.
Qed.

Lemma last_frac : forall X k n, last (find_all_frac (X ++ frac k n)) "" = dec k ++ "/" ++ dec n.
Proof.
  intros X k n. unfold find_all_frac. rewrite drun_app.
  destruct (drun D0 X) as [s1 o1]. destruct (drun_frac s1 k n) as [o ->].
  cbn [dfinish]. rewrite app_nil_r, app_assoc. apply last_last.
Qed.

Lemma replace_char_absent : forall c by_ s, char_in c s = false -> replace_char c by_ s = s.
Proof.
  induction s as [|x s IH]; intros H; [reflexivity|]. cbn in *. apply orb_false_iff in H as [Hx Hs].
  now rewrite Hx, IH.
Qed.

Lemma replace_char_app : forall c by_ a b, replace_char c by_ (a ++ b) = replace_char c by_ a ++ replace_char c by_ b.
Proof.
  induction a as [|x a IH]; intros b; cbn; [reflexivity|].
  destruct (Ascii.eqb x c); rewrite IH; [now rewrite app_assoc_s | reflexivity].
Qed.

Definition member_label (n k : nat) : string :=
  if ((k =? 1) && (n =? 1))%nat then "Optimised" else dec k ++ "-of-" ++ dec n.

Lemma row_label_member : forall run k n, run_ok run -> row_label (member_id run k n) = member_label n k.
Proof.
  intros run k n [A B]. unfold row_label, member_label.
  pose proof (member_id_key run k n) as K. rewrite K.
  rewrite !contains_key by reflexivity. rewrite A, B. cbn [orb].
  replace ("(" ++ (dec k ++ "/" ++ dec n) ++ ")") with (frac k n) by (unfold frac; now rewrite !app_assoc_s).
  change (contains "(1/1)" "Solution") with false. change (contains "As-Is" "Solution") with false. cbn [orb].
  rewrite contains_asis_frac.
  destruct (contains "(1/1)" (frac k n)) eqn:E.
  - apply contains_11_frac in E as [-> ->]. reflexivity.
  - destruct ((k =? 1) && (n =? 1))%nat eqn:E2.
    + apply andb_true_iff in E2 as [E3 E4]. apply Nat.eqb_eq in E3, E4. subst. discriminate E.
    + rewrite <- K. unfold member_id.
      replace (run ++ " " ++ "Solution" ++ " " ++ frac k n) with ((run ++ " Solution ") ++ frac k n) by now rewrite app_assoc_s.
      rewrite last_frac. rewrite replace_char_app. cbn [append replace_char Ascii.eqb Bool.eqb].
      rewrite !replace_char_absent by (apply all_digits_char_in; auto using dec_digits). reflexivity.
Qed.

Lemma row_label_optimised : forall run, run_ok run -> row_label (optimised_id run) = "Optimised".
Proof. intros run H. change (optimised_id run) with (member_id run 1 1). now rewrite row_label_member. Qed.

Lemma dec_first_digit : forall k, exists c s, dec k = String c s /\ is_digit c = true.
Proof.
  intros k. pose proof (dec_digits k) as D. pose proof (dec_nonempty k) as N.
  destruct (dec k) as [|c s]; [contradiction|]. cbn in D. apply andb_true_iff in D as [D _]. eauto.
Qed.

Lemma member_label_inj : forall n k1 k2, member_label n k1 = member_label n k2 -> k1 = k2.
Proof.
  intros n k1 k2 H. unfold member_label in H.
  destruct ((k1 =? 1) && (n =? 1))%nat eqn:E1; destruct ((k2 =? 1) && (n =? 1))%nat eqn:E2.
  - apply andb_true_iff in E1 as [E1 _], E2 as [E2 _]. apply Nat.eqb_eq in E1, E2. congruence.
  - destruct (dec_first_digit k2) as (c & s & Ec & Dc). rewrite Ec in H. cbn in H. injection H as <- _. discriminate.
  - destruct (dec_first_digit k1) as (c & s & Ec & Dc). rewrite Ec in H. cbn in H. injection H as -> _. discriminate.
  - change (dec k1 ++ "-of-" ++ dec n) with (dec k1 ++ String "-" ("of-" ++ dec n)) in H.
    change (dec k2 ++ "-of-" ++ dec n) with (dec k2 ++ String "-" ("of-" ++ dec n)) in H.
    apply digits_sep_inj in H as [H _]; auto using dec_digits. now apply dec_inj.
Qed.

Lemma member_label_not_as_is : forall n k, member_label n k <> "As-Is".
Proof.
  intros n k H. unfold member_label in H. destruct ((k =? 1) && (n =? 1))%nat; [discriminate|].
  destruct (dec_first_digit k) as (c & s & Ec & Dc). rewrite Ec in H. cbn in H. injection H as -> _. discriminate.
Qed.

Lemma labels_nodup : forall n ks, NoDup ks -> NoDup ("As-Is" :: map (member_label n) ks).
Proof.
  intros n ks H. constructor.
  - intros I. apply in_map_iff in I as (k & E & _). now apply member_label_not_as_is in E.
  - apply FinFun.Injective_map_NoDup; [|exact H]. intros a b. apply member_label_inj.
Qed.

(* ------------------------------------------------------------------------------------------------------------ *)
(* ids are pairwise different (for EVERY run id) *)

Lemma member_id_inj : forall run n j k, member_id run j n = member_id run k n -> j = k.
Proof.
  intros run n j k H. unfold member_id in H. apply app_inv_head_s in H.
  cbn [append] in H. injection H as H.
  apply digits_sep_inj in H as [H _]; auto using dec_digits. now apply dec_inj.
Qed.

Lemma member_id_not_as_is : forall run n k, member_id run k n <> as_is_id run.
Proof.
  intros run n k H. unfold member_id, as_is_id, frac in H. apply app_inv_head_s in H.
  cbn [append] in H. injection H as H.
  destruct (dec_first_digit k) as (c & s & Ec & Dc). rewrite Ec in H. cbn in H. injection H as -> _. discriminate.
Qed.

Lemma optimised_id_not_as_is : forall run, optimised_id run <> as_is_id run.
Proof. intros run. exact (member_id_not_as_is run 1 1). Qed.

(* ------------------------------------------------------------------------------------------------------------ *)
(* the saver *)

Section SaverFacts.
  Variables (St V : Type) (init : St) (decompress : string -> St -> St) (enc_of : St -> string) (vals_of : St -> V).

  Local Notation rowV := (row V).
  Local Notation save_set' := (save_set St V init decompress enc_of vals_of).
  Local Notation save_optimised' := (save_optimised St V init decompress enc_of vals_of).
  Local Notation save_members' := (save_members St V decompress enc_of vals_of).

  Definition row_of (id : string) (st : St) (note : string) (sort : nat) : rowV :=
    mk_row sort (row_label id) (vals_of st) (enc_of st) note.

  (* the entries one expects: the as-is entry, then member k = 1.. in archive order, the shared model being
     decompressed into from whatever the previous member left *)
  Fixpoint member_entries (run : string) (n k : nat) (arch : list string) (st : St) : list (string * rowV) :=
    match arch with
    | [] => []
    | e :: arch' => let st' := decompress e st in
                    (member_id run k n, row_of (member_id run k n) st' (member_note k n) k)
                      :: member_entries run n (S k) arch' st'
    end.

  Definition as_is_entry (run : string) : string * rowV := (as_is_id run, row_of (as_is_id run) init as_is_note 0).

  Definition expected_set (run : string) (arch : list string) : list (string * rowV) :=
    as_is_entry run :: member_entries run (List.length arch) 1 arch init.

  Definition expected_optimised (run e : string) : list (string * rowV) :=
    [as_is_entry run; (optimised_id run, row_of (optimised_id run) (decompress e init) optimised_note 1)].

  Lemma upsert_fresh : forall k (v : rowV) m, ~ In k (keys m) -> upsert k v m = (m ++ [(k, v)])%list.
  Proof.
    induction m as [|[k' v'] m IH]; intros H; [reflexivity|].
    cbn in *. destruct (String.eqb_spec k' k) as [->|N]; [exfalso; auto|]. rewrite IH by tauto. reflexivity.
  Qed.

  Lemma keys_app : forall (a b : summary V), keys (a ++ b)%list = (keys a ++ keys b)%list.
  Proof. intros. apply map_app. Qed.

  Lemma save_members_spec : forall arch run n k st m,
    (forall j, k <= j -> ~ In (member_id run j n) (keys m)) ->
    snd (save_members' run n k arch st m) = (m ++ member_entries run n k arch st)%list.
  Proof.
    induction arch as [|e arch IH]; intros run n k st m F; cbn [save_members member_entries].
    - now rewrite app_nil_r.
    - unfold summarise. rewrite upsert_fresh by (apply F; lia).
      rewrite IH.
      + rewrite <- app_assoc. reflexivity.
      + intros j Hj I. rewrite keys_app in I. apply in_app_or in I as [I|I].
        * apply (F j); [lia | exact I].
        * cbn in I. destruct I as [I|[]]. apply member_id_inj in I. lia.
  Qed.

  Theorem save_set_spec : forall run arch st0, snd (save_set' run arch st0) = expected_set run arch.
  Proof.
    intros run arch st0. unfold save_set, expected_set. rewrite save_members_spec; [reflexivity|].
    intros j _ [I|[]]. symmetry in I. now apply member_id_not_as_is in I.
  Qed.

  Theorem save_optimised_spec : forall run e st0, snd (save_optimised' run e st0) = expected_optimised run e.
  Proof.
    intros run e st0. unfold save_optimised, expected_optimised, summarise. cbn [snd upsert].
    destruct (String.eqb_spec (as_is_id run) (optimised_id run)) as [E|N]; [|reflexivity].
    symmetry in E. now apply optimised_id_not_as_is in E.
  Qed.

  Lemma keys_member_entries : forall arch run n k st,
    keys (member_entries run n k arch st) = map (fun j => member_id run j n) (seq k (List.length arch)).
  Proof.
    induction arch as [|e arch IH]; intros; [reflexivity|].
    unfold keys in *. cbn [member_entries map fst List.length seq]. f_equal. apply IH.
  Qed.

  Lemma keys_expected_set : forall run arch,
    keys (expected_set run arch) = as_is_id run :: map (fun j => member_id run j (List.length arch)) (seq 1 (List.length arch)).
  Proof. intros. unfold expected_set. rewrite <- (keys_member_entries arch run _ 1 init). reflexivity. Qed.

  (* --- AsSortedArray: any iteration order of the map gives the same array --- *)

  Definition le_row (a b : rowV) : Prop := r_sort a <= r_sort b.
  Definition lt_row (a b : rowV) : Prop := r_sort a < r_sort b.

  Lemma insert_row_perm : forall (x : rowV) l, Permutation (insert_row x l) (x :: l).
  Proof.
    induction l as [|y l IH]; cbn; [auto|]. destruct (r_sort x <=? r_sort y)%nat; [auto|].
    rewrite IH. apply perm_swap.
  Qed.

  Lemma sort_rows_perm : forall l : list rowV, Permutation (sort_rows l) l.
  Proof. induction l as [|x l IH]; cbn; [auto|]. rewrite insert_row_perm. now constructor. Qed.

  Lemma insert_row_sorted : forall (x : rowV) l, StronglySorted le_row l -> StronglySorted le_row (insert_row x l).
  Proof.
    induction l as [|y l IH]; intros H; cbn.
    - constructor; constructor.
    - inversion H as [|? ? Hl Hy]; subst. destruct (r_sort x <=? r_sort y)%nat eqn:E.
      + apply Nat.leb_le in E. constructor; [exact H|]. constructor; [exact E|].
        rewrite Forall_forall in *. intros z Hz. specialize (Hy z Hz). unfold le_row in *. lia.
      + apply Nat.leb_gt in E. constructor; [now apply IH|].
        rewrite Forall_forall in *. intros z Hz.
        apply (Permutation_in _ (insert_row_perm x l)) in Hz. destruct Hz as [<-|Hz]; [unfold le_row; lia | auto].
  Qed.

  Lemma sort_rows_sorted : forall l : list rowV, StronglySorted le_row (sort_rows l).
  Proof. induction l as [|x l IH]; cbn; [constructor | now apply insert_row_sorted]. Qed.

  Lemma sorted_perm_unique : forall l1 l2 : list rowV,
    StronglySorted le_row l1 -> StronglySorted lt_row l2 -> Permutation l1 l2 -> l1 = l2.
  Proof.
    induction l1 as [|x l1 IH]; intros l2 S1 S2 P.
    - apply Permutation_nil in P. now subst.
    - destruct l2 as [|y l2]; [now apply Permutation_sym, Permutation_nil in P|].
      inversion S1 as [|? ? S1' F1]; subst. inversion S2 as [|? ? S2' F2]; subst.
      rewrite Forall_forall in F1, F2.
      assert (E : x = y).
      { assert (Ix : In x (y :: l2)) by (apply (Permutation_in _ P); now left).
        assert (Iy : In y (x :: l1)) by (apply (Permutation_in _ (Permutation_sym P)); now left).
        destruct Ix as [<-|Ix]; [reflexivity|]. destruct Iy as [->|Iy]; [reflexivity|].
        specialize (F1 _ Iy). specialize (F2 _ Ix). unfold le_row, lt_row in *. lia. }
      subst y. f_equal. apply IH; auto. now apply Permutation_cons_inv in P.
  Qed.

  Lemma member_entries_sort_ge : forall arch run n k st x,
    In x (map snd (member_entries run n k arch st)) -> k <= r_sort x.
  Proof.
    induction arch as [|e arch IH]; intros run n k st x H; cbn in H; [contradiction|].
    destruct H as [<-|H]; [cbn; lia|]. apply IH in H. lia.
  Qed.

  Lemma member_entries_sorted : forall arch run n k st,
    StronglySorted lt_row (map snd (member_entries run n k arch st)).
  Proof.
    induction arch as [|e arch IH]; intros; cbn; constructor; [apply IH|].
    rewrite Forall_forall. intros x Hx. apply member_entries_sort_ge in Hx. unfold lt_row. cbn. lia.
  Qed.

  Lemma expected_set_sorted : forall run arch, StronglySorted lt_row (map snd (expected_set run arch)).
  Proof.
    intros. unfold expected_set. cbn [map]. constructor; [apply member_entries_sorted|].
    rewrite Forall_forall. intros x Hx. apply member_entries_sort_ge in Hx. unfold lt_row. cbn. lia.
  Qed.

  Lemma sorted_array_unique : forall (m order : summary V),
    StronglySorted lt_row (map snd m) -> Permutation order m -> as_sorted_array order = map snd m.
  Proof.
    intros m order S P. unfold as_sorted_array. apply sorted_perm_unique; [apply sort_rows_sorted | exact S |].
    rewrite sort_rows_perm. now apply Permutation_map.
  Qed.

  Theorem rows_complete_set : forall run arch st0 order,
    Permutation order (snd (save_set' run arch st0)) ->
    as_sorted_array order = map snd (expected_set run arch).
  Proof.
    intros run arch st0 order P. rewrite save_set_spec in P.
    apply sorted_array_unique; [apply expected_set_sorted | exact P].
  Qed.

  Theorem rows_complete_optimised : forall run e st0 order,
    Permutation order (snd (save_optimised' run e st0)) ->
    as_sorted_array order = map snd (expected_optimised run e).
  Proof.
    intros run e st0 order P. rewrite save_optimised_spec in P.
    apply sorted_array_unique; [|exact P].
    cbn. repeat constructor; unfold lt_row; cbn; lia.
  Qed.

  (* --- faithfulness, relative to what C01 / C09 establish about the decompression model --- *)

  Definition reachable (s : St) : Prop := exists es, s = fold_left (fun s e => decompress e s) es init.

  Variable canon : string -> Prop.       (* encodings produced by BooleanArchive.Encoding for this model's action count *)

  (* the valuation of a FRESH model decompressed from an encoding *)
  Definition eval (e : string) : V := vals_of (decompress e init).

  Hypothesis H_vals : forall e s, reachable s -> canon e -> vals_of (decompress e s) = vals_of (decompress e init).
  Hypothesis H_enc : forall e s, reachable s -> canon e -> enc_of (decompress e s) = e.
  Hypothesis H_init : vals_of (decompress (enc_of init) init) = vals_of init.

  Lemma reachable_init : reachable init.
  Proof. now exists []. Qed.

  Lemma reachable_step : forall e s, reachable s -> reachable (decompress e s).
  Proof. intros e s [es ->]. exists (es ++ [e])%list. now rewrite fold_left_app. Qed.

  (* closed form of the member rows *)
  Fixpoint member_rows (run : string) (n k : nat) (arch : list string) : list rowV :=
    match arch with
    | [] => []
    | e :: arch' => mk_row k (row_label (member_id run k n)) (eval e) e (member_note k n) :: member_rows run n (S k) arch'
    end.

  Lemma member_entries_closed : forall arch run n k st, reachable st -> Forall canon arch ->
    map snd (member_entries run n k arch st) = member_rows run n k arch.
  Proof.
    induction arch as [|e arch IH]; intros run n k st R F; [reflexivity|].
    inversion F as [|? ? Ce F']; subst. cbn [member_entries member_rows map snd]. unfold row_of.
    rewrite H_vals, H_enc by assumption. f_equal. apply IH; [now apply reachable_step | exact F'].
  Qed.

  Definition as_is_row (run : string) : rowV :=
    mk_row 0 (row_label (as_is_id run)) (eval (enc_of init)) (enc_of init) as_is_note.

  Lemma as_is_entry_closed : forall run, snd (as_is_entry run) = as_is_row run.
  Proof. intros. unfold as_is_entry, as_is_row, row_of, eval. cbn [snd]. now rewrite H_init. Qed.

  Theorem rows_explicit_set : forall run arch st0 order, Forall canon arch ->
    Permutation order (snd (save_set' run arch st0)) ->
    as_sorted_array order = as_is_row run :: member_rows run (List.length arch) 1 arch.
  Proof.
    intros run arch st0 order F P. rewrite (rows_complete_set _ _ _ _ P). unfold expected_set. cbn [map].
    rewrite as_is_entry_closed. f_equal. apply member_entries_closed; [apply reachable_init | exact F].
  Qed.

  Theorem rows_explicit_optimised : forall run e st0 order, canon e ->
    Permutation order (snd (save_optimised' run e st0)) ->
    as_sorted_array order =
      [as_is_row run; mk_row 1 (row_label (optimised_id run)) (eval e) e optimised_note].
  Proof.
    intros run e st0 order C P. rewrite (rows_complete_optimised _ _ _ _ P). unfold expected_optimised. cbn [map].
    rewrite as_is_entry_closed. cbn [snd]. unfold row_of. rewrite H_enc by (auto using reachable_init). reflexivity.
  Qed.

  Lemma member_rows_faithful : forall arch run n k x, In x (member_rows run n k arch) -> r_vals x = eval (r_enc x).
  Proof.
    induction arch as [|e arch IH]; intros run n k x H; cbn in H; [contradiction|].
    destruct H as [<-|H]; [reflexivity | eauto].
  Qed.

  Theorem rows_faithful_set : forall run arch st0 order x, Forall canon arch ->
    Permutation order (snd (save_set' run arch st0)) ->
    In x (as_sorted_array order) -> r_vals x = eval (r_enc x).
  Proof.
    intros run arch st0 order x F P I. rewrite (rows_explicit_set _ _ _ _ F P) in I.
    destruct I as [<-|I]; [reflexivity | now apply member_rows_faithful in I].
  Qed.

  Theorem rows_faithful_optimised : forall run e st0 order x, canon e ->
    Permutation order (snd (save_optimised' run e st0)) ->
    In x (as_sorted_array order) -> r_vals x = eval (r_enc x).
  Proof.
    intros run e st0 order x C P I. rewrite (rows_explicit_optimised _ _ _ _ C P) in I.
    destruct I as [<-|[<-|[]]]; reflexivity.
  Qed.
End SaverFacts.

(* ------------------------------------------------------------------------------------------------------------ *)
(* property-level statements *)

Lemma no_nl_frac : forall a b, no_nl (frac a b) = true.
Proof. intros. unfold no_nl. now rewrite char_in_frac. Qed.

Lemma no_nl_run_id : forall name R r, no_nl name = true -> no_nl (run_id name R r) = true.
Proof.
  intros name R r H. unfold run_id, clone_id.
  assert (E : no_nl (effective_name name) = true) by (unfold effective_name; destruct (name =? "")%string; auto).
  destruct (1 <? effective_runs R)%nat; [|exact E]. rewrite !no_nl_app, E, no_nl_frac. reflexivity.
Qed.

(* the ids of one run: all of the shape key_of run t *)
Definition ids_set (run : string) (n : nat) : list string :=
  as_is_id run :: map (fun j => member_id run j n) (seq 1 n).
Definition ids_optimised (run : string) : list string := [as_is_id run; optimised_id run].

Lemma ids_set_shape : forall run n k, In k (ids_set run n) -> exists t, tag_ok t = true /\ k = key_of run t.
Proof.
  intros run n k [<-|H].
  - exists "As-Is". split; [reflexivity | apply as_is_id_key].
  - apply in_map_iff in H as (j & <- & _). eexists. split; [apply tag_ok_frac | apply member_id_key].
Qed.

Lemma ids_optimised_shape : forall run k, In k (ids_optimised run) -> exists t, tag_ok t = true /\ k = key_of run t.
Proof.
  intros run k [<-|[<-|[]]].
  - exists "As-Is". split; [reflexivity | apply as_is_id_key].
  - eexists. split; [apply (tag_ok_frac 1 1) | apply optimised_id_key].
Qed.

Record naming_agrees (run k1 k2 : string) : Prop := {
  na_stem : file_stem k1 = file_stem k2;
  na_setid : set_id k1 = set_id k2;
  na_json1 : json_set_name k1 = Ok run;
  na_json2 : json_set_name k2 = Ok run;
  na_files : forall t l ids, files_written t l ids k1 = files_written t l ids k2 }.

Lemma naming_of_shape : forall run k1 k2, no_nl run = true ->
  (exists t, tag_ok t = true /\ k1 = key_of run t) -> (exists t, tag_ok t = true /\ k2 = key_of run t) ->
  naming_agrees run k1 k2.
Proof.
  intros run k1 k2 Hr (t1 & T1 & ->) (t2 & T2 & ->).
  destruct (file_stem_key run Hr) as [v Hv]. destruct (set_id_key run Hr) as [w Hw].
  assert (S : file_stem (key_of run t1) = file_stem (key_of run t2)) by now rewrite !Hv.
  constructor; auto using json_set_name_key.
  - now rewrite !Hw.
  - intros. unfold files_written, summary_file. now rewrite S.
Qed.

Section Statements.
  Variables (St V : Type) (init : St) (decompress : string -> St -> St) (enc_of : St -> string) (vals_of : St -> V).
  Local Notation save_set' := (save_set St V init decompress enc_of vals_of).
  Local Notation save_optimised' := (save_optimised St V init decompress enc_of vals_of).

  Lemma keys_save_set : forall run arch st0, keys (snd (save_set' run arch st0)) = ids_set run (List.length arch).
  Proof. intros. rewrite save_set_spec. apply keys_expected_set. Qed.

  Lemma keys_save_optimised : forall run e st0, keys (snd (save_optimised' run e st0)) = ids_optimised run.
  Proof. intros. rewrite save_optimised_spec. reflexivity. Qed.

  Theorem naming_deterministic_set : forall name R r arch st0 k1 k2, no_nl name = true ->
    In k1 (keys (snd (save_set' (run_id name R r) arch st0))) ->
    In k2 (keys (snd (save_set' (run_id name R r) arch st0))) ->
    naming_agrees (run_id name R r) k1 k2.
  Proof.
    intros name R r arch st0 k1 k2 H I1 I2. rewrite keys_save_set in I1, I2.
    apply naming_of_shape; eauto using no_nl_run_id, ids_set_shape.
  Qed.

  Theorem naming_deterministic_optimised : forall name R r e st0 k1 k2, no_nl name = true ->
    In k1 (keys (snd (save_optimised' (run_id name R r) e st0))) ->
    In k2 (keys (snd (save_optimised' (run_id name R r) e st0))) ->
    naming_agrees (run_id name R r) k1 k2.
  Proof.
    intros name R r e st0 k1 k2 H I1 I2. rewrite keys_save_optimised in I1, I2.
    apply naming_of_shape; eauto using no_nl_run_id, ids_optimised_shape.
  Qed.

  Lemma labels_member_entries : forall arch run n k st, run_ok run ->
    map (fun x => r_label (snd x)) (member_entries St V decompress enc_of vals_of run n k arch st)
    = map (member_label n) (seq k (List.length arch)).
  Proof.
    induction arch as [|e arch IH]; intros run n k st H; [reflexivity|].
    cbn [member_entries map List.length seq snd]. unfold row_of at 1. cbn [r_label].
    rewrite row_label_member by exact H. f_equal. now apply IH.
  Qed.

  Theorem labels_set : forall name R r arch st0 order, label_safe name = true ->
    Permutation order (snd (save_set' (run_id name R r) arch st0)) ->
    map r_label (as_sorted_array order) = "As-Is" :: map (member_label (List.length arch)) (seq 1 (List.length arch)).
  Proof.
    intros name R r arch st0 order H P. rewrite (rows_complete_set _ _ _ _ _ _ _ _ _ _ P).
    pose proof (run_ok_run_id name R r H) as OK.
    unfold expected_set. cbn [map]. rewrite map_map.
    rewrite labels_member_entries by exact OK. unfold as_is_entry, row_of. cbn [snd r_label].
    now rewrite row_label_as_is.
  Qed.

  Theorem labels_unique_set : forall name R r arch st0 order, label_safe name = true ->
    Permutation order (snd (save_set' (run_id name R r) arch st0)) ->
    NoDup (map r_label (as_sorted_array order)).
  Proof.
    intros name R r arch st0 order H P. rewrite (labels_set _ _ _ _ _ _ H P). apply labels_nodup, seq_NoDup.
  Qed.

  Theorem labels_optimised : forall name R r e st0 order, label_safe name = true ->
    Permutation order (snd (save_optimised' (run_id name R r) e st0)) ->
    map r_label (as_sorted_array order) = ["As-Is"; "Optimised"].
  Proof.
    intros name R r e st0 order H P. rewrite (rows_complete_optimised _ _ _ _ _ _ _ _ _ _ P).
    pose proof (run_ok_run_id name R r H) as OK.
    unfold expected_optimised, as_is_entry, row_of. cbn [map snd r_label].
    now rewrite row_label_as_is, row_label_optimised.
  Qed.

  Theorem labels_unique_optimised : forall name R r e st0 order, label_safe name = true ->
    Permutation order (snd (save_optimised' (run_id name R r) e st0)) ->
    NoDup (map r_label (as_sorted_array order)).
  Proof.
    intros name R r e st0 order H P. rewrite (labels_optimised _ _ _ _ _ _ H P).
    repeat constructor; cbn; intuition discriminate.
  Qed.
End Statements.

(* ------------------------------------------------------------------------------------------------------------ *)
(* the statements of Properties/C12.v, spelled out *)

Lemma c12_naming_multi :
  forall (St V : Type) (init : St) (decompress : string -> St -> St) (enc_of : St -> string) (vals_of : St -> V)
         (name : string) (R r : nat) (arch : list string) (st0 : St) (k1 k2 : string),
    no_nl name = true ->
    let summary := snd (save_set St V init decompress enc_of vals_of (run_id name R r) arch st0) in
    In k1 (keys summary) -> In k2 (keys summary) ->
    file_stem k1 = file_stem k2 /\ set_id k1 = set_id k2
    /\ json_set_name k1 = Ok (run_id name R r) /\ json_set_name k2 = Ok (run_id name R r)
    /\ forall t l, files_written t l (keys summary) k1 = files_written t l (keys summary) k2.
Proof.
  intros * H summary I1 I2. unfold summary in *. destruct (naming_deterministic_set _ _ _ _ _ _ _ _ _ _ _ _ _ H I1 I2). auto 10.
Qed.

Lemma c12_naming_single :
  forall (St V : Type) (init : St) (decompress : string -> St -> St) (enc_of : St -> string) (vals_of : St -> V)
         (name : string) (R r : nat) (e : string) (st0 : St) (k1 k2 : string),
    no_nl name = true ->
    let summary := snd (save_optimised St V init decompress enc_of vals_of (run_id name R r) e st0) in
    In k1 (keys summary) -> In k2 (keys summary) ->
    file_stem k1 = file_stem k2 /\ set_id k1 = set_id k2
    /\ json_set_name k1 = Ok (run_id name R r) /\ json_set_name k2 = Ok (run_id name R r)
    /\ forall t l, files_written t l (keys summary) k1 = files_written t l (keys summary) k2.
Proof.
  intros * H summary I1 I2. unfold summary in *. destruct (naming_deterministic_optimised _ _ _ _ _ _ _ _ _ _ _ _ _ H I1 I2). auto 10.
Qed.

(* every decimal numeral: non-empty, digits only, injective (what "k-of-n" labels rest on) *)
Lemma c12_dec_facts : forall n m, dec n <> "" /\ all_digits (dec n) = true /\ (dec n = dec m -> n = m).
Proof. intros. auto using dec_nonempty, dec_digits, dec_inj. Qed.

(* ------------------------------------------------------------------------------------------------------------ *)
(* naming for ALL names, line breaks included: the varying part of an id sits in its last line *)

Lemma lines_app_tail : forall a, exists init lastl,
  lines a = (init ++ [lastl])%list /\
  forall b, no_nl b = true -> lines (a ++ b) = (init ++ [(lastl ++ b)%string])%list.
Proof.
  induction a as [|c a (init & lastl & E & H)].
  - exists [], "". split; [reflexivity|]. intros b Hb. cbn [append app]. now apply lines_no_nl.
  - cbn [lines append]. destruct (Ascii.eqb c nl).
    + exists ("" :: init)%list, lastl. split; [now rewrite E|]. intros b Hb. now rewrite (H b Hb).
    + destruct init as [|i0 r].
      * exists [], (String c lastl). split; [now rewrite E|]. intros b Hb. now rewrite (H b Hb).
      * exists (String c i0 :: r)%list, lastl. split; [now rewrite E|]. intros b Hb. now rewrite (H b Hb).
Qed.

Lemma first_some_app1 : forall {A} (f : string -> option A) l x,
  first_some f (l ++ [x])%list = match first_some f l with Some a => Some a | None => f x end.
Proof. induction l as [|y l IH]; intros x; cbn; [now destruct (f x) | destruct (f y); auto]. Qed.

Lemma tail_no_nl : forall lit t, no_nl lit = true -> no_nl t = true -> no_nl (lit ++ t ++ ")") = true.
Proof. intros lit t A B. now rewrite !no_nl_app, A, B. Qed.

Lemma set_id_key_all : forall run, exists v, forall t, tag_ok t = true -> set_id (key_of run t) = v.
Proof.
  intros run. destruct (lines_app_tail run) as (init & lastl & _ & H).
  destruct (replace_lit_tail "Solution (" "Summary" (lastl ++ " ")) as [b Hb].
  eexists. intros t Ht. apply tag_ok_spec in Ht as (Hne & Hnl & _).
  unfold set_id, per_line, key_of. rewrite H by (now apply (tail_no_nl " Solution (")).
  rewrite map_app. cbn [map].
  replace (lastl ++ " Solution (" ++ t ++ ")") with ((lastl ++ " ") ++ "Solution (" ++ t ++ ")") by now rewrite app_assoc_s.
  rewrite (Hb t Hne). reflexivity.
Qed.

Lemma file_stem_key_all : forall run, exists v, forall t, tag_ok t = true -> file_stem (key_of run t) = v.
Proof. intros run. eexists. intros t Ht. now apply file_stem_key_eq. Qed.

Lemma json_set_name_key_all : forall run, exists v, forall t, tag_ok t = true -> json_set_name (key_of run t) = Ok v.
Proof.
  intros run. destruct (lines_app_tail run) as (init & lastl & _ & H).
  destruct (first_some (split_last " Solution") init) as [[b0 a0]|] eqn:F.
  - exists b0. intros t Ht. apply tag_ok_spec in Ht as (Hne & Hnl & _).
    unfold json_set_name, key_of. rewrite H by (now apply (tail_no_nl " Solution (")).
    now rewrite first_some_app1, F.
  - exists lastl. intros t Ht. apply tag_ok_spec in Ht as (Hne & Hnl & Hsp).
    unfold json_set_name, key_of. rewrite H by (now apply (tail_no_nl " Solution (")).
    rewrite first_some_app1, F.
    assert (E : split_last " Solution" (" Solution (" ++ t ++ ")") = Some ("", " (" ++ t ++ ")")).
    { change (" Solution (" ++ t ++ ")") with (String " " ("Solution (" ++ t ++ ")")).
      cbn [split_last]. rewrite split_last_none; [reflexivity | discriminate | now apply contains_space_solution]. }
    rewrite (split_last_app _ lastl _ _ _ E). now rewrite app_nil_r_s.
Qed.

Lemma naming_all_of_shape : forall run k1 k2,
  (exists t, tag_ok t = true /\ k1 = key_of run t) -> (exists t, tag_ok t = true /\ k2 = key_of run t) ->
  file_stem k1 = file_stem k2 /\ set_id k1 = set_id k2
  /\ json_set_name k1 = json_set_name k2 /\ is_ok (json_set_name k1) = true
  /\ forall t l ids, files_written t l ids k1 = files_written t l ids k2.
Proof.
  intros run k1 k2 (t1 & T1 & ->) (t2 & T2 & ->).
  destruct (file_stem_key_all run) as [v Hv]. destruct (set_id_key_all run) as [w Hw].
  destruct (json_set_name_key_all run) as [j Hj].
  assert (S : file_stem (key_of run t1) = file_stem (key_of run t2)) by now rewrite !Hv.
  repeat split; auto.
  - now rewrite !Hw.
  - now rewrite !Hj.
  - now rewrite Hj.
  - intros. unfold files_written, summary_file. now rewrite S.
Qed.

Lemma c12_naming_all_names_multi :
  forall (St V : Type) (init : St) (decompress : string -> St -> St) (enc_of : St -> string) (vals_of : St -> V)
         (run : string) (arch : list string) (st0 : St) (k1 k2 : string),
    let summary := snd (save_set St V init decompress enc_of vals_of run arch st0) in
    In k1 (keys summary) -> In k2 (keys summary) ->
    file_stem k1 = file_stem k2 /\ set_id k1 = set_id k2
    /\ json_set_name k1 = json_set_name k2 /\ is_ok (json_set_name k1) = true
    /\ forall t l, files_written t l (keys summary) k1 = files_written t l (keys summary) k2.
Proof.
  intros until k2. intros summary I1 I2. unfold summary in *. rewrite keys_save_set in *.
  destruct (naming_all_of_shape run k1 k2) as (A & B & C & D & E); eauto 6 using ids_set_shape.
Qed.

Lemma c12_naming_all_names_single :
  forall (St V : Type) (init : St) (decompress : string -> St -> St) (enc_of : St -> string) (vals_of : St -> V)
         (run : string) (e : string) (st0 : St) (k1 k2 : string),
    let summary := snd (save_optimised St V init decompress enc_of vals_of run e st0) in
    In k1 (keys summary) -> In k2 (keys summary) ->
    file_stem k1 = file_stem k2 /\ set_id k1 = set_id k2
    /\ json_set_name k1 = json_set_name k2 /\ is_ok (json_set_name k1) = true
    /\ forall t l, files_written t l (keys summary) k1 = files_written t l (keys summary) k2.
Proof.
  intros until k2. intros summary I1 I2. unfold summary in *. rewrite keys_save_optimised in *.
  destruct (naming_all_of_shape run k1 k2) as (A & B & C & D & E); eauto 6 using ids_optimised_shape.
Qed.

(* ------------------------------------------------------------------------------------------------------------ *)
(* source literals: the model's functions are what the literals of the Go source (the Saver.src_ constants) denote *)

Lemma clone_id_src : forall name R r,
  sprintf src_clone_id_format [FS name; FD r; FD R] = Some (name ++ " " ++ frac r R)
  /\ clone_id name R r = if (1 <? R)%nat then name ++ " " ++ frac r R else name.
Proof. intros. split; reflexivity. Qed.

Lemma member_id_src : forall run k n, sprintf src_member_id_format [FS run; FD k; FD n] = Some (member_id run k n).
Proof. intros. reflexivity. Qed.

Lemma as_is_id_src : forall run, as_is_id run = run ++ src_as_is_suffix /\ as_is_id run = run ++ src_optimised_as_is_suffix.
Proof. intros. split; reflexivity. Qed.

Lemma optimised_id_src : forall run, optimised_id run = run ++ src_optimised_suffix.
Proof. reflexivity. Qed.

Lemma row_label_src : forall id,
  row_label id = if contains src_label_pat1 id then src_label_1
                 else if contains src_label_pat2 id then src_label_2
                 else replace_char "/" src_label_sep (last (find_all_frac id) src_label_default).
Proof. reflexivity. Qed.

Lemma set_id_src : forall key,
  regex_lit_dots_rparen "Solution (" = src_set_id_regex
  /\ set_id key = per_line (replace_lit_dots_rparen "Solution (" src_set_id_replacement) key.
Proof. intros. split; reflexivity. Qed.

Lemma file_stem_src : forall key,
  regex_lit_final_marker "Solution(" = src_file_stem_regex
  /\ file_stem key = replace_char "/" "_of_" (strip_final_marker "Solution(" (remove_char " " key))
  /\ src_file_stem_lits = [" "; ""; regex_lit_final_marker "Solution("; ""; "/"; "_of_"].
Proof. intros. repeat split; reflexivity. Qed.

Lemma json_set_name_src : "(.*)" ++ " Solution" ++ ".*" = src_json_name_regex.
Proof. reflexivity. Qed.

(* ------------------------------------------------------------------------------------------------------------ *)
(* one summary file per run (used by C19): with more than one run the file stems of two runs differ, for EVERY scenario name *)

Lemma summary_stem_as_is : forall run, file_stem (as_is_id run) = replace_char "/" "_of_" (remove_char " " run).
Proof. intros run. rewrite as_is_id_key. apply file_stem_key_eq. exact tag_ok_as_is. Qed.

Lemma stem_of_frac : forall r R,
  replace_char "/" "_of_" (remove_char " " (frac r R)) = "(" ++ dec r ++ "_of_" ++ dec R ++ ")".
Proof.
  intros r R. rewrite remove_char_absent by (rewrite char_in_frac; reflexivity).
  assert (D : forall n, replace_char "/" "_of_" (dec n) = dec n)
    by (intro n; apply replace_char_absent, all_digits_char_in; [reflexivity | apply dec_digits]).
  unfold frac. change ("(" ++ dec r ++ "/" ++ dec R ++ ")") with (String "(" (dec r ++ String "/" (dec R ++ ")"))).
  cbn [replace_char Ascii.eqb Bool.eqb andb]. rewrite replace_char_app, D.
  cbn [replace_char Ascii.eqb Bool.eqb andb]. rewrite replace_char_app, D. reflexivity.
Qed.

Lemma summary_stem_inj : forall name R r1 r2, (1 < effective_runs R) ->
  file_stem (as_is_id (run_id name R r1)) = file_stem (as_is_id (run_id name R r2)) -> r1 = r2.
Proof.
  intros name R r1 r2 HR H. rewrite !summary_stem_as_is in H. unfold run_id, clone_id in H.
  apply Nat.ltb_lt in HR. rewrite HR in H.
  rewrite <- !app_assoc_s in H. rewrite !remove_char_app, !replace_char_app in H.
  apply app_inv_head_s in H. rewrite !stem_of_frac in H. cbn [append] in H. injection H as H.
  apply digits_sep_inj in H as [H _]; auto using dec_digits. now apply dec_inj.
Qed.
