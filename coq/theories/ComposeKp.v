(* Composition of the separately modelled components of a SINGLE-objective (Kirkpatrick) optimisation run:
     catchment valuation (Catchment.v, C01/C02/C10)  +  randomisation loops and the limit (Limits.v, C03)
     + the explorer's Metropolis step in bit-exact binary64 (Kirkpatrick.v, C04: [step], [iterate], [iterations]
       over an abstract [model_ops])  +  the temperature schedule (AnnealLoop.temp_after, C07).
   This file instantiates Kirkpatrick.model_ops with the catchment model under a limit and defines whole runs.
   No proofs in this file.

   Go sources composed (all transcribed elsewhere; this file only plugs them together):
     kirkpatrick.Explorer.Initialise        -> Limits.randomize from Limits.start_extreme
     kirkpatrick.Explorer.TryRandomChange   -> Kirkpatrick.iterate over [kp_ops]
        Model().TryRandomChange()           -> Catchment.propose (the index Intn returned is an INPUT)
        Model().ChangeIsValid()             -> Catchment.change_is_valid
        Model().DecisionVariableChange(o)   -> [reported_change]  (binary64, see below)
        Model().AcceptChange / RevertChange -> Catchment.accept / Catchment.revert
     kirkpatrick.Explorer.ObjectiveValue    -> [objective_float] of the objective variable's total
     kirkpatrick.Explorer.CoolDown          -> Kirkpatrick.cool_down

   The float the explorer sees (assumption A-FLOAT of DESIGN section 3a, made executable here and CHECKED bit for
   bit on every replayed iteration by ComposeKpCorr.check_krun -- never assumed by a theorem):
     every value the Go model stores after math.RoundFloat is  math.Round(x * shift) / shift : an integer-valued
     double g divided by the double shift (1000, or 100 for the two costs), i.e. [grid_float k g], where g is the
     grid integer the exact-rational model computes;
     the change a decision variable reports is ChangePerPlanningUnitDecisionVariableCommand.Change()
         = doneValue - undoneValue,   doneValue = undoneValue + RoundFloat(change)         (SetChange)
     two binary64 operations on the per-unit value [un] and the rounded change [ch]:  (un + ch) - un. *)
From Coq Require Import List ZArith QArith Bool Arith Floats Uint63.
From Crem Require Import Catchment Limits Kirkpatrick.
From Crem Require AnnealLoop.
Import ListNotations.

(* ---- grid integers as the binary64 values the Go model holds ---- *)

(* float64(n) for an integer |n| < 2^63 (exact below 2^53) *)
Definition float_of_Z (z : Z) : float :=
  match z with
  | Z0 => 0%float
  | Zpos _ => of_uint63 (Uint63.of_Z z)
  | Zneg p => (- of_uint63 (Uint63.of_Z (Zpos p)))%float
  end.

(* the side condition under which [float_of_Z] is exact (checked on every replayed value) *)
Definition grid_in_range (z : Z) : bool := (Z.abs z <? 9007199254740992)%Z.   (* 2^53 *)

(* math.Round(x * shift) / shift *)
Definition grid_float (k : vk) (z : Z) : float := (float_of_Z z / float_of_Z (scale_of k))%float.

(* Change() of the command a proposal left on variable k *)
Definition cmd_change_float (k : vk) (c : cmd) : float :=
  if c_null c then 0%float
  else let un := grid_float k (c_undone c) in
       ((un + grid_float k (c_done c - c_undone c)) - un)%float.

(* Model().DecisionVariableChange(objective) while the proposal is pending *)
Definition reported_change (k : vk) (s : Catchment.state) : float := cmd_change_float k (v_cmd (var s k)).

(* Explorer.ObjectiveValue() = Model().DecisionVariable(objective).Value() *)
Definition objective_float (k : vk) (s : Catchment.state) : float := grid_float k (v_total (var s k)).

(* does the binary64 change have the sign of the grid change it stands for?  (computable side condition,
   checked on every replayed iteration; under it "improving" can be read on the grid) *)
Definition sign_faithful (k : vk) (c : cmd) : bool :=
  let f := cmd_change_float k c in
  let z := cmd_change c in
  Bool.eqb (f <? 0)%float (z <? 0)%Z && Bool.eqb (0 <? f)%float (0 <? z)%Z.

(* "improving in the configured direction", on the grid *)
Definition improves_grid (dir : direction) (z : Z) : bool :=
  match dir with Minimise => (z <? 0)%Z | Maximise => (0 <? z)%Z | DirUnset => false end.

(* ---- the catchment model under a limit as the thing the explorer explores ---- *)
Definition kp_ops (d : dataset) (k : vk) : model_ops Catchment.state nat Z :=
  mkOps Catchment.state nat Z
    (fun s i => propose d s i)
    (fun s => change_is_valid d s)
    (fun s => reported_change k s)
    accept
    revert
    (fun s => v_total (var s k)).

(* ---- configuration and per-iteration inputs ---- *)
Record kp_cfg := mkKpCfg {
  kc_dir : direction;          (* OptimisationDirection *)
  kc_obj : vk;                 (* DecisionVariable: the objective *)
  kc_T0 : float;               (* StartingTemperature *)
  kc_cf : float                (* CoolingFactor *)
}.

Record kp_input := mkKpIn {
  ki_pick : nat;               (* the index Intn returned inside Model().TryRandomChange() *)
  ki_e : float;                (* what math.Exp returned (used only when the step draws) *)
  ki_u : float;                (* what Float64Unitary returned (used only when the step draws) *)
  ki_cool : bool               (* CoolDown() called after the proposal (the annealer always does) *)
}.

Definition kp_pq (x : kp_input) : nat * draw := (ki_pick x, mkDraw (ki_e x) (ki_u x) (ki_cool x)).

(* a boundary: the explorer/coolant fields and the model state between two iterations *)
Definition boundary := (Kirkpatrick.state * Catchment.state)%type.

(* one annealing iteration: Kirkpatrick.iterate over the catchment operations *)
Definition ckp_iterate (d : dataset) (cfg : kp_cfg) (b : boundary) (x : kp_input) : boundary * decision :=
  iterate (kp_ops d (kc_obj cfg)) (kc_dir cfg) b (kp_pq x).

(* the boundary after every iteration, with the decision taken in it *)
Fixpoint ckp_iters (d : dataset) (cfg : kp_cfg) (b : boundary) (inputs : list kp_input) : list (boundary * decision) :=
  match inputs with
  | [] => []
  | x :: rest => let r := ckp_iterate d cfg b x in r :: ckp_iters d cfg (fst r) rest
  end.

(* Explorer.Initialise (Initialise(Random); Randomize()) then the iterations.  Result: the state after the initial
   randomisation and the trace; None when the randomisation ends in the attempt-limit panic (D14b) or the scripted
   picks run out. *)
Definition ckp_run (d : dataset) (cfg : kp_cfg) (picks0 : list nat) (inputs : list kp_input)
  : option (Catchment.state * list (boundary * decision)) :=
  match randomize d picks0 (start_extreme d) with
  | LOk s0 => Some (s0, ckp_iters d cfg (init_state (kc_T0 cfg) (kc_cf cfg), s0) inputs)
  | _ => None
  end.

Definition kp_inputs_in_range (d : dataset) (inputs : list kp_input) : bool :=
  forallb (fun x => Nat.ltb (ki_pick x) (nactions d)) inputs.

(* ---- what must hold of one iteration (the statement of the composed theorem, per step) ----
   [n] = number of iterations so far that were followed by CoolDown;  b = boundary before, x = inputs,
   b' = boundary after, dec = the decision taken. *)
Definition cooled (x : kp_input) : nat := if ki_cool x then 1%nat else 0%nat.

Definition step_facts (d : dataset) (cfg : kp_cfg) (n : nat) (b : boundary) (x : kp_input) (b' : boundary) (dec : decision) : Prop :=
  let k := kc_obj cfg in
  let m := snd b in                               (* current model state *)
  let m1 := propose d m (ki_pick x) in            (* the pending proposal *)
  let c := reported_change k m1 in                (* the change handed to the explorer, binary64 *)
  let T := st_T (fst b) in                        (* current temperature *)
  (* (a) the limit is respected by the state held after the iteration (C03) *)
  state_is_valid d (snd b') = true
  (* (b) every variable's total -- in particular the objective value the explorer reads -- is the catchment
         valuation of the current action set: no drift from what a fresh model would report (C01) *)
  /\ (forall k', v_total (var (snd b') k') = canon_total d k' (st_active (snd b')))
  /\ objective_float k (snd b') = grid_float k (canon_total d k (st_active (snd b')))
  (* (c) the decision is the Metropolis decision for the reported change, the current temperature and the draw (C04) *)
  /\ dec = metropolis_spec (kc_dir cfg) (mkInput (change_is_valid d m1) c (ki_e x) (ki_u x))
  /\ (change_is_valid d m1 = false -> dec = RevertInvalid)
  /\ (change_is_valid d m1 = true -> improves (kc_dir cfg) c = true -> dec = AcceptDesirable)
  /\ (change_is_valid d m1 = true -> improves (kc_dir cfg) c = false ->
        dec = (if (ki_u x <? ki_e x)%float then AcceptUndesirable else RevertUndesirable)
        /\ step_exp_arg (kc_dir cfg) (fst b) (mkInput true c (ki_e x) (ki_u x)) = exp_arg T c)
  (* (d) accepted: the state is the proposed one, the objective moved by exactly the reported grid change;
         rejected or invalid: the previous action set and the previous values *)
  /\ snd b' = (if accepts dec then accept m1 else revert m1)
  /\ (forall j, st_active (snd b') j = if accepts dec then flip (st_active m) (ki_pick x) j else st_active m j)
  /\ (forall k', v_total (var (snd b') k')
               = if accepts dec then (v_total (var m k') + cmd_change (v_cmd (var m1 k')))%Z else v_total (var m k'))
  (* (e) temperature: T0 * cf^n in binary64 before the iteration, one more factor after a CoolDown (C07) *)
  /\ T = AnnealLoop.temp_after (kc_cf cfg) (kc_T0 cfg) n
  /\ st_T (fst b') = AnnealLoop.temp_after (kc_cf cfg) (kc_T0 cfg) (n + cooled x)
  /\ st_cf (fst b') = kc_cf cfg.

Fixpoint trace_facts (d : dataset) (cfg : kp_cfg) (n : nat) (b : boundary) (inputs : list kp_input)
         (tr : list (boundary * decision)) : Prop :=
  match inputs, tr with
  | [], [] => True
  | x :: rest, (b', dec) :: tr' =>
      step_facts d cfg n b x b' dec /\ trace_facts d cfg (n + cooled x) b' rest tr'
  | _, _ => False
  end.

(* ---- the same, iteration by iteration (no recursion in the statement) ---- *)
(* number of CoolDown calls among the given iterations *)
Definition cooled_count (xs : list kp_input) : nat := fold_right (fun x a => (cooled x + a)%nat) 0%nat xs.

(* the boundary before iteration j (0-based): the initial one, or the one iteration j-1 left *)
Definition boundary_before (b0 : boundary) (tr : list (boundary * decision)) (j : nat) : boundary :=
  nth j (b0 :: map fst tr) b0.
