(* C03: a configured limit is never exceeded by any state the optimisers hold (proofs about Limits.v). *)
From Coq Require Import List ZArith QArith Bool Arith Lia.
From Crem Require Import Catchment CatchmentProofs Limits.
Import ListNotations.
Open Scope Z_scope.

Lemma vk_eq_dec (a b : vk) : {a = b} + {a <> b}.
Proof. decide equality. Qed.

Section Limits.
  Variable d : dataset.
  Hypothesis Hwf : wf_dataset d = true.

  Definition Valid (s : state) : Prop := Inv d s /\ state_is_valid d s = true.

  Lemma state_is_valid_spec s :
    state_is_valid d s = true <-> forall k, within d k (v_total (var s k)) = true.
  Proof.
    unfold state_is_valid, all_vk. cbn [forallb]. rewrite !andb_true_iff. split.
    - intros (A & B & C & D & E & F & _) k. destruct k; assumption.
    - intro H. repeat split; apply H.
  Qed.

  Lemma change_is_valid_spec s :
    change_is_valid d s = true <-> forall k, within d k (undoable_value s k) = true.
  Proof.
    unfold change_is_valid, all_vk. cbn [forallb]. rewrite !andb_true_iff. split.
    - intros (A & B & C & D & E & F & _) k. destruct k; assumption.
    - intro H. repeat split; apply H.
  Qed.

  Lemma within_mono k z1 z2 : within d k z1 = true -> z2 <= z1 -> within d k z2 = true.
  Proof.
    intros H Hle. destruct (d_limit d) as [[k' m]|] eqn:L.
    - destruct (vk_eq_dec k k') as [->|Hne].
      + rewrite (within_limited d k' m z1 L) in H. rewrite (within_limited d k' m z2 L).
        apply Qle_bool_iff. apply Qle_bool_iff in H.
        eapply Qle_trans; [|exact H]. now apply grid_to_Q_mono.
      + now rewrite (within_other d k k' m _ L).
    - now rewrite within_nolimit.
  Qed.

  Lemma totals_of_same_active s s' :
    Inv d s -> Inv d s' -> (forall j, (j < nactions d)%nat -> st_active s j = st_active s' j) ->
    forall k, v_total (var s k) = v_total (var s' k).
  Proof.
    intros I I' H k. rewrite (inv_total d s k I), (inv_total d s' k I').
    unfold canon_total. apply zsum_map_ext. intros pu _. now apply canon_val_ext.
  Qed.

  Lemma valid_of_same_active s s' :
    Valid s -> Inv d s' -> (forall j, (j < nactions d)%nat -> st_active s j = st_active s' j) -> Valid s'.
  Proof.
    intros [I V] I' H. split; [assumption|]. apply state_is_valid_spec. intro k.
    rewrite <- (totals_of_same_active s s' I I' H k). now apply state_is_valid_spec.
  Qed.

  (* ---- an initialising toggle: totals move by the command's change, which UndoableValue counts again ---- *)
  Lemma initialising_toggle_var s i b l k :
    st_active s i <> b ->
    var (initialising_set d s i b l) k = var (accept (propose d s i)) k.
  Proof.
    intro H. unfold initialising_set. destruct (Bool.eqb (st_active s i) b) eqn:E.
    - apply eqb_prop in E. contradiction.
    - destruct k; reflexivity.
  Qed.

  Lemma accept_cmd_change s k :
    cmd_change (v_cmd (var (accept s) k)) = cmd_change (v_cmd (var s k)).
  Proof.
    rewrite accept_var. unfold do_cmd. destruct (c_null (v_cmd (var s k))) eqn:N; [reflexivity|].
    destruct (c_isdone (v_cmd (var s k))); [reflexivity|].
    cbn [v_cmd]. unfold cmd_change, mark. cbn. now rewrite N.
  Qed.

  (* after an initialising toggle, "ChangeIsValid" passing implies the new state is within the limit,
     whatever the sign of the change, provided the old state was *)
  Lemma toggle_checked_valid s i b l :
    Valid s -> (i < nactions d)%nat -> st_active s i <> b ->
    change_is_valid d (initialising_set d s i b l) = true ->
    Valid (initialising_set d s i b l).
  Proof.
    intros [I V] Hi Hne Hc. split; [now apply initialising_set_inv|].
    apply state_is_valid_spec. intro k.
    pose proof (proj1 (change_is_valid_spec _) Hc k) as Hk.
    pose proof (proj1 (state_is_valid_spec _) V k) as Hold.
    unfold undoable_value in Hk. rewrite (initialising_toggle_var s i b l k Hne) in *.
    rewrite accept_cmd_change in Hk. rewrite accept_total in *.
    set (t := v_total (var s k)) in *. set (c := cmd_change (v_cmd (var (propose d s i) k))) in *.
    destruct (Z_le_gt_dec 0 c).
    - apply (within_mono k (t + c + c)); [assumption|lia].
    - apply (within_mono k t); [assumption|lia].
  Qed.

  Lemma initialising_set_active s i b l j :
    st_active (initialising_set d s i b l) j = if Nat.eqb j i then b else st_active s j.
  Proof.
    unfold initialising_set. destruct (Bool.eqb (st_active s i) b) eqn:E.
    - apply eqb_prop in E. destruct l; cbn [with_active st_active];
        (destruct (Nat.eqb j i) eqn:Ej; [apply Nat.eqb_eq in Ej; now subst|reflexivity]).
    - unfold accept, observe, map_vars, with_active. cbn [st_active]. unfold flip, upd.
      destruct (Nat.eqb j i) eqn:Ej; [|reflexivity].
      destruct (st_active s i), b; simpl in *; try reflexivity; discriminate.
  Qed.

  Lemma toggle_back_valid s i b l l' :
    Valid s -> (i < nactions d)%nat -> st_active s i <> b ->
    Valid (initialising_set d (initialising_set d s i b l) i (negb b) l').
  Proof.
    intros HV Hi Hne. apply (valid_of_same_active s); [assumption| |].
    - apply initialising_set_inv; [assumption|apply initialising_set_inv; [assumption|exact (proj1 HV)|assumption]|assumption].
    - intros j _. rewrite !initialising_set_active.
      destruct (Nat.eqb j i) eqn:Ej; [|reflexivity]. apply Nat.eqb_eq in Ej. subst.
      destruct (st_active s i), b; simpl; try reflexivity; contradiction.
  Qed.

  (* ---- the randomisation loops ---- *)
  Lemma rand_loop_valid dir picks : forall attempts valid s s',
    Valid s -> picks_ok d picks = true ->
    rand_loop d dir picks attempts valid s = LOk s' -> Valid s'.
  Proof.
    induction picks as [|i ps IH]; intros attempts valid s s' HV Hp Hr.
    - destruct attempts; simpl in Hr.
      + destruct valid; [discriminate|]. inversion Hr; now subst.
      + destruct valid; simpl in Hr; [|inversion Hr; now subst].
        destruct (all_target d s dir); [inversion Hr; now subst|discriminate].
    - simpl in Hp. apply andb_true_iff in Hp as [Hi Hps]. apply Nat.ltb_lt in Hi.
      destruct attempts as [|a'].
      + simpl in Hr. destruct valid; [discriminate|]. inversion Hr; now subst.
      + cbn [rand_loop] in Hr. destruct valid; cbn [negb] in Hr; [|inversion Hr; now subst].
        destruct (all_target d s dir); [inversion Hr; now subst|].
        destruct (Bool.eqb (st_active s i) dir) eqn:E.
        * eapply IH; eauto.
        * assert (Hne : st_active s i <> dir) by (intro X; rewrite X, eqb_reflx in E; discriminate).
          destruct (change_is_valid d (initialising_set d s i dir true)) eqn:C.
          -- eapply IH; [|exact Hps|exact Hr]. now apply toggle_checked_valid.
          -- eapply IH; [|exact Hps|exact Hr]. now apply toggle_back_valid.
  Qed.

  Lemma randomize_valid picks s s' :
    Valid s -> picks_ok d picks = true -> randomize d picks s = LOk s' -> Valid s'.
  Proof.
    unfold randomize. destruct (d_limit d) as [[k m]|]; intros HV Hp Hr.
    - eapply rand_loop_valid; eauto.
    - inversion Hr; now subst.
  Qed.

  (* ---- the starting extreme ---- *)
  Lemma init_all_inv_gen b l : forall s, Inv d s -> (forall i, In i l -> (i < nactions d)%nat) ->
    Inv d (fold_left (fun s i => initialising_set d s i b false) l s).
  Proof.
    induction l as [|i l IH]; simpl; intros s I H; [assumption|].
    apply IH; [|auto]. apply initialising_set_inv; auto.
  Qed.

  Lemma start_extreme_inv : Inv d (start_extreme d).
  Proof.
    unfold start_extreme. destruct (d_limit d) as [[k m]|]; [|now apply fresh_inv].
    unfold init_all. apply init_all_inv_gen; [now apply fresh_inv|].
    intros i Hi. apply in_seq in Hi. lia.
  Qed.

  (* ---- single-objective iterations ---- *)
  Lemma kp_iter_valid s i dec : Valid s -> (i < nactions d)%nat -> Valid (kp_iter d s i dec).
  Proof.
    intros [I V] Hi. unfold kp_iter.
    assert (Hrev : Valid (revert (propose d s i))).
    { apply (valid_of_same_active s); [split; assumption|now apply try_revert_inv|].
      intros j _. symmetry. apply revert_propose_active. }
    destruct (change_is_valid d (propose d s i)) eqn:C; [|exact Hrev].
    destruct dec; [|exact Hrev].
    split; [now apply try_accept_inv|]. now rewrite <- valid_iff_prospective_state_valid.
  Qed.

  Lemma kp_iters_valid inputs : forall s, Valid s -> kp_inputs_ok d inputs = true ->
    Forall Valid (kp_iters d s inputs).
  Proof.
    induction inputs as [|[i dec] rest IH]; simpl; intros s HV Hin; [constructor|].
    apply andb_true_iff in Hin as [Hi Hrest]. apply Nat.ltb_lt in Hi. simpl in Hi.
    constructor; [now apply kp_iter_valid|]. apply IH; [now apply kp_iter_valid|assumption].
  Qed.

  Theorem kp_run_valid picks0 inputs states :
    state_is_valid d (start_extreme d) = true ->
    picks_ok d picks0 = true -> kp_inputs_ok d inputs = true ->
    kp_run d picks0 inputs = Some states ->
    Forall (fun s => state_is_valid d s = true) states.
  Proof.
    intros Hatt Hp Hin Hr. unfold kp_run in Hr.
    destruct (randomize d picks0 (start_extreme d)) as [s0| |] eqn:R; try discriminate.
    inversion Hr; subst.
    assert (V0 : Valid s0).
    { eapply randomize_valid; [|exact Hp|exact R]. split; [apply start_extreme_inv|assumption]. }
    assert (F : Forall Valid (s0 :: kp_iters d s0 inputs)) by (constructor; [assumption|now apply kp_iters_valid]).
    eapply Forall_impl; [|exact F]. intros s [_ V]. exact V.
  Qed.

  (* ---- synchronising to / decompressing a valid set ---- *)
  Lemma set_all_len_inv bits s : Inv d s -> (length bits <= nactions d)%nat -> Inv d (synchronise d s bits).
  Proof. intros I H. unfold synchronise. apply set_all_inv; [assumption|assumption|lia]. Qed.

  Lemma sync_active s bits j : length bits = nactions d -> (j < nactions d)%nat ->
    st_active (synchronise d s bits) j = nth j bits false.
  Proof.
    intros Hl Hj. unfold synchronise. rewrite set_all_active.
    replace (Nat.leb 0 j) with true by (symmetry; apply Nat.leb_le; lia).
    replace (Nat.ltb j (0 + length bits)) with true by (symmetry; apply Nat.ltb_lt; lia).
    simpl. now rewrite Nat.sub_0_r.
  Qed.

  Lemma active_list_nth s j : (j < nactions d)%nat -> nth j (active_list d s) false = st_active s j.
  Proof.
    intro Hj. unfold active_list.
    rewrite (nth_indep _ false (st_active s 0%nat)) by (rewrite map_length, seq_length; lia).
    rewrite map_nth. now rewrite seq_nth.
  Qed.

  Lemma active_list_length s : length (active_list d s) = nactions d.
  Proof. unfold active_list. now rewrite map_length, seq_length. Qed.

  Lemma sync_to_valid s s2 : Inv d s -> Valid s2 -> Valid (synchronise d s (active_list d s2)).
  Proof.
    intros I HV. apply (valid_of_same_active s2); [assumption| |].
    - apply set_all_len_inv; [assumption|rewrite active_list_length; lia].
    - intros j Hj. rewrite sync_active by (apply active_list_length || assumption).
      now rewrite active_list_nth.
  Qed.

  (* an archived action set is valid iff (any) state carrying it is *)
  Lemma set_valid_of_state s : Valid s -> set_valid d (active_list d s) = true.
  Proof.
    intro HV. unfold set_valid, apply_set.
    exact (proj2 (sync_to_valid (fresh d) s (fresh_inv d) HV)).
  Qed.

  Lemma decompress_valid s bits :
    Inv d s -> length bits = nactions d -> set_valid d bits = true -> Valid (decompress d s bits).
  Proof.
    intros I Hl Hv. unfold decompress.
    assert (Va : Valid (apply_set d bits)).
    { split; [apply apply_set_inv; [assumption|lia]|exact Hv]. }
    apply (valid_of_same_active (apply_set d bits)); [assumption| |].
    - apply set_all_len_inv; [assumption|lia].
    - intros j Hj. unfold apply_set. now rewrite !sync_active by assumption.
  Qed.

  (* ---- multi-objective iterations ---- *)
  Definition MOValid (m : mo_state) : Prop :=
    Valid (mo_cur m) /\ Inv d (mo_pot m) /\
    Forall (fun e => length e = nactions d /\ set_valid d e = true) (mo_arch m).

  Lemma mask_Forall {A} (P : A -> Prop) l m : Forall P l -> Forall P (mask l m).
  Proof.
    revert m. induction l as [|x l IH]; intros m H; destruct m as [|b m]; simpl; try constructor.
    inversion H; subst. destruct b; [constructor; auto|auto].
  Qed.

  Lemma mo_iter_valid m x m' :
    MOValid m -> picks_ok d (in_picks x) = true -> mo_iter d m x = MOk m' -> MOValid m'.
  Proof.
    intros ([Ic Vc] & Ip & Fa) Hp Hr. unfold mo_iter in Hr.
    set (pot1 := synchronise d (mo_pot m) (active_list d (mo_cur m))) in *.
    assert (V1 : Valid pot1) by (apply sync_to_valid; [assumption|split; assumption]).
    destruct (randomize d (in_picks x) pot1) as [pot2| |] eqn:R; try discriminate.
    assert (V2 : Valid pot2) by (eapply randomize_valid; eauto).
    set (cand := active_list d pot2) in *.
    set (arch1 := (if in_store x then [cand] else []) ++ mask (mo_arch m) (in_keep x)) in *.
    assert (Fa1 : Forall (fun e => length e = nactions d /\ set_valid d e = true) arch1).
    { unfold arch1. apply Forall_app. split; [|now apply mask_Forall].
      destruct (in_store x); constructor; [|constructor].
      split; [apply active_list_length|now apply set_valid_of_state]. }
    set (cur1 := if in_move x then synchronise d (mo_cur m) cand else mo_cur m) in *.
    assert (Vc1 : Valid cur1).
    { unfold cur1. destruct (in_move x); [apply sync_to_valid; assumption|split; assumption]. }
    destruct (in_rtb x) as [j|].
    - destruct (nth_error arch1 j) as [base|] eqn:N; [|discriminate]. inversion Hr; subst. clear Hr.
      apply nth_error_In in N. rewrite Forall_forall in Fa1. destruct (Fa1 _ N) as [Hl Hv].
      refine (conj _ (conj _ _)); cbn [mo_cur mo_pot mo_arch].
      + exact (decompress_valid cur1 base (proj1 Vc1) Hl Hv).
      + exact (proj1 V2).
      + now apply Forall_forall.
    - inversion Hr; subst. refine (conj _ (conj _ _)); cbn [mo_cur mo_pot mo_arch];
        [exact Vc1|exact (proj1 V2)|assumption].
  Qed.

  Lemma mo_iters_valid inputs : forall m l,
    MOValid m -> mo_inputs_ok d inputs = true -> mo_iters d m inputs = Some l -> Forall MOValid l.
  Proof.
    induction inputs as [|x rest IH]; simpl; intros m l HV Hin Hr.
    - inversion Hr; constructor.
    - apply andb_true_iff in Hin as [Hx Hrest].
      destruct (mo_iter d m x) as [m'| |] eqn:E; try discriminate.
      destruct (mo_iters d m' rest) as [l'|] eqn:E'; [|discriminate]. inversion Hr; subst.
      assert (HV' : MOValid m') by (eapply mo_iter_valid; eauto).
      constructor; [assumption|]. eapply IH; eauto.
  Qed.

  Lemma MOValid_ok m : MOValid m -> mo_ok d m = true.
  Proof.
    intros ([_ V] & _ & F). unfold mo_ok. apply andb_true_iff. split; [assumption|].
    apply forallb_forall. intros e He. rewrite Forall_forall in F. exact (proj2 (F e He)).
  Qed.

  Theorem mo_run_valid picks0 inputs ms :
    state_is_valid d (start_extreme d) = true ->
    picks_ok d picks0 = true -> mo_inputs_ok d inputs = true ->
    mo_run d picks0 inputs = Some ms ->
    Forall (fun m => mo_ok d m = true) ms.
  Proof.
    intros Hatt Hp Hin Hr. unfold mo_run in Hr.
    destruct (randomize d picks0 (start_extreme d)) as [s0| |] eqn:R; try discriminate.
    assert (V0 : Valid s0).
    { eapply randomize_valid; [|exact Hp|exact R]. split; [apply start_extreme_inv|assumption]. }
    set (m0 := mkMO s0 (start_extreme d) []) in *.
    assert (M0 : MOValid m0) by (refine (conj V0 (conj _ _)); [apply start_extreme_inv|constructor]).
    destruct (mo_iters d m0 inputs) as [l|] eqn:E; [|discriminate]. inversion Hr; subst.
    assert (F : Forall MOValid (m0 :: l)) by (constructor; [assumption|eapply mo_iters_valid; eauto]).
    eapply Forall_impl; [|exact F]. intros m. apply MOValid_ok.
  Qed.
End Limits.
