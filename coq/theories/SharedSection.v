(* C08 — the one mutable object that the runs of a scenario share BY DESIGN: the result saver's
   decompression model (scenario.Saver.decompressionModel), protected by Saver.decompressionMutex.
   Every run, on its own goroutine, hands its finished result to the scenario's single saver, which
   loads each solution into the shared model (Initialise(AsIs) / ModelCompressor.Decompress) and
   reads the solution's values back from it (SolutionBuilder.ForModel(...).Build()).

   Fine-grained model: each run executes a program of instructions, one instruction per scheduler
   action, under ANY interleaving:
     Acq      decompressionMutex.Lock()      (blocks -- is a no-op -- while another run holds it)
     Ld c     the shared model is loaded with input c (a whole write phase)
     Rd c     a read of the shared model whose result the run files under input c
     Rel      decompressionMutex.Unlock()
   [load], [obs] and [eval] are parameters: all that is used is that a read directly after a load
   of c observes [eval c] whatever the model held before (C01: the catchment valuation is a function
   of the action set, not of the history).  No proofs in this file. *)
From Coq Require Import List Arith Bool.
Import ListNotations.

Section Shared.
  Variables M In Out : Type.
  Variable load : In -> M -> M.
  Variable obs : M -> Out.

  Inductive instr := Acq | Ld (c : In) | Rd (c : In) | Rel.
  Definition prog := list instr.

  Record sstate := mkSS {
    ss_mem : M;
    ss_holder : option nat;          (* which run holds the mutex *)
    ss_loaded : option In;           (* ghost: what has been loaded since the mutex was last acquired *)
    ss_pcs : list prog;              (* what each run still has to execute *)
    ss_outs : list (nat * In * Out)  (* (run, the input the run files the read under, what it read) *)
  }.

  Fixpoint set_nth {A} (l : list A) (i : nat) (x : A) : list A :=
    match l, i with
    | [], _ => []
    | _ :: t, O => x :: t
    | h :: t, S j => h :: set_nth t j x
    end.

  Definition holds (s : sstate) (r : nat) : bool :=
    match ss_holder s with Some h => Nat.eqb h r | None => false end.

  (* one scheduler action: run r executes its next instruction *)
  Definition sstep (s : sstate) (r : nat) : sstate :=
    match nth_error (ss_pcs s) r with
    | Some (Acq :: rest) =>
        match ss_holder s with
        | None => mkSS (ss_mem s) (Some r) None (set_nth (ss_pcs s) r rest) (ss_outs s)
        | Some _ => s                                   (* blocked in Lock() *)
        end
    | Some (Ld c :: rest) =>
        mkSS (load c (ss_mem s)) (ss_holder s) (Some c) (set_nth (ss_pcs s) r rest) (ss_outs s)
    | Some (Rd c :: rest) =>
        mkSS (ss_mem s) (ss_holder s) (ss_loaded s) (set_nth (ss_pcs s) r rest) (ss_outs s ++ [(r, c, obs (ss_mem s))])
    | Some (Rel :: rest) =>
        if holds s r then mkSS (ss_mem s) None None (set_nth (ss_pcs s) r rest) (ss_outs s)
        else mkSS (ss_mem s) (ss_holder s) (ss_loaded s) (set_nth (ss_pcs s) r rest) (ss_outs s)
    | _ => s                                            (* finished, or no such run *)
    end.

  Definition sinit (m0 : M) (progs : list prog) : sstate := mkSS m0 None None progs [].
  Definition sexec (m0 : M) (progs : list prog) (sched : list nat) : sstate := fold_left sstep sched (sinit m0 progs).

  (* ---- the lock discipline, as a computable predicate on a program ---- *)
  Inductive mode := Outside | InsideEmpty | InsideLoaded (c : In).

  Variable in_eqb : In -> In -> bool.

  (* every load and every read happens between Acq and Rel, and a read filed under c follows a load of c
     within the same critical section *)
  Fixpoint disciplined (m : mode) (p : prog) : bool :=
    match p with
    | [] => match m with Outside => true | _ => false end
    | Acq :: p' => match m with Outside => disciplined InsideEmpty p' | _ => false end
    | Ld c :: p' => match m with Outside => false | _ => disciplined (InsideLoaded c) p' end
    | Rd c :: p' => match m with InsideLoaded c' => in_eqb c c' && disciplined m p' | _ => false end
    | Rel :: p' => match m with Outside => false | _ => disciplined Outside p' end
    end.

  (* the saver's critical section for one solution: Lock; load; read ... read; Unlock *)
  Definition section (c : In) (reads : nat) : prog := Acq :: Ld c :: repeat (Rd c) reads ++ [Rel].
End Shared.

Arguments Acq {In}.
Arguments Rel {In}.
Arguments Ld {In} c.
Arguments Rd {In} c.
Arguments Outside {In}.
Arguments InsideEmpty {In}.
Arguments InsideLoaded {In} c.
