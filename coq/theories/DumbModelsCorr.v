(* Correspondence checker for DumbModels.v: evaluated with vm_compute on the operation histories the
   harness (harness/c02dumb.go) ran against the REAL dumb.Model / modumb.Model
   (gen/cases_C02_dumb_*.v, gen/cases_C02_modumb_*.v).  No proofs. *)
From Coq Require Import List ZArith QArith Bool Arith.
From Crem Require Import Base.Res Base.Fl DumbModels.
Import ListNotations.
Open Scope Z_scope.

Fixpoint zl_eqb (a b : list Z) : bool :=
  match a, b with
  | [], [] => true
  | x :: a', y :: b' => (x =? y) && zl_eqb a' b'
  | _, _ => false
  end.
Fixpoint bl_eqb (a b : list bool) : bool :=
  match a, b with
  | [], [] => true
  | x :: a', y :: b' => Bool.eqb x y && bl_eqb a' b'
  | _, _ => false
  end.
Fixpoint zll_eqb (a b : list (list Z)) : bool :=
  match a, b with
  | [], [] => true
  | x :: a', y :: b' => zl_eqb x y && zll_eqb a' b'
  | _, _ => false
  end.

(* ---------------- dumb ---------------- *)

(* one step as observed: handle, operation, the verdict ChangeIsValid gave (true for other operations),
   and what every handle reports afterwards: [value; reported change; undoable value] *)
Record dstep := mkDStep { dst_h : nat; dst_op : dop; dst_valid : bool; dst_obs : list (list Z) }.
Record dcase := mkDCase { dcs_init : list (list Z); dcs_steps : list dstep }.

(* first disagreeing step (S k), 0 for the initial observation; None = agrees throughout *)
Fixpoint d_first_bad (w : dworld) (l : list dstep) (n : nat) : option nat :=
  match l with
  | [] => None
  | s :: l' =>
      if negb (Nat.ltb (dst_h s) (length (dw_models w))) then Some n else
      let w' := dw_step w (dst_h s) (dst_op s) in
      if zll_eqb (dw_obs w') (dst_obs s) && Bool.eqb (dst_valid s) true
      then d_first_bad w' l' (S n) else Some n
  end.

Definition check_dcase (c : dcase) : bool :=
  zll_eqb (dw_obs dw_new) (dcs_init c) &&
  match d_first_bad dw_new (dcs_steps c) 1 with None => true | Some _ => false end.

Fixpoint d_mismatches (l : list dcase) (n : nat) : list nat :=
  match l with
  | [] => []
  | c :: l' => if check_dcase c then d_mismatches l' (S n) else n :: d_mismatches l' (S n)
  end.

(* ---------------- modumb ---------------- *)

Definition mobs_eqb (a b : mobs) : bool :=
  bl_eqb (mo_active a) (mo_active b) && zl_eqb (mo_totals a) (mo_totals b) &&
  zl_eqb (mo_changes a) (mo_changes b) && zl_eqb (mo_undoable a) (mo_undoable b) &&
  zll_eqb (mo_vals a) (mo_vals b).
Definition omobs_eqb (a b : option mobs) : bool :=
  match a, b with
  | None, None => true
  | Some x, Some y => mobs_eqb x y
  | _, _ => false
  end.
Fixpoint omobs_list_eqb (a b : list (option mobs)) : bool :=
  match a, b with
  | [], [] => true
  | x :: a', y :: b' => omobs_eqb x y && omobs_list_eqb a' b'
  | _, _ => false
  end.

(* one step as observed: handle, operation, whether the call panicked (the history ends there), and
   what every handle reports afterwards (None = never initialised) *)
Record mstep := mkMStep { mst_h : nat; mst_op : mop; mst_panic : bool; mst_obs : list (option mobs) }.
Record mcase := mkMCase { mcs_init : list (option mobs); mcs_steps : list mstep }.

(* the parameters a SetParameters installs must be inside the float-faithfulness range *)
Definition op_small (w : mworld) (h : nat) (o : mop) : bool :=
  match o with
  | MSetParams i0 i1 i2 n =>
      match nth_error (mw_handles w) h with
      | Some hd => mp_small (mp_merge (nth (mh_prm hd) (mw_params w) mp_default) i0 i1 i2 n)
      | None => false
      end
  | _ => true
  end.

Fixpoint m_first_bad (w : mworld) (l : list mstep) (n : nat) : option nat :=
  match l with
  | [] => None
  | s :: l' =>
      if negb (Nat.ltb (mst_h s) (length (mw_handles w)) && op_small w (mst_h s) (mst_op s)) then Some n else
      match mw_step w (mst_h s) (mst_op s) with
      | Panic => if mst_panic s then (match l' with [] => None | _ => Some n end) else Some n
      | Ok w' =>
          if negb (mst_panic s) && omobs_list_eqb (mw_obs w') (mst_obs s) && mw_wf w'
          then m_first_bad w' l' (S n) else Some n
      end
  end.

Definition check_mcase (c : mcase) : bool :=
  omobs_list_eqb (mw_obs mw_new) (mcs_init c) &&
  match m_first_bad mw_new (mcs_steps c) 1 with None => true | Some _ => false end.

Fixpoint m_mismatches (l : list mcase) (n : nat) : list nat :=
  match l with
  | [] => []
  | c :: l' => if check_mcase c then m_mismatches l' (S n) else n :: m_mismatches l' (S n)
  end.

(* diagnosis helper used by the orchestrator's notes: first disagreeing step of a case *)
Definition m_where (c : mcase) : option nat :=
  if omobs_list_eqb (mw_obs mw_new) (mcs_init c) then m_first_bad mw_new (mcs_steps c) 1 else Some 0%nat.
Definition d_where (c : dcase) : option nat :=
  if zll_eqb (dw_obs dw_new) (dcs_init c) then d_first_bad dw_new (dcs_steps c) 1 else Some 0%nat.
