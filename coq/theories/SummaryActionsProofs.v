(* C13 — proofs about SummaryActions.v: an Actions text written by the explorer's compressor for a model with n
   actions (ANY n >= 1: no word-boundary hypothesis) becomes, on the engine's model with n actions, exactly the
   activation flags it was written from — in the solution pool (GET /solutions/<label>) and through PATCH /model —
   and the patched model re-encodes to the very same text, so it is found in the loaded summary. *)
From Coq Require Import List NArith ZArith String Bool Lia.
From Crem Require Import Base.Res CsvTable GoCast BoolArchive BoolArchiveProofs ActionCodec ActionCodecProofs
                         SummaryRoundTrip SummaryProofs SummaryActions.
Import ListNotations.

(* the text ModelCompressor.Compress(model).Encoding() writes for a model with the flags [bs] *)
Definition written (bs : list bool) : string := snd (encoding (of_bits bs)).

Lemma written_is_encoding_of : forall bs, encoding_of bs = Ok (written bs).
Proof.
  intro bs. unfold encoding_of, compress_actions, written. rewrite build_is_of_bits. reflexivity.
Qed.

Lemma nonempty_of_length : forall (bs : list bool), 1 <= List.length bs -> bs <> [].
Proof. intros [|b bs] H; [cbn in H; lia|discriminate]. Qed.

(* Compress(target).Decode(text); Decompress: the target (whatever it held) gets the flags the text was written from *)
Lemma transfer_written : forall bs dst, 1 <= List.length bs -> List.length dst = List.length bs ->
  transfer_text (written bs) dst = Ok (Some bs).
Proof.
  intros bs dst Hn HL.
  pose proof (transfer_spec bs dst (nonempty_of_length bs Hn) (eq_sym HL)) as T.
  unfold transfer in T. rewrite written_is_encoding_of in T. exact T.
Qed.

(* ---- GET /solutions/<label>: the pooled model ---- *)
Lemma pool_flags_written : forall bs ref, 1 <= List.length bs -> List.length ref = List.length bs ->
  pool_solution_flags ref (written bs) = Ok bs.
Proof.
  intros bs ref Hn HL.
  pose proof (transfer_written bs ref Hn HL) as T. unfold transfer_text in T.
  unfold pool_solution_flags.
  destruct (compress_actions ref) as [shell|]; [|discriminate T]. cbn [res_bind] in *.
  destruct (decode shell (written bs)) as [[shell' ok]|]; [|discriminate T]. cbn [res_bind fst] in *.
  destruct ok.
  - destruct (decompress shell' ref) as [m|]; [|discriminate T]. cbn [res_bind] in T. congruence.
  - discriminate T.
Qed.

(* ---- PATCH /model {Encoding} ---- *)
Lemma patch_model_written : forall bs cur, 1 <= List.length bs -> List.length cur = List.length bs ->
  patch_model cur (written bs) = Ok (Some (bs, written bs)).
Proof.
  intros bs cur Hn HL. unfold patch_model. rewrite (transfer_written bs cur Hn HL). cbn [res_bind].
  rewrite written_is_encoding_of. reflexivity.
Qed.

(* a text that Decode refuses: 400 and nothing else *)
Lemma patch_model_rejected : forall s cur,
  decode_accepts (nwords (List.length cur)) s = false -> patch_model cur s = Ok None.
Proof.
  intros s cur H. unfold patch_model. rewrite (transfer_text_rejected s cur H). reflexivity.
Qed.

Lemma explorer_row_written : forall n sm r, explorer_encoded n sm -> In r (tl sm) ->
  exists bs, List.length bs = n /\ r_enc r = written bs.
Proof.
  intros n sm r Henc Hin. apply Henc. destruct sm as [|r0 rest]; [destruct Hin|]. right. exact Hin.
Qed.

(* the whole clause 3, with the engine's own decoding and re-encoding in place of an abstract [recode] *)
Lemma c13_patch_explorer_row : forall n cast fmt asis sm pool r cur, cast_agrees cast -> 1 <= n ->
  wf_summary_shape asis sm = true -> explorer_encoded n sm -> In r (tl sm) -> List.length cur = n ->
  exists bs, List.length bs = n /\ r_enc r = written bs /\
    patch_encoding fmt (loaded cast asis sm pool) cur (r_enc r) = Ok (Some (bs, r_enc r, Some true)).
Proof.
  intros n cast fmt asis sm pool r cur Hc Hn Hshape Henc Hin Hcur.
  destruct (explorer_row_written n sm r Henc Hin) as [bs [Hl He]].
  exists bs. split; [exact Hl|]. split; [exact He|].
  unfold patch_encoding. rewrite He. rewrite patch_model_written by lia. cbn [res_bind]. rewrite <- He.
  rewrite (c13_front_member (nwords n) cast fmt asis (fun _ => Some (r_enc r)) sm pool r Hc
             (wf_explorer_summary n asis sm Hn Hshape Henc) Hin eq_refl).
  reflexivity.
Qed.

(* the whole clause 2: POST, then GET by label, from ANY engine state; the pooled model the answer is built from
   has exactly the flags the row's encoding was written from *)
Lemma c13_lookup_explorer_row_actions : forall n cast fmt asis sm st r ref, cast_agrees cast -> 1 <= n ->
  wf_summary_shape asis sm = true -> explorer_encoded n sm -> In r (tl sm) -> List.length ref = n ->
  exists st' st'' bs,
    post_solutions (nwords n) cast fmt asis st (CsvRecords (marshal_records (map fst asis) sm)) = Ok (S200, st') /\
    get_solution fmt st' (r_label r) = Ok (Decoded (r_enc r) (r_note r), st'') /\
    List.length bs = n /\ r_enc r = written bs /\ pool_solution_flags ref (r_enc r) = Ok bs.
Proof.
  intros n cast fmt asis sm st r ref Hc Hn Hshape Henc Hin Href.
  destruct (c13_round_trip_explorer n cast fmt asis sm st r Hc Hn Hshape Henc Hin) as [st' [st'' [Hp Hg]]].
  destruct (explorer_row_written n sm r Henc Hin) as [bs [Hl He]].
  exists st', st'', bs. split; [exact Hp|]. split; [exact Hg|]. split; [exact Hl|]. split; [exact He|].
  rewrite He. apply pool_flags_written; lia.
Qed.

(* ---- executable instances on the word boundaries (used as Examples in Properties/C13.v) ---- *)
Definition ex_flags (n : nat) : list bool :=
  map (fun i => Nat.eqb (Nat.modulo i 3) 0 || Nat.eqb (S i) n) (seq 0 n).

Definition ex_boundary_ok (n : nat) : bool :=
  let bs := ex_flags n in
  match pool_solution_flags (repeat false n) (written bs), patch_model (repeat true n) (written bs) with
  | Ok m, Ok (Some (m', e')) =>
      flags_eqb m bs && flags_eqb m' bs && String.eqb e' (written bs)
  | _, _ => false
  end.
