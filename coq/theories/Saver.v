(* C12 — executable model of how crem names, labels and fills the files it saves.  No proofs in this file.

   Go sources transcribed (as they are at /repo HEAD, i.e. WITH the D6/D7 repairs):
     internal/pkg/scenario/Runner.go           generateCloneId, WithName, WithRunNumber
     internal/pkg/scenario/Saver.go            id formats, summarise, deriveSummaryIdFromSolution, encode{SolutionSet,OptimisedModel}
     internal/pkg/annealing/solution/set/Summary.go                 Id, FileNameSafeId, justSomeId, AsSortedArray
     internal/pkg/annealing/solution/set/encoding/{csv,json}/Encoder.go   deriveOutputPath
     internal/pkg/annealing/solution/set/encoding/json/Marshaler.go deriveSetNameFor (unchecked [1] -> Panic)
     internal/pkg/annealing/solution/Solution.go                    FileNameSafeId (detail-level file names)

   Strings are Coq [string]s = Go byte strings.  Every regular expression is replaced by the string function it
   denotes under Go's RE2 semantics (leftmost match, greedy quantifiers, [.] does not match "\n", [\d] = ASCII digit,
   ReplaceAll/FindAll = successive non-overlapping matches).  All the patterns used key on ASCII bytes only, so the
   byte-level reading coincides with Go's rune-level one also on non-ASCII (UTF-8) names. *)
From Coq Require Import String Ascii List Bool Arith DecimalString.
From Crem Require Import Base.Res.
Import ListNotations.
Open Scope string_scope.

(* ------------------------------------------------------------------------------------------------------------ *)
(* generic byte-string functions *)

Definition nl : ascii := "010"%char.

Fixpoint starts_with (p s : string) : bool :=            (* strings.HasPrefix(s, p) *)
  match p with
  | EmptyString => true
  | String a p' => match s with
                   | EmptyString => false
                   | String b s' => Ascii.eqb a b && starts_with p' s'
                   end
  end.

Fixpoint contains (p s : string) : bool :=               (* strings.Contains(s, p) *)
  starts_with p s || match s with EmptyString => false | String _ s' => contains p s' end.

Fixpoint drop (n : nat) (s : string) : string :=
  match n, s with
  | O, _ => s
  | S n', String _ s' => drop n' s'
  | S _, EmptyString => EmptyString
  end.

Fixpoint remove_char (c : ascii) (s : string) : string :=    (* strings.Replace(s, c, "", -1) *)
  match s with
  | EmptyString => EmptyString
  | String d s' => if Ascii.eqb d c then remove_char c s' else String d (remove_char c s')
  end.

Fixpoint replace_char (c : ascii) (by_ : string) (s : string) : string :=   (* strings.Replace(s, c, by, -1) *)
  match s with
  | EmptyString => EmptyString
  | String d s' => if Ascii.eqb d c then by_ ++ replace_char c by_ s' else String d (replace_char c by_ s')
  end.

Fixpoint char_in (c : ascii) (s : string) : bool :=
  match s with EmptyString => false | String d s' => Ascii.eqb d c || char_in c s' end.

Definition no_nl (s : string) : bool := negb (char_in nl s).

(* (before, after) around the FIRST occurrence of [pat] *)
Fixpoint split_first (pat s : string) : option (string * string) :=
  if starts_with pat s then Some (EmptyString, drop (String.length pat) s)
  else match s with
       | EmptyString => None
       | String c s' => match split_first pat s' with
                        | Some (b, a) => Some (String c b, a)
                        | None => None
                        end
       end.

(* (before, after) around the LAST occurrence of [pat] *)
Fixpoint split_last (pat s : string) : option (string * string) :=
  match s with
  | EmptyString => if starts_with pat EmptyString then Some (EmptyString, EmptyString) else None
  | String c s' => match split_last pat s' with
                   | Some (b, a) => Some (String c b, a)
                   | None => if starts_with pat s then Some (EmptyString, drop (String.length pat) s) else None
                   end
  end.

(* (before, after) around the LAST occurrence of the character [c] *)
Fixpoint split_last_char (c : ascii) (s : string) : option (string * string) :=
  match s with
  | EmptyString => None
  | String d s' => match split_last_char c s' with
                   | Some (m, r) => Some (String d m, r)
                   | None => if Ascii.eqb d c then Some (EmptyString, s') else None
                   end
  end.

(* split on "\n"; never empty *)
Fixpoint lines (s : string) : list string :=
  match s with
  | EmptyString => [EmptyString]
  | String c s' => if Ascii.eqb c nl then EmptyString :: lines s'
                   else match lines s' with
                        | l :: ls => String c l :: ls
                        | [] => [String c EmptyString]
                        end
  end.

(* a pattern none of whose matches can contain "\n" acts line by line *)
Definition per_line (f : string -> string) (s : string) : string :=
  String.concat (String nl EmptyString) (map f (lines s)).

(* regexp.MustCompile(lit + `.+\)`).ReplaceAllString(line, repl) on one line, [lit] a literal without ")":
   leftmost = first occurrence of lit; greedy [.+] = up to the LAST ")" of the line, and must not be empty;
   if the first occurrence has no such ")" no later one has; after the last ")" nothing can match again. *)
Definition replace_lit_dots_rparen (lit repl line : string) : string :=
  match split_first lit line with
  | None => line
  | Some (before, after) =>
      match split_last_char ")"%char after with
      | Some (String _ _, rest) => before ++ repl ++ rest
      | _ => line
      end
  end.

Fixpoint first_some {A} (f : string -> option A) (ls : list string) : option A :=
  match ls with
  | [] => None
  | l :: ls' => match f l with Some a => Some a | None => first_some f ls' end
  end.

(* ------------------------------------------------------------------------------------------------------------ *)
(* set.Summary.Id:  regexp `Solution \(.+\)` ReplaceAllString(key, "Summary") *)
Definition set_id (key : string) : string :=
  per_line (replace_lit_dots_rparen "Solution (" "Summary") key.

(* regexp.MustCompile(lit + `[^()]*\)$`).ReplaceAllString(s, ""), [lit] a literal ending in "(" that cannot overlap itself:
   a match runs from an occurrence of lit to the END of the text ([$] without the m flag), is closed by ")" and has no
   parenthesis in between ([^()] also matches a line break).  An occurrence that qualifies has no "(" after it, hence is the
   LAST occurrence of lit; if the last occurrence does not qualify none does. *)
Fixpoint marker_body (s : string) : bool :=          (* s matches [^()]*\) entirely *)
  match s with
  | EmptyString => false
  | String c EmptyString => Ascii.eqb c ")"
  | String c s' => negb (Ascii.eqb c "(") && negb (Ascii.eqb c ")") && marker_body s'
  end.

Definition strip_final_marker (lit s : string) : string :=
  match split_last lit s with
  | Some (before, after) => if marker_body after then before else s
  | None => s
  end.

(* set.Summary.FileNameSafeId (after C19c-5): drop spaces; regexp `Solution\([^()]*\)$` -> ""; "/" -> "_of_".
   [Before C19c-5 the regexp was `Solution\(.+\)`: leftmost "Solution(" up to the last ")" of the line, so a scenario name
   containing "Solution (" lost its run marker "(r/R)" and all runs wrote the same summary file.] *)
Definition file_stem (key : string) : string :=
  replace_char "/"%char "_of_" (strip_final_marker "Solution(" (remove_char " "%char key)).

(* json.deriveSetNameFor: regexp <group: dot-star><space>Solution<dot-star> FindStringSubmatch(key)[1].
   Leftmost match = the first line containing " Solution"; greedy group = up to the LAST " Solution" of that line.
   No match -> nil slice -> index [1] panics. *)
Definition json_set_name (key : string) : res string :=
  match first_some (split_last " Solution") (lines key) with
  | Some (b, _) => Ok b
  | None => Panic
  end.

(* regexp `\d+/\d+` FindAllString(s, -1) as a scanner.  D0: no digits pending; D1 a: inside the digit run a;
   D2 a: a and "/" read; D3 a b: inside the second digit run.  A match is emitted when the second run ends. *)
Definition is_digit (c : ascii) : bool :=
  match c with
  | "0" | "1" | "2" | "3" | "4" | "5" | "6" | "7" | "8" | "9" => true
  | _ => false
  end%char.

Inductive dstate := D0 | D1 (a : string) | D2 (a : string) | D3 (a b : string).

Definition snoc (s : string) (c : ascii) : string := s ++ String c EmptyString.

Definition dstep (st : dstate) (c : ascii) : dstate * list string :=
  match st with
  | D0 => if is_digit c then (D1 (String c EmptyString), []) else (D0, [])
  | D1 a => if is_digit c then (D1 (snoc a c), [])
            else if Ascii.eqb c "/" then (D2 a, []) else (D0, [])
  | D2 a => if is_digit c then (D3 a (String c EmptyString), []) else (D0, [])
  | D3 a b => if is_digit c then (D3 a (snoc b c), []) else (D0, [a ++ "/" ++ b])
  end.

Fixpoint drun (st : dstate) (s : string) : dstate * list string :=
  match s with
  | EmptyString => (st, [])
  | String c s' => let (st1, o1) := dstep st c in
                   let (st2, o2) := drun st1 s' in (st2, (o1 ++ o2)%list)
  end.

Definition dfinish (st : dstate) : list string :=
  match st with D3 a b => [a ++ "/" ++ b] | _ => [] end.

Definition find_all_frac (s : string) : list string :=
  let (st, o) := drun D0 s in (o ++ dfinish st)%list.

(* Saver.deriveSummaryIdFromSolution — the ORDER of the three cases is the code's *)
Definition row_label (id : string) : string :=
  if contains "(1/1)" id then "Optimised"
  else if contains "As-Is" id then "As-Is"
  else replace_char "/"%char "-of-" (last (find_all_frac id) EmptyString).

(* solution.Solution.FileNameSafeId (detail-level files) *)
Definition detail_stem (id : string) : string :=
  replace_char "/"%char "_of_" (remove_char " "%char id).

(* ------------------------------------------------------------------------------------------------------------ *)
(* ids *)

Definition dec (n : nat) : string := NilEmpty.string_of_uint (Nat.to_uint n).     (* fmt %d *)

Definition frac (a b : nat) : string := "(" ++ dec a ++ "/" ++ dec b ++ ")".

(* Runner.WithName / WithRunNumber keep the defaults on "" / 0 *)
Definition effective_name (name : string) : string := if (name =? "")%string then "Default Scenario" else name.
Definition effective_runs (R : nat) : nat := if (R =? 0)%nat then 1 else R.

(* Runner.generateCloneId *)
Definition clone_id (name : string) (R r : nat) : string :=
  if (1 <? R)%nat then name ++ " " ++ frac r R else name.

Definition run_id (name : string) (R r : nat) : string := clone_id (effective_name name) (effective_runs R) r.

(* Saver.deriveAsIsSolutionId / deriveAsIsOptimisedSolutionId; Saver.deriveSolutionId; the literal of encodeAndSummariseOptimisedSolution *)
Definition as_is_id (run : string) : string := run ++ " " ++ "Solution" ++ " " ++ "(As-Is)".
Definition member_id (run : string) (k n : nat) : string := run ++ " " ++ "Solution" ++ " " ++ frac k n.
Definition optimised_id (run : string) : string := run ++ " " ++ "Solution" ++ " " ++ "(1/1)".

Definition as_is_note : string := "As-is state; zero active management actions".
Definition optimised_note : string := "Computationally optimised solution".
Definition member_note (k n : nat) : string := "Pareto front member " ++ dec k ++ " of " ++ dec n.

(* ------------------------------------------------------------------------------------------------------------ *)
(* the saver over an abstract decompression model *)

Section SaverModel.
  Variable St : Type.                          (* state of the saver's private decompression model *)
  Variable V : Type.                           (* the decision-variable values of a row *)
  Variable init : St.                          (* model.Initialise(AsIs) rebuilds variables and actions from the tables *)
  Variable decompress : string -> St -> St.    (* ModelCompressor.Decompress of an archive member with this action encoding *)
  Variable enc_of : St -> string.              (* ModelCompressor.Compress(model).Encoding()  (SolutionBuilder.ForModel) *)
  Variable vals_of : St -> V.                  (* SolutionBuilder.addDecisionVariables *)

  Record row := mk_row { r_sort : nat; r_label : string; r_vals : V; r_enc : string; r_note : string }.

  (* set.Summary = Go map id -> row: at most one entry per key, assignment overwrites *)
  Definition summary := list (string * row).

  Fixpoint upsert (k : string) (v : row) (m : summary) : summary :=
    match m with
    | [] => [(k, v)]
    | (k', v') :: m' => if (k' =? k)%string then (k, v) :: m' else (k', v') :: upsert k v m'
    end.

  (* Saver.summarise *)
  Definition summarise (m : summary) (id : string) (st : St) (note : string) (sort : nat) : summary :=
    upsert id (mk_row sort (row_label id) (vals_of st) (enc_of st) note) m.

  (* the loop of Saver.encodeSolutionSet: k = solutionIndex+1 *)
  Fixpoint save_members (run : string) (n k : nat) (arch : list string) (st : St) (m : summary) : St * summary :=
    match arch with
    | [] => (st, m)
    | e :: arch' => let st' := decompress e st in
                    save_members run n (S k) arch' st' (summarise m (member_id run k n) st' (member_note k n) k)
    end.

  (* Saver.encodeSolutionSet (multi-objective family); [st0] = whatever earlier saves left in the shared model *)
  Definition save_set (run : string) (arch : list string) (st0 : St) : St * summary :=
    save_members run (List.length arch) 1 arch init (summarise [] (as_is_id run) init as_is_note 0).

  (* Saver.encodeOptimisedModel (single-objective family) *)
  Definition save_optimised (run : string) (e : string) (st0 : St) : St * summary :=
    let m := summarise [] (as_is_id run) init as_is_note 0 in
    let st' := decompress e init in
    (st', summarise m (optimised_id run) st' optimised_note 1).

  (* set.Summary.AsSortedArray: the map's entries in SOME order, sorted by SortIndex *)
  Fixpoint insert_row (x : row) (l : list row) : list row :=
    match l with
    | [] => [x]
    | y :: l' => if (r_sort x <=? r_sort y)%nat then x :: l else y :: insert_row x l'
    end.
  Fixpoint sort_rows (l : list row) : list row :=
    match l with [] => [] | x :: l' => insert_row x (sort_rows l') end.

  Definition as_sorted_array (iteration_order : summary) : list row := sort_rows (map snd iteration_order).

  Definition keys (m : summary) : list string := map fst m.
End SaverModel.

Arguments mk_row {V}.
Arguments r_sort {V}. Arguments r_label {V}. Arguments r_vals {V}. Arguments r_enc {V}. Arguments r_note {V}.
Arguments upsert {V}. Arguments keys {V}. Arguments as_sorted_array {V}. Arguments sort_rows {V}. Arguments insert_row {V}.

(* ------------------------------------------------------------------------------------------------------------ *)
(* what ends up on disk, as a function of the key the encoder happens to pick *)

Inductive otype := CSV | JSON.
Inductive olevel := SummaryLevel | DetailLevel.

Definition ext (t : otype) : string := match t with CSV => ".csv" | JSON => ".json" end.

(* set/encoding/{csv,json}.Encoder.deriveOutputPath *)
Definition summary_file (t : otype) (some_key : string) : string := file_stem some_key ++ "-Summary" ++ ext t.

(* solution/encoding/{csv,json}.Encoder: two files per solution for CSV, one for JSON *)
Definition detail_files (t : otype) (id : string) : list string :=
  match t with
  | CSV => [detail_stem id ++ "-NameMappedVariables.csv"; detail_stem id ++ "-ManagementActions.csv"]
  | JSON => [detail_stem id ++ ".json"]
  end.

Definition files_written (t : otype) (l : olevel) (ids : list string) (some_key : string) : list string :=
  summary_file t some_key :: match l with SummaryLevel => [] | DetailLevel => flat_map (detail_files t) ids end.

(* the predicates of the theorems *)
Definition label_safe (name : string) : bool := negb (contains "(1/1)" name) && negb (contains "As-Is" name).
Definition plain_name (name : string) : bool := no_nl name && label_safe name.

(* ------------------------------------------------------------------------------------------------------------ *)
(* The literals of the Go source this model is written from.  harness/astfacts12 re-extracts them from /repo's current
   source on every check (coq/gen/Facts12.v) and gen/obl_C12.v compares them with these constants by computation;
   SaverProofs.v (section "source literals") proves that the model's functions are the ones these literals denote. *)

Definition src_clone_id_format : string := "%s (%d/%d)".                (* Runner.generateCloneId, under runNumber > 1 *)
Definition src_clone_id_cond : string * string * string := ("runner.runNumber", ">", "1").
Definition src_member_id_format : string := "%s Solution (%d/%d)".      (* Saver.deriveSolutionId *)
Definition src_as_is_suffix : string := " Solution (As-Is)".            (* Saver.deriveAsIsSolutionId *)
Definition src_optimised_as_is_suffix : string := " Solution (As-Is)".  (* Saver.deriveAsIsOptimisedSolutionId *)
Definition src_optimised_suffix : string := " Solution (1/1)".          (* Saver.encodeAndSummariseOptimisedSolution *)
(* Saver.deriveSummaryIdFromSolution: two strings.Contains special cases IN THIS ORDER, then the LAST match *)
Definition src_label_pat1 : string := "(1/1)".
Definition src_label_1 : string := "Optimised".
Definition src_label_pat2 : string := "As-Is".
Definition src_label_2 : string := "As-Is".
Definition src_label_default : string := "".
Definition src_label_sep : string := "-of-".
Definition src_label_lits : list string :=
  [src_label_pat1; src_label_1; src_label_pat2; src_label_2; src_label_default; src_label_sep].
Definition src_label_case_tests : list string := ["strings.Contains(solution.Id,_)"; "strings.Contains(solution.Id,_)"].
Definition src_label_index_exprs : list string := ["matches[len(matches)-1]"].
Definition src_iteration_regex : string := "\d+/\d+".
Definition src_prettified_regex : string := "/".
Definition src_set_id_regex : string := "Solution \(.+\)".              (* set.Summary.Id *)
Definition src_set_id_replacement : string := "Summary".
Definition src_file_stem_regex : string := "Solution\([^()]*\)$".      (* set.Summary.FileNameSafeId *)
Definition src_file_stem_lits : list string := [" "; ""; src_file_stem_regex; ""; "/"; "_of_"].
Definition src_json_name_regex : string := "(.*) Solution.*".           (* json.nameMatcher *)
Definition src_json_name_index_exprs : list string := ["nameMatcher.FindStringSubmatch(_)[1]"].
Definition src_detail_stem_lits : list string := [" "; ""; "/"; "_of_"].   (* solution.Solution.FileNameSafeId *)
Definition src_output_path_lits : list string := ["-"].                 (* set/encoding/{csv,json}.Encoder.deriveOutputPath *)
Definition src_summary_path_lits : list string := ["Summary"].

(* fmt.Sprintf restricted to the verbs %s and %d *)
Inductive farg := FS (s : string) | FD (n : nat).
Fixpoint sprintf (fmt : string) (args : list farg) : option string :=
  match fmt with
  | EmptyString => match args with [] => Some EmptyString | _ => None end
  | String "%" (String "s" rest) =>
      match args with FS s :: args' => option_map (append s) (sprintf rest args') | _ => None end
  | String "%" (String "d" rest) =>
      match args with FD n :: args' => option_map (append (dec n)) (sprintf rest args') | _ => None end
  | String c rest => option_map (String c) (sprintf rest args)
  end.

(* the regular expression  <lit, "(" escaped> .+ \)  that [replace_lit_dots_rparen lit] stands for *)
Fixpoint escape_parens (s : string) : string :=
  match s with
  | EmptyString => EmptyString
  | String c s' => if Ascii.eqb c "("%char then String "\" (String "(" (escape_parens s')) else String c (escape_parens s')
  end.
Definition regex_lit_dots_rparen (lit : string) : string := escape_parens lit ++ ".+\)".
Definition regex_lit_final_marker (lit : string) : string := escape_parens lit ++ "[^()]*\)$".
