(* Correspondence checker for the composed single-objective run (ComposeKp.v): the REAL kirkpatrick.Explorer on
   the REAL catchment model under a limit is replayed iteration by iteration through [ckp_iterate].  Inputs taken
   from the observation: the action index the model's generator picked, the Int63 value the explorer's (scripted)
   random source returned, what math.Exp returned, whether CoolDown followed.  Everything else must be reproduced
   by the model, bit for bit where it is a float:
     temperature before and after, the validity verdict, the reported change (binary64: this is where assumption
     A-FLOAT is CHECKED), the argument handed to math.Exp, the draw (Float64Unitary of the Int63 value), the number
     of draws, the decision, the objective value the explorer reads after the iteration (binary64, A-FLOAT checked),
     all six totals (grid integers), the active action set; and the model-side state must respect the limit.
   After the last iteration the six totals are compared with the closed-form valuation [canon_total] of the final
   action set.  The result names the first disagreeing iteration and which comparison failed.  No proofs. *)
From Coq Require Import List ZArith QArith Bool Arith Floats Uint63.
From Crem Require Import Base.Fl Catchment CatchmentCorr Limits Kirkpatrick ComposeKp.
From Crem Require KirkpatrickCorr.
Import ListNotations.

Definition same_bits := KirkpatrickCorr.same_bits.
Definition of_bits := KirkpatrickCorr.of_bits.
(* numeric equality of binary64 values: identifies +0 and -0 (math.Round(-0.4)/1000 = -0), false on NaN *)
Definition feq (a b : float) : bool := PrimFloat.eqb a b.

Record kstep := mkKS {
  ks_pick : nat;            (* index of the action Model().TryRandomChange() toggled *)
  ks_k : int;               (* what the explorer's rand.Source answers in this iteration (Int63) *)
  ks_cool : bool;           (* CoolDown() called after the proposal *)
  ks_T : float;             (* Temperature before the proposal *)
  ks_valid : bool;          (* not changeInvalid *)
  ks_change : float;        (* objectiveValueChange: the change the explorer read from the model *)
  ks_arg : float;           (* harness: -math.Abs(change)/Temperature *)
  ks_e : float;             (* harness: math.Exp(ks_arg) *)
  ks_u : float;             (* what the REAL Float64Unitary returns for a source answering ks_k *)
  ks_draws : nat;           (* Int63 calls on the explorer's source during the proposal *)
  ks_dec : decision;        (* from the explorer's event notes *)
  ks_obj : float;           (* Explorer.ObjectiveValue() after the iteration *)
  ks_totals : list Z;       (* the six totals after the iteration, grid units, order of all_vk *)
  ks_bits : list bool;      (* active action set after the iteration *)
  ks_Tafter : float         (* Temperature after the iteration *)
}.

Record krun := mkKRun {
  kr_limit : vk * Q;
  kr_cfg : kp_cfg;
  kr_start : list bool;     (* action set after Explorer.Initialise *)
  kr_start_totals : list Z;
  kr_start_obj : float;
  kr_steps : list kstep
}.

Definition totals_of (s : Catchment.state) : list Z := map (fun k => v_total (var s k)) all_vk.

Definition draws_of (dec : decision) : nat :=
  match dec with AcceptUndesirable | RevertUndesirable => 1%nat | _ => 0%nat end.

(* first failing comparison of one iteration (0 = none) and the boundary after it *)
Definition check_kstep (d : dataset) (cfg : kp_cfg) (b : boundary) (c : kstep) : nat * boundary :=
  let k := kc_obj cfg in
  let u := float64_unitary (ks_k c) in
  let r := ckp_iterate d cfg b (mkKpIn (ks_pick c) (ks_e c) u (ks_cool c)) in
  let b' := fst r in
  let dec := snd r in
  let es' := fst b' in
  let m' := snd b' in
  let pending := v_cmd (var m' k) in      (* the proposal's command stays on the variable after accept / revert *)
  let seen := st_change es' in            (* = reported_change k (propose ...) for a configured direction *)
  let i := mkInput (negb (st_invalid es')) seen (ks_e c) u in
  let code : nat :=
    if negb (Nat.ltb (ks_pick c) (nactions d)) then 1%nat
    else if negb (same_bits (st_T (fst b)) (ks_T c)) then 2%nat
    else if negb (Bool.eqb (negb (st_invalid es')) (ks_valid c)) then 3%nat
    else if negb (feq seen (ks_change c)) then 4%nat                         (* A-FLOAT: the reported change *)
    else if negb (feq seen (cmd_change_float k pending)) then 5%nat
    else if negb (grid_in_range (c_undone pending) && grid_in_range (c_done pending) && sign_faithful k pending) then 6%nat
    else if negb (same_bits u (ks_u c)) then 7%nat
    else if negb (if Nat.eqb (draws_of dec) 1 then same_bits (exp_arg (st_T (fst b)) seen) (ks_arg c) else true) then 8%nat
    else if negb (KirkpatrickCorr.dec_eqb dec (ks_dec c)) then 9%nat
    else if negb (KirkpatrickCorr.dec_eqb (metropolis_spec (kc_dir cfg) i) (ks_dec c)) then 10%nat
    else if negb (Nat.eqb (draws_of dec) (ks_draws c)) then 11%nat
    else if negb (blist_eqb (active_list d m') (ks_bits c)) then 12%nat
    else if negb (zlist_eqb (totals_of m') (ks_totals c)) then 13%nat
    else if negb (grid_in_range (v_total (var m' k)) && feq (objective_float k m') (ks_obj c)) then 14%nat   (* A-FLOAT: the objective value *)
    else if negb (same_bits (st_T es') (ks_Tafter c)) then 15%nat
    else if negb (state_is_valid d m') then 16%nat
    else 0%nat in
  (code, b').

Fixpoint replay (d : dataset) (cfg : kp_cfg) (b : boundary) (steps : list kstep) (n : nat) : option (nat * nat) * boundary :=
  match steps with
  | [] => (None, b)
  | c :: rest =>
      let '(code, b') := check_kstep d cfg b c in
      match code with
      | O => replay d cfg b' rest (S n)
      | _ => (Some (n, code), b')
      end
  end.

Definition bits_fn (bits : list bool) : nat -> bool := fun j => nth j bits false.

(* None = the whole run is reproduced; Some (k, code) = first disagreeing iteration and the failing comparison
   (iteration 4998: the state after Explorer.Initialise; 4999: the closed-form valuation of the final action set) *)
Definition check_krun (d0 : dataset) (r : krun) : option (nat * nat) :=
  let d := with_limit d0 (Some (kr_limit r)) in
  let cfg := kr_cfg r in
  let k := kc_obj cfg in
  let s0 := apply_set d (kr_start r) in
  if negb (configured (kc_dir cfg)) then Some (4998, 20)%nat
  else if negb (Nat.eqb (length (kr_start r)) (nactions d)) then Some (4998, 21)%nat
  else if negb (zlist_eqb (totals_of s0) (kr_start_totals r)) then Some (4998, 13)%nat
  else if negb (feq (objective_float k s0) (kr_start_obj r)) then Some (4998, 14)%nat
  else if negb (state_is_valid d s0) then Some (4998, 16)%nat
  else
    match replay d cfg (init_state (kc_T0 cfg) (kc_cf cfg), s0) (kr_steps r) 0 with
    | (Some kc, _) => Some kc
    | (None, b) =>
        let f := bits_fn (active_list d (snd b)) in
        if zlist_eqb (map (fun k' => canon_total d k' f) all_vk) (totals_of (snd b)) then None else Some (4999, 13)%nat
    end.

Definition mismatch_list (r : option (nat * nat)) : list nat :=
  match r with None => [] | Some (k, _) => [k] end.

(* how many iterations of a run fall in each row of the decision table (evidence only) *)
Definition decisions_of (r : krun) : list decision := map ks_dec (kr_steps r).
