(* C13 — Every summary the explorer can write loads in the engine, label by label.
   Statements only; every proof is [exact <lemma>] from SummaryProofs.

   Setting (SummaryRoundTrip.v).  A summary [sm] is a list of rows (label, "%.3f" value texts, Actions encoding,
   note), As-Is row first, written by the marshaller as the records [marshal_records names sm]; the engine is
   configured with the scenario whose as-is model has the decision variables [asis] (name, value).
   [cast], [fmt] are ANY caster / float formatter that agree with the model GoCast.v wherever the model speaks
   (strconv / fmt are trusted; the model is tied to them exhaustively on short strings over [0-9A-F:]).
   [wf_summary asis sm] (boolean): first label is As-Is and its values are the as-is model's; every row has one
   value per variable, a label and a note that are text, value texts that are numbers, an encoding over
   [0-9A-Fa-f:]; labels are distinct; variable names are distinct and none is Solution/Actions/Summary.
   [loaded cast asis sm pool] is the engine state after a successful POST (table of [sm], solution pool [pool]).

   Known open defect D9: cells are type-cast on load, so an encoding that also parses as a float or a bool is not
   read back verbatim.  The three clauses of the property therefore carry the hypothesis
   [encodings_stable sm = true] (every non-as-is encoding satisfies [cast_stable]: CellString gives it back
   verbatim); the unrestricted statements are refuted below with the witnesses 1E3, 1000000 and F. *)
From Coq Require Import List String Ascii QArith Bool Arith.
From Crem Require Import Base.Res CsvTable GoCast GoCastProofs SummaryRoundTrip SummaryProofs.
Import ListNotations.
Local Open Scope string_scope.
Local Open Scope nat_scope.

(* ---- clause 1: the summary is accepted by POST /solutions ---- *)
(* full statement:  forall sm, wf_summary asis sm = true -> post_solutions ... = Ok (S200, _)   — refuted *)
Theorem C13_accepts_partial : forall cast fmt asis sm st, cast_agrees cast -> fmt_agrees fmt ->
  wf_summary asis sm = true -> encodings_stable sm = true ->
  post_solutions cast fmt asis st (CsvRecords (marshal_records (map fst asis) sm)) =
  Ok (S200, loaded cast asis sm (s_pool st)).
Proof. exact c13_accepts. Qed.

Theorem C13_accepts_refuted :
  exists asis sm, wf_summary asis sm = true /\
    post_solutions model_cast model_fmt asis fresh (CsvRecords (marshal_records (map fst asis) sm)) = Ok (S400, fresh).
Proof. exact c13_accepts_refuted. Qed.

(* ---- clause 2: lookup by label returns the row's OWN encoding and summary text ---- *)
(* (the pool entry [Decoded e s] is the model decoded from the text e, with attributes Encoding = e, Summary = s) *)
Theorem C13_lookup_exact_partial : forall cast fmt asis sm pool r, cast_agrees cast -> fmt_agrees fmt ->
  wf_summary asis sm = true -> encodings_stable sm = true ->
  In r (tl sm) -> assoc (r_label r) pool = None ->
  get_solution fmt (loaded cast asis sm pool) (r_label r) =
  Ok (Decoded (r_enc r) (r_note r), loaded cast asis sm ((r_label r, (r_enc r, r_note r)) :: pool)).
Proof. exact c13_lookup_exact. Qed.

(* ... also when asked again (now served from the pool) *)
Theorem C13_lookup_again_partial : forall cast fmt asis sm pool r, cast_agrees cast -> fmt_agrees fmt ->
  wf_summary asis sm = true -> encodings_stable sm = true ->
  In r (tl sm) -> assoc (r_label r) pool = None ->
  exists st', get_solution fmt (loaded cast asis sm pool) (r_label r) = Ok (Decoded (r_enc r) (r_note r), st') /\
    get_solution fmt st' (r_label r) = Ok (Decoded (r_enc r) (r_note r), st').
Proof. exact c13_lookup_again. Qed.

(* the As-Is label returns the as-is solution, an unknown label 404 — for ALL well-formed summaries (no D9 hypothesis) *)
Theorem C13_lookup_asis : forall cast fmt asis sm pool, cast_agrees cast ->
  wf_summary asis sm = true ->
  get_solution fmt (loaded cast asis sm pool) "As-Is" = Ok (AsIsSolution, loaded cast asis sm pool).
Proof. exact c13_lookup_asis. Qed.

Theorem C13_lookup_unknown : forall cast fmt asis sm pool label, cast_agrees cast ->
  wf_summary asis sm = true -> (forall r, In r sm -> r_label r <> label) ->
  get_solution fmt (loaded cast asis sm pool) label = Ok (NotFound, loaded cast asis sm pool).
Proof. exact c13_lookup_unknown. Qed.

(* fresh engine, POST then GET, in one statement *)
Theorem C13_round_trip_partial : forall cast fmt asis sm r, cast_agrees cast -> fmt_agrees fmt ->
  wf_summary asis sm = true -> encodings_stable sm = true -> In r (tl sm) ->
  exists st' st'',
    post_solutions cast fmt asis fresh (CsvRecords (marshal_records (map fst asis) sm)) = Ok (S200, st') /\
    get_solution fmt st' (r_label r) = Ok (Decoded (r_enc r) (r_note r), st'').
Proof. exact c13_round_trip. Qed.

Theorem C13_lookup_exact_refuted :
  exists asis sm r, wf_summary asis sm = true /\ In r (tl sm) /\
    exists st' e s st'',
      post_solutions model_cast model_fmt asis fresh (CsvRecords (marshal_records (map fst asis) sm)) = Ok (S200, st') /\
      get_solution model_fmt st' (r_label r) = Ok (Decoded e s, st'') /\ e <> r_enc r.
Proof. exact c13_lookup_exact_refuted. Qed.

(* The hypothesis [assoc (r_label r) pool = None] is needed too: POST /solutions does not reset the pool. *)
Theorem C13_lookup_after_repost_refuted :
  exists asis sm1 sm2 r,
    wf_summary asis sm1 = true /\ encodings_stable sm1 = true /\
    wf_summary asis sm2 = true /\ encodings_stable sm2 = true /\ In r (tl sm2) /\
    exists st1 st2 st3 st4 f e s,
      post_solutions model_cast model_fmt asis fresh (CsvRecords (marshal_records (map fst asis) sm1)) = Ok (S200, st1) /\
      get_solution model_fmt st1 (r_label r) = Ok (f, st2) /\
      post_solutions model_cast model_fmt asis st2 (CsvRecords (marshal_records (map fst asis) sm2)) = Ok (S200, st3) /\
      get_solution model_fmt st3 (r_label r) = Ok (Decoded e s, st4) /\ e <> r_enc r.
Proof. exact c13_lookup_after_repost_refuted. Qed.

(* ---- clause 3: setting the model from the encoding of a non-as-is row marks it as a front member ---- *)
(* [recode e = Some e]: the encoding is the canonical text of the action set it decodes to (C09: true of every
   encoding the compressor writes) *)
Theorem C13_front_member_partial : forall cast fmt asis recode sm pool r, cast_agrees cast -> fmt_agrees fmt ->
  wf_summary asis sm = true -> encodings_stable sm = true ->
  In r (tl sm) -> recode (r_enc r) = Some (r_enc r) ->
  pareto_member fmt recode (loaded cast asis sm pool) (r_enc r) = Ok (Some (Some true)).
Proof. exact c13_front_member. Qed.

(* and only those: an encoding that is none of rows 1.. (e.g. only the as-is row's) is not a member *)
Theorem C13_front_non_member_partial : forall cast fmt asis recode sm pool e e', cast_agrees cast -> fmt_agrees fmt ->
  wf_summary asis sm = true -> encodings_stable sm = true ->
  recode e = Some e' -> (forall r, In r (tl sm) -> r_enc r <> e') ->
  pareto_member fmt recode (loaded cast asis sm pool) e = Ok (Some (Some false)).
Proof. exact c13_front_non_member. Qed.

Theorem C13_front_member_refuted :
  exists asis sm r st', wf_summary asis sm = true /\ In r (tl sm) /\
    post_solutions model_cast model_fmt asis fresh (CsvRecords (marshal_records (map fst asis) sm)) = Ok (S200, st') /\
    pareto_member model_fmt (fun e => Some e) st' (r_enc r) = Ok (Some (Some false)).
Proof. exact c13_front_member_refuted. Qed.

(* ---- where D9 cannot strike: encodings of several words (scenarios with more than 64 actions) ----
   Every string over [0-9A-Fa-f:] that contains ':' is text for the caster, so for such summaries the round trip
   holds with NO stability hypothesis. *)
Theorem C13_multiword_encoding_is_stable : forall s,
  forallb hexcolon (chars s) = true -> In ":"%char (chars s) -> cast_stable s = true.
Proof. exact colon_encoding_stable. Qed.

Theorem C13_round_trip_multiword : forall cast fmt asis sm r, cast_agrees cast -> fmt_agrees fmt ->
  wf_summary asis sm = true -> multiword sm = true -> In r (tl sm) ->
  exists st' st'',
    post_solutions cast fmt asis fresh (CsvRecords (marshal_records (map fst asis) sm)) = Ok (S200, st') /\
    get_solution fmt st' (r_label r) = Ok (Decoded (r_enc r) (r_note r), st'').
Proof. exact c13_round_trip_multiword. Qed.

(* ---- the hypotheses of wf_summary are met by what the marshaller writes: every "%.3f" text (optional '-',
   one or more digits, '.', digits) of a value below the float64 range is a number for the caster ---- *)
Theorem C13_value_texts_are_numbers : forall v, vtext_ok v = true -> vtext_in_range v = true ->
  is_number (vtext_string v) = true.
Proof. exact vtext_is_number. Qed.

Example C13_example_value_text :
  let v := mkV true ["1"; "1"; "2"; "3"]%char ["2"; "6"; "6"]%char in
  vtext_string v = "-1123.266" /\ vtext_ok v = true /\ vtext_in_range v = true.
Proof. vm_compute. repeat split; reflexivity. Qed.

(* ---- non-vacuity: the hypotheses are met by concrete things ---- *)
Example C13_example_agrees : cast_agrees model_cast /\ fmt_agrees model_fmt.
Proof. split; [exact model_cast_agrees|exact model_fmt_agrees]. Qed.

Example C13_example_summary :
  let sm := [ex_row0;
             mkRow "1-of-3" ["0.500"; "3.000"] "1FFF" "Pareto front member 1 of 3";
             mkRow "2-of-3" ["0.250"; "4.000"] "148" "Pareto front member 2 of 3";
             mkRow "3-of-3" ["0.125"; "5.000"] "1E3:0:F" "Pareto front member 3 of 3"] in
  wf_summary ex_asis sm = true /\ encodings_stable sm = true.
Proof. vm_compute. split; reflexivity. Qed.

Example C13_example_stability :
  map cast_stable ["1FFF"; "148"; "0"; "999999"; "E"; "1E"; "0:0"; "1E3:F"; "1E309"; "1E3"; "F"; "1000000"; "0012"; "1E0"] =
  [true; true; true; true; true; true; true; true; true; false; false; false; false; false].
Proof. vm_compute. reflexivity. Qed.

Print Assumptions C13_accepts_partial.
Print Assumptions C13_accepts_refuted.
Print Assumptions C13_lookup_exact_partial.
Print Assumptions C13_lookup_again_partial.
Print Assumptions C13_lookup_asis.
Print Assumptions C13_lookup_unknown.
Print Assumptions C13_round_trip_partial.
Print Assumptions C13_lookup_exact_refuted.
Print Assumptions C13_lookup_after_repost_refuted.
Print Assumptions C13_front_member_partial.
Print Assumptions C13_front_non_member_partial.
Print Assumptions C13_front_member_refuted.
Print Assumptions C13_multiword_encoding_is_stable.
Print Assumptions C13_round_trip_multiword.
Print Assumptions C13_value_texts_are_numbers.
