(* C13 — Every summary the explorer can write loads in the engine, label by label.
   Statements only; every proof is [exact <lemma>] from SummaryProofs.

   Setting (SummaryRoundTrip.v).  A summary [sm] is a list of rows (label, "%.3f" value texts, Actions encoding,
   note), As-Is row first, written by the marshaller as the records [marshal_records names sm]; the engine is
   configured with the scenario whose as-is model has the decision variables [asis] (name, value).
   [cast] is ANY caster that agrees with the model GoCast.v wherever the model speaks (strconv is trusted; the model
   is tied to it exhaustively on short strings over [0-9A-F:]); [fmt] is ANY float formatter (it is never reached).
   [wf_summary nw asis sm] (boolean): first label is As-Is and its values are the as-is model's; every row has one
   value per variable, a note that is text, value texts that are numbers, an encoding over [0-9A-Fa-f:] — ANY such
   text, including ones that also parse as a number, an exponent literal or a boolean; labels are distinct; variable
   names are distinct and none is Solution/Actions/Summary; and every Actions text (the As-Is row's too) DECODES into
   the scenario's action archive of [nw] words ([actions_decodable nw]: nw entries between ':', each accepted by
   ParseUint(.,16,64)) — since 7ecfa2c the engine refuses a summary with a cell that does not.  Encodings written by
   the explorer's compressor for the same scenario meet that clause (C13_explorer_encodings_decodable, from C09), so
   C13_round_trip_explorer_written carries no hypothesis on the encodings beyond their origin.
   [loaded cast asis sm pool] is the engine state holding the table of [sm] and the solution pool [pool].

   Since b0400cb (CellString returns the cell's text verbatim) and 43fcffa (POST /solutions clears the pool) the
   three clauses hold at FULL strength: no stability hypothesis on the encodings, any earlier engine history.

   The ACTIONS behind the texts (SummaryActions.v, on C09's transcription of BooleanArchive / ModelCompressor):
   [pool_solution_flags ref e] are the activation flags of the model SolutionPool.AddSolution decodes from the text
   [e] (what GET /solutions/<label> serves), [patch_encoding fmt st cur e] is PATCH /model {Encoding: e} on an engine
   whose model has the flags [cur]: the new flags, the model's own re-encoded Encoding attribute and the
   ParetoFrontMember verdict reached on THAT text.  C13_lookup_explorer_row_actions and
   C13_patch_explorer_row_is_front_member state clauses 2 and 3 down to the flags for summaries written by the
   compressor of a model with n actions, for EVERY n >= 1 — there is no hypothesis on n relative to the 64-bit words
   of the encoding (n = 63, 64, 65, 128 are the Examples at the end). *)
From Coq Require Import List String Ascii QArith Bool Arith.
From Crem Require Import Base.Res CsvTable GoCast GoCastProofs SummaryRoundTrip SummaryProofs SummaryActions SummaryActionsProofs.
From Crem Require BoolArchive BoolArchiveProofs.
Import ListNotations.
Local Open Scope string_scope.
Local Open Scope nat_scope.

(* ---- clause 1: the summary is accepted by POST /solutions, whatever the engine held before; the table is
        replaced and the solution pool emptied ---- *)
Theorem C13_accepts : forall nw cast fmt asis sm st, cast_agrees cast ->
  wf_summary nw asis sm = true ->
  post_solutions nw cast fmt asis st (CsvRecords (marshal_records (map fst asis) sm)) =
  Ok (S200, loaded cast asis sm []).
Proof. exact c13_accepts. Qed.

(* ---- clause 2: lookup by label returns the row's OWN encoding and summary text ---- *)
(* (the pool entry [Decoded e s] is the model decoded from the text e, with attributes Encoding = e, Summary = s;
   [assoc (r_label r) pool = None]: the label has not been fetched since the last POST — true right after a POST
   by C13_accepts, and C13_lookup_again covers the repeated request) *)
Theorem C13_lookup_exact : forall nw cast fmt asis sm pool r, cast_agrees cast ->
  wf_summary nw asis sm = true ->
  In r (tl sm) -> assoc (r_label r) pool = None ->
  get_solution fmt (loaded cast asis sm pool) (r_label r) =
  Ok (Decoded (r_enc r) (r_note r), loaded cast asis sm ((r_label r, (r_enc r, r_note r)) :: pool)).
Proof. exact c13_lookup_exact. Qed.

Theorem C13_lookup_again : forall nw cast fmt asis sm pool r, cast_agrees cast ->
  wf_summary nw asis sm = true ->
  In r (tl sm) -> assoc (r_label r) pool = None ->
  exists st', get_solution fmt (loaded cast asis sm pool) (r_label r) = Ok (Decoded (r_enc r) (r_note r), st') /\
    get_solution fmt st' (r_label r) = Ok (Decoded (r_enc r) (r_note r), st').
Proof. exact c13_lookup_again. Qed.

Theorem C13_lookup_asis : forall nw cast fmt asis sm pool,
  wf_summary nw asis sm = true ->
  get_solution fmt (loaded cast asis sm pool) "As-Is" = Ok (AsIsSolution, loaded cast asis sm pool).
Proof. exact c13_lookup_asis. Qed.

Theorem C13_lookup_unknown : forall cast fmt asis sm pool label,
  (forall r, In r sm -> r_label r <> label) ->
  get_solution fmt (loaded cast asis sm pool) label = Ok (NotFound, loaded cast asis sm pool).
Proof. exact c13_lookup_unknown. Qed.

(* POST then GET in one statement, from ANY engine state [st] (any earlier summary, any solutions already pooled
   under the same labels): the answer is this summary's row *)
Theorem C13_round_trip : forall nw cast fmt asis sm st r, cast_agrees cast ->
  wf_summary nw asis sm = true -> In r (tl sm) ->
  exists st' st'',
    post_solutions nw cast fmt asis st (CsvRecords (marshal_records (map fst asis) sm)) = Ok (S200, st') /\
    get_solution fmt st' (r_label r) = Ok (Decoded (r_enc r) (r_note r), st'').
Proof. exact c13_round_trip. Qed.

(* ---- clause 3: setting the model from the encoding of a non-as-is row marks it as a front member ---- *)
(* [recode e = Some e]: the encoding is the canonical text of the action set it decodes to (C09: true of every
   encoding the compressor writes; the engine compares the model's re-encoded text with the Actions cells) *)
Theorem C13_front_member : forall nw cast fmt asis recode sm pool r, cast_agrees cast ->
  wf_summary nw asis sm = true ->
  In r (tl sm) -> recode (r_enc r) = Some (r_enc r) ->
  pareto_member fmt recode (loaded cast asis sm pool) (r_enc r) = Ok (Some (Some true)).
Proof. exact c13_front_member. Qed.

(* and only those: an encoding that is none of rows 1.. (e.g. only the as-is row's) is not a member *)
Theorem C13_front_non_member : forall nw cast fmt asis recode sm pool e e', cast_agrees cast ->
  wf_summary nw asis sm = true ->
  recode e = Some e' -> (forall r, In r (tl sm) -> r_enc r <> e') ->
  pareto_member fmt recode (loaded cast asis sm pool) e = Ok (Some (Some false)).
Proof. exact c13_front_non_member. Qed.

(* ---- the decodability clause ---- *)
(* it is exactly BooleanArchive.Decode's verdict (and a refused text leaves the archive untouched) *)
Theorem C13_decodable_is_decode_verdict : forall a s, BoolArchiveProofs.wf a ->
  exists a', BoolArchive.decode a s = Ok (a', actions_decodable (List.length (BoolArchive.a_words a)) s) /\
    (actions_decodable (List.length (BoolArchive.a_words a)) s = false -> a' = a).
Proof. exact actions_decodable_decode. Qed.

(* every encoding the compressor writes for a model with n >= 1 actions meets it for a model with n actions *)
Theorem C13_explorer_encodings_decodable : forall bs, bs <> [] ->
  actions_decodable (BoolArchive.nwords (List.length bs)) (snd (BoolArchive.encoding (BoolArchive.of_bits bs))) = true.
Proof. exact explorer_encoding_decodable. Qed.

Theorem C13_wf_splits : forall nw asis sm,
  wf_summary nw asis sm = true <->
  wf_summary_shape asis sm = true /\ (forall r, In r sm -> actions_decodable nw (r_enc r) = true).
Proof. exact wf_summary_split. Qed.

(* hence, for summaries whose Actions texts were written by the compressor of a model with n actions
   ([explorer_encoded n sm]), POST then GET from ANY engine state, with no further hypothesis on the encodings *)
Theorem C13_round_trip_explorer_written : forall n cast fmt asis sm st r, cast_agrees cast -> 1 <= n ->
  wf_summary_shape asis sm = true -> explorer_encoded n sm -> In r (tl sm) ->
  exists st' st'',
    post_solutions (BoolArchive.nwords n) cast fmt asis st (CsvRecords (marshal_records (map fst asis) sm)) = Ok (S200, st') /\
    get_solution fmt st' (r_label r) = Ok (Decoded (r_enc r) (r_note r), st'').
Proof. exact c13_round_trip_explorer. Qed.

(* ---- clauses 2 and 3 down to the ACTIVE ACTIONS, for every action count n >= 1 ---- *)
(* [written bs] is the text Compress(model).Encoding() writes for a model whose activation flags are [bs] *)
Theorem C13_written_is_the_compressors_text : forall bs,
  ActionCodec.encoding_of bs = Ok (written bs).
Proof. exact written_is_encoding_of. Qed.

(* the pooled model decoded from a written text has exactly the flags it was written from, whatever the reference
   model held (any model with as many actions) *)
Theorem C13_pooled_model_has_the_encoded_actions : forall bs ref, 1 <= List.length bs ->
  List.length ref = List.length bs -> pool_solution_flags ref (written bs) = Ok bs.
Proof. exact pool_flags_written. Qed.

(* POST then GET by label from ANY engine state: the row's own text and note come back, and the model the answer
   is built from has exactly the active actions the row's text was written from *)
Theorem C13_lookup_explorer_row_actions : forall n cast fmt asis sm st r ref, cast_agrees cast -> 1 <= n ->
  wf_summary_shape asis sm = true -> explorer_encoded n sm -> In r (tl sm) -> List.length ref = n ->
  exists st' st'' bs,
    post_solutions (BoolArchive.nwords n) cast fmt asis st (CsvRecords (marshal_records (map fst asis) sm)) = Ok (S200, st') /\
    get_solution fmt st' (r_label r) = Ok (Decoded (r_enc r) (r_note r), st'') /\
    List.length bs = n /\ r_enc r = written bs /\ pool_solution_flags ref (r_enc r) = Ok bs.
Proof. exact c13_lookup_explorer_row_actions. Qed.

(* PATCH /model with the text of a non-as-is row, whatever the engine's model held: the model gets the row's
   actions, re-encodes to the row's very text, and is marked as a front member *)
Theorem C13_patch_explorer_row_is_front_member : forall n cast fmt asis sm pool r cur, cast_agrees cast -> 1 <= n ->
  wf_summary_shape asis sm = true -> explorer_encoded n sm -> In r (tl sm) -> List.length cur = n ->
  exists bs, List.length bs = n /\ r_enc r = written bs /\
    patch_encoding fmt (loaded cast asis sm pool) cur (r_enc r) = Ok (Some (bs, r_enc r, Some true)).
Proof. exact c13_patch_explorer_row. Qed.

(* a text Decode refuses is answered 400 and changes nothing *)
Theorem C13_patch_refused_text : forall s cur,
  BoolArchiveProofs.decode_accepts (BoolArchive.nwords (List.length cur)) s = false -> patch_model cur s = Ok None.
Proof. exact patch_model_rejected. Qed.

(* on and around the word boundaries, executed: the text written for a model with n actions (every third action and
   the LAST one active) is decoded by the pool into those flags and by PATCH into those flags and that text *)
Example C13_example_word_boundaries :
  forallb ex_boundary_ok [1; 2; 63; 64; 65; 127; 128; 129; 191; 192; 193] = true.
Proof. vm_compute. reflexivity. Qed.

Example C13_example_written_64_128 :
  written (ex_flags 64) = "9249249249249249" /\ written (ex_flags 128) = "9249249249249249:C924924924924924".
Proof. vm_compute. split; reflexivity. Qed.

(* the clause is needed: the same summaries with ONE Actions text that does not decode are refused (400) *)
Example C13_example_undecodable_refused :
  forallb ex_refused ["1:"; ":"; ""; "1:2"; "FFFFFFFFFFFFFFFFF"; "0:0"] = true.
Proof. vm_compute. reflexivity. Qed.

(* ---- the hypotheses of wf_summary are met by what the marshaller writes: every "%.3f" text (optional '-',
   one or more digits, '.', digits) of a value below the float64 range is a number for the caster ---- *)
Theorem C13_value_texts_are_numbers : forall v, vtext_ok v = true -> vtext_in_range v = true ->
  is_number (vtext_string v) = true.
Proof. exact vtext_is_number. Qed.

Example C13_example_value_text :
  let v := mkV true ["1"; "1"; "2"; "3"]%char ["2"; "6"; "6"]%char in
  vtext_string v = "-1123.266" /\ vtext_ok v = true /\ vtext_in_range v = true.
Proof. vm_compute. repeat split; reflexivity. Qed.

(* ---- non-vacuity ---- *)
Example C13_example_agrees : cast_agrees model_cast.
Proof. exact model_cast_agrees. Qed.

Example C13_example_summary :
  let sm := [ex_row0;
             mkRow "1-of-3" ["0.500"; "3.000"] "1FFF" "Pareto front member 1 of 3";
             mkRow "2-of-3" ["0.250"; "4.000"] "1E3" "Pareto front member 2 of 3";
             mkRow "3-of-3" ["0.125"; "5.000"] "00000000000000000F" "Pareto front member 3 of 3"] in
  wf_summary 1 ex_asis sm = true /\
  wf_summary 3 ex_asis [mkRow "As-Is" ["1.000"; "2.500"] "0:0:0" "as is"; mkRow "1-of-1" ["0.125"; "5.000"] "1E3:0:F" "member"] = true.
Proof. vm_compute. split; reflexivity. Qed.

(* the former refutation witnesses of defect D9 (1E3 was decoded as 1000, F as "", 1000000 / 9E9 made POST answer 400,
   0012 was decoded as 12) and of the stale pool (label 1-of-1 already served for another summary) now round-trip *)
Example C13_example_former_D9_witnesses_round_trip :
  forallb (ex_round_trips_from fresh) ["1E3"; "F"; "1000000"; "9E9"; "0012"; "1E0"; "1FFF"; "FFFF"] = true.
Proof. vm_compute. reflexivity. Qed.

Example C13_example_repost_round_trips :
  s_pool ex_used_state = [("1-of-1", ("3", "Pareto front member 1 of 1"))] /\
  forallb (ex_round_trips_from ex_used_state) ["C"; "1E3"] = true.
Proof. vm_compute. split; reflexivity. Qed.

Print Assumptions C13_accepts.
Print Assumptions C13_lookup_exact.
Print Assumptions C13_lookup_again.
Print Assumptions C13_lookup_asis.
Print Assumptions C13_lookup_unknown.
Print Assumptions C13_round_trip.
Print Assumptions C13_front_member.
Print Assumptions C13_front_non_member.
Print Assumptions C13_value_texts_are_numbers.
Print Assumptions C13_decodable_is_decode_verdict.
Print Assumptions C13_explorer_encodings_decodable.
Print Assumptions C13_wf_splits.
Print Assumptions C13_round_trip_explorer_written.
Print Assumptions C13_written_is_the_compressors_text.
Print Assumptions C13_pooled_model_has_the_encoded_actions.
Print Assumptions C13_lookup_explorer_row_actions.
Print Assumptions C13_patch_explorer_row_is_front_member.
Print Assumptions C13_patch_refused_text.
