(* C10 — Validity verdicts are exact: rejected iff the limit would really be exceeded.
   Statements only; proofs in CatchmentProofs.v.  All hold in EVERY model state. *)
From Coq Require Import List ZArith QArith Bool.
From Crem Require Import Catchment CatchmentProofs.
Import ListNotations.
Open Scope Z_scope.

(* the verdict on a proposal is the verdict on the state that accepting it would produce *)
Theorem C10_valid_iff_prospective_state_valid :
  forall d s i, change_is_valid d (propose d s i) = state_is_valid d (accept (propose d s i)).
Proof. exact valid_iff_prospective_state_valid. Qed.
Print Assumptions C10_valid_iff_prospective_state_valid.

(* with variable k limited to m: valid  <->  (value k would take if accepted) <= m *)
Theorem C10_valid_iff_within_limit :
  forall d s i k m, d_limit d = Some (k, m) ->
    change_is_valid d (propose d s i) = Qle_bool (grid_to_Q k (v_total (var (accept (propose d s i)) k))) m.
Proof. exact valid_iff_within_limit. Qed.
Print Assumptions C10_valid_iff_within_limit.

(* the value quoted in a rejection is the value the limited variable would actually take *)
Theorem C10_quoted_value_is_prospective :
  forall d s i q, rejection_quote d (propose d s i) = Some q ->
    exists k m, d_limit d = Some (k, m) /\ q = v_total (var (accept (propose d s i)) k) /\
                change_is_valid d (propose d s i) = false.
Proof. exact quote_is_prospective. Qed.
Print Assumptions C10_quoted_value_is_prospective.

(* a change that lowers the limited variable (or leaves it) from a state within the limit is never rejected *)
Theorem C10_lowering_never_rejected :
  forall d s i k m, d_limit d = Some (k, m) ->
    cmd_change (v_cmd (var (propose d s i) k)) <= 0 ->
    Qle_bool (grid_to_Q k (v_total (var s k))) m = true ->
    change_is_valid d (propose d s i) = true.
Proof. exact lowering_never_rejected. Qed.
Print Assumptions C10_lowering_never_rejected.

(* without a limit nothing is ever rejected *)
Theorem C10_no_limit_always_valid :
  forall d s, d_limit d = None -> change_is_valid d s = true.
Proof.
  intros d s H. unfold change_is_valid, all_vk. cbn [forallb].
  now rewrite !(within_nolimit d _ _ H).
Qed.
Print Assumptions C10_no_limit_always_valid.
