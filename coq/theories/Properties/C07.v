(* C07 — Annealing loop contract: exact budget, ordered events, cooling, teardown.
   Statements only; every proof is [exact <lemma>] from AnnealLoopProofs / AnnealLoopFloat.
   Model: AnnealLoop.v ([anneal N script T0 a] = SimpleAnnealer.Anneal() of a fresh annealer with budget N, an explorer
   whose iteration j behaves as [script j], starting temperature T0 and cooling factor a, in primitive binary64).
   A "fault" is a panic raised by the explorer (Initialise, TryRandomChange, CoolDown, TearDown) or by an observer while
   it is handed an event; [payload] is what was given to panic(...).  [cut r = Some j]: observer j panicked on the last
   observer event of the trace, which therefore reached observers 0..j only. *)
From Coq Require Import List Arith Bool Floats Reals.
From Crem Require Import AnnealLoop AnnealLoopProofs AnnealLoopFloat.
Import ListNotations.

(* ---- every script is one of the two situations the theorems below cover -------------------------------- *)
Theorem C07_every_script_covered : forall (script : nat -> step_outcome) N,
  (forall j, 1 <= j <= N -> script j = StepOk) \/
  (exists k p, 1 <= k <= N /\ (forall j, 1 <= j < k -> script j = StepOk) /\ payload_of (script k) = Some p).
Proof. exact first_fault. Qed.

(* ---- no fault: the complete run, for ALL N (N = 0 included) ------------------------------------------- *)
(* Initialise, start event at T0, then for k = 1..N the block
   StartedIteration k @ T_(k-1); TryRandomChange; CoolDown; "Cooling" note @ T_k; FinishedIteration k @ T_k,
   then the finish event carrying iteration N at T_N, then TearDown; where T_k = iter (fun t => t*a) k T0. *)
Theorem C07_run_without_fault : forall N script T0 a,
  (forall j, 1 <= j <= N -> script j = StepOk) ->
  anneal N script T0 a =
    mkRun ([(ExplorerInit, T0); (EvStart, T0)] ++ flat_map (iteration_block a T0) (seq 1 N)
             ++ [(EvFinish N, temp_after a T0 N); (ExplorerTearDown, temp_after a T0 N)])
          None N (temp_after a T0 N) Finished.
Proof. exact anneal_ok_run. Qed.

(* exactly N iterations: N TryRandomChange calls, N CoolDown calls (= N multiplications), counter = N,
   one TearDown, one finish event, temperature T_N *)
Theorem C07_exactly_N_iterations : forall N script T0 a,
  (forall j, 1 <= j <= N -> script j = StepOk) ->
  let r := anneal N script T0 a in
  count is_try r = N /\ count is_cool r = N /\ count is_teardown r = 1 /\ count is_finish r = 1 /\
  final_iteration r = N /\ final_temperature r = temp_after a T0 N /\ result r = Finished.
Proof. exact counts_no_fault. Qed.

(* event skeleton: Start; (StartedIteration k; FinishedIteration k) for k = 1..N; Finish N *)
Theorem C07_event_skeleton : forall N script T0 a,
  (forall j, 1 <= j <= N -> script j = StepOk) ->
  skeleton_events (anneal N script T0 a) = skeleton N.
Proof. exact skeleton_no_panic. Qed.

(* any number m of observers: observer i < m is handed exactly the observer events of the trace, in trace order
   (and nothing else: calls on the explorer / log lines are delivered to nobody) *)
Theorem C07_each_observer_sees_the_trace : forall (m i : nat) (tr : list stamped), i < m ->
  seen_by i (deliveries m tr) = filter (fun x => is_observer_event (fst x)) tr.
Proof. exact (@seen_by_each float). Qed.

Theorem C07_observers_see_only_events : forall (m i : nat) (tr : list stamped),
  Forall (fun x => is_observer_event (fst x) = true) (seen_by i (deliveries m tr)).
Proof. exact (@nobody_sees_calls float). Qed.

(* the explorer is initialised before the start event: both annealer structs, any script, even a re-used instance *)
Theorem C07_initialised_before_start : forall kind fl c0 N script T0 a, f_init fl = InitOk ->
  exists rest, trace (anneal_gen kind fl c0 N script T0 a) = (ExplorerInit, T0) :: (EvStart, T0) :: rest.
Proof. exact init_precedes_start. Qed.

(* ---- a fault in iteration k: ANY 1 <= k <= N; raised by TryRandomChange, by CoolDown before / after the multiplication,
        or by observer j on StartedIteration k / FinishedIteration k; ANY payload (error, other, nil) ---------------------- *)
(* events up to StartedIteration k (resp. FinishedIteration k) and the calls made so far, then TearDown, then the recovery
   handler, which is told that the run did not complete *)
Theorem C07_run_with_fault : forall N script T0 a k o p,
  1 <= k <= N ->
  (forall j, 1 <= j < k -> script j = StepOk) ->
  script k = o -> payload_of o = Some p ->
  anneal N script T0 a =
    recover_handler false (observer_of o)
      ([(ExplorerInit, T0); (EvStart, T0)]
         ++ (flat_map (iteration_block a T0) (seq 1 (pred k)) ++ partial_block a T0 k o)
         ++ [(ExplorerTearDown, temp_after a T0 (cooled_after k o))])
      k (temp_after a T0 (cooled_after k o)) (Panicking k p).
Proof. exact anneal_fault_run. Qed.

Theorem C07_fault_skeleton : forall N script T0 a k o p,
  1 <= k <= N -> (forall j, 1 <= j < k -> script j = StepOk) ->
  script k = o -> payload_of o = Some p ->
  skeleton_events (anneal N script T0 a) = skeleton_until_fault k o.
Proof. exact skeleton_fault. Qed.

(* teardown ran (once), no finish event, counter = k, temperature multiplied k-1 or k times, and who cut the last event *)
Theorem C07_fault_teardown_no_finish : forall N script T0 a k o p,
  1 <= k <= N -> (forall j, 1 <= j < k -> script j = StepOk) ->
  script k = o -> payload_of o = Some p ->
  let r := anneal N script T0 a in
  count is_try r = match o with PanicInStartObserver _ _ => pred k | _ => k end /\
  count is_cool r = match o with PanicInTry _ | PanicInStartObserver _ _ => pred k | _ => k end /\
  count is_teardown r = 1 /\ count is_finish r = 0 /\
  final_iteration r = k /\ final_temperature r = temp_after a T0 (cooled_after k o) /\
  cut r = observer_of o.
Proof. exact counts_fault. Qed.

(* FULL: the panic of an iteration is re-raised, for EVERY payload.  [Repanicked k p]: p = PayloadError: errors.Wrap of the
   error; PayloadOther: the very value; PayloadNil: errors.Wrap of errors.New("panic called with a nil argument")
   (before the `completed` flag, panic(nil) was swallowed: finding C07-panic-nil, fixed) *)
Theorem C07_panic_reraised : forall N script T0 a k o p,
  1 <= k <= N -> (forall j, 1 <= j < k -> script j = StepOk) ->
  script k = o -> payload_of o = Some p ->
  result (anneal N script T0 a) = Repanicked k p.
Proof. exact panic_reraised. Qed.

(* what the deferred handlePanicRecovery does with a panic when the run did not complete *)
Theorem C07_recovery_outcome : forall cu tr c t k p,
  result (recover_handler false cu tr c t (Panicking k p)) = Repanicked k p.
Proof. exact recover_result. Qed.

(* an observer that was handed an event and panicked: observers up to it saw the whole trace, the others all but that event *)
Theorem C07_observer_fault_who_saw_what : forall (m j i : nat) (tr : list stamped), i < m ->
  seen_by i (deliveries_cut m j tr) =
  if i <=? j then filter (fun x => is_observer_event (fst x)) tr
  else removelast (filter (fun x => is_observer_event (fst x)) tr).
Proof. exact (@seen_by_cut float). Qed.

(* observer j panics on the START event: nothing but TearDown follows, the panic (or TearDown's) is re-raised *)
Theorem C07_start_observer_fault : forall j p fin td c0 N script T0 a,
  anneal_gen SimpleAnnealer (mkFaults InitOk (Some (j, p)) fin td) c0 N script T0 a =
    recover_handler false (Some j) [(ExplorerInit, T0); (EvStart, T0); (ExplorerTearDown, T0)] c0 T0
      (Panicking c0 (in_flight td p)).
Proof. exact start_observer_fault_run. Qed.

(* observer j panics on the FINISH event of a fault-free run: the complete trace, TearDown, re-raised (not completed) *)
Theorem C07_finish_observer_fault : forall j p td N script T0 a,
  (forall i, 1 <= i <= N -> script i = StepOk) ->
  anneal_gen SimpleAnnealer (mkFaults InitOk None (Some (j, p)) td) 0 N script T0 a =
    recover_handler false (Some j) (full_trace N T0 a) N (temp_after a T0 N) (Panicking N (in_flight td p)).
Proof. exact finish_observer_fault_run. Qed.

(* TearDown itself panicking on top of a fault in iteration k: same trace, and TearDown's panic is the one re-raised *)
Theorem C07_teardown_fault_replaces : forall td N script T0 a k o p,
  1 <= k <= N -> (forall j, 1 <= j < k -> script j = StepOk) ->
  script k = o -> payload_of o = Some p ->
  result (anneal_gen SimpleAnnealer (mkFaults InitOk None None td) 0 N script T0 a) = Repanicked k (in_flight td p).
Proof. exact panic_reraised_td. Qed.

Theorem C07_teardown_fault_run : forall td N script T0 a k o p,
  1 <= k <= N -> (forall j, 1 <= j < k -> script j = StepOk) ->
  script k = o -> payload_of o = Some p ->
  anneal_gen SimpleAnnealer (mkFaults InitOk None None td) 0 N script T0 a =
    recover_handler false (observer_of o)
      ([(ExplorerInit, T0); (EvStart, T0)]
         ++ (flat_map (iteration_block a T0) (seq 1 (pred k)) ++ partial_block a T0 k o)
         ++ [(ExplorerTearDown, temp_after a T0 (cooled_after k o))])
      k (temp_after a T0 (cooled_after k o)) (Panicking k (in_flight td p)).
Proof. exact anneal_fault_run_td. Qed.

(* faults after the last iteration of a fault-free run (finish observer, TearDown): the whole skeleton was sent, and ... *)
Theorem C07_late_fault_skeleton : forall fin td N script T0 a,
  (forall j, 1 <= j <= N -> script j = StepOk) ->
  skeleton_events (anneal_gen SimpleAnnealer (mkFaults InitOk None fin td) 0 N script T0 a) = skeleton N.
Proof. exact skeleton_late_fault. Qed.

(* ... everything is re-raised except -- outside the property, noted -- panic(nil) raised by TearDown after a COMPLETED run,
   which recover() cannot tell from a normal return *)
Theorem C07_note_teardown_nil_after_completed_run : forall fin td N script T0 a,
  (forall j, 1 <= j <= N -> script j = StepOk) ->
  result (anneal_gen SimpleAnnealer (mkFaults InitOk None fin td) 0 N script T0 a) =
  match fin, td with
  | Some (_, p), _ => Repanicked N (in_flight td p)
  | None, Some PayloadNil => Swallowed N
  | None, Some q => Repanicked N q
  | None, None => Finished
  end.
Proof. exact late_fault_result. Qed.

(* and that is the ONLY way for Anneal() to return normally from a run in which something panicked *)
Theorem C07_swallowed_only_if : forall kind fl c0 N script T0 a k,
  result (anneal_gen kind fl c0 N script T0 a) = Swallowed k ->
  f_teardown fl = Some PayloadNil /\ f_init fl = InitOk /\ f_start fl = None /\ f_finish fl = None.
Proof. exact swallowed_only_if. Qed.

(* Initialise itself panicking: nothing was deferred yet -- no TearDown, no event; re-raised for every payload *)
Theorem C07_init_fault : forall fl c0 N script T0 a p, f_init fl = InitPanics p ->
  anneal_gen SimpleAnnealer fl c0 N script T0 a =
  recover_handler false None [(ExplorerInit, T0)] c0 T0 (Panicking c0 p).
Proof. exact init_panic_run. Qed.

(* ---- ElapsedTimeTrackingAnnealer = SimpleAnnealer + one Info line iff Anneal() returned ------------------ *)
Theorem C07_elapsed_wrapper : forall fl c0 N script T0 a,
  let r := anneal_gen SimpleAnnealer fl c0 N script T0 a in
  let r' := anneal_gen ElapsedTimeTrackingAnnealer fl c0 N script T0 a in
  result r' = result r /\ final_iteration r' = final_iteration r /\ final_temperature r' = final_temperature r /\
  cut r' = cut r /\
  trace r' = trace r ++ match result r with
                        | Finished | Swallowed _ => [(LogInfo, final_temperature r)]
                        | _ => []
                        end.
Proof. exact elapsed_run_faults. Qed.

(* the fuel of the model's loop is never exhausted (the Go loop terminates) *)
Theorem C07_terminates : forall kind fl c0 N script T0 a,
  result (anneal_gen kind fl c0 N script T0 a) <> OutOfFuel.
Proof. exact anneal_never_out_of_fuel. Qed.

(* ---- temperature ---------------------------------------------------------------------------------------- *)
(* one multiplication per iteration: T_0 = T0, T_(k+1) = T_k * a in binary64 (the stamps in the run theorems
   say where: none before StartedIteration 1, none after FinishedIteration N) *)
Theorem C07_temperature_recurrence : forall a T0 k,
  temp_after a T0 0 = T0 /\ temp_after a T0 (S k) = (temp_after a T0 k * a)%float.
Proof. exact temp_recurrence. Qed.

(* the bridge lemma *)
Theorem C07_mul_shrinks : forall x f, fin_nonneg x = true -> fin_unit f = true ->
  fin_nonneg (x * f)%float = true /\ ((x * f) <=? x)%float = true.
Proof. exact mul_shrinks. Qed.

(* finite T0 >= 0 and finite 0 <= a <= 1: every T_k is finite and >= 0, and the sequence never increases *)
Theorem C07_temperature_stays_finite_nonneg : forall a T0 k, fin_nonneg T0 = true -> fin_unit a = true ->
  fin_nonneg (temp_after a T0 k) = true.
Proof. exact temp_fin_nonneg. Qed.

Theorem C07_temperature_nonincreasing : forall a T0 j k, fin_nonneg T0 = true -> fin_unit a = true ->
  j <= k -> (temp_after a T0 k <=? temp_after a T0 j)%float = true.
Proof. exact temp_nonincreasing. Qed.

(* idealised reading over the reals: T0 * a^k, non-increasing for T0 >= 0, 0 <= a <= 1 *)
Theorem C07_temperature_closed_form : forall (a T0 : R) k, temp_R a T0 k = (T0 * a ^ k)%R.
Proof. exact temp_R_closed_form. Qed.

Theorem C07_temperature_closed_form_nonincreasing : forall (a T0 : R) k, (0 <= T0)%R -> (0 <= a <= 1)%R ->
  (0 <= temp_R a T0 (S k) <= temp_R a T0 k)%R.
Proof. exact temp_R_nonincreasing. Qed.

(* ---- outside the quantifier (noted): Anneal() never resets currentIteration ----------------------------- *)
Theorem C07_note_reanneal_runs_one_iteration : forall c0 N script T0 a,
  1 <= N -> N <= c0 -> script (S c0) = StepOk ->
  anneal_gen SimpleAnnealer no_faults c0 N script T0 a =
    mkRun ([(ExplorerInit, T0); (EvStart, T0)] ++ block1 a (S c0) T0
             ++ [(EvFinish (S c0), cool a T0); (ExplorerTearDown, cool a T0)])
          None (S c0) (cool a T0) Finished.
Proof. exact reanneal_runs_one_iteration. Qed.

(* ---- non-vacuity ------------------------------------------------------------------------------------------ *)
Example C07_example_run :
  map fst (trace (anneal 2 no_panic 100%float 0.5%float)) =
  [ExplorerInit; EvStart;
   EvStartIter 1; ExplorerTry 1; ExplorerCool 1; EvCooling 1; EvFinishIter 1;
   EvStartIter 2; ExplorerTry 2; ExplorerCool 2; EvCooling 2; EvFinishIter 2;
   EvFinish 2; ExplorerTearDown]
  /\ final_temperature (anneal 2 no_panic 100%float 0.5%float) = 25%float.
Proof. vm_compute. split; reflexivity. Qed.

Example C07_example_zero_budget :
  map fst (trace (anneal 0 no_panic 100%float 0.5%float)) = [ExplorerInit; EvStart; EvFinish 0; ExplorerTearDown].
Proof. vm_compute. reflexivity. Qed.

Example C07_example_fault :
  map fst (trace (anneal_elapsed 3 (panic_at 2 (PanicInCoolAfter PayloadError)) 100%float 0.5%float)) =
  [ExplorerInit; EvStart;
   EvStartIter 1; ExplorerTry 1; ExplorerCool 1; EvCooling 1; EvFinishIter 1;
   EvStartIter 2; ExplorerTry 2; ExplorerCool 2; EvCooling 2;
   ExplorerTearDown; LogError]
  /\ result (anneal_elapsed 3 (panic_at 2 (PanicInCoolAfter PayloadError)) 100%float 0.5%float) = Repanicked 2 PayloadError.
Proof. vm_compute. split; reflexivity. Qed.

(* panic(nil) in TryRandomChange of iteration 1: torn down, logged, re-raised as a (wrapped) new error, no finish event *)
Example C07_example_nil_payload :
  map fst (trace (anneal 2 (panic_at 1 (PanicInTry PayloadNil)) 100%float 0.5%float)) =
  [ExplorerInit; EvStart; EvStartIter 1; ExplorerTry 1; ExplorerTearDown; LogError]
  /\ result (anneal 2 (panic_at 1 (PanicInTry PayloadNil)) 100%float 0.5%float) = Repanicked 1 PayloadNil.
Proof. vm_compute. split; reflexivity. Qed.

(* observer 1 of 3 panics on FinishedIteration 1; TearDown panics too and its error is the one that comes out *)
Example C07_example_observer_and_teardown_fault :
  let r := anneal_gen SimpleAnnealer (mkFaults InitOk None None (Some PayloadError)) 0 2
             (panic_at 1 (PanicInFinishObserver 1 PayloadOther)) 8%float 0.5%float in
  result r = Repanicked 1 PayloadError /\ cut r = Some 1 /\
  map fst (seen_by 1 (run_deliveries 3 r)) = [EvStart; EvStartIter 1; EvCooling 1; EvFinishIter 1] /\
  map fst (seen_by 2 (run_deliveries 3 r)) = [EvStart; EvStartIter 1; EvCooling 1].
Proof. vm_compute. repeat split; reflexivity. Qed.

(* the hypotheses of the cooling theorems are met by the default-like configuration, and the float result differs
   from the ideal one only by rounding: 1000 * 0.95 * 0.95 *)
Example C07_example_cooling_hypotheses :
  fin_nonneg 1000%float = true /\ fin_unit 0.95%float = true /\ fin_unit 0%float = true /\ fin_unit 1%float = true /\
  (temp_after 0.95 1000 2 <=? temp_after 0.95 1000 1)%float = true.
Proof. vm_compute. repeat split; reflexivity. Qed.

Example C07_example_observers :
  seen_by 1 (deliveries 3 (trace (anneal 1 no_panic 8%float 0.5%float))) =
  [(EvStart, 8%float); (EvStartIter 1, 8%float); (EvCooling 1, 4%float); (EvFinishIter 1, 4%float); (EvFinish 1, 4%float)].
Proof. vm_compute. reflexivity. Qed.

Print Assumptions C07_every_script_covered.
Print Assumptions C07_run_without_fault.
Print Assumptions C07_exactly_N_iterations.
Print Assumptions C07_event_skeleton.
Print Assumptions C07_each_observer_sees_the_trace.
Print Assumptions C07_observers_see_only_events.
Print Assumptions C07_initialised_before_start.
Print Assumptions C07_run_with_fault.
Print Assumptions C07_fault_skeleton.
Print Assumptions C07_fault_teardown_no_finish.
Print Assumptions C07_panic_reraised.
Print Assumptions C07_recovery_outcome.
Print Assumptions C07_observer_fault_who_saw_what.
Print Assumptions C07_start_observer_fault.
Print Assumptions C07_finish_observer_fault.
Print Assumptions C07_teardown_fault_replaces.
Print Assumptions C07_teardown_fault_run.
Print Assumptions C07_late_fault_skeleton.
Print Assumptions C07_note_teardown_nil_after_completed_run.
Print Assumptions C07_swallowed_only_if.
Print Assumptions C07_init_fault.
Print Assumptions C07_elapsed_wrapper.
Print Assumptions C07_terminates.
Print Assumptions C07_temperature_recurrence.
Print Assumptions C07_mul_shrinks.
Print Assumptions C07_temperature_stays_finite_nonneg.
Print Assumptions C07_temperature_nonincreasing.
Print Assumptions C07_temperature_closed_form.
Print Assumptions C07_temperature_closed_form_nonincreasing.
Print Assumptions C07_note_reanneal_runs_one_iteration.
