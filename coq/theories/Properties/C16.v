(* C16 — Concurrent engine requests behave as if executed one at a time.
   Statements only; every proof is [exact <lemma>] from SerialiseProofs.

   Model (Serialise.v): any number of threads over one shared state and ONE mutex; each thread is
   acquire; body; release  where the body is an arbitrary finite list of atomic actions (state transformers that may
   read and write the shared state and the thread's private state, and may panic).  The small-step relation lets ANY
   enabled thread move: an execution [exec c0 tr c] is any schedule the relation admits.

   PARTIAL at the level of the Go program (the theorems about the model are full): what the model cannot exhibit are
   Go-memory-model data races as such and torn reads inside library code.  "Never read or written unsynchronised" is
   decided through the lock discipline ([C16_actions_hold_the_mutex] + the translated facts), on the assumption that
   accesses ordered by one sync.Mutex are sequentially consistent (the DRF guarantee of the Go memory model), not by
   observing memory. *)
From Coq Require Import String List Arith Bool Permutation.
From Crem Require Import Serialise SerialiseCorr SerialiseProofs SerialiseSched.
Import ListNotations.

(* ---- the serialisation theorem: all thread counts, all body lengths, all schedules ---- *)

(* A completed execution IS the serial execution of the bodies in lock-acquisition order: same final shared state, same
   result for every thread; and every thread acquired the mutex exactly once. *)
Theorem C16_serialisable : forall (St Lc : Type) (d : bool) (progs : list (prog St Lc)) (s0 : St) tr c,
  exec (init d progs s0) tr c -> all_done c = true ->
  Permutation (acq_order tr) (seq 0 (length progs)) /\
  sh c = fst (serial progs (acq_order tr) s0) /\
  results c = snd (serial progs (acq_order tr) s0).
Proof. exact locked_serialisable. Qed.

(* ... hence of SOME one-at-a-time ordering of the same requests. *)
Theorem C16_some_serial_order : forall (St Lc : Type) (d : bool) (progs : list (prog St Lc)) (s0 : St) tr c,
  exec (init d progs s0) tr c -> all_done c = true ->
  exists ord, Permutation ord (seq 0 (length progs)) /\
              sh c = fst (serial progs ord s0) /\ results c = snd (serial progs ord s0).
Proof. exact locked_some_serial_order. Qed.

(* Second clause of the property, in the model: every atomic action on the shared state happens with the mutex held, and
   at most one thread is ever inside its body (in ANY reachable configuration, completed or not). *)
Theorem C16_actions_hold_the_mutex : forall (St Lc : Type) (d : bool) (progs : list (prog St Lc)) (s0 : St) tr c i c',
  exec (init d progs s0) tr c -> step c (EAct i) c' -> lock c = true.
Proof. exact acts_hold_lock. Qed.

Theorem C16_mutual_exclusion : forall (St Lc : Type) (d : bool) (progs : list (prog St Lc)) (s0 : St) tr c i j ti tj,
  exec (init d progs s0) tr c ->
  nth_error (thr c) i = Some ti -> nth_error (thr c) j = Some tj ->
  inside ti = true -> inside tj = true -> i = j.
Proof. exact mutual_exclusion. Qed.

(* The hypothesis "runs to completion" is not a loophole: with the Unlock deferred no reachable configuration is stuck
   (handlers may panic), and every execution is finite. *)
Theorem C16_no_deadlock : forall (St Lc : Type) (d : bool) (progs : list (prog St Lc)) (s0 : St),
  d = true -> forall tr c, exec (init d progs s0) tr c -> all_done c = true \/ exists e c', step c e c'.
Proof. exact locked_progress. Qed.

Theorem C16_executions_finite : forall (St Lc : Type) (c0 : cfg St Lc) tr c,
  exec c0 tr c -> length tr + measure c <= measure c0.
Proof. exact exec_bounded. Qed.

(* Conversely every one-at-a-time order IS realised by a completed execution (deferred Unlock; handlers may panic): the
   hypotheses of [C16_serialisable] are satisfiable for every program and every order, and the lock-wrapped executions
   attain exactly the serial outcomes. *)
Theorem C16_every_order_realisable : forall (St Lc : Type) (progs : list (prog St Lc)) (s0 : St) ord,
  Permutation ord (seq 0 (length progs)) ->
  exists tr c, exec (init true progs s0) tr c /\ all_done c = true /\ acq_order tr = ord.
Proof. exact every_order_realisable. Qed.

Theorem C16_serial_outcomes_attained : forall (St Lc : Type) (progs : list (prog St Lc)) (s0 : St) ord,
  Permutation ord (seq 0 (length progs)) ->
  exists tr c, exec (init true progs s0) tr c /\ all_done c = true /\
               sh c = fst (serial progs ord s0) /\ results c = snd (serial progs ord s0).
Proof. exact serial_outcomes_attained. Qed.

(* ---- instantiation to the code: the thread of a request is what the translated facts say ServeHTTP is ---- *)

(* [serve_init f] builds, for every request, the thread denoted by the facts astfacts16 extracted from the current source
   of rest.MuxImpl.ServeHTTP (acquire; body; release  iff  the method is lock-wrapped, else the bare body).
   [facts_ok f] is evaluated by computation on the generated record in coq/gen/Obl16.v on every run. *)
Theorem C16_engine_serialisable_partial : forall (f : serve_facts), facts_ok f = true ->
  forall (St Lc : Type) (progs : list (prog St Lc)) (s0 : St) tr c,
  exec (serve_init f progs s0) tr c -> all_done c = true ->
  exists ord, Permutation ord (seq 0 (length progs)) /\
              sh c = fst (serial progs ord s0) /\ results c = snd (serial progs ord s0).
Proof. exact facts_ok_serialisable. Qed.

Theorem C16_engine_synchronised_partial : forall (f : serve_facts), facts_ok f = true ->
  forall (St Lc : Type) (progs : list (prog St Lc)) (s0 : St) tr c i c',
  exec (serve_init f progs s0) tr c -> step c (EAct i) c' -> lock c = true.
Proof. exact facts_ok_acts_hold_lock. Qed.

Theorem C16_engine_no_deadlock_partial : forall (f : serve_facts), facts_ok f = true -> sf_unlock_deferred f = true ->
  forall (St Lc : Type) (progs : list (prog St Lc)) (s0 : St) tr c,
  exec (serve_init f progs s0) tr c -> all_done c = true \/ exists e c', step c e c'.
Proof. exact facts_ok_progress. Qed.

(* ---- the lock is necessary: without it the statement is false (witnesses by computation) ---- *)

(* two unlocked read-modify-write bodies, schedule r0 r1 w0 w1: final counter 1, both serial orders give 2 *)
Theorem C16_unlocked_refuted : exists (progs : list (prog nat nat)) s0 tr c,
  exec (uinit progs s0) tr c /\ all_done c = true /\
  forall ord, Permutation ord (seq 0 (length progs)) -> sh c <> fst (serial progs ord s0).
Proof. exact unlocked_refuted. Qed.

(* if the translated facts say ServeHTTP is not lock-wrapped, the denoted threads admit such an execution *)
Theorem C16_facts_unlocked_refuted : forall (f : serve_facts), serve_is_locked f = false ->
  exists (progs : list (prog nat nat)) s0 tr c,
  exec (serve_init f progs s0) tr c /\ all_done c = true /\
  forall ord, Permutation ord (seq 0 (length progs)) -> sh c <> fst (serial progs ord s0).
Proof. exact facts_unlocked_refuted. Qed.

(* the same with the engine's own requests: PUT {a0,a1 := Active} against PATCH {nothing active}, unlocked *)
Theorem C16_engine_unlocked_refuted : exists tr c,
  exec (uinit torn_progs ([false; false], [false; false])) tr c /\ all_done c = true /\
  forall ord, Permutation ord (seq 0 (length torn_progs)) ->
              sh c <> fst (serial torn_progs ord ([false; false], [false; false])).
Proof. exact engine_unlocked_refuted. Qed.

(* Listed finding (tools/props/C16.known.json, proposed_fixes/C16-1-admin-status-lock.diff): the lock is per multiplexer.
   RestServer.WithApiMux registers admin.Mux.StatusHandler on the API multiplexer too, so admin.Mux.Status is written
   under two different mutexes (and by SetStatus on the main goroutine).  In the model: a thread that does not take THIS
   mutex next to one that does -- the lost update again.  admin.Mux.Status is not engine resource state (the property's
   anchors are Mux.model / modelSolution / Attribs), so the engine theorems above are unaffected; translator fact
   Facts16.cross_mux_registrations names the registration. *)
Theorem C16_two_mutexes_refuted : exists tr c,
  exec two_mutex_cfg tr c /\ all_done c = true /\
  forall ord, Permutation ord [0; 1] -> sh c <> fst (serial [rmw_prog; rmw_prog] ord 0).
Proof. exact two_mutexes_refuted. Qed.

(* why the Unlock has to be deferred: a panicking handler would otherwise wedge every later request *)
Theorem C16_nondeferred_can_wedge : exists (progs : list (prog nat nat)) s0 tr c,
  exec (init false progs s0) tr c /\ all_done c = false /\ forall e c', ~ step c e c'.
Proof. exact nondeferred_can_wedge. Qed.

(* ---- non-vacuity ---- *)

(* three locked engine requests under an interleaved schedule: the run completes, the mutex went 2, 0, 1, and the
   reader (thread 1) saw exactly the state after PATCH then PUT *)
Example C16_example_interleaved_run :
  exec (init true demo_progs ([false; false; false], [false; false; false])) (snd demo_run) (fst demo_run) /\
  all_done (fst demo_run) = true /\
  acq_order (snd demo_run) = [2; 0; 1] /\
  sh (fst demo_run) = ([true; true; true], [true; true; true]) /\
  results (fst demo_run) = [Some (200, []); Some (200, [true; true; true]); Some (200, [])].
Proof.
  split; [apply run_to_end_sound with (sch := [2; 0; 1; 2; 2; 0; 1; 1; 0; 2; 0]); apply surjective_pairing|].
  vm_compute. repeat split; reflexivity.
Qed.

(* the facts of /repo as they were when this file was written satisfy the side conditions ... *)
Example C16_example_facts_ok :
  facts_ok {| sf_lock_first := true; sf_unlock_deferred := true; sf_unlock_present := true;
              sf_calls_before_lock := 0; sf_other_mutex_ops := 0; sf_dispatch_only_in_serve := true;
              sf_embedders := [("cmd/cremengine/engine/api.Mux"%string, false);
                               ("internal/pkg/server/admin.Mux"%string, false);
                               ("internal/pkg/server/api.Mux"%string, false)];
              sf_go_stmts := 0; sf_pkg_vars_written := 0; sf_reentrant_serve_calls := 0 |} = true.
Proof. vm_compute. reflexivity. Qed.

(* ... and each single defect falsifies them *)
Example C16_example_facts_not_ok :
  let base := {| sf_lock_first := true; sf_unlock_deferred := true; sf_unlock_present := true;
                 sf_calls_before_lock := 0; sf_other_mutex_ops := 0; sf_dispatch_only_in_serve := true;
                 sf_embedders := [("cmd/cremengine/engine/api.Mux"%string, false)];
                 sf_go_stmts := 0; sf_pkg_vars_written := 0; sf_reentrant_serve_calls := 0 |} in
  facts_ok base = true /\
  facts_ok {| sf_lock_first := false; sf_unlock_deferred := sf_unlock_deferred base; sf_unlock_present := sf_unlock_present base;
              sf_calls_before_lock := 0; sf_other_mutex_ops := 0; sf_dispatch_only_in_serve := true;
              sf_embedders := sf_embedders base; sf_go_stmts := 0; sf_pkg_vars_written := 0; sf_reentrant_serve_calls := 0 |} = false /\
  facts_ok {| sf_lock_first := true; sf_unlock_deferred := true; sf_unlock_present := true;
              sf_calls_before_lock := 1; sf_other_mutex_ops := 0; sf_dispatch_only_in_serve := true;
              sf_embedders := sf_embedders base; sf_go_stmts := 0; sf_pkg_vars_written := 0; sf_reentrant_serve_calls := 0 |} = false /\
  facts_ok {| sf_lock_first := true; sf_unlock_deferred := true; sf_unlock_present := true;
              sf_calls_before_lock := 0; sf_other_mutex_ops := 0; sf_dispatch_only_in_serve := true;
              sf_embedders := [("cmd/cremengine/engine/api.Mux"%string, true)];
              sf_go_stmts := 0; sf_pkg_vars_written := 0; sf_reentrant_serve_calls := 0 |} = false /\
  facts_ok {| sf_lock_first := true; sf_unlock_deferred := true; sf_unlock_present := true;
              sf_calls_before_lock := 0; sf_other_mutex_ops := 0; sf_dispatch_only_in_serve := true;
              sf_embedders := sf_embedders base; sf_go_stmts := 1; sf_pkg_vars_written := 0; sf_reentrant_serve_calls := 0 |} = false.
Proof. vm_compute. repeat split; reflexivity. Qed.

Print Assumptions C16_serialisable.
Print Assumptions C16_some_serial_order.
Print Assumptions C16_actions_hold_the_mutex.
Print Assumptions C16_mutual_exclusion.
Print Assumptions C16_no_deadlock.
Print Assumptions C16_executions_finite.
Print Assumptions C16_every_order_realisable.
Print Assumptions C16_serial_outcomes_attained.
Print Assumptions C16_engine_serialisable_partial.
Print Assumptions C16_engine_synchronised_partial.
Print Assumptions C16_engine_no_deadlock_partial.
Print Assumptions C16_unlocked_refuted.
Print Assumptions C16_facts_unlocked_refuted.
Print Assumptions C16_engine_unlocked_refuted.
Print Assumptions C16_two_mutexes_refuted.
Print Assumptions C16_nondeferred_can_wedge.
