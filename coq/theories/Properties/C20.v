(* C20 — CSV text is parsed totally and faithfully into tables.
   Statements only; every proof is [exact <lemma>] from CsvTableProofs / GoCastProofs.

   Setting (CsvTable.v): encoding/csv and strconv are trusted.  [c : csv_result] is what the csv reader handed
   back for the text (an error, or records); [csv_can_return c] is the reader's guarantee with
   FieldsPerRecord = 0 (every record as long as the first).  [cast : string -> tag] is ANY caster (what
   BaseCaster.Cast answers per field), [fmt] ANY float formatter: the theorems hold for all of them. *)
From Coq Require Import List String QArith Bool Arith.
From Crem Require Import Base.Res CsvTable CsvTableProofs GoCast GoCastProofs.
Import ListNotations.
Local Open Scope nat_scope.

(* ---- totality: no byte string makes the loader panic ---- *)

(* For everything the csv reader can return the loader answers Rejected (exactly for a reader error or zero
   records — e.g. empty text) or Loaded; a loaded table (header-only included) reports its dimensions without
   panicking and every cell below them can be read, typed (Cell) and as text (CellString). *)
Theorem C20_total : forall cast fmt c, csv_can_return c = true ->
  exists l, parse_csv_text_into_table cast c = Ok l /\
    match l with
    | Rejected => c = CsvError \/ c = CsvRecords []
    | Loaded t =>
      exists recs, c = CsvRecords recs /\ recs <> [] /\
        column_and_row_size t = Ok (n_cols recs, n_rows recs) /\
        forall col row, col < n_cols recs -> row < n_rows recs ->
          (exists v, cell t col row = Ok v) /\ (exists s, cell_string fmt t col row = Ok s)
    end.
Proof. exact c20_total. Qed.

Theorem C20_never_panics : forall cast c, csv_can_return c = true ->
  parse_csv_text_into_table cast c <> Panic.
Proof. exact c20_no_panic. Qed.

(* Sharpness: on ARBITRARY record lists the loader panics exactly when some data record is shorter than the
   header — the one thing the csv reader excludes. *)
Theorem C20_panics_exactly_on_short_records : forall cast c,
  parse_csv_text_into_table cast c = Panic <->
  exists recs, c = CsvRecords recs /\
    exists r, In r (tl recs) /\ List.length r < List.length (hd [] recs).
Proof. exact parse_panic_iff. Qed.

Theorem C20_header_only : forall cast h,
  exists t, loads cast [h] t /\ column_and_row_size t = Ok (List.length h, 0) /\ header t = h.
Proof. exact c20_header_only. Qed.

(* ---- faithfulness ---- *)

(* header = first record; dimensions = (header columns, data rows); the typed cells are exactly the cast fields and
   CellString gives every field back VERBATIM (whatever it was cast to), one-to-one: nothing can be read outside
   the dimensions. *)
Theorem C20_faithful : forall cast fmt recs t, loads cast recs t ->
  header t = hd [] recs /\
  column_and_row_size t = Ok (n_cols recs, n_rows recs) /\
  (forall col row, col < n_cols recs -> row < n_rows recs ->
     cell t col row = Ok (to_base cast (field recs col row)) /\
     cell_string fmt t col row = Ok (field recs col row)) /\
  (forall col row, cell t col row = Panic <-> ~ (col < n_cols recs /\ row < n_rows recs)) /\
  (forall col row, cell_string fmt t col row = Panic <-> ~ (col < n_cols recs /\ row < n_rows recs)).
Proof. exact c20_faithful. Qed.

Theorem C20_every_field_read_back_verbatim : forall cast fmt recs t col row, loads cast recs t ->
  col < n_cols recs -> row < n_rows recs ->
  cell_string fmt t col row = Ok (field recs col row).
Proof. exact c20_verbatim. Qed.

Theorem C20_text_preserved : forall cast recs t col row, loads cast recs t ->
  col < n_cols recs -> row < n_rows recs ->
  cast (field recs col row) = TText ->
  cell t col row = Ok (VStr (field recs col row)).
Proof. exact c20_text_preserved. Qed.

Theorem C20_number_preserved : forall cast recs t col row x, loads cast recs t ->
  col < n_cols recs -> row < n_rows recs ->
  cast (field recs col row) = TNum x ->
  cell t col row = Ok (VNum x) /\ cell_float64 t col row = Ok x.
Proof. exact c20_number_preserved. Qed.

(* ---- "numeric fields as numbers, all others as text", at the level of the TYPED cell ----
   Since b0400cb the TEXT of every field is preserved (C20_every_field_read_back_verbatim, for all inputs).  What is
   still false is the typed reading: Cell of a field that strconv.ParseBool accepts and that is not a number
   (t T TRUE true True f F FALSE false False) is a bool, not the text.  Full statement (typed_faithfully for EVERY
   cell of EVERY loaded table):
       forall cast recs t, loads cast recs t ->
         forall col row, col < n_cols recs -> row < n_rows recs -> typed_faithfully cast recs t col row.
   Refutation (listed finding C20/bool-cell), then the proved form with the hypothesis [no_bool_field]. *)
Theorem C20_non_numeric_as_text_cell_refuted :
  exists cast recs t col row,
    cast_agrees cast /\ rectangular recs = true /\ loads cast recs t /\
    col < n_cols recs /\ row < n_rows recs /\
    ~ typed_faithfully cast recs t col row.
Proof. exact c20_typed_refuted. Qed.

Theorem C20_non_numeric_as_text_cell_partial : forall cast recs t, loads cast recs t ->
  no_bool_field cast recs = true ->
  forall col row, col < n_cols recs -> row < n_rows recs -> typed_faithfully cast recs t col row.
Proof. exact c20_typed_partial. Qed.

(* And what happens instead, stated positively. *)
Theorem C20_bool_field_is_bool_cell : forall cast recs t col row b, loads cast recs t ->
  col < n_cols recs -> row < n_rows recs ->
  cast (field recs col row) = TBool b ->
  cell t col row = Ok (VBool b).
Proof. exact c20_bool_cell. Qed.

(* ---- non-vacuity ---- *)
Example C20_example_loaded :
  exists t, loads model_cast [["id"; "v"; "note"]; ["1"; "2.5"; "x"]; ["2"; "1E3"; "true"]]%string t /\
    no_bool_field model_cast [["id"; "v"; "note"]; ["1"; "2.5"; "x"]]%string = true /\
    column_and_row_size t = Ok (3, 2) /\
    cell t 1 1 = Ok (VNum (Fin false 1000)) /\ cell_string model_fmt t 1 1 = Ok "1E3"%string /\
    cell_string model_fmt t 2 0 = Ok "x"%string /\
    cell t 2 1 = Ok (VBool true) /\ cell_string model_fmt t 2 1 = Ok "true"%string.
Proof.
  eexists. split; [unfold loads; vm_compute; reflexivity|].
  vm_compute. repeat split; reflexivity.
Qed.

Example C20_example_rejected_and_panic :
  parse_csv_text_into_table model_cast (CsvRecords []) = Ok Rejected /\
  csv_can_return (CsvRecords [["a"; "b"]; ["1"]]%string) = false /\
  parse_csv_text_into_table model_cast (CsvRecords [["a"; "b"]; ["1"]]%string) = Panic.
Proof. vm_compute. repeat split; reflexivity. Qed.

Print Assumptions C20_total.
Print Assumptions C20_never_panics.
Print Assumptions C20_panics_exactly_on_short_records.
Print Assumptions C20_header_only.
Print Assumptions C20_faithful.
Print Assumptions C20_every_field_read_back_verbatim.
Print Assumptions C20_text_preserved.
Print Assumptions C20_number_preserved.
Print Assumptions C20_non_numeric_as_text_cell_refuted.
Print Assumptions C20_non_numeric_as_text_cell_partial.
Print Assumptions C20_bool_field_is_bool_cell.
