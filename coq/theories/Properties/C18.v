(* C18 — Parameter validation is sound: only well-typed, in-range values are ever used.
   Statements only; every proof is [exact <lemma>] from ParamsProofs.

   Quantifiers: ANY file-system oracle [fs], either Assign* variant [vr], ANY specification table [t] and ANY user
   map [user]; the only side conditions are that keys are distinct (both are Go maps): boolean [nodupb], met by
   every table built with Specifications.Add ([C18_any_added_table_has_distinct_keys]).
   [final fs vr t user] = (parameter map, reported errors) after Initialise + Enforcing(t) + Assign*UserValues(user).

   The statements about crem's ACTUAL tables and getter call sites (C18_tables_ok, C18_crem_no_getter_panic,
   C18_crem_models_report_unknown) are in the obligation file that tools/props/C18.py regenerates from the
   source on every run (gen/obl_C18.v), because they are about gen/Specs.v. *)
From Coq Require Import List ZArith QArith String Bool.
From Crem Require Import Base.Res Base.Fl Params ParamsProofs.
Import ListNotations.
Open Scope string_scope.

Theorem C18_any_added_table_has_distinct_keys : forall literals, nodupb (keys (table_of literals)) = true.
Proof. exact table_of_nodupb. Qed.

(* 1. every specified non-optional key is present after assignment ... *)
Theorem C18_nonoptional_present : forall fs vr t user,
  nodupb (keys t) = true -> nodupb (map fst user) = true ->
  forall k s, lookup k t = Some s -> soptional s = false ->
    exists v, get k (fst (final fs vr t user)) = Some v.
Proof. exact nonoptional_present. Qed.

(* ... whatever is stored under a specified key is either a user value its validator accepted or the untouched
   default (and then the user gave nothing, or something the validator rejected) ... *)
Theorem C18_stored_origin : forall fs vr t user,
  nodupb (keys t) = true -> nodupb (map fst user) = true ->
  forall k s v, lookup k t = Some s -> get k (fst (final fs vr t user)) = Some v ->
    (get k user = Some v /\ validate fs (svalidator s) v = true)
    \/ (soptional s = false /\ v = sdefault s
        /\ (get k user = None \/ exists u, get k user = Some u /\ validate fs (svalidator s) u = false)).
Proof. exact stored_origin. Qed.

(* ... so it has the dynamic type of the validator (= the type of the getter that component_ok demands) ... *)
Theorem C18_stored_well_typed : forall fs vr t user,
  nodupb (keys t) = true -> nodupb (map fst user) = true ->
  forall k s v, lookup k t = Some s -> default_typed s = true ->
    get k (fst (final fs vr t user)) = Some v -> type_of_value v = type_of (svalidator s).
Proof. exact stored_typed. Qed.

(* ... and is accepted by the key's validator, provided the key's own default is. *)
Theorem C18_stored_in_range : forall fs vr t user,
  nodupb (keys t) = true -> nodupb (map fst user) = true ->
  forall k s v, lookup k t = Some s ->
    (soptional s = false -> validate fs (svalidator s) (sdefault s) = true) ->
    get k (fst (final fs vr t user)) = Some v -> validate fs (svalidator s) v = true.
Proof. exact stored_in_range. Qed.

(* what "accepted" means for the bounded validators: inside the inclusive bounds -- except NaN, which the code
   accepts under every bounded decimal validator (both comparisons are false) *)
Theorem C18_accepted_decimal_in_bounds : forall fs lo hi v, validate fs (KDecimalBetween lo hi) v = true ->
  v = VFloatNaN \/ exists q, v = VFloat q /\ (lo <= q)%Q /\ (q <= hi)%Q.
Proof. exact validate_decimal_bounds. Qed.

Theorem C18_accepted_integer_in_bounds : forall fs lo hi v, validate fs (KIntegerBetween lo hi) v = true ->
  exists z, v = VInt z /\ (lo <= z <= hi)%Z.
Proof. exact validate_integer_bounds. Qed.

Theorem C18_accepted_one_of : forall fs l v, validate fs (KOneOf l) v = true -> exists s, v = VString s /\ In s l.
Proof. exact validate_one_of. Qed.

Theorem C18_accepted_readable_file : forall fs v, validate fs KReadableFile v = true ->
  exists s, v = VString s /\ fs s = true.
Proof. exact validate_readable_file. Qed.

Theorem C18_accepted_has_validator_type : forall fs k v, validate fs k v = true -> type_of_value v = type_of k.
Proof. exact validate_typed. Qed.

(* 2. a valid user value replaces the default and is not reported *)
Theorem C18_valid_replaces_default : forall fs vr t user,
  nodupb (keys t) = true -> nodupb (map fst user) = true ->
  forall k s v, lookup k t = Some s -> get k user = Some v -> validate fs (svalidator s) v = true ->
    get k (fst (final fs vr t user)) = Some v /\ reported k (snd (final fs vr t user)) = false.
Proof. exact valid_replaces. Qed.

(* 3. an invalid one leaves the default in place (nothing, for an optional key) and is reported *)
Theorem C18_invalid_keeps_default_and_is_reported : forall fs vr t user,
  nodupb (keys t) = true -> nodupb (map fst user) = true ->
  forall k s v, lookup k t = Some s -> get k user = Some v -> validate fs (svalidator s) v = false ->
    get k (fst (final fs vr t user)) = dflt s /\ reported k (snd (final fs vr t user)) = true.
Proof. exact invalid_keeps_default. Qed.

Theorem C18_not_supplied_keeps_default : forall fs vr t user,
  nodupb (keys t) = true -> nodupb (map fst user) = true ->
  forall k s, lookup k t = Some s -> get k user = None ->
    get k (fst (final fs vr t user)) = dflt s /\ reported k (snd (final fs vr t user)) = false.
Proof. exact not_supplied_keeps_default. Qed.

(* 4. keys outside the specification are never stored; they are reported by AssignAllUserValues (what every model
      calls -- C18_crem_models_report_unknown) and silently ignored by AssignOnlyEnforcedUserValues (annealer,
      explorers and coolants are handed ONE shared map and each picks its own keys) *)
Theorem C18_unspecified_never_stored : forall fs vr t user,
  nodupb (keys t) = true -> nodupb (map fst user) = true ->
  forall k, lookup k t = None -> get k (fst (final fs vr t user)) = None.
Proof. exact unspecified_never_stored. Qed.

Theorem C18_unspecified_reported_iff_assign_all : forall fs vr t user,
  nodupb (keys t) = true -> nodupb (map fst user) = true ->
  forall k v, lookup k t = None -> get k user = Some v ->
    (reported k (snd (final fs vr t user)) = true <-> vr = AssignAll).
Proof. exact unspecified_reported_iff. Qed.

(* exactly the rejected entries are reported, each once *)
Theorem C18_reported_exactly : forall fs vr t user k,
  NoDup (keys t) -> NoDup (map fst user) ->
  (reported k (snd (assign fs vr t user)) = true <->
   exists v, get k user = Some v /\ validate_param fs t k v = false /\ (vr = AssignAll \/ lookup k t <> None)).
Proof. exact assign_reported. Qed.

Theorem C18_reported_once : forall fs vr t user,
  NoDup (keys t) -> NoDup (map fst user) -> NoDup (map fst (snd (assign fs vr t user))).
Proof. exact assign_errors_nodup. Qed.

(* no reported error => every user value is in use (or, for the enforced variant, belongs to another component) *)
Theorem C18_no_errors_all_user_values_used : forall fs vr t user,
  nodupb (keys t) = true -> nodupb (map fst user) = true ->
  snd (final fs vr t user) = [] ->
  forall k v, get k user = Some v ->
    (exists s, lookup k t = Some s /\ validate fs (svalidator s) v = true /\ get k (fst (final fs vr t user)) = Some v)
    \/ (lookup k t = None /\ vr = AssignEnforced).
Proof. exact no_errors_all_user_values_used. Qed.

(* 5. composition: in a component whose table and getter call sites pass [component_ok] (checked by computation on
      the regenerated tables), no typed getter call site can panic -- whatever the user map, whether or not errors
      were reported; a guarded site is only required to work when HasEntry answered true *)
Theorem C18_component_ok_no_getter_panic : forall c, component_ok c = true ->
  forall fs user st, nodupb (map fst user) = true -> In st (csites c) ->
    let m := fst (assign fs (cvariant c) (ctable c) user) in
    (site_guarded st = false \/ has_entry (site_key st) m = true) ->
    exists v, getter (site_ty st) (site_key st) m = Ok v /\ type_of_value v = site_ty st.
Proof. exact component_ok_no_getter_panic. Qed.

Theorem C18_component_ok_model_reports_unknown : forall c, component_ok c = true -> ckind_of c = CModel ->
  forall fs user k v, nodupb (map fst user) = true -> get k user = Some v -> lookup k (ctable c) = None ->
    reported k (snd (assign fs (cvariant c) (ctable c) user)) = true.
Proof. exact component_ok_model_reports_unknown. Qed.

(* 6. the iteration order of the two Go maps is irrelevant *)
Theorem C18_order_independent : forall fs vr t user user',
  nodupb (keys t) = true -> nodupb (map fst user) = true -> nodupb (map fst user') = true ->
  (forall kv, In kv user <-> In kv user') ->
  forall k, get k (fst (assign fs vr t user)) = get k (fst (assign fs vr t user'))
         /\ reported k (snd (assign fs vr t user)) = reported k (snd (assign fs vr t user')).
Proof. exact assign_order_independent. Qed.

(* ---- non-vacuity and witnesses *)
Definition ex_table : table := table_of
  [ mkSpec "YearsOfErosion" (KIntegerBetween 0 9223372036854775807) (VInt 100) false;
    mkSpec "HillSlopeDeliveryRatio" (KDecimalBetween 0 1) (VFloat (fl 3602879701896397 (-56))) false;
    mkSpec "MaximumSedimentProduction" (KDecimalBetween 0 (fl 9007199254740991 971)) VNil true;
    mkSpec "DataSourcePath" KReadableFile (VString "") false ].

Definition ex_user : pmap :=
  [ ("YearsOfErosion", VFloat 5); ("HillSlopeDeliveryRatio", VFloat (1 # 2));
    ("MaximumSedimentProduction", VFloat (-1)); ("NotAParameter", VInt 1) ].

Example C18_example_hypotheses :
  nodupb (keys ex_table) = true /\ nodupb (map fst ex_user) = true /\ forallb default_typed ex_table = true.
Proof. vm_compute. repeat split; reflexivity. Qed.

Example C18_example_assign_all :
  let st := assign (fun _ => false) AssignAll ex_table ex_user in
  get "YearsOfErosion" (fst st) = Some (VInt 100)                      (* wrong type: default kept *)
  /\ get "HillSlopeDeliveryRatio" (fst st) = Some (VFloat (1 # 2))     (* valid: replaces the default *)
  /\ get "MaximumSedimentProduction" (fst st) = None                   (* optional, invalid: stays absent *)
  /\ getter TFloat "MaximumSedimentProduction" (fst st) = Panic        (* hence the HasEntry guards *)
  /\ getter TInt "YearsOfErosion" (fst st) = Ok (VInt 100)
  /\ getter TFloat "YearsOfErosion" (fst st) = Panic
  /\ map fst (snd st) = ["NotAParameter"; "MaximumSedimentProduction"; "YearsOfErosion"].
Proof. vm_compute. repeat split; reflexivity. Qed.

Example C18_example_assign_enforced_ignores_unknown :
  map fst (snd (assign (fun _ => false) AssignEnforced ex_table ex_user))
  = ["MaximumSedimentProduction"; "YearsOfErosion"].
Proof. vm_compute. reflexivity. Qed.

(* NaN passes every bounded decimal validator (not expressible in TOML; stated so that it is not hidden) *)
Example C18_nan_passes_bounds : forall fs lo hi, validate fs (KDecimalBetween lo hi) VFloatNaN = true.
Proof. reflexivity. Qed.

(* a range specification `0 <= n` (IsNonNegativeInteger, which catchment's YearsOfErosion used before the proposed
   fix C18-1) admits 0: nothing in the parameter machinery can protect a consumer that divides by the value.  That
   the real model then panics is shown on the implementation by the harness's late-failure probe, not in this model. *)
Example C18_years_of_erosion_zero_is_accepted : forall fs,
  validate fs (KIntegerBetween 0 9223372036854775807) (VInt 0) = true.
Proof. reflexivity. Qed.

Print Assumptions C18_any_added_table_has_distinct_keys.
Print Assumptions C18_nonoptional_present.
Print Assumptions C18_stored_origin.
Print Assumptions C18_stored_well_typed.
Print Assumptions C18_stored_in_range.
Print Assumptions C18_accepted_decimal_in_bounds.
Print Assumptions C18_accepted_integer_in_bounds.
Print Assumptions C18_accepted_one_of.
Print Assumptions C18_accepted_readable_file.
Print Assumptions C18_accepted_has_validator_type.
Print Assumptions C18_valid_replaces_default.
Print Assumptions C18_invalid_keeps_default_and_is_reported.
Print Assumptions C18_not_supplied_keeps_default.
Print Assumptions C18_unspecified_never_stored.
Print Assumptions C18_unspecified_reported_iff_assign_all.
Print Assumptions C18_reported_exactly.
Print Assumptions C18_reported_once.
Print Assumptions C18_no_errors_all_user_values_used.
Print Assumptions C18_component_ok_no_getter_panic.
Print Assumptions C18_component_ok_model_reports_unknown.
Print Assumptions C18_order_independent.
