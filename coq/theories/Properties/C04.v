(* C04 — Single-objective acceptance follows the Metropolis rule in the set direction.
   Statements only; every proof is [exact <lemma>] from KirkpatrickProofs.

   Reading guide.  [step d s i] is kirkpatrick.Explorer.TryRandomChange for one proposal: [d] the
   optimisation direction, [s] the explorer/coolant fields (temperature, cooling factor, reported
   probability, ...), [i] = (validity verdict, objective change reported by the model, the value
   math.Exp returned, the value Float64Unitary returned).  All numbers are binary64 (Coq primitive
   floats): [<?] is Go's [<] on float64.  [configured d] holds for Minimise and Maximise — the only
   directions SetParameters can produce. *)
From Coq Require Import Floats ZArith Bool List Reals.
From Crem Require Import Kirkpatrick KirkpatrickProofs.
Import ListNotations.

(* ---- the decision table -------------------------------------------------------------------- *)

(* for every state, every proposal, every draw: the decision is the Metropolis table *)
Theorem C04_decision_table :
  forall d s i, configured d = true -> snd (step d s i) = metropolis_spec d i.
Proof. exact step_decision_is_metropolis. Qed.

(* clause 1: an invalid proposal is reverted (no draw; the reported probability is not touched) *)
Theorem C04_invalid_is_reverted :
  forall d s i, valid i = false ->
    snd (step d s i) = RevertInvalid
    /\ accepts (snd (step d s i)) = false
    /\ draws d s i = false
    /\ st_prob (fst (step d s i)) = st_prob s
    /\ st_invalid (fst (step d s i)) = true
    /\ calls_of d (snd (step d s i)) = [CTry; CValid; CChange; CRevert].
Proof. exact step_invalid. Qed.

(* clause 2: a valid proposal that improves the objective in the configured direction is accepted
   with certainty: no draw is made and the reported probability is exactly 1 *)
Theorem C04_improving_is_accepted :
  forall d s i, configured d = true -> valid i = true -> improves d (change i) = true ->
    snd (step d s i) = AcceptDesirable
    /\ accepts (snd (step d s i)) = true
    /\ draws d s i = false
    /\ st_prob (fst (step d s i)) = 1%float
    /\ calls_of d (snd (step d s i)) = [CTry; CValid; CChange; CAccept].
Proof. exact step_improving. Qed.

(* clause 3: otherwise (worsening, ZERO, or NaN change) exactly one draw is made and the proposal is
   accepted exactly when what math.Exp returned exceeds the draw, strictly; that value is the
   reported probability *)
Theorem C04_otherwise_accepted_iff_exp_exceeds_draw :
  forall d s i, configured d = true -> valid i = true -> improves d (change i) = false ->
    (accepts (snd (step d s i)) = true <-> (u i <? e i)%float = true)
    /\ snd (step d s i) = (if (u i <? e i)%float then AcceptUndesirable else RevertUndesirable)
    /\ draws d s i = true
    /\ st_prob (fst (step d s i)) = e i
    /\ calls_of d (snd (step d s i)) = [CTry; CValid; CChange; if (u i <? e i)%float then CAccept else CRevert].
Proof. exact step_not_improving. Qed.

(* a zero change (+0 or -0) is not an improvement in either direction (it takes the draw) *)
Theorem C04_zero_change_is_not_improving :
  forall d, improves d 0%float = false /\ improves d (-0)%float = false.
Proof. exact zero_not_improving. Qed.

(* "in the set direction": minimising decides on c as maximising decides on -c *)
Theorem C04_directions_mirror : forall c, improves Minimise c = improves Maximise (- c)%float.
Proof. exact direction_mirror. Qed.

(* the model being explored receives exactly one AcceptChange or RevertChange per proposal, as the
   last call, and it is AcceptChange iff the decision accepts *)
Theorem C04_one_verdict_per_proposal :
  forall d dec, exists pre,
    calls_of d dec = pre ++ [if accepts dec then CAccept else CRevert]
    /\ ~ In CAccept pre /\ ~ In CRevert pre.
Proof. exact calls_end_with_decision. Qed.

(* over arbitrarily long histories (proposals interleaved with any number of CoolDown calls, any
   starting temperature and cooling factor): every decision is the table applied to that proposal *)
Theorem C04_every_decision_of_a_history :
  forall d is s, configured d = true ->
    map fst (snd (run d s is)) = map (fun ic => metropolis_spec d (fst ic)) is.
Proof. exact run_decisions_are_metropolis. Qed.

(* ---- the objective recurrence --------------------------------------------------------------- *)

(* for ANY model of the explored system that obeys the accept/revert laws, any direction, any
   explorer state, any proposal and any draw: the objective after the iteration is the previous
   value moved by the reported change if the proposal was accepted, the previous value otherwise *)
Theorem C04_objective_after_iteration :
  forall (M P V : Type) (ops : model_ops M P V) (plus : V -> float -> V),
    accept_law ops plus -> revert_law ops ->
    forall d s m p q,
      let r := iterate ops d (s, m) (p, q) in
      m_objective ops (snd (fst r))
      = if accepts (snd r) then plus (m_objective ops m) (reported_change ops m p) else m_objective ops m.
Proof. exact (@iterate_objective). Qed.

(* ... at every iteration boundary of an arbitrarily long run ... *)
Theorem C04_objective_recurrence :
  forall (M P V : Type) (ops : model_ops M P V) (plus : V -> float -> V),
    accept_law ops plus -> revert_law ops ->
    forall d pqs sm, recurrence_ok ops plus d sm pqs (boundary_objectives ops d sm pqs).
Proof. exact (@boundaries_obey_recurrence). Qed.

(* ... hence the final objective is the initial one moved by exactly the accepted changes, in order *)
Theorem C04_objective_trace :
  forall (M P V : Type) (ops : model_ops M P V) (plus : V -> float -> V),
    accept_law ops plus -> revert_law ops ->
    forall d pqs s m,
      m_objective ops (snd (fst (iterations ops d (s, m) pqs)))
      = objective_trace ops plus d (s, m) pqs (m_objective ops m).
Proof. exact (@iterations_objective). Qed.

(* non-vacuity of the laws: the scripted model driven by the correspondence harness satisfies them *)
Theorem C04_laws_inhabited :
  accept_law scripted_ops (fun v c => (v + c)%float) /\ revert_law scripted_ops.
Proof. exact (conj scripted_accept_law scripted_revert_law). Qed.

(* ---- reported probabilities lie in [0,1] ---------------------------------------------------- *)

(* ideal formula over the reals: for every change and every positive temperature *)
Theorem C04_ideal_probability_in_unit_interval :
  forall d T : R, (0 < T)%R -> (0 < ideal_probability d T <= 1)%R.
Proof. exact ideal_probability_range. Qed.

Theorem C04_ideal_probability_is_one_iff_zero_change :
  forall d T : R, (0 < T)%R -> (ideal_probability d T = 1 <-> d = 0)%R.
Proof. exact ideal_probability_one_iff. Qed.

Theorem C04_ideal_probability_antitone_in_change :
  forall d1 d2 T : R, (0 < T)%R -> (Rabs d1 <= Rabs d2)%R ->
    (ideal_probability d2 T <= ideal_probability d1 T)%R.
Proof. exact ideal_probability_antitone_in_change. Qed.

Theorem C04_ideal_probability_monotone_in_temperature :
  forall d T1 T2 : R, (0 < T1)%R -> (T1 <= T2)%R ->
    (ideal_probability d T1 <= ideal_probability d T2)%R.
Proof. exact ideal_probability_monotone_in_temperature. Qed.

(* binary64: along ANY history, from ANY state whose reported probability is in [0,1] (New() starts
   at 0), every value ever held by AcceptanceProbability is in [0,1] (in particular not NaN),
   provided each value returned by math.Exp is — the hypothesis the reals theorem justifies for the
   ideal exponential, and which the harness checks on every math.Exp result it feeds to the model.
   Holds for all three directions. *)
Theorem C04_reported_probabilities_in_unit_interval :
  forall d is s, in01 (st_prob s) = true ->
    Forall (fun ic => in01 (e (fst ic)) = true) is ->
    Forall (fun dp => in01 (snd dp) = true) (snd (run d s is))
    /\ in01 (st_prob (fst (run d s is))) = true.
Proof. exact run_probs_in01. Qed.

Theorem C04_initial_probability_in_unit_interval :
  forall T cf, in01 (st_prob (init_state T cf)) = true.
Proof. exact init_prob_in01. Qed.

(* ---- outside the quantifier, for the record: temperature 0 ---------------------------------- *)

(* at T = 0 a zero change makes the argument of math.Exp NaN; with a NaN "probability" the proposal
   is reverted whatever the draw, and the reported probability is not in [0,1] *)
Theorem C04_nan_at_zero_temperature :
  is_nan (exp_arg 0 0) = true
  /\ forall d s c uu, configured d = true -> improves d c = false ->
       snd (step d s (mkInput true c nan uu)) = RevertUndesirable
       /\ in01 (st_prob (fst (step d s (mkInput true c nan uu)))) = false.
Proof. exact (conj zero_temperature_zero_change_arg_is_nan nan_probability_reverts). Qed.

(* and a positive starting temperature does reach 0 by binary64 underflow when the cooling factor is
   <= 1/2 (1075 CoolDown calls from T = 1 with factor 0.5): the hypothesis "temperature > 0" of the
   property is about the CURRENT temperature, not only the starting one *)
Theorem C04_temperature_can_underflow_to_zero :
  (0 <? st_T (init_state 1 0.5))%float = true
  /\ PrimFloat.eqb (st_T (cool_n 1075 (init_state 1 0.5))) 0 = true.
Proof. exact temperature_underflows. Qed.

(* ---- non-vacuity: concrete proposals in every row of the table ------------------------------ *)

(* minimising at T = 10: change -2.5 is accepted with probability 1 whatever e and u *)
Example C04_example_improving :
  step Minimise (init_state 10 0.5) (mkInput true (-2.5) 0 1)
  = (mkState 10 0.5 1 true true false (-2.5), AcceptDesirable).
Proof. vm_compute. reflexivity. Qed.

(* change +2.5: exp(-0.25) = 0x1.8ebef9eac820bp-1 (0.7788...); accepted for u just below, reverted for u = e *)
Example C04_example_worsening_accepted :
  snd (step Minimise (init_state 10 0.5) (mkInput true 2.5 0x1.8ebef9eac820bp-1 0x1.8ebef9eac820ap-1))
  = AcceptUndesirable.
Proof. vm_compute. reflexivity. Qed.
Example C04_example_worsening_reverted_on_tie :
  snd (step Minimise (init_state 10 0.5) (mkInput true 2.5 0x1.8ebef9eac820bp-1 0x1.8ebef9eac820bp-1))
  = RevertUndesirable.
Proof. vm_compute. reflexivity. Qed.
(* the same change is an improvement when maximising *)
Example C04_example_direction :
  snd (step Maximise (init_state 10 0.5) (mkInput true 2.5 0x1.8ebef9eac820bp-1 1)) = AcceptDesirable.
Proof. vm_compute. reflexivity. Qed.
(* zero change: e = exp(-0) = 1; accepted unless the draw is exactly 1 *)
Example C04_example_zero_change :
  snd (step Minimise (init_state 10 0.5) (mkInput true 0 1 0x1.fffffffffffffp-1)) = AcceptUndesirable
  /\ snd (step Minimise (init_state 10 0.5) (mkInput true 0 1 1)) = RevertUndesirable
  /\ exp_arg 10 0 = (-0)%float.
Proof. vm_compute. repeat split; reflexivity. Qed.
Example C04_example_invalid :
  snd (step Maximise (init_state 10 0.5) (mkInput false 2.5 1 0)) = RevertInvalid.
Proof. vm_compute. reflexivity. Qed.
(* a three-proposal history on the scripted model: 100 -> (accept -2.5) 97.5 -> (revert +2.5) 97.5 -> (accept 0) 97.5 *)
Example C04_example_history :
  let r := iterations scripted_ops Minimise (init_state 10 0.5, mkScripted 100 true 0)
             [((true, -2.5), mkDraw 0 1 true);
              ((true, 2.5), mkDraw 0x1.8ebef9eac820bp-1 0x1.8ebef9eac820bp-1 true);
              ((true, 0), mkDraw 1 0 true)]%float in
  snd r = [AcceptDesirable; RevertUndesirable; AcceptUndesirable]
  /\ sc_obj (snd (fst r)) = 97.5%float
  /\ st_T (fst (fst r)) = 1.25%float.
Proof. vm_compute. repeat split; reflexivity. Qed.

Print Assumptions C04_decision_table.
Print Assumptions C04_invalid_is_reverted.
Print Assumptions C04_improving_is_accepted.
Print Assumptions C04_otherwise_accepted_iff_exp_exceeds_draw.
Print Assumptions C04_zero_change_is_not_improving.
Print Assumptions C04_directions_mirror.
Print Assumptions C04_one_verdict_per_proposal.
Print Assumptions C04_every_decision_of_a_history.
Print Assumptions C04_objective_after_iteration.
Print Assumptions C04_objective_recurrence.
Print Assumptions C04_objective_trace.
Print Assumptions C04_laws_inhabited.
Print Assumptions C04_ideal_probability_in_unit_interval.
Print Assumptions C04_ideal_probability_is_one_iff_zero_change.
Print Assumptions C04_ideal_probability_antitone_in_change.
Print Assumptions C04_ideal_probability_monotone_in_temperature.
Print Assumptions C04_reported_probabilities_in_unit_interval.
Print Assumptions C04_initial_probability_in_unit_interval.
Print Assumptions C04_nan_at_zero_temperature.
Print Assumptions C04_temperature_can_underflow_to_zero.
