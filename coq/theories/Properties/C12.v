(* C12 — Saved results are faithful, complete and deterministically named and labelled.
   Statements only; every proof is [exact <lemma>] from SaverProofs.

   Reading guide.  [save_set] / [save_optimised] (Saver.v) are Saver.encodeSolutionSet / encodeOptimisedModel over an
   abstract decompression model (state type St, as-is state init, decompress, enc_of, vals_of); their result is the
   summary MAP (an association list with overwrite-on-equal-key).  Whatever the encoders derive from "some key" of the
   map is stated for ANY two keys; whatever they derive from "the entries in some order, sorted by SortIndex" is stated
   for ANY permutation [order] of the entries.  Scenario names range over all byte strings satisfying the boolean
   predicate shown; run counts R, run numbers r, and the archive (hence its size n) are unrestricted
   (R = 0 is treated as 1 by the runner itself; r is not even required to be within 1..R).

   Predicates (Saver.v):  no_nl name      = no line break in the name            (only for "JSON set name = run id"; key
                                                                                   independence itself is proved for ALL names)
                          label_safe name = the name contains neither the text "(1/1)" nor the text "As-Is"   (label theorems;
                                            tight: see the two _boundary examples at the end)
                          plain_name      = both.   The completeness / faithfulness theorems need no condition on the name. *)
From Coq Require Import String Ascii List Bool Arith Permutation ZArith QArith.
From Crem Require Import Base.Res Saver SaverProofs Catchment BoolArchive SaverCatchment.
Import ListNotations.
Open Scope nat_scope.
Open Scope string_scope.

(* ---- naming: file stem, set id, JSON set name, and the whole list of files written do not depend on the key ---- *)

Theorem C12_naming_deterministic_multi :
  forall (St V : Type) (init : St) (decompress : string -> St -> St) (enc_of : St -> string) (vals_of : St -> V)
         (name : string) (R r : nat) (arch : list string) (st0 : St) (k1 k2 : string),
    no_nl name = true ->
    let summary := snd (save_set St V init decompress enc_of vals_of (run_id name R r) arch st0) in
    In k1 (keys summary) -> In k2 (keys summary) ->
    file_stem k1 = file_stem k2 /\ set_id k1 = set_id k2
    /\ json_set_name k1 = Ok (run_id name R r) /\ json_set_name k2 = Ok (run_id name R r)     (* in particular never Panic *)
    /\ forall t l, files_written t l (keys summary) k1 = files_written t l (keys summary) k2.
Proof. exact c12_naming_multi. Qed.

Theorem C12_naming_deterministic_single :
  forall (St V : Type) (init : St) (decompress : string -> St -> St) (enc_of : St -> string) (vals_of : St -> V)
         (name : string) (R r : nat) (e : string) (st0 : St) (k1 k2 : string),
    no_nl name = true ->
    let summary := snd (save_optimised St V init decompress enc_of vals_of (run_id name R r) e st0) in
    In k1 (keys summary) -> In k2 (keys summary) ->
    file_stem k1 = file_stem k2 /\ set_id k1 = set_id k2
    /\ json_set_name k1 = Ok (run_id name R r) /\ json_set_name k2 = Ok (run_id name R r)
    /\ forall t l, files_written t l (keys summary) k1 = files_written t l (keys summary) k2.
Proof. exact c12_naming_single. Qed.

(* ... and for EVERY run id (no condition on the scenario name at all: line breaks, parentheses, "Solution (", ... included):
   all four derivations take one value on all keys of the summary and the JSON set name never panics.  With a line break
   in the name the set name is no longer the run id (the regexps' [.] stops at the break: it is the last line of the run
   id, or an earlier line's prefix up to " Solution") -- see C12_line_break_truncates_set_name -- but it is still one value. *)
Theorem C12_naming_deterministic_all_names_multi :
  forall (St V : Type) (init : St) (decompress : string -> St -> St) (enc_of : St -> string) (vals_of : St -> V)
         (run : string) (arch : list string) (st0 : St) (k1 k2 : string),
    let summary := snd (save_set St V init decompress enc_of vals_of run arch st0) in
    In k1 (keys summary) -> In k2 (keys summary) ->
    file_stem k1 = file_stem k2 /\ set_id k1 = set_id k2
    /\ json_set_name k1 = json_set_name k2 /\ is_ok (json_set_name k1) = true
    /\ forall t l, files_written t l (keys summary) k1 = files_written t l (keys summary) k2.
Proof. exact c12_naming_all_names_multi. Qed.

Theorem C12_naming_deterministic_all_names_single :
  forall (St V : Type) (init : St) (decompress : string -> St -> St) (enc_of : St -> string) (vals_of : St -> V)
         (run : string) (e : string) (st0 : St) (k1 k2 : string),
    let summary := snd (save_optimised St V init decompress enc_of vals_of run e st0) in
    In k1 (keys summary) -> In k2 (keys summary) ->
    file_stem k1 = file_stem k2 /\ set_id k1 = set_id k2
    /\ json_set_name k1 = json_set_name k2 /\ is_ok (json_set_name k1) = true
    /\ forall t l, files_written t l (keys summary) k1 = files_written t l (keys summary) k2.
Proof. exact c12_naming_all_names_single. Qed.

(* ... the file stem in closed form, for EVERY run id: the run id without its spaces, "/" spelled "_of_" -- only the solution marker that
   ends the key is dropped (set.Summary.FileNameSafeId after fix C19c-5; before, a name containing "Solution (" lost its run marker) --
   and hence: with more than one run, two runs never share a summary file (used by C19's "a result for each run") *)
Theorem C12_file_stem_closed_form : forall run, file_stem (as_is_id run) = replace_char "/" "_of_" (remove_char " " run).
Proof. exact summary_stem_as_is. Qed.

Theorem C12_file_stems_distinct_across_runs : forall name R r1 r2, 1 < effective_runs R ->
  file_stem (as_is_id (run_id name R r1)) = file_stem (as_is_id (run_id name R r2)) -> r1 = r2.
Proof. exact summary_stem_inj. Qed.

(* what a line break in the name does (replayed on the real code by the correspondence cases with such names) *)
Example C12_line_break_truncates_set_name :
  let name := String "a" (String "010" "b") in
  map json_set_name [as_is_id (run_id name 3 2); member_id (run_id name 3 2) 1 2] = [Ok "b (2/3)"; Ok "b (2/3)"]
  /\ map set_id [as_is_id (run_id name 3 2); member_id (run_id name 3 2) 1 2]
     = [String "a" (String "010" "b (2/3) Summary"); String "a" (String "010" "b (2/3) Summary")].
Proof. vm_compute. split; reflexivity. Qed.

(* ---- labels: the label column, in closed form, and its uniqueness ---- *)

Theorem C12_labels_multi :
  forall (St V : Type) (init : St) (decompress : string -> St -> St) (enc_of : St -> string) (vals_of : St -> V)
         (name : string) (R r : nat) (arch : list string) (st0 : St) (order : summary V),
    label_safe name = true ->
    Permutation order (snd (save_set St V init decompress enc_of vals_of (run_id name R r) arch st0)) ->
    map r_label (as_sorted_array order)
    = "As-Is" :: map (fun k => if ((k =? 1) && (length arch =? 1))%nat then "Optimised" else dec k ++ "-of-" ++ dec (length arch))
                     (seq 1 (length arch)).
Proof. exact labels_set. Qed.

Theorem C12_labels_unique_multi :
  forall (St V : Type) (init : St) (decompress : string -> St -> St) (enc_of : St -> string) (vals_of : St -> V)
         (name : string) (R r : nat) (arch : list string) (st0 : St) (order : summary V),
    label_safe name = true ->
    Permutation order (snd (save_set St V init decompress enc_of vals_of (run_id name R r) arch st0)) ->
    NoDup (map r_label (as_sorted_array order)).
Proof. exact labels_unique_set. Qed.

Theorem C12_labels_single :
  forall (St V : Type) (init : St) (decompress : string -> St -> St) (enc_of : St -> string) (vals_of : St -> V)
         (name : string) (R r : nat) (e : string) (st0 : St) (order : summary V),
    label_safe name = true ->
    Permutation order (snd (save_optimised St V init decompress enc_of vals_of (run_id name R r) e st0)) ->
    map r_label (as_sorted_array order) = ["As-Is"; "Optimised"].
Proof. exact labels_optimised. Qed.

Theorem C12_labels_unique_single :
  forall (St V : Type) (init : St) (decompress : string -> St -> St) (enc_of : St -> string) (vals_of : St -> V)
         (name : string) (R r : nat) (e : string) (st0 : St) (order : summary V),
    label_safe name = true ->
    Permutation order (snd (save_optimised St V init decompress enc_of vals_of (run_id name R r) e st0)) ->
    NoDup (map r_label (as_sorted_array order)).
Proof. exact labels_unique_optimised. Qed.

(* what the "k-of-n" labels rest on: %d is non-empty, all digits, injective *)
Theorem C12_decimal_numerals : forall n m, dec n <> "" /\ all_digits (dec n) = true /\ (dec n = dec m -> n = m).
Proof. exact c12_dec_facts. Qed.

(* ---- rows complete: for EVERY run id (no condition on the name) and every iteration order of the map the array is
        the as-is row followed by one row per archive member, in archive order; no entry is lost to a key collision ---- *)

Theorem C12_rows_complete_multi :
  forall (St V : Type) (init : St) (decompress : string -> St -> St) (enc_of : St -> string) (vals_of : St -> V)
         (run : string) (arch : list string) (st0 : St) (order : summary V),
    Permutation order (snd (save_set St V init decompress enc_of vals_of run arch st0)) ->
    as_sorted_array order
    = mk_row 0 (row_label (as_is_id run)) (vals_of init) (enc_of init) as_is_note
      :: map snd (member_entries St V decompress enc_of vals_of run (length arch) 1 arch init).
Proof. exact rows_complete_set. Qed.

Theorem C12_rows_complete_single :
  forall (St V : Type) (init : St) (decompress : string -> St -> St) (enc_of : St -> string) (vals_of : St -> V)
         (run e : string) (st0 : St) (order : summary V),
    Permutation order (snd (save_optimised St V init decompress enc_of vals_of run e st0)) ->
    as_sorted_array order
    = [ mk_row 0 (row_label (as_is_id run)) (vals_of init) (enc_of init) as_is_note;
        mk_row 1 (row_label (optimised_id run)) (vals_of (decompress e init)) (enc_of (decompress e init)) optimised_note ].
Proof. exact rows_complete_optimised. Qed.

(* ---- rows faithful: given what C01 (valuation depends only on the action set, whatever the shared model held before)
        and C09 (re-compressing a decompressed canonical encoding gives it back) establish about the decompression model,
        row k carries the k-th member's own encoding and the values of a FRESH model decompressed from it ---- *)

Theorem C12_rows_explicit_multi :
  forall (St V : Type) (init : St) (decompress : string -> St -> St) (enc_of : St -> string) (vals_of : St -> V)
         (canon : string -> Prop),
    (forall e s, reachable St init decompress s -> canon e -> vals_of (decompress e s) = vals_of (decompress e init)) ->
    (forall e s, reachable St init decompress s -> canon e -> enc_of (decompress e s) = e) ->
    vals_of (decompress (enc_of init) init) = vals_of init ->
    forall (run : string) (arch : list string) (st0 : St) (order : summary V),
      Forall canon arch ->
      Permutation order (snd (save_set St V init decompress enc_of vals_of run arch st0)) ->
      as_sorted_array order
      = as_is_row St V init decompress enc_of vals_of run
        :: member_rows St V init decompress vals_of run (length arch) 1 arch.
Proof. exact rows_explicit_set. Qed.

Theorem C12_rows_faithful_multi :
  forall (St V : Type) (init : St) (decompress : string -> St -> St) (enc_of : St -> string) (vals_of : St -> V)
         (canon : string -> Prop),
    (forall e s, reachable St init decompress s -> canon e -> vals_of (decompress e s) = vals_of (decompress e init)) ->
    (forall e s, reachable St init decompress s -> canon e -> enc_of (decompress e s) = e) ->
    vals_of (decompress (enc_of init) init) = vals_of init ->
    forall (run : string) (arch : list string) (st0 : St) (order : summary V) (x : row V),
      Forall canon arch ->
      Permutation order (snd (save_set St V init decompress enc_of vals_of run arch st0)) ->
      In x (as_sorted_array order) ->
      r_vals x = vals_of (decompress (r_enc x) init).
Proof. exact rows_faithful_set. Qed.

(* single-objective: the only decompression starts from the as-is state, so the C01 hypothesis is not needed *)
Theorem C12_rows_faithful_single :
  forall (St V : Type) (init : St) (decompress : string -> St -> St) (enc_of : St -> string) (vals_of : St -> V)
         (canon : string -> Prop),
    (forall e s, reachable St init decompress s -> canon e -> enc_of (decompress e s) = e) ->
    vals_of (decompress (enc_of init) init) = vals_of init ->
    forall (run e : string) (st0 : St) (order : summary V) (x : row V),
      canon e ->
      Permutation order (snd (save_optimised St V init decompress enc_of vals_of run e st0)) ->
      In x (as_sorted_array order) ->
      r_vals x = vals_of (decompress (r_enc x) init).
Proof. exact rows_faithful_optimised. Qed.

(* ---- rows faithful, for the CONCRETE catchment model: the three hypotheses above are discharged in SaverCatchment.v from
        C01 (CatchmentProofs.same_set_same_values / inv_obs: every reachable state is valued as its active set alone says)
        and C09 (BoolArchiveProofs.roundtrip_of_bits / canonical_of_bits), for the instance
          St := Catchment.state, init := fresh d, decompress e s := Catchment.decompress d s (bits decoded from e by the real Decode),
          enc_of s := Compress(model).Encoding() of the active flags, vals_of s := six totals + every per-unit value (grid units).
        What remains are boolean conditions: a well-formed data set with at least one action (C09's n >= 1), and archive
        members that carry one flag per action. ---- *)

Theorem C12_rows_faithful_catchment :
  forall (d : dataset), wf_dataset d = true -> (1 <=? nactions d)%nat = true ->
  forall (members : list (list bool)), forallb (fun bs => (length bs =? nactions d)%nat) members = true ->
  forall (run : string) (st0 : state) (order : summary (list vobs)) (x : row (list vobs)),
    Permutation order (snd (save_set state (list vobs) (c_init d) (c_decompress d) (c_enc_of d) (c_vals_of d)
                                     run (map enc_bits members) st0)) ->
    In x (as_sorted_array order) ->
    (* the row's values are those of a FRESH model to which the action set decoded from the row's own encoding is applied *)
    r_vals x = o_vars (obs_of d (apply_set d (bits_of (nactions d) (r_enc x)))).
Proof. exact c12_rows_faithful_catchment. Qed.

Theorem C12_rows_faithful_catchment_single :
  forall (d : dataset), wf_dataset d = true -> (1 <=? nactions d)%nat = true ->
  forall (optimised : list bool), (length optimised =? nactions d)%nat = true ->
  forall (run : string) (st0 : state) (order : summary (list vobs)) (x : row (list vobs)),
    Permutation order (snd (save_optimised state (list vobs) (c_init d) (c_decompress d) (c_enc_of d) (c_vals_of d)
                                           run (enc_bits optimised) st0)) ->
    In x (as_sorted_array order) ->
    r_vals x = o_vars (obs_of d (apply_set d (bits_of (nactions d) (r_enc x)))).
Proof. exact c12_rows_faithful_catchment_single. Qed.

(* the whole array in closed form: as-is row (no flag set), then row k = member k's encoding and THE valuation of member k's
   flags (canon_obs is the history-free spec of C01) *)
Theorem C12_rows_explicit_catchment :
  forall (d : dataset), wf_dataset d = true -> (1 <=? nactions d)%nat = true ->
  forall (members : list (list bool)), forallb (fun bs => (length bs =? nactions d)%nat) members = true ->
  forall (run : string) (st0 : state) (order : summary (list vobs)),
    Permutation order (snd (save_set state (list vobs) (c_init d) (c_decompress d) (c_enc_of d) (c_vals_of d)
                                     run (map enc_bits members) st0)) ->
    as_sorted_array order
    = mk_row 0 (row_label (as_is_id run)) (o_vars (canon_obs d (fun _ => false)))
             (enc_bits (repeat false (nactions d))) as_is_note
      :: catchment_member_rows d run (length members) 1 members.
Proof. exact c12_rows_explicit_catchment. Qed.

(* non-vacuity of the catchment instance: the three-action data set of Properties/C01.v; two members; what the saver
   writes for run 2 of 3 (labels, encodings, sediment total in 0.001 t) *)
Definition C12_ex_d : dataset :=
  mkData [3; 5]%Z
    [ mkAction 3 Gully [(OriginalGullySediment, 7 # 2); (ActionedGullySediment, 1 # 2); (ImplementationCostVar, 1000 # 1)];
      mkAction 3 Riparian [(OriginalBufferVegetation, 1 # 5); (ActionedBufferVegetation, 3 # 4);
                            (OriginalRiparianSedimentProduction, 9 # 1); (ActionedRiparianSedimentProduction, 2 # 1);
                            (ImplementationCostVar, 250 # 1)];
      mkAction 5 HillSlope [(HillSlopeErosionOriginalAttribute, 11 # 3); (HillSlopeErosionActionedAttribute, 5 # 3)] ]
    (fun _ _ => mkCtx (1 # 5) (9 # 1) (7 # 2) (11 # 3) 0 0) None.
Example C12_catchment_nonvacuous :
  let members := [[true; false; true]; [false; true; true]] in
  wf_dataset C12_ex_d = true /\ (1 <=? nactions C12_ex_d)%nat = true
  /\ forallb (fun bs => (length bs =? nactions C12_ex_d)%nat) members = true
  /\ map (fun x => (r_label x, r_enc x, option_map o_total (hd_error (r_vals x))))
         (as_sorted_array (rev (snd (save_set state (list vobs) (c_init C12_ex_d) (c_decompress C12_ex_d) (c_enc_of C12_ex_d)
                                              (c_vals_of C12_ex_d) (run_id "P" 3 2) (map enc_bits members) (fresh C12_ex_d)))))
     = map (fun x => (r_label x, r_enc x, option_map o_total (hd_error (r_vals x))))
           (mk_row 0 "As-Is" (o_vars (canon_obs C12_ex_d (fun _ => false))) "0" as_is_note
            :: catchment_member_rows C12_ex_d (run_id "P" 3 2) 2 1 members).
Proof. vm_compute. repeat split; reflexivity. Qed.

(* ---- non-vacuity ---- *)

(* names meeting the predicates, including ones full of what the regular expressions key on *)
Example C12_plain_names :
  forallb plain_name ["P"; "Laidley Creek v2"; "My Solution (draft)"; "a/b 3/4"; "Scenario 12"; "(1/1"; "As-is"; ""] = true.
Proof. vm_compute. reflexivity. Qed.

(* a decompression model meeting the three hypotheses of the faithfulness theorems: the state is the set of active
   action indices written as a string of '0'/'1'; decompressing overwrites it; the value is the number of '1's *)
Definition C12_count_ones (s : string) : nat := String.length (remove_char "0"%char s).
Example C12_faithful_hypotheses_satisfiable :
  let St := string in let init := "000" in let decompress := fun (e : string) (_ : St) => e in
  let enc_of := fun s : St => s in let vals_of := C12_count_ones in let canon := fun _ : string => True in
  (forall e s, reachable St init decompress s -> canon e -> vals_of (decompress e s) = vals_of (decompress e init))
  /\ (forall e s, reachable St init decompress s -> canon e -> enc_of (decompress e s) = e)
  /\ vals_of (decompress (enc_of init) init) = vals_of init.
Proof. cbv zeta. auto. Qed.

(* a concrete multi-objective summary of run 2 of 3 with eleven members: file, set name, labels *)
Example C12_example_multi :
  let sm := snd (save_set string nat "000" (fun e _ => e) (fun s => s) C12_count_ones (run_id "P" 3 2)
                          ["001"; "010"; "011"; "100"; "101"; "110"; "111"; "001"; "010"; "011"; "100"] "111") in
  map (summary_file CSV) (keys sm) = repeat "P(2_of_3)-Summary.csv" 12
  /\ map json_set_name (keys sm) = repeat (Ok "P (2/3)") 12
  /\ map r_label (as_sorted_array (rev sm))
     = ["As-Is"; "1-of-11"; "2-of-11"; "3-of-11"; "4-of-11"; "5-of-11"; "6-of-11"; "7-of-11"; "8-of-11"; "9-of-11"; "10-of-11"; "11-of-11"]
  /\ map r_vals (as_sorted_array (rev sm)) = [0; 1; 1; 2; 1; 2; 2; 3; 1; 1; 2; 1].
Proof. vm_compute. repeat split; reflexivity. Qed.

(* the one-member archive: "Solution (1/1)" is labelled "Optimised", still different from "As-Is" *)
Example C12_example_one_member :
  map r_label (as_sorted_array (snd (save_set string nat "000" (fun e _ => e) (fun s => s) C12_count_ones (run_id "P" 1 1) ["101"] "000")))
  = ["As-Is"; "Optimised"].
Proof. vm_compute. reflexivity. Qed.

(* ---- the predicate is tight (boundary of the quantifier, not a violation of the property as stated):
        a scenario NAME containing "As-Is" or "(1/1)" makes every row carry the same label ---- *)
Example C12_boundary_name_contains_As_Is :
  map r_label (as_sorted_array (snd (save_set string nat "000" (fun e _ => e) (fun s => s) C12_count_ones (run_id "My As-Is plan" 1 1) ["101"; "110"] "000")))
  = ["As-Is"; "As-Is"; "As-Is"].
Proof. vm_compute. reflexivity. Qed.
Example C12_boundary_name_contains_1_of_1 :
  map r_label (as_sorted_array (snd (save_set string nat "000" (fun e _ => e) (fun s => s) C12_count_ones (run_id "Copy (1/1) of P" 1 1) ["101"; "110"] "000")))
  = ["Optimised"; "Optimised"; "Optimised"].
Proof. vm_compute. reflexivity. Qed.

Print Assumptions C12_file_stem_closed_form.
Print Assumptions C12_file_stems_distinct_across_runs.
Print Assumptions C12_naming_deterministic_multi.
Print Assumptions C12_naming_deterministic_single.
Print Assumptions C12_naming_deterministic_all_names_multi.
Print Assumptions C12_naming_deterministic_all_names_single.
Print Assumptions C12_labels_multi.
Print Assumptions C12_labels_unique_multi.
Print Assumptions C12_labels_single.
Print Assumptions C12_labels_unique_single.
Print Assumptions C12_decimal_numerals.
Print Assumptions C12_rows_complete_multi.
Print Assumptions C12_rows_complete_single.
Print Assumptions C12_rows_explicit_multi.
Print Assumptions C12_rows_faithful_multi.
Print Assumptions C12_rows_faithful_single.
Print Assumptions C12_rows_faithful_catchment.
Print Assumptions C12_rows_faithful_catchment_single.
Print Assumptions C12_rows_explicit_catchment.
