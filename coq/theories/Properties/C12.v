(* C12 placeholder while the pipeline is brought up *)
From Coq Require Import String List.
From Crem Require Import Base.Res Saver.
Import ListNotations. Open Scope string_scope.
Example C12_smoke : row_label (member_id (run_id "P" 3 2) 1 11) = "1-of-11".
Proof. vm_compute. reflexivity. Qed.
