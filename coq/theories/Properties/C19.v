(* placeholder *)
From Crem Require Import Config ConfigSpec.
