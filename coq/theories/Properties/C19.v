(* C19 — Accepted configurations run to completion; rejected ones give errors, not panics.
   Statements only; every proof is [exact <lemma>] from ConfigProofs or a computation on a closed term.

   Model: Config.v  ([load], [interpret], [run_model] = the composition of the run-time components: runner (C08/C12 naming),
   annealing loop (C07, AnnealLoop.anneal_elapsed), explorer initialisation and iterations on the catchment model with its
   randomisation loops (C01/C03/C10, ConfigLoops.v), observers (invariant observer, iteration filter), saver).
   The theorems are about the code with fixes C19-1 (randomisation loops: panic only when no boundary was found; stop when nothing is
   left to toggle), C19-2 (invariant observer skips events without ObjectiveValue) and the series C19-3 .. C19-13 (NullModel's variable
   map; trial initialisation of the model at interpretation time reporting load errors, missing tables, panics and a limit that excludes
   nothing; DecisionVariable checked against the model; negative RunNumber; concurrency slots; output path / EXCEL / profile directory
   checked by the scenario interpreter) and the series C19c-1 .. C19c-5 (documents whose PARTS refer to each other: the log formatter
   takes floats too large to round; a CpuProfilePath in the way of the OutputPath or naming one of the model's data files is refused; a
   data source whose Gullies table names an unlisted subcatchment is refused; the summary file stem keeps the run marker whatever the
   scenario name).  What the loops did BEFORE C19-1 is stated at the end.

   LEVEL: proof, PARTIAL -- the theorems are about the composition of the MODELLED components.  A panic inside code that is not
   transcribed (TOML decoder, logging back-ends, CPU profiler, Excel paths, CSV/JSON encoders) can only be met by the
   correspondence stream (harness/c19.go runs every generated document through the real pipeline in a child process).

   [F : facts] / [T : tables] are regenerated from the source on every check; the theorems below hold for ALL facts and tables
   meeting the boolean side conditions [facts_ok] / [tables_ok], which gen/obl_C19.v evaluates on the regenerated ones. *)
From Coq Require Import List ZArith QArith String Bool Arith Floats Lia.
From Crem Require Import Base.Res Params Saver AnnealLoop Catchment Limits LimitsProofs ConfigLoops Config ConfigSpec ConfigProofs ConfigRef ConfigWitness.
Import ListNotations.
Open Scope string_scope.
Open Scope list_scope.

(* ================================================================================================================ *)
(* 1. rejected => an error VALUE                                                                                     *)
(* ================================================================================================================ *)

(* FULL statement: neither loading nor interpreting ever panics *)
Definition C19_rejected_is_error_statement : Prop :=
  forall F T E c, tables_ok T = true -> nodupb (map fst (c_annealer_params c)) = true -> nodupb (map fst (c_model_params c)) = true ->
    load F c <> Crash /\ forall l, load F c = Done l -> interpret F T E l <> Crash.

(* the loader: full *)
Theorem C19_rejected_is_error_load : forall F c, load F c <> Crash.
Proof. exact load_never_crashes. Qed.

(* the interpreter: PARTIAL.  Since C19-4, -5, -13 the data source is loaded by a TRIAL initialisation whose load errors and panics are
   reported as interpreter errors, so the data source no longer appears here.  The one hypothesis left, [interpret_env_ok], is the
   listed finding of C18: initial values of the multi-objective dumb model outside math.RoundFloat's range panic while that model is
   constructed (an oracle of the environment record, because RoundFloat's range is not modelled). *)
Theorem C19_rejected_is_error_interpret_partial : forall F T, tables_ok T = true -> forall E l,
  nodupb (map fst (l_annealer_params l)) = true -> nodupb (map fst (l_model_params l)) = true ->
  interpret_env_ok F T E l = true -> interpret F T E l <> Crash.
Proof. exact interpret_never_crashes. Qed.

Theorem C19_rejected_is_error_refuted : ~ C19_rejected_is_error_statement.
Proof. exact rejected_is_error_refuted. Qed.

(* ================================================================================================================ *)
(* 2. accepted => every run completes and leaves its result                                                          *)
(* ================================================================================================================ *)

(* FULL statement *)
Definition C19_accepted_runs_statement : Prop :=
  forall F T E c l sc choices T0 a, facts_ok F = true -> tables_ok T = true ->
    load F c = Done l -> interpret F T E l = Done sc -> choices_ok sc choices ->
    exists summaries, run_model E sc choices T0 a = Completed summaries /\ List.length summaries = Z.to_nat (l_run_number l).

(* what acceptance gives, DERIVED from the loader's and the interpreter's checks (nothing of this is assumed any more):
   1 <= RunNumber < 2^63, reporting modulo >= 1;  a single-objective explorer's DecisionVariable is offered by the model;  a catchment
   model's data source is a loaded data set and a configured limit is BINDING (the opposite extreme violates it);  the OutputPath is not an
   existing non-directory;  EXCEL output only where Excel can exist;  the directory of a CpuProfilePath exists *)
Theorem C19_acceptance_gives_positive_counts : forall F c l, facts_ok F = true -> load F c = Done l ->
  (1 <= l_run_number l < two63)%Z /\ (1 <= l_report_every l)%Z.
Proof. exact accepted_counts. Qed.

Theorem C19_acceptance_gives_shape : forall F T E l sc, interpret F T E l = Done sc -> accepted_shape E l sc.
Proof. exact interpret_done. Qed.

(* PARTIAL: the remaining hypotheses, the boolean [run_preconditions E sc] (ConfigSpec.v):
     - two LISTED FINDINGS about the configuration: a dumb model's InitialObjectiveValue within math.RoundFloat's range ([dumb_round_ok]:
       IsDecimal puts no bound on it) and a scenario name that fits a file name ([e_file_creatable] of every run's [summary_name]);
     - run-time environment: the saver can create its directory and files ([e_out_usable]); the profile file can be created ([e_profile_ok];
       listed finding: a CpuProfilePath naming an existing directory is accepted and Run() returns an error);
     - a catchment model's constants, as derived from the loaded tables, form a well-formed data set ([wf_dataset], evaluated by computation
       on every data set the harness loads: the derivation itself is not verified) and the optimisers' starting extreme satisfies the limit
       ([limit_attainable]; as in C03 -- without it the proof has no valid state to start from; no failing run is known);
     - [no_nl name]: side condition of the reused C12 naming lemma, not a defect.
   Random inputs are universally quantified; the pick lists are boundedly fair ([choices_ok]). *)
Theorem C19_accepted_runs_partial : forall F T, facts_ok F = true -> tables_ok T = true ->
  forall E c l sc choices T0 a,
  load F c = Done l -> interpret F T E l = Done sc ->
  run_preconditions E sc = true -> choices_ok sc choices ->
  exists summaries, run_model E sc choices T0 a = Completed summaries /\ List.length summaries = Z.to_nat (l_run_number l)
                    /\ (1 <= l_run_number l)%Z
                    (* ... one result PER RUN: run r writes [summary_name sc r], and no two runs write the same file (CSV / JSON output;
                       the Excel paths are not modelled) -- for EVERY scenario name (C19c-5) *)
                    /\ summaries = map (summary_name sc) (seq 1 (Z.to_nat (l_run_number l)))
                    /\ (writes_files sc = true -> NoDup summaries).
Proof. exact accepted_runs. Qed.

(* the naming fact behind it, for every scenario name, every number of runs > 1 and both file encoders *)
Theorem C19_runs_write_distinct_files : forall sc r1 r2, writes_files sc = true -> (1 < Z.to_nat (s_runs sc))%nat ->
  summary_name sc r1 = summary_name sc r2 -> r1 = r2.
Proof. exact summary_name_inj. Qed.

(* a catchment data source that is given by its three tables is only accepted when they agree with each other: every cell the model
   reads is a number, there is a subcatchment, every gully lies in a listed subcatchment (C19c-4), every Hillslope / Gully / Riparian
   action row belongs to a listed subcatchment *)
Theorem C19_accepted_tables_are_consistent : forall F T E l mp m sh d0,
  interpret_model_part F T E l = Ok mp -> mp_model mp = Some m ->
  (exists m0, interpret_model F T E l = Some m0 /\ mb_kind m0 = MKCatchment /\ data_of E m0 = DataTables sh d0) ->
  shape_ok sh = true.
Proof. exact model_part_tables_sound. Qed.

(* ... and the full statement stays false of the faithful model for the run-time environment alone: an output directory that cannot be
   created when the first run finishes makes the saver panic (confirmed on the real code: hazard class output-directory-cannot-be-created) *)
Theorem C19_accepted_runs_refuted : ~ C19_accepted_runs_statement.
Proof. exact accepted_runs_refuted. Qed.

(* ... and for one class of configurations even in a usable environment (listed finding dumb-initial-objective-beyond-roundfloat-range,
   confirmed on the real code): DumbModel with InitialObjectiveValue = 2^1020 is accepted and every run panics in math.RoundFloat *)
Theorem C19_accepted_runs_refuted_in_a_usable_environment :
  exists l sc, load ref_facts dumb_beyond_range = Done l /\ interpret ref_facts ref_tables ref_env l = Done sc /\
               e_out_usable ref_env (s_out_path sc) = true /\
               run_model ref_env sc (fun _ => ref_choice) 1%float 1%float = RunCrash.
Proof. exact accepted_runs_refuted_in_a_usable_environment. Qed.

(* the pieces *)
Theorem C19_observers_never_panic : forall sc e cur, (1 <= s_modulo sc)%Z -> observers_ok sc e cur = true.
Proof. exact observers_fine. Qed.

Theorem C19_loop_keeps_the_limit : forall d, wf_dataset d = true -> forall dir picks attempts valid s s',
  Valid d s -> picks_ok d picks = true -> rand_loop_fx d dir picks attempts valid s = LOk s' -> Valid d s'.
Proof. exact rand_loop_fx_valid. Qed.

Theorem C19_loop_ends_under_fair_picks : forall d dir attempts picks valid s,
  fairk (nactions d) attempts picks -> rand_loop_fx d dir picks attempts valid s <> LOutOfPicks.
Proof. exact rand_loop_fx_ends. Qed.

Theorem C19_binding_limit_never_panics : forall d, wf_dataset d = true -> forall k m picks s,
  d_limit d = Some (k, m) -> limit_binding d = true -> Valid d s -> picks_ok d picks = true ->
  rand_loop_fx d (loop_dir k) picks (nactions d) true s <> LPanic.
Proof. exact binding_no_panic. Qed.

Theorem C19_every_run_completes : forall E l sc r ch T0 a,
  (1 <= s_modulo sc)%Z -> accepted_shape E l sc -> run_preconditions E sc = true ->
  match dataset_of sc with Some d => choice_ok d ch | None => True end ->
  files_creatable E sc r ->
  run_one E sc r ch T0 a = R1Files (summary_name sc r).
Proof. exact run_one_completes. Qed.

(* ---- non-vacuity: a document meeting every hypothesis, for the single- and the multi-objective annealer, under a binding limit *)
Definition ex_limit : pmap := [("DataSourcePath", VString "data.csv"); ("MaximumImplementationCost", VFloat 1100)].

Example C19_example_hypotheses_met :
  facts_ok ref_facts = true /\ tables_ok ref_tables = true /\
  match load ref_facts (with_runs 2 (kp_catchment ex_limit)) with
  | Done l => match interpret ref_facts ref_tables ref_env l with
              | Done sc => run_preconditions ref_env sc && negb (match s_limit sc with None => true | _ => false end)
              | _ => false
              end
  | _ => false
  end = true.
Proof. vm_compute. repeat split; reflexivity. Qed.

Example C19_example_fair_choice : choice_ok (with_limit ref_d0 (Some (VIC, 1100 # 1))) ref_choice.
Proof. exact ref_choice_ok. Qed.

Example C19_example_runs :
  pipeline ref_facts ref_tables ref_env (with_runs 2 (kp_catchment ex_limit)) (fun _ => ref_choice)
    = VRun (Completed ["P(1_of_2)-Summary.csv"; "P(2_of_2)-Summary.csv"])
  /\ pipeline ref_facts ref_tables ref_env (with_output "out" (Value "JSON") (supp_catchment ex_limit)) (fun _ => ref_choice)
    = VRun (Completed ["P-Summary.json"]).
Proof. vm_compute. split; reflexivity. Qed.

Example C19_example_rejections :
  pipeline ref_facts ref_tables ref_env (with_runs 0 (kp_catchment ex_limit)) (fun _ => ref_choice)
    = VLoadErrors [EMandatory "Scenario.RunNumber"]
  /\ pipeline ref_facts ref_tables ref_env
       (kp_catchment [("DataSourcePath", VString "missing.csv"); ("MaximumImplementationCost", VFloat 1); ("MaximumOpportunityCost", VFloat 1)])
       (fun _ => ref_choice)
    = VInterpretErrors [EModelParam "DataSourcePath"; EModelLimits]
  /\ pipeline ref_facts ref_tables ref_env (with_output "out" (Value "XML") (kp_catchment ex_limit)) (fun _ => ref_choice)
    = VLoadErrors [EDecode].
Proof. vm_compute. repeat split; reflexivity. Qed.

(* ================================================================================================================ *)
(* 3. regression cases: the refutation witnesses of the first version of this file (one per listed finding), now that  *)
(*    the series C19-3 .. C19-13 is part of the model: every one is either rejected through an error or runs          *)
(* ================================================================================================================ *)
Definition verdict_of (c : config) : verdict := pipeline ref_facts ref_tables ref_env c (fun _ => ref_choice).

Example C19_regression_null_model :                                                    (* C19-3: the run completes *)
  verdict_of (doc "P" "Suppapitnarm" [("MaximumIterations", VInt 3)] "NullModel" []) = VRun (Completed ["P-Summary.csv"])
  /\ verdict_of (doc "P" "Kirkpatrick" [("MaximumIterations", VInt 3)] "NullModel" []) = VRun (Completed ["P-Summary.csv"]).
Proof. vm_compute. split; reflexivity. Qed.

Example C19_regression_data_source :                                                   (* C19-4, C19-5 / C19-13: interpreter errors *)
  verdict_of (supp_catchment []) = VInterpretErrors [EModelData]
  /\ verdict_of (supp_catchment [("DataSourcePath", VString "notes.txt")]) = VInterpretErrors [EModelData]
  /\ verdict_of (kp_catchment [("DataSourcePath", VString "broken.csv")]) = VInterpretErrors [EModelData].
Proof. vm_compute. repeat split; reflexivity. Qed.

Example C19_regression_decision_variable :                                             (* C19-6 *)
  verdict_of (doc "P" "Kirkpatrick" [("MaximumIterations", VInt 3)] "CatchmentModel" [("DataSourcePath", VString "data.csv")])
    = VInterpretErrors [EDecisionVariable]
  /\ verdict_of (doc "P" "Kirkpatrick" [("DecisionVariable", VString "Bogus")] "MultiObjectiveDumbModel" []) = VInterpretErrors [EDecisionVariable].
Proof. vm_compute. split; reflexivity. Qed.

Example C19_regression_run_counts :                                                    (* C19-7: load error; C19-8: -1 means no limit *)
  verdict_of (with_runs (-1) (kp_catchment ex_limit)) = VLoadErrors [EMandatory "Scenario.RunNumber"]
  /\ verdict_of (with_concurrent (-1) (with_runs 2 (kp_catchment ex_limit)))
     = VRun (Completed ["P(1_of_2)-Summary.csv"; "P(2_of_2)-Summary.csv"]).
Proof. vm_compute. split; reflexivity. Qed.

Example C19_regression_scenario_checks :                                               (* C19-9, C19-10, C19-11 *)
  verdict_of (with_output "file" Absent (kp_catchment ex_limit)) = VInterpretErrors [EOutputPath]
  /\ verdict_of (with_output "out" (Value "EXCEL") (kp_catchment ex_limit)) = VInterpretErrors [EExcel]
  /\ verdict_of (with_profile "nowhere/prof" (kp_catchment ex_limit)) = VInterpretErrors [EProfilePath].
Proof. vm_compute. repeat split; reflexivity. Qed.

Example C19_regression_limit_not_binding :                                             (* C19-12 *)
  verdict_of (kp_catchment [("DataSourcePath", VString "data.csv"); ("MaximumImplementationCost", VFloat 5000)])
    = VInterpretErrors [ELimitNotBinding]
  /\ verdict_of (supp_catchment [("DataSourcePath", VString "data.csv"); ("MaximumSedimentProduction", VFloat 5000)])
    = VInterpretErrors [ELimitNotBinding].
Proof. vm_compute. split; reflexivity. Qed.

(* the four configuration classes of the series C19c (each confirmed on the real code by harness/c19.go before the fixes) *)
Example C19_regression_large_floats :                                                  (* C19c-1: 2^1006 ~ 1e303 is logged and saved *)
  verdict_of (doc "P" "Kirkpatrick" [("MaximumIterations", VInt 3); ("DecisionVariable", VString "ObjectiveValue")]
                  "DumbModel" [("InitialObjectiveValue", VFloat (Base.Fl.fl 1 1006))])
    = VRun (Completed ["P-Summary.csv"]).
Proof. vm_compute. reflexivity. Qed.

Example C19_regression_path_collisions :                                               (* C19c-2, C19c-3 *)
  verdict_of (with_profile "out" (kp_catchment ex_limit)) = VInterpretErrors [EProfileBlocksOutput]
  /\ verdict_of (with_profile "./t/../out" (kp_catchment ex_limit)) = VInterpretErrors [EProfileBlocksOutput]
  /\ verdict_of (with_output "prof/out" Absent (with_profile "prof" (kp_catchment ex_limit))) = VInterpretErrors [EProfileBlocksOutput]
  /\ verdict_of (with_output "" Absent (with_profile "solutions" (kp_catchment ex_limit))) = VInterpretErrors [EProfileBlocksOutput]
  /\ verdict_of (with_profile "out2" (kp_catchment ex_limit)) = VRun (Completed ["P-Summary.csv"])
  /\ verdict_of (with_profile "data.csv" (kp_catchment ex_limit)) = VInterpretErrors [EProfileOverwritesInput]
  /\ verdict_of (with_profile "t/gullies.csv" (supp_catchment [("DataSourcePath", VString "tables.csv")]))
     = VInterpretErrors [EProfileOverwritesInput]
  /\ verdict_of (with_profile "t/prof" (supp_catchment [("DataSourcePath", VString "tables.csv")])) = VRun (Completed ["P-Summary.csv"]).
Proof. vm_compute. repeat split; reflexivity. Qed.

Example C19_regression_dangling_gully :                                                (* C19c-4 *)
  shape_ok ref_shape = true /\ gullies_known ref_shape_dangling = false
  /\ verdict_of (supp_catchment [("DataSourcePath", VString "tables.csv")]) = VRun (Completed ["P-Summary.csv"])
  /\ verdict_of (supp_catchment [("DataSourcePath", VString "dangling.csv")]) = VInterpretErrors [EModelData].
Proof. vm_compute. repeat split; reflexivity. Qed.

Example C19_regression_scenario_names :                                                (* C19c-5: one file per run, whatever the name *)
  verdict_of (with_runs 3 (doc "x Solution (1/2) y" "Suppapitnarm" [("MaximumIterations", VInt 3)] "DumbModel" []))
    = VRun (Completed ["xSolution(1_of_2)y(1_of_3)-Summary.csv"; "xSolution(1_of_2)y(2_of_3)-Summary.csv";
                       "xSolution(1_of_2)y(3_of_3)-Summary.csv"])
  /\ verdict_of (with_runs 2 (doc "Solution(" "Suppapitnarm" [("MaximumIterations", VInt 3)] "DumbModel" []))
    = VRun (Completed ["Solution((1_of_2)-Summary.csv"; "Solution((2_of_2)-Summary.csv"]).
Proof. vm_compute. split; reflexivity. Qed.

(* ================================================================================================================ *)
(* 4. D14b: what the randomisation loops do in /repo BEFORE fix C19-1 (ConfigLoops.rand_loop_old; = Limits.rand_loop until the Coq patch of C19-1 is applied)        *)
(* ================================================================================================================ *)
(* d_1100 = ref_d0 under MaximumImplementationCost = 1100 (attainable and binding: the two actions cost 1250);
   d_5000 = the same under 5000 (admits everything)  -- ConfigWitness.v *)

(* (i) off by one: the LAST attempt finds the boundary (the 1000-dollar action does not fit), the counter is 0, the loop panics;
       after the fix the same picks give the boundary state *)
Example C19_unfixed_loop_panics_although_the_boundary_was_found :
  wf_dataset d_1100 = true /\ state_is_valid d_1100 (start_extreme d_1100) = true /\ limit_binding d_1100 = true /\
  randomize_old d_1100 [1; 0]%nat (start_extreme d_1100) = LPanic /\
  match randomize_fx d_1100 [1; 0]%nat (start_extreme d_1100) with
  | LOk s => active_list d_1100 s = [false; true] /\ state_is_valid d_1100 s = true
  | _ => False
  end.
Proof. vm_compute. repeat split; reflexivity. Qed.

(* (ii) with every action already in the target state the unfixed loop never ends, whatever is picked; the fixed loop returns *)
Theorem C19_unfixed_loop_spins : forall d dir s a picks,
  (forall i, (i < nactions d)%nat -> st_active s i = dir) -> picks_ok d picks = true ->
  rand_loop_old d dir picks (S a) true s = LOutOfPicks.
Proof. exact unfixed_loop_spins. Qed.

Theorem C19_fixed_loop_returns : forall d dir s a picks, all_target d s dir = true ->
  rand_loop_fx d dir picks (S a) true s = LOk s.
Proof. exact fixed_loop_returns. Qed.

Print Assumptions C19_rejected_is_error_load.
Print Assumptions C19_rejected_is_error_interpret_partial.
Print Assumptions C19_rejected_is_error_refuted.
Print Assumptions C19_acceptance_gives_positive_counts.
Print Assumptions C19_acceptance_gives_shape.
Print Assumptions C19_accepted_runs_partial.
Print Assumptions C19_accepted_runs_refuted.
Print Assumptions C19_accepted_runs_refuted_in_a_usable_environment.
Print Assumptions C19_runs_write_distinct_files.
Print Assumptions C19_accepted_tables_are_consistent.
Print Assumptions C19_observers_never_panic.
Print Assumptions C19_loop_keeps_the_limit.
Print Assumptions C19_loop_ends_under_fair_picks.
Print Assumptions C19_binding_limit_never_panics.
Print Assumptions C19_every_run_completes.
Print Assumptions C19_unfixed_loop_spins.
Print Assumptions C19_fixed_loop_returns.
