(* C19 — Accepted configurations run to completion; rejected ones give errors, not panics.
   Statements only; every proof is [exact <lemma>] from ConfigProofs or a computation on a closed term.

   Model: Config.v  ([load], [interpret], [run_model] = the composition of the run-time components: runner (C08/C12 naming),
   annealing loop (C07, AnnealLoop.anneal_elapsed), explorer initialisation and iterations on the catchment model with its
   randomisation loops (C01/C03/C10, ConfigLoops.v), observers (invariant observer, iteration filter), saver).
   The theorems are about the code AFTER proposed fixes C19-1 (randomisation loops: panic only when no boundary was found;
   stop when nothing is left to toggle) and C19-2 (invariant observer skips events without ObjectiveValue); what the loops do
   BEFORE C19-1 (= Limits.rand_loop, the code in /repo until the fix is committed) is stated at the end.

   LEVEL: proof, PARTIAL -- the theorems are about the composition of the MODELLED components.  A panic inside code that is not
   transcribed (TOML decoder, logging back-ends, CPU profiler, Excel paths, CSV/JSON encoders) can only be met by the
   correspondence stream (harness/c19.go runs every generated document through the real pipeline in a child process).

   [F : facts] / [T : tables] are regenerated from the source on every check; the theorems below hold for ALL facts and tables
   meeting the boolean side conditions [facts_ok] / [tables_ok], which gen/obl_C19.v evaluates on the regenerated ones. *)
From Coq Require Import List ZArith QArith String Bool Arith Floats Lia.
From Crem Require Import Base.Res Params Saver AnnealLoop Catchment Limits LimitsProofs ConfigLoops Config ConfigSpec ConfigProofs ConfigRef ConfigWitness.
Import ListNotations.
Open Scope string_scope.
Open Scope list_scope.

(* ================================================================================================================ *)
(* 1. rejected => an error VALUE                                                                                     *)
(* ================================================================================================================ *)

(* FULL statement: neither loading nor interpreting ever panics *)
Definition C19_rejected_is_error_statement : Prop :=
  forall F T E c, tables_ok T = true -> nodupb (map fst (c_annealer_params c)) = true -> nodupb (map fst (c_model_params c)) = true ->
    load F c <> Crash /\ forall l, load F c = Done l -> interpret F T E l <> Crash.

(* the loader: full *)
Theorem C19_rejected_is_error_load : forall F c, load F c <> Crash.
Proof. exact load_never_crashes. Qed.

(* the interpreter: PARTIAL -- it loads the catchment data source while it wires the annealer to the model and the saver; if that
   file loads but lacks a table / column / any action, CoreModel.Initialise panics ([interpret_env_ok] excludes exactly that class
   of data source, and initial values of the multi-objective dumb model outside RoundFloat's range -- listed finding of C18) *)
Theorem C19_rejected_is_error_interpret_partial : forall F T, tables_ok T = true -> forall E l,
  nodupb (map fst (l_annealer_params l)) = true -> nodupb (map fst (l_model_params l)) = true ->
  interpret_env_ok F T E l = true -> interpret F T E l <> Crash.
Proof. exact interpret_never_crashes. Qed.

(* ... and the full statement is false of the faithful model: a readable data source without its tables *)
Theorem C19_rejected_is_error_refuted : ~ C19_rejected_is_error_statement.
Proof. exact rejected_is_error_refuted. Qed.

(* ================================================================================================================ *)
(* 2. accepted => every run completes and leaves its result                                                          *)
(* ================================================================================================================ *)

(* FULL statement *)
Definition C19_accepted_runs_statement : Prop :=
  forall F T E c l sc choices T0 a, facts_ok F = true -> tables_ok T = true ->
    load F c = Done l -> interpret F T E l = Done sc -> choices_ok sc choices ->
    exists summaries, run_model E sc choices T0 a = Completed summaries /\ List.length summaries = Z.to_nat (l_run_number l).

(* PARTIAL: what acceptance does NOT imply is collected in the boolean [run_preconditions E sc] (ConfigSpec.v):
     the model is not the NullModel;  the single-objective explorer's DecisionVariable exists in the model;
     a catchment model's data source is a well-formed data set, and a configured limit is attainable at the starting extreme and
     BINDING (it excludes the opposite extreme);  the output path is usable;  the CPU-profile file can be created;
     EXCEL output only where Excel exists;  RunNumber / MaximumConcurrentRunNumber below 2^63 (i.e. not negative in the TOML);
     [no_nl name] (side condition of the reused C12 lemma, not a defect).
   What acceptance DOES imply is derived: RunNumber >= 1, the reporting modulo >= 1 (iteration filter), every typed parameter getter
   finds its value (C18), the annealer is a real one, the observers' type assertions hold on every event of the modelled explorers.
   Random inputs are universally quantified; the pick lists are boundedly fair ([choices_ok]). *)
Theorem C19_accepted_runs_partial : forall F T, facts_ok F = true -> tables_ok T = true ->
  forall E c l sc choices T0 a,
  load F c = Done l -> interpret F T E l = Done sc ->
  nodupb (map fst (l_annealer_params l)) = true -> nodupb (map fst (l_model_params l)) = true ->
  run_preconditions E sc = true -> choices_ok sc choices ->
  exists summaries, run_model E sc choices T0 a = Completed summaries /\ List.length summaries = Z.to_nat (l_run_number l)
                    /\ (1 <= l_run_number l)%Z.
Proof. exact accepted_runs. Qed.

(* the pieces it is composed of *)
Theorem C19_acceptance_gives_positive_counts : forall F c l, facts_ok F = true -> load F c = Done l ->
  (1 <= l_run_number l)%Z /\ (1 <= l_report_every l)%Z.
Proof. exact accepted_counts. Qed.

Theorem C19_observers_never_panic : forall sc e cur, (1 <= s_modulo sc)%Z -> observers_ok sc e cur = true.
Proof. exact observers_fine. Qed.

Theorem C19_loop_keeps_the_limit : forall d, wf_dataset d = true -> forall dir picks attempts valid s s',
  Valid d s -> picks_ok d picks = true -> rand_loop_fx d dir picks attempts valid s = LOk s' -> Valid d s'.
Proof. exact rand_loop_fx_valid. Qed.

Theorem C19_loop_ends_under_fair_picks : forall d dir attempts picks valid s,
  fairk (nactions d) attempts picks -> rand_loop_fx d dir picks attempts valid s <> LOutOfPicks.
Proof. exact rand_loop_fx_ends. Qed.

Theorem C19_binding_limit_never_panics : forall d, wf_dataset d = true -> forall k m picks s,
  d_limit d = Some (k, m) -> limit_binding d = true -> Valid d s -> picks_ok d picks = true ->
  rand_loop_fx d (loop_dir k) picks (nactions d) true s <> LPanic.
Proof. exact binding_no_panic. Qed.

Theorem C19_every_run_completes : forall E sc r ch T0 a,
  (1 <= s_modulo sc)%Z -> run_preconditions E sc = true ->
  match dataset_of sc with Some d => choice_ok d ch | None => True end ->
  exists f, run_one E sc r ch T0 a = R1Files f.
Proof. exact run_one_completes. Qed.

(* ---- non-vacuity: a document meeting every hypothesis, for the single- and the multi-objective annealer, under a binding limit *)
Definition ex_limit : pmap := [("DataSourcePath", VString "data.csv"); ("MaximumImplementationCost", VFloat 1100)].

Example C19_example_hypotheses_met :
  facts_ok ref_facts = true /\ tables_ok ref_tables = true /\
  match load ref_facts (with_runs 2 (kp_catchment ex_limit)) with
  | Done l => match interpret ref_facts ref_tables ref_env l with
              | Done sc => run_preconditions ref_env sc && negb (match s_limit sc with None => true | _ => false end)
              | _ => false
              end
  | _ => false
  end = true.
Proof. vm_compute. repeat split; reflexivity. Qed.

Example C19_example_fair_choice : choice_ok (with_limit ref_d0 (Some (VIC, 1100 # 1))) ref_choice.
Proof. exact ref_choice_ok. Qed.

Example C19_example_runs :
  pipeline ref_facts ref_tables ref_env (with_runs 2 (kp_catchment ex_limit)) (fun _ => ref_choice)
    = VRun (Completed ["P(1_of_2)-Summary.csv"; "P(2_of_2)-Summary.csv"])
  /\ pipeline ref_facts ref_tables ref_env (with_output "out" (Value "JSON") (supp_catchment ex_limit)) (fun _ => ref_choice)
    = VRun (Completed ["P-Summary.json"]).
Proof. vm_compute. split; reflexivity. Qed.

(* ---- rejection examples: errors, not panics ---- *)
Example C19_example_rejections :
  pipeline ref_facts ref_tables ref_env (with_runs 0 (kp_catchment ex_limit)) (fun _ => ref_choice)
    = VLoadErrors [EMandatory "Scenario.RunNumber"]
  /\ pipeline ref_facts ref_tables ref_env
       (kp_catchment [("DataSourcePath", VString "missing.csv"); ("MaximumImplementationCost", VFloat 1); ("MaximumOpportunityCost", VFloat 1)])
       (fun _ => ref_choice)
    = VInterpretErrors [EModelParam "DataSourcePath"; EModelLimits]
  /\ pipeline ref_facts ref_tables ref_env (with_output "out" (Value "XML") (kp_catchment ex_limit)) (fun _ => ref_choice)
    = VLoadErrors [EDecode].
Proof. vm_compute. repeat split; reflexivity. Qed.

(* ================================================================================================================ *)
(* 3. the full statement is false of the faithful model: one witness per missing precondition (each confirmed on the  *)
(*    real code by harness/c19.go -- the hazard class of the generated documents is named on the right)              *)
(* ================================================================================================================ *)
Definition accepted_but (c : config) (r : run_result) : Prop :=
  pipeline ref_facts ref_tables ref_env c (fun _ => ref_choice) = VRun r.

Example C19_witness_null_model :                                                        (* null-model *)
  accepted_but (doc "P" "Suppapitnarm" [("MaximumIterations", VInt 3)] "NullModel" []) RunCrash.
Proof. vm_compute. reflexivity. Qed.

Example C19_witness_decision_variable :                                                 (* decision-variable-not-offered *)
  accepted_but (doc "P" "Kirkpatrick" [("MaximumIterations", VInt 3)] "CatchmentModel" [("DataSourcePath", VString "data.csv")]) RunCrash
  /\ accepted_but (doc "P" "Kirkpatrick" [("DecisionVariable", VString "Bogus")] "MultiObjectiveDumbModel" []) RunCrash.
Proof. vm_compute. split; reflexivity. Qed.

Example C19_witness_data_source :                                                       (* data-source-absent / -not-a-data-set *)
  accepted_but (supp_catchment []) RunCrash
  /\ accepted_but (supp_catchment [("DataSourcePath", VString "notes.txt")]) RunCrash.
Proof. vm_compute. split; reflexivity. Qed.

Example C19_witness_limit_not_binding :                                                 (* limit-not-binding *)
  accepted_but (kp_catchment [("DataSourcePath", VString "data.csv"); ("MaximumImplementationCost", VFloat 5000)]) RunCrash
  /\ accepted_but (supp_catchment [("DataSourcePath", VString "data.csv"); ("MaximumSedimentProduction", VFloat 5000)]) RunCrash.
Proof. vm_compute. split; reflexivity. Qed.

Example C19_witness_excel : accepted_but (with_output "out" (Value "EXCEL") (kp_catchment ex_limit)) RunCrash.   (* excel-output-without-excel *)
Proof. vm_compute. reflexivity. Qed.

Example C19_witness_negative_run_number : accepted_but (with_runs (-1) (kp_catchment ex_limit)) RunCrash.        (* negative-run-number *)
Proof. vm_compute. reflexivity. Qed.

Example C19_witness_output_path : accepted_but (with_output "file" Absent (kp_catchment ex_limit)) RunCrash.     (* output-path-not-a-directory *)
Proof. vm_compute. reflexivity. Qed.

Theorem C19_accepted_runs_refuted : ~ C19_accepted_runs_statement.
Proof. exact accepted_runs_refuted. Qed.

(* ================================================================================================================ *)
(* 4. D14b: what the randomisation loops do in /repo BEFORE fix C19-1 (ConfigLoops.rand_loop_old; = Limits.rand_loop until the Coq patch of C19-1 is applied)        *)
(* ================================================================================================================ *)
(* d_1100 = ref_d0 under MaximumImplementationCost = 1100 (attainable and binding: the two actions cost 1250);
   d_5000 = the same under 5000 (admits everything)  -- ConfigWitness.v *)

(* (i) off by one: the LAST attempt finds the boundary (the 1000-dollar action does not fit), the counter is 0, the loop panics;
       after the fix the same picks give the boundary state *)
Example C19_unfixed_loop_panics_although_the_boundary_was_found :
  wf_dataset d_1100 = true /\ state_is_valid d_1100 (start_extreme d_1100) = true /\ limit_binding d_1100 = true /\
  randomize_old d_1100 [1; 0]%nat (start_extreme d_1100) = LPanic /\
  match randomize_fx d_1100 [1; 0]%nat (start_extreme d_1100) with
  | LOk s => active_list d_1100 s = [false; true] /\ state_is_valid d_1100 s = true
  | _ => False
  end.
Proof. vm_compute. repeat split; reflexivity. Qed.

(* (ii) with every action already in the target state the unfixed loop never ends, whatever is picked; the fixed loop returns *)
Theorem C19_unfixed_loop_spins : forall d dir s a picks,
  (forall i, (i < nactions d)%nat -> st_active s i = dir) -> picks_ok d picks = true ->
  rand_loop_old d dir picks (S a) true s = LOutOfPicks.
Proof. exact unfixed_loop_spins. Qed.

Theorem C19_fixed_loop_returns : forall d dir s a picks, all_target d s dir = true ->
  rand_loop_fx d dir picks (S a) true s = LOk s.
Proof. exact fixed_loop_returns. Qed.

Print Assumptions C19_rejected_is_error_load.
Print Assumptions C19_rejected_is_error_interpret_partial.
Print Assumptions C19_rejected_is_error_refuted.
Print Assumptions C19_accepted_runs_partial.
Print Assumptions C19_acceptance_gives_positive_counts.
Print Assumptions C19_observers_never_panic.
Print Assumptions C19_loop_keeps_the_limit.
Print Assumptions C19_loop_ends_under_fair_picks.
Print Assumptions C19_binding_limit_never_panics.
Print Assumptions C19_every_run_completes.
Print Assumptions C19_accepted_runs_refuted.
Print Assumptions C19_unfixed_loop_spins.
Print Assumptions C19_fixed_loop_returns.
