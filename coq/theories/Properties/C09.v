From Coq Require Import List NArith ZArith String Ascii Bool.
From Crem Require Import Base.Res BoolArchive ActionOrder ActionCodec.
Import ListNotations.
Example C09_example : encoding_of [true;false;true;true] = Ok "D"%string.
Proof. vm_compute. reflexivity. Qed.
