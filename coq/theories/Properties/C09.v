(* C09 — Action-set encodings are canonical, lossless and portable across model instances.
   Statements only; every proof is [exact <lemma>] from BoolArchiveProofs / ActionOrderProofs /
   ActionCodecProofs.  No bound on the archive size anywhere: sizes that are not multiples of 64 and
   sizes above 64 are instances of the general statements (see the Examples at the end).

   Model: BoolArchive.v (pkg/archive/BooleanArchive.go as written: uint64 words, [w + mask] / [w - mask]
   behind the [(w & mask > 0) == value] guard, memo field, %X / strings.Split / ParseUint),
   ActionOrder.v (ManagementActions.Less, Sort), ActionCodec.v (ModelCompressor between instances). *)
From Coq Require Import List NArith ZArith String Ascii Bool Permutation Sorted.
From Crem Require Import Base.Res BoolArchive BoolArchiveProofs ActionOrder ActionOrderProofs ActionCodec ActionCodecProofs.
Import ListNotations.

(* ---------------------------------------------------------------------------------------------- *)
(** 1. The word arithmetic as written is bit setting / clearing (for every 64-bit word, every offset). *)

Theorem C09_word_arithmetic_refines : forall w off v, lt64 w -> (off < 64)%N ->
  word_as_written w off v = if v then N.setbit w off else N.clearbit w off.
Proof. exact word_as_written_refines. Qed.

(* SetValue(k, v) on a well-formed archive of ANY size, k inside: never panics, keeps the invariant,
   resets the memo, and changes exactly bit k of the abstract bit vector. *)
Theorem C09_set_value_refines : forall a k v, wf a -> k < a_size a ->
  exists a', set_value a (Z.of_nat k) v = Ok a' /\ wf a' /\ a_size a' = a_size a /\ a_memo a' = EmptyString
    /\ forall j, bit_at (a_words a') j = if Nat.eqb j k then v else bit_at (a_words a) j.
Proof. exact set_value_spec. Qed.

Theorem C09_value_reads_bit : forall a k, wf a -> k < a_size a -> value a (Z.of_nat k) = Ok (bit_at (a_words a) k).
Proof. exact value_spec. Qed.

(* what ModelCompressor.compressActions builds (New(len); SetValue(index, flag) in order) is the little-endian
   packing of the flags into 64-bit words, with an empty memo; it satisfies the representation invariant
   ([wf], a boolean: wfb_iff) and its abstract bit vector is the flag list *)
Theorem C09_build_is_packing : forall bs,
  build bs = Ok (of_bits bs) /\ wf (of_bits bs) /\ bits (of_bits bs) = bs.
Proof. exact build_packing. Qed.

(* ---------------------------------------------------------------------------------------------- *)
(** 2. Lossless: round trip, for every size n >= 1. *)

Theorem C09_roundtrip : forall bs, bs <> [] ->
  decode (new_archive (List.length bs)) (snd (encoding (of_bits bs))) = Ok (of_bits bs, true).
Proof. exact roundtrip_of_bits. Qed.

(* ... into ANY well-formed archive of that size, whatever it held and whatever its memo was *)
Theorem C09_roundtrip_any_target : forall a b, wf a -> wf b -> a_size a = a_size b -> 1 <= a_size a ->
  decode b (encode_words (a_words a)) = Ok (mk_archive (a_size b) (a_words a) EmptyString, true).
Proof. exact decode_encoding. Qed.

(* size 0 is outside the property (n >= 1) and the round trip really fails there: "" splits into one entry *)
Example C09_size0_not_roundtrip :
  decode (new_archive 0) (snd (encoding (of_bits []))) = Ok (new_archive 0, false).
Proof. exact size0_not_roundtrip. Qed.

(* Decode of ANY text into a well-formed archive: total (no panic), keeps the invariant, accepts exactly the
   texts with one ParseUint-able entry per word, then holds the parsed words cut to the size (garbage in the
   unused high bits is cleared); a rejected text changes nothing *)
Theorem C09_decode_total : forall a s, wf a ->
  exists a', decode a s = Ok (a', decode_accepts (List.length (a_words a)) s)
    /\ wf a' /\ a_size a' = a_size a
    /\ (decode_accepts (List.length (a_words a)) s = true ->
          a_memo a' = EmptyString
          /\ exists vs, map Some vs = map parse_uint_hex64 (split_colon s)
                        /\ forall j, j < a_size a -> bit_at (a_words a') j = bit_at vs j)
    /\ (decode_accepts (List.length (a_words a)) s = false -> a' = a).
Proof. exact decode_spec. Qed.

(* A text that Decode rejects (wrong number of entries, or an entry ParseUint refuses -- wherever it stands)
   leaves the archive exactly as it was: words, memo, size.  For EVERY archive, even an ill-formed one.
   (Before fix C09-1 the entries preceding the bad one had already been stored.) *)
Theorem C09_rejected_decode_leaves_archive_unchanged : forall a s,
  decode_accepts (List.length (a_words a)) s = false -> decode a s = Ok (a, false).
Proof. exact decode_rejected_unchanged. Qed.

(* ---------------------------------------------------------------------------------------------- *)
(** 3. Canonical: on archives of one size, equal encodings <-> equal bit vectors. *)

Theorem C09_canonical : forall b1 b2, List.length b1 = List.length b2 ->
  (snd (encoding (of_bits b1)) = snd (encoding (of_bits b2)) <-> b1 = b2).
Proof. exact canonical_of_bits. Qed.

Theorem C09_canonical_wf : forall a b, wf a -> wf b -> a_size a = a_size b ->
  (encode_words (a_words a) = encode_words (a_words b) <-> bits a = bits b).
Proof. exact canonical. Qed.

(* every archive reachable from New(n) by ANY calls (any index, any text) is well-formed, so the two theorems
   above apply to it *)
Theorem C09_reachable_well_formed : forall n ops,
  wf (run (new_archive n) ops) /\ a_size (run (new_archive n) ops) = n.
Proof. exact reachable_wf. Qed.

(* ---------------------------------------------------------------------------------------------- *)
(** 4. The memoised encoding is sound over histories. *)

(* After ANY sequence of SetValue (any index, any value; the panicking ones change nothing), Encoding() and
   Decode (any text, accepted or rejected) on New(n), Encoding() answers the encoding of the bits held at that
   moment.  No hypothesis on the history. *)
Theorem C09_cache_sound : forall n ops,
  let a := run (new_archive n) ops in
  snd (encoding a) = encode_words (a_words a) /\ wf a /\ a_size a = n.
Proof. exact cache_sound. Qed.

(* Regression of the defect repaired by fix C09-1: this history was the witness of a stale memo (Decode rejected
   at its second entry had stored the first word and kept the memo "0:0" while holding [1; 0]). *)
Example C09_rejected_decode_regression :
  let a := run (new_archive 65) [OpEncode; OpDecode "1:zz"; OpEncode] in
  snd (encoding a) = "0:0"%string /\ encode_words (a_words a) = "0:0"%string /\ a_words a = [0%N; 0%N].
Proof. exact rejected_decode_regression. Qed.

(* ---------------------------------------------------------------------------------------------- *)
(** 5. The action order is a deterministic function of the data. *)

Theorem C09_order_deterministic : forall {A} (key_of : A -> key) l1 l2,
  NoDup (map key_of l1) -> Permutation l1 l2 -> sort_actions key_of l1 = sort_actions key_of l2.
Proof. exact @sort_deterministic. Qed.

(* sort.Sort is not verified, only its contract is assumed: ANY function returning a sorted permutation
   ("not Less(later, earlier)") agrees with the model's sort on lists with distinct keys *)
Theorem C09_any_sort_agrees : forall {A} (key_of : A -> key) (sort' : list A -> list A),
  (forall l, Permutation l (sort' l) /\ StronglySorted (le_act key_of) (sort' l)) ->
  forall l1 l2, NoDup (map key_of l1) -> Permutation l1 l2 -> sort' l1 = sort_actions key_of l2.
Proof. exact @any_sort_agrees. Qed.

(* ---------------------------------------------------------------------------------------------- *)
(** 6. Portable: Compress -> Encoding -> Decode -> Decompress into another instance. *)

(* between any two flag vectors of one length n >= 1: the target ends up with the source's flags *)
Theorem C09_transfer : forall src dst, src <> [] -> List.length src = List.length dst ->
  transfer src dst = Ok (Some src).
Proof. exact transfer_spec. Qed.

(* two instances of one scenario = the same distinct (planning unit, type) keys gathered in two arbitrary orders
   (Go map iteration); any action set of the first arrives on the second as the same active set *)
Theorem C09_portable : forall g1 g2 act1 act2 flags,
  g1 <> [] -> NoDup g1 -> Permutation g1 g2 -> List.length flags = List.length g1 ->
  let src := mk_instance (i_keys (new_instance g1 act1)) flags in
  let dst := new_instance g2 act2 in
  exists dst', transfer_instance src dst = Ok (Some dst')
    /\ i_keys dst' = i_keys src /\ i_active dst' = flags /\ active_keys dst' = active_keys src.
Proof. exact portable. Qed.

(* "and therefore the same decision-variable values": for ANY valuation that is a function of the active set
   (that the catchment model's is one is property C01) *)
Theorem C09_portable_values : forall {V} (eval : list key -> V) g1 g2 act1 act2 flags,
  g1 <> [] -> NoDup g1 -> Permutation g1 g2 -> List.length flags = List.length g1 ->
  let src := mk_instance (i_keys (new_instance g1 act1)) flags in
  let dst := new_instance g2 act2 in
  exists dst', transfer_instance src dst = Ok (Some dst') /\ eval (active_keys dst') = eval (active_keys src).
Proof. exact @portable_values. Qed.

(* ---------------------------------------------------------------------------------------------- *)
(** Non-vacuity: concrete instances of the hypotheses and of the sizes the property singles out. *)

Definition ex_bits (n : nat) : list bool := map (fun i => Nat.eqb (Nat.modulo i 3) 0 || Nat.eqb i 64) (seq 0 n).

Example C09_example_size_65 :
  encode_bits (ex_bits 65) = Ok "9249249249249249:1"%string
  /\ decode (new_archive 65) "9249249249249249:1" = Ok (of_bits (ex_bits 65), true).
Proof. vm_compute. split; reflexivity. Qed.

Example C09_example_size_130 :
  encode_bits (ex_bits 130) = Ok "9249249249249249:4924924924924925:2"%string
  /\ wfb (of_bits (ex_bits 130)) = true
  /\ match decode (of_bits (ex_bits 130)) "9249249249249249:4924924924924925:2" with
     | Ok (a, true) => Some (bits a) | _ => None end = Some (ex_bits 130).
Proof. vm_compute. repeat split; reflexivity. Qed.

(* Decode is not injective (lower case, leading zeros, garbage in the unused high bits), which is why
   canonicity is a statement about Encoding() *)
Example C09_example_decode_not_injective :
  decode (new_archive 3) "5" = decode (new_archive 3) "0005"
  /\ decode (new_archive 3) "d" = decode (new_archive 3) "D"
  /\ decode (new_archive 3) "FD" = decode (new_archive 3) "5".
Proof. vm_compute. repeat split; reflexivity. Qed.

(* a history with mutations after a memoised Encoding(), rejected Decodes (at the first and at the second entry),
   a successful Decode, an out-of-range and a negative index *)
Example C09_example_history :
  let ops := [OpSet 0 true; OpEncode; OpSet 64 true; OpSet 65 true; OpSet (-1) true; OpEncode; OpDecode "zz:1"; OpDecode "1:zz";
              OpEncode; OpDecode "ffffffffffffffff:ff"; OpEncode; OpSet 3 false] in
  snd (encoding (run (new_archive 65) ops)) = "FFFFFFFFFFFFFFF7:1"%string
  /\ snd (encoding (run (new_archive 65) (firstn 9 ops))) = "1:1"%string.
Proof. vm_compute. split; reflexivity. Qed.

(* the catchment action types, gathered in two orders *)
Definition ex_g1 : list key :=
  [(18, "RiverBankRestoration"); (3, "GullyRestoration"); (18, "HillSlopeRestoration"); (3, "WetlandsEstablishment");
   (18, "GullyRestoration")]%N%string.
Definition ex_g2 : list key :=
  [(3, "WetlandsEstablishment"); (18, "GullyRestoration"); (18, "RiverBankRestoration"); (18, "HillSlopeRestoration");
   (3, "GullyRestoration")]%N%string.

Example C09_example_instances :
  sort_actions (fun k => k) ex_g1 = sort_actions (fun k => k) ex_g2
  /\ sort_actions (fun k => k) ex_g1
     = [(3, "GullyRestoration"); (3, "WetlandsEstablishment"); (18, "GullyRestoration"); (18, "HillSlopeRestoration");
        (18, "RiverBankRestoration")]%N%string
  /\ transfer_instance (mk_instance (i_keys (new_instance ex_g1 (fun _ => false))) [true; false; false; true; true])
                       (new_instance ex_g2 (fun _ => true))
     = Ok (Some (mk_instance (sort_actions (fun k => k) ex_g1) [true; false; false; true; true])).
Proof. vm_compute. repeat split; reflexivity. Qed.

Example C09_example_hypotheses : NoDup ex_g1 /\ Permutation ex_g1 ex_g2.
Proof.
  split.
  - repeat constructor; cbn; intuition discriminate.
  - unfold ex_g1, ex_g2.
    apply perm_trans with ((3, "WetlandsEstablishment")%N%string :: [(18, "RiverBankRestoration"); (3, "GullyRestoration");
                            (18, "HillSlopeRestoration"); (18, "GullyRestoration")]%N%string).
    { apply Permutation_sym. apply (Permutation_middle [(18, "RiverBankRestoration"); (3, "GullyRestoration");
                            (18, "HillSlopeRestoration")]%N%string). }
    apply perm_skip.
    apply perm_trans with ((18, "GullyRestoration")%N%string :: [(18, "RiverBankRestoration"); (3, "GullyRestoration");
                            (18, "HillSlopeRestoration")]%N%string).
    { apply Permutation_sym. apply (Permutation_middle [(18, "RiverBankRestoration"); (3, "GullyRestoration");
                            (18, "HillSlopeRestoration")]%N%string []). }
    apply perm_skip. apply perm_skip. apply perm_swap.
Qed.

Print Assumptions C09_word_arithmetic_refines.
Print Assumptions C09_set_value_refines.
Print Assumptions C09_value_reads_bit.
Print Assumptions C09_build_is_packing.
Print Assumptions C09_roundtrip.
Print Assumptions C09_roundtrip_any_target.
Print Assumptions C09_decode_total.
Print Assumptions C09_rejected_decode_leaves_archive_unchanged.
Print Assumptions C09_canonical.
Print Assumptions C09_canonical_wf.
Print Assumptions C09_reachable_well_formed.
Print Assumptions C09_cache_sound.
Print Assumptions C09_order_deterministic.
Print Assumptions C09_any_sort_agrees.
Print Assumptions C09_transfer.
Print Assumptions C09_portable.
Print Assumptions C09_portable_values.
