(* C01 — Model valuation depends only on the active action set (history independence).
   Statements only; proofs are in CatchmentProofs.v. *)
From Coq Require Import List ZArith QArith Bool.
From Crem Require Import Base.Fl Catchment CatchmentProofs.
Import ListNotations.

(* For every well-formed data set and EVERY finite history over the operation alphabet
   (propose+accept, propose+revert, propose+accept+revert, set(i,b), initialising (de)activation —
   the building block of the randomisation loops and of initialise(random) —, synchronise /
   decompress(bits), re-initialise): all observables (active bits, six totals, every per-unit value,
   in grid units) equal those of a freshly initialised model to which exactly that set is applied. *)
Theorem C01_history_independence :
  forall d h, wf_dataset d = true -> wf_history d h = true ->
    obs_of d (run d h) = obs_of d (apply_set d (active_list d (run d h))).
Proof. exact (fun d h Hd Hh => history_independence d Hd h Hh). Qed.
Print Assumptions C01_history_independence.

(* ... and are THE valuation of the active set (the spec: canon_obs mentions no history at all) *)
Theorem C01_obs_is_valuation :
  forall d h, wf_dataset d = true -> wf_history d h = true ->
    obs_of d (run d h) = canon_obs d (st_active (run d h)).
Proof. exact (fun d h Hd Hh => obs_is_valuation d Hd h Hh). Qed.
Print Assumptions C01_obs_is_valuation.

Theorem C01_same_set_same_values :
  forall d h1 h2, wf_dataset d = true -> wf_history d h1 = true -> wf_history d h2 = true ->
    active_list d (run d h1) = active_list d (run d h2) ->
    obs_of d (run d h1) = obs_of d (run d h2).
Proof. exact (fun d h1 h2 Hd H1 H2 => same_set_same_values d Hd h1 h2 H1 H2). Qed.
Print Assumptions C01_same_set_same_values.

(* non-vacuity: a small data set with two planning units and three actions (one unit carries a gully
   and a river-bank action) satisfies wf_dataset, and a history using every operation is well formed *)
Definition ex_d : dataset :=
  mkData [3; 5]%Z
    [ mkAction 3 Gully [(OriginalGullySediment, 7 # 2); (ActionedGullySediment, 1 # 2); (ImplementationCostVar, 1000 # 1)];
      mkAction 3 Riparian [(OriginalBufferVegetation, 1 # 5); (ActionedBufferVegetation, 3 # 4);
                            (OriginalRiparianSedimentProduction, 9 # 1); (ActionedRiparianSedimentProduction, 2 # 1);
                            (ImplementationCostVar, 250 # 1)];
      mkAction 5 HillSlope [(HillSlopeErosionOriginalAttribute, 11 # 3); (HillSlopeErosionActionedAttribute, 5 # 3)] ]
    (fun _ _ => mkCtx (1 # 5) (9 # 1) (7 # 2) (11 # 3) 0 0) None.
Definition ex_h : list op :=
  [TryAccept 0; TryRevert 1; TryAcceptRevert 2; SetAct 1 true; InitSet 2 true true; Sync [false; true; true]; Reinit; TryAccept 2].
Example C01_nonvacuous : wf_dataset ex_d = true /\ wf_history ex_d ex_h = true /\
  active_list ex_d (run ex_d ex_h) = [false; false; true].
Proof. vm_compute. repeat split. Qed.
