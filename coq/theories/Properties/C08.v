(* C08 — Runs of a scenario are independent and safe to execute concurrently.
   Statements only; every proof is [exact <lemma>] from CloneIndepProofs.

   Model: CloneIndep.v.  A run = deterministic step function over the values of ITS OWN locations
   [fp] and its own choice stream; the runner (scenario.Runner.runScenario) = arbitrary list of
   actions (main goroutine / step of run i), a blocked goroutine being a no-op; semaphore of size
   c, WaitGroup, a panic in a run goroutine terminating the process.  All theorems quantify over
   EVERY schedule [sch], every number of runs [length P], every c (>= 1 where needed).

   PARTIAL (what the model cannot exhibit): Go-memory-model data races as such and races on
   process-wide state (working directory); whether two real clones share a location is decided by
   the alias translator (gen/Alias.v, side condition [pairwise_disjointb footprints = true]) and by
   the AST fact [global_write_sites = []]; goroutine-safety of the observers shared by design
   (loggers) is outside the model; the result saver's shared decompression model is modelled at the
   granularity of lock / load / read / unlock instructions (SharedSection.v, theorems 9-10 below), the
   instruction sequence of a real save being observed by the harness's probe (gen/SaverTrace.v). *)
From Coq Require Import List NArith ZArith QArith Bool Arith.
From Crem Require Import Base.Res CloneIndep CloneIndepProofs SharedSection SharedSectionProofs.
Import ListNotations.
Local Open Scope nat_scope.

(* 1. Non-interference.  If the footprints are pairwise disjoint then, after ANY schedule, run i
   has emitted exactly the events of its solo execution up to its own step counter, its private
   locations hold exactly the solo values, and its phase agrees with the solo status. *)
Theorem C08_noninterference : forall P c ch m0 sch,
  pairwise_disjointb (map fp P) = true ->
  forall i, i < length P ->
  let s := exec P c ch sch (init_state m0) in
  let p := nth i P idle_prog in
  let so := solo p (ch i) m0 (pc (runs s i)) in
  events_of i (trace s) = so_events so /\
  (forall l, In l (fp p) -> smem s l = so_mem so l) /\
  view (fp p) (smem s) = view (fp p) (so_mem so) /\
  (ph (runs s i) = Idle -> pc (runs s i) = 0) /\
  (ph (runs s i) = Running -> crashed s = false -> so_status so = Going) /\
  (ph (runs s i) = Ran \/ ph (runs s i) = Released \/ ph (runs s i) = Finished -> so_status so = Fin).
Proof. exact noninterference. Qed.

(* 2. Once runWaitGroup.Wait() has returned: every run was started exactly once, executed its
   COMPLETE solo run (the solo execution is finished at that step count and stays put), and
   called Done exactly once. *)
Theorem C08_complete_runs_equal_solo : forall P c ch m0 sch,
  pairwise_disjointb (map fp P) = true ->
  let s := exec P c ch sch (init_state m0) in
  returned s = true ->
  forall i, i < length P ->
  let p := nth i P idle_prog in
  let k := pc (runs s i) in
  ph (runs s i) = Finished /\
  so_status (solo p (ch i) m0 k) = Fin /\
  (forall k', k <= k' -> solo p (ch i) m0 k' = solo p (ch i) m0 k) /\
  events_of i (trace s) = so_events (solo p (ch i) m0 k) /\
  view (fp p) (smem s) = view (fp p) (so_mem (solo p (ch i) m0 k)) /\
  count (is_spawn i) (trace s) = 1 /\ count (is_release i) (trace s) = 1 /\ count (is_done i) (trace s) = 1.
Proof. exact complete_runs. Qed.

(* 3. The runner's counting argument (no disjointness needed): at every point of every schedule
   at most c runs hold a slot, the runs executing run code are among them, runs are spawned in
   order and at most once, Done is called at most once per run, the WaitGroup never goes
   negative, and when Wait returns all R runs are finished and the channel is empty. *)
Theorem C08_runner_counting : forall P c ch m0 sch,
  let s := exec P c ch sch (init_state m0) in
  inflight s <= c /\
  countp occupying (runs s) (length P) = inflight s /\
  countp is_running (runs s) (length P) <= c /\
  next s <= length P /\
  countp not_idle (runs s) (length P) = next s /\
  countp is_finished (runs s) (length P) = ndone s /\
  ndone s <= next s /\
  wgpanic s = false /\
  (forall i, i < length P ->
     count (is_spawn i) (trace s) = (if not_idle (runs s i) then 1 else 0) /\
     count (is_release i) (trace s) = (if past_release (runs s i) then 1 else 0) /\
     count (is_done i) (trace s) = (if is_finished (runs s i) then 1 else 0)) /\
  (returned s = true -> next s = length P /\ ndone s = length P /\ inflight s = 0).
Proof. exact runner_counting. Qed.

(* 4. No deadlock for c >= 1: while the scenario has neither returned nor crashed, some
   goroutine can move; and an action that is not enabled changes nothing. *)
Theorem C08_progress : forall P c ch m0 sch, 1 <= c ->
  let s := exec P c ch sch (init_state m0) in
  crashed s = false -> returned s = false -> exists a, enabled P c s a = true.
Proof. exact progress. Qed.

Theorem C08_disabled_action_is_noop : forall P c ch s a, enabled P c s a = false -> step P c ch s a = s.
Proof. exact disabled_stutters. Qed.

(* c = 0 (refused by Runner.WithMaximumConcurrentRuns) deadlocks at once: c >= 1 is needed. *)
Theorem C08_zero_slots_deadlock : forall P m0 a, 1 <= length P -> enabled P 0 (init_state m0) a = false.
Proof. exact zero_slots_deadlock. Qed.

(* 5. The annealing run as the Runner starts it (code after fix D4): R clones with their own
   temperature / iteration / archive cells.  Their footprints are disjoint for every R ... *)
Theorem C08_clones_disjoint : forall T0 cf N R, pairwise_disjointb (map fp (fixed_progs T0 cf N R)) = true.
Proof. exact fixed_progs_disjoint. Qed.

(* ... so under EVERY interleaving what run i has emitted so far is a prefix of its full solo
   trace, and equals it once the scenario has returned (started once, finished once) ... *)
Theorem C08_every_run_is_a_prefix_of_its_solo_trace : forall T0 cf N R c ch m0 sch i, i < R ->
  let s := exec (fixed_progs T0 cf N R) c ch sch (init_state m0) in
  exists more, full_trace T0 cf N i (ch i) m0 = events_of i (trace s) ++ more.
Proof. exact fixed_runs_prefix. Qed.

Theorem C08_every_run_completes_its_solo_trace : forall T0 cf N R c ch m0 sch,
  let s := exec (fixed_progs T0 cf N R) c ch sch (init_state m0) in
  returned s = true -> forall i, i < R ->
  events_of i (trace s) = full_trace T0 cf N i (ch i) m0 /\
  count (is_spawn i) (trace s) = 1 /\ count (is_done i) (trace s) = 1.
Proof. exact fixed_runs_complete. Qed.

(* ... and that full trace starts at the configured T0 with an empty archive, its first
   iteration is iteration 1 at T0, it has N iterations, one StartedAnnealing and exactly one
   FinishedAnnealing — whatever the memory held before and whatever the other runs do. *)
Theorem C08_full_trace_starts_fresh_finishes_once : forall T0 cf N i ch m0,
  (exists rest, full_trace T0 cf N i ch m0 = (tagStartedAnnealing, [T0; 0%Q]) :: rest) /\
  (1 <= N -> exists rest, full_trace T0 cf N i ch m0 =
       (tagStartedAnnealing, [T0; 0%Q]) :: (tagStartedIteration, [(0 + 1)%Q; T0; 0%Q]) :: rest) /\
  count_tag tagStartedAnnealing (full_trace T0 cf N i ch m0) = 1 /\
  count_tag tagStartedIteration (full_trace T0 cf N i ch m0) = N /\
  count_tag tagFinishedAnnealing (full_trace T0 cf N i ch m0) = 1.
Proof. exact full_trace_shape. Qed.

(* 6. Refutation of the shared-coolant shape (suppapitnarm.Explorer.DeepClone before fix D4:
   every clone holds the prototype's coolant).  Two runs, strictly sequential (c = 1), T0 = 100,
   cooling factor 19/20, N = 3: the footprints overlap, the scenario completes, run 1 starts at
   T0 but run 2 starts at T0 * cf^3, although its solo execution starts at T0. *)
Theorem C08_shared_coolant_refuted :
  pairwise_disjointb (map fp d4_progs) = false /\
  returned d4_final = true /\
  first_with tagStartedAnnealing (events_of 0 (trace d4_final)) = Some [d4_T0; 0%Q] /\
  first_with tagStartedAnnealing (events_of 1 (trace d4_final)) = Some [(d4_T0 * d4_cf * d4_cf * d4_cf)%Q; 0%Q] /\
  ~ (d4_T0 * d4_cf * d4_cf * d4_cf == d4_T0)%Q /\
  first_with tagStartedAnnealing
    (so_events (solo (nth 1 d4_progs idle_prog) (d4_ch 1) d4_m0 (pc (runs d4_final 1)))) = Some [d4_T0; 0%Q] /\
  events_of 1 (trace d4_final) <> so_events (solo (nth 1 d4_progs idle_prog) (d4_ch 1) d4_m0 (pc (runs d4_final 1))).
Proof. exact shared_coolant_refuted. Qed.

(* 7. Termination.  A schedule in which every action is enabled when taken (what a real execution
   is) has bounded length whenever each run alone stops within [bound i] steps; a schedule that
   cannot be extended has returned or crashed (c >= 1); a crash is always some run's own solo
   panic.  Together with 1-2: every maximal execution ends with all R runs complete, or with the
   process terminated by a run that panics on its own. *)
Theorem C08_schedules_bounded : forall P c ch m0 bound sch,
  pairwise_disjointb (map fp P) = true ->
  (forall i, i < length P -> so_status (solo (nth i P idle_prog) (ch i) m0 (bound i)) <> Going) ->
  enabled_run P c ch sch (init_state m0) = true ->
  length sch <= length P + 1 + sumr (fun i => bound i + 3) (length P).
Proof. exact schedules_bounded. Qed.

Theorem C08_maximal_schedule_returns_or_crashes : forall P c ch m0 sch, 1 <= c ->
  let s := exec P c ch sch (init_state m0) in
  (forall a, enabled P c s a = false) -> returned s = true \/ crashed s = true.
Proof. exact maximal_returns_or_crashes. Qed.

Theorem C08_crash_is_a_solo_panic : forall P c ch m0 sch,
  pairwise_disjointb (map fp P) = true ->
  let s := exec P c ch sch (init_state m0) in
  crashed s = true ->
  exists i, i < length P /\ so_status (solo (nth i P idle_prog) (ch i) m0 (pc (runs s i))) = Crashed.
Proof. exact crash_is_a_solo_panic. Qed.

(* For the annealing clones: every execution has at most R * (N + 6) + 1 actions, never crashes,
   and when nothing can move any more the scenario has returned (hence, by the theorems above,
   every run emitted its full fresh trace exactly once). *)
Theorem C08_annealing_scenario_always_returns : forall T0 cf N R c ch m0 sch, 1 <= c ->
  let P := fixed_progs T0 cf N R in
  let s := exec P c ch sch (init_state m0) in
  enabled_run P c ch sch (init_state m0) = true ->
  length sch <= R * (N + 6) + 1 /\
  crashed s = false /\
  ((forall a, enabled P c s a = false) -> returned s = true).
Proof. exact annealing_scenario_returns. Qed.

(* Non-vacuity of 7: the greedy schedule for 3 clones / 2 slots consists of enabled actions only,
   and ends returned. *)
Example C08_example_enabled_schedule :
  let P := fixed_progs (50 # 1) (9 # 10) 2 3 in
  let ch := fun i k => Z.of_nat (i + k) in
  let sch := greedy P 2 ch 100 (init_state (fun _ => 0%Q)) in
  enabled_run P 2 ch sch (init_state (fun _ => 0%Q)) = true /\
  returned (exec P 2 ch sch (init_state (fun _ => 0%Q))) = true /\ length sch = 22.
Proof. vm_compute. repeat split; reflexivity. Qed.

(* Non-vacuity: 3 clones, 2 slots, N = 2, a genuinely interleaved schedule; the hypotheses of
   theorems 1-5 hold and the scenario returns with every run finished. *)
Example C08_example_interleaved :
  let P := fixed_progs (50 # 1) (9 # 10) 2 3 in
  let s := exec P 2 (fun i k => Z.of_nat (i + k)) (rounds 3 20) (init_state (fun _ => 7 # 1)) in
  pairwise_disjointb (map fp P) = true /\ returned s = true /\ crashed s = false /\
  count_tag tagFinishedAnnealing (events_of 2 (trace s)) = 1 /\
  first_with tagStartedAnnealing (events_of 2 (trace s)) = Some [50 # 1; 0%Q] /\
  firstn 8 (run_ids (trace s)) = [0; 0; 0; 1; 0; 0; 1; 1].
Proof. vm_compute. repeat split; reflexivity. Qed.

(* 9. The one mutable object the runs share by design: the result saver's decompression model, guarded by
   Saver.decompressionMutex.  Each run executes a program of Lock / load c / read-filed-under c / Unlock
   instructions, one instruction per scheduler action.  If every run's program keeps the lock discipline
   (loads and reads only between Lock and Unlock; a read filed under c follows a load of c in the same
   critical section) then, for EVERY number of runs and EVERY interleaving, every value a run files under one
   of its solutions is the valuation of THAT solution -- never another run's.  [load_obs] is C01 (the values
   read after loading an action set are a function of the action set alone). *)
Theorem C08_shared_saver_reads_are_own :
  forall (M In Out : Type) (load : In -> M -> M) (obs : M -> Out) (eval : In -> Out) (in_eqb : In -> In -> bool),
  (forall c m, obs (load c m) = eval c) ->
  (forall a b, in_eqb a b = true -> a = b) ->
  forall m0 progs sched,
  forallb (disciplined In in_eqb Outside) progs = true ->
  forall r c o, List.In (r, c, o) (ss_outs M In Out (sexec M In Out load obs m0 progs sched)) -> o = eval c.
Proof. exact disciplined_reads_are_own. Qed.

(* ... and the saver's critical section (Lock; load; any number of reads; Unlock) keeps the discipline *)
Theorem C08_saver_section_disciplined :
  forall (In : Type) (in_eqb : In -> In -> bool) c n, (forall a, in_eqb a a = true) ->
  disciplined In in_eqb Outside (section In c n) = true.
Proof. exact section_disciplined. Qed.

(* 10. The discipline is needed: with a read after Unlock (Lock; load c; Unlock; read) there is an interleaving of
   two runs in which run 0 files run 1's value (2) under its own solution (1). *)
Theorem C08_unprotected_read_refuted :
  let s := sexec nat nat nat (fun c _ => c) (fun m => m) 0 [leaky_prog 1; leaky_prog 2] [0; 0; 0; 1; 1; 1; 0] in
  ss_outs nat nat nat s = [(0, 1, 2)] /\ disciplined nat Nat.eqb Outside (leaky_prog 1) = false.
Proof. exact (conj unprotected_read_leaks (leaky_prog_not_disciplined 1)). Qed.

(* Non-vacuity: three runs with two solutions each, a genuinely interleaved schedule (run 1 blocks on the mutex) *)
Example C08_example_shared_saver :
  let progs := [section nat 1 2 ++ section nat 2 1; section nat 3 2 ++ section nat 4 2; section nat 5 1] in
  forallb (disciplined nat Nat.eqb Outside) progs = true /\
  ss_outs nat nat nat (sexec nat nat nat (fun c _ => c) (fun m => m) 0 progs
                         [0; 1; 0; 1; 0; 2; 0; 0; 1; 1; 2; 1; 1; 1; 0; 2; 2; 0; 2; 0; 0; 1; 1; 1; 1; 1; 2; 2; 2; 2])
  = [(0, 1, 1); (0, 1, 1); (1, 3, 3); (1, 3, 3); (0, 2, 2); (1, 4, 4); (1, 4, 4); (2, 5, 5)].
Proof. vm_compute. split; reflexivity. Qed.

Print Assumptions C08_noninterference.
Print Assumptions C08_complete_runs_equal_solo.
Print Assumptions C08_runner_counting.
Print Assumptions C08_progress.
Print Assumptions C08_disabled_action_is_noop.
Print Assumptions C08_zero_slots_deadlock.
Print Assumptions C08_clones_disjoint.
Print Assumptions C08_every_run_is_a_prefix_of_its_solo_trace.
Print Assumptions C08_every_run_completes_its_solo_trace.
Print Assumptions C08_full_trace_starts_fresh_finishes_once.
Print Assumptions C08_shared_coolant_refuted.
Print Assumptions C08_schedules_bounded.
Print Assumptions C08_maximal_schedule_returns_or_crashes.
Print Assumptions C08_crash_is_a_solo_panic.
Print Assumptions C08_annealing_scenario_always_returns.
Print Assumptions C08_shared_saver_reads_are_own.
Print Assumptions C08_saver_section_disciplined.
Print Assumptions C08_unprotected_read_refuted.
