(* C17 — Dominance is the strict Pareto order.
   Statements only; every proof is [exact <lemma>] from DominanceProofs. *)
From Coq Require Import List QArith.
From Crem Require Import Base.Res Dominance DominanceProofs.
Import ListNotations.

(* On vectors of equal length (of ANY length) the scan never panics ... *)
Theorem C17_total : forall x y, length x = length y -> exists b, dominates x y = Ok b.
Proof. exact dominates_total. Qed.

(* ... and answers true exactly for the strict Pareto order. *)
Theorem C17_dominates_iff_pareto : forall x y, length x = length y ->
  (dominates x y = Ok true <-> pareto_lt x y).
Proof. exact dominates_iff_pareto. Qed.

Theorem C17_dominates_false_iff : forall x y, length x = length y ->
  (dominates x y = Ok false <-> ~ pareto_lt x y).
Proof. exact dominates_false_iff. Qed.

Theorem C17_irreflexive : forall x, ~ pareto_lt x x.
Proof. exact pareto_irrefl. Qed.

Theorem C17_asymmetric : forall x y, pareto_lt x y -> ~ pareto_lt y x.
Proof. exact pareto_asym. Qed.

Theorem C17_transitive : forall x y z, pareto_lt x y -> pareto_lt y z -> pareto_lt x z.
Proof. exact pareto_trans. Qed.

Theorem C17_is_dominated_by_is_converse : forall x y, is_dominated_by x y = dominates y x.
Proof. exact is_dominated_by_is_converse. Qed.

Theorem C17_no_dominance_symmetric : forall x y, length x = length y ->
  no_dominance_present x y = no_dominance_present y x.
Proof. exact no_dominance_symmetric. Qed.

Theorem C17_no_dominance_iff : forall x y, length x = length y ->
  (no_dominance_present x y = Ok true <-> ~ pareto_lt x y /\ ~ pareto_lt y x).
Proof. exact no_dominance_iff. Qed.

Theorem C17_no_dominance_on_equal : forall x y, vec_eq x y -> no_dominance_present x y = Ok true.
Proof. exact no_dominance_on_equal. Qed.

(* Non-vacuity: concrete vectors with ties, in both verdicts. *)
Example C17_example_true : dominates [1#1; 2#1; 3#1] [1#1; 5#2; 3#1] = Ok true.
Proof. vm_compute. reflexivity. Qed.
Example C17_example_incomparable :
  dominates [1#1; 3#1] [2#1; 2#1] = Ok false /\ dominates [2#1; 2#1] [1#1; 3#1] = Ok false.
Proof. vm_compute. split; reflexivity. Qed.

Print Assumptions C17_total.
Print Assumptions C17_dominates_iff_pareto.
Print Assumptions C17_dominates_false_iff.
Print Assumptions C17_irreflexive.
Print Assumptions C17_asymmetric.
Print Assumptions C17_transitive.
Print Assumptions C17_is_dominated_by_is_converse.
Print Assumptions C17_no_dominance_symmetric.
Print Assumptions C17_no_dominance_iff.
Print Assumptions C17_no_dominance_on_equal.
