(* C05 — Multi-objective solution set is a duplicate-free Pareto front of the offers.
   Statements only; every proof is [exact <lemma>] from NdArchiveProofs.

   Model: NdArchive.v (NonDominanceModelArchive.go transcribed; entries = (objective vector, action bits)).
   Operation language: [Offer c] = AttemptToArchiveState(c); [OfferForce c] = the same followed by
   ForceModelStateIntoArchive(c) iff the verdict was "rejected, dominated" (the only way
   suppapitnarm.Explorer uses force); [ForceRaw c] = a forced store in an arbitrary state (never
   emitted by the explorer; excluded by [no_raw_b], see C05_raw_force_refuted).

   Hypotheses are boolean:  [same_dim_b n (cands ops)]  every offered vector has dimension n (any n);
   [consistent_b (cands ops)]  equal action sets carry equal vectors (C01 provides this for the real
   system);  [no_raw_b ops];  [no_force_b ops]  only Offer operations.
   "After every operation" = for every prefix [firstn k ops]. *)
From Coq Require Import List QArith Bool.
From Crem Require Import Base.Res Dominance NdArchive NdArchiveProofs.
Import ListNotations.

(* On equal dimensions no operation panics. *)
Theorem C05_total : forall n ops, same_dim_b n (cands ops) = true -> exists a, run ops = Ok a.
Proof. exact run_total_ex. Qed.

(* INVARIANT: after every operation of every Offer/OfferForce sequence (any dimension, ties, equal
   vectors, repeated action sets) no member is dominated by another and no two members have the same
   action set; every member is one of the offered candidates.  Consistency is needed only if something
   is forced. *)
Theorem C05_invariant : forall n ops,
  same_dim_b n (cands ops) = true -> no_raw_b ops = true ->
  (consistent_b (cands ops) = true \/ no_force_b ops = true) ->
  forall k a, run (firstn k ops) = Ok a ->
    nondominated a /\ dup_free a /\ incl a (cands ops).
Proof. exact invariant_every_prefix. Qed.

Theorem C05_invariant_final : forall n ops a,
  same_dim_b n (cands ops) = true -> no_raw_b ops = true ->
  (consistent_b (cands ops) = true \/ no_force_b ops = true) ->
  run ops = Ok a -> nondominated a /\ dup_free a.
Proof. exact invariant_final. Qed.

(* REFUSAL REASON, for any archive state [a] of dimension n (not only reachable ones):
   refused as dominated => archive unchanged and some member dominates the candidate;
   refused as duplicate => archive unchanged and some member has its action set;
   stored => no member dominates it and none has its action set;  there is no other verdict. *)
Theorem C05_refusal_reason : forall n a c s a',
  same_dim_b n a = true -> length (e_vec c) = n -> attempt a c = Ok (s, a') ->
  (s = RejectedWithStoredEntryDominanceDetected -> a' = a /\ exists m, In m a /\ dom m c) /\
  (s = RejectedWithDuplicateEntryDetected -> a' = a /\ exists m, In m a /\ e_acts m = e_acts c) /\
  (is_stored s = true -> forall m, In m a -> ~ dom m c /\ e_acts m <> e_acts c) /\
  (is_stored s = true \/ s = RejectedWithStoredEntryDominanceDetected \/ s = RejectedWithDuplicateEntryDetected).
Proof. exact attempt_refusal_reason. Qed.

(* ... and which of the two refusals is reported: the FIRST member (oldest first) that dominates the
   candidate or carries its action set decides; on that member dominance is tested first. *)
Theorem C05_refusal_first_match : forall n a c s a',
  same_dim_b n a = true -> length (e_vec c) = n -> attempt a c = Ok (s, a') -> is_stored s = false ->
  exists a1 m a2, a = a1 ++ m :: a2
    /\ (forall x, In x a1 -> ~ dom x c /\ e_acts x <> e_acts c)
    /\ ((s = RejectedWithStoredEntryDominanceDetected /\ dom m c)
        \/ (s = RejectedWithDuplicateEntryDetected /\ ~ dom m c /\ e_acts m = e_acts c)).
Proof. exact attempt_first_match. Qed.

(* EVICTION REASON, normal store: the new archive is exactly the old one without the members the
   candidate dominates (order kept), followed by the candidate; "replacing" is reported iff something
   was evicted. *)
Theorem C05_eviction_reason : forall n a c s a',
  same_dim_b n a = true -> length (e_vec c) = n -> attempt a c = Ok (s, a') -> is_stored s = true ->
  a' = filter (fun m => negb (domb c m)) a ++ [c]
  /\ (forall m, In m a -> (In m (filter (fun m => negb (domb c m)) a) <-> ~ dom c m))
  /\ (s = StoredReplacingDominatedEntries <-> exists m, In m a /\ dom c m).
Proof. exact attempt_eviction_reason. Qed.

(* EVICTION REASON, forced store — what ForceModelStateIntoArchive really does: it removes exactly the
   members that dominate the candidate, keeps every other member (also members the candidate dominates
   and members with the candidate's action set), appends the candidate, and tests nothing else. *)
Theorem C05_forced_store_exact : forall n a c s a',
  same_dim_b n a = true -> length (e_vec c) = n -> force a c = Ok (s, a') ->
  s = StoredForcingDominatingStateRemoval
  /\ a' = filter (fun m => negb (domb m c)) a ++ [c]
  /\ (forall m, In m a -> (In m (filter (fun m => negb (domb m c)) a) <-> ~ dom m c)).
Proof. exact force_exact. Qed.

(* A STORED CANDIDATE IS PRESENT afterwards (it is the newest entry), and nothing else was added. *)
Theorem C05_stored_present : forall n a c s a',
  same_dim_b n a = true -> length (e_vec c) = n -> attempt a c = Ok (s, a') -> is_stored s = true ->
  In c a' /\ last a' c = c /\ (forall m, In m a' -> In m a \/ m = c).
Proof. exact attempt_stored_present. Qed.

Theorem C05_forced_present : forall n a c s a',
  same_dim_b n a = true -> length (e_vec c) = n -> force a c = Ok (s, a') ->
  In c a' /\ last a' c = c /\ (forall m, In m a' -> In m a \/ m = c).
Proof. exact force_stored_present. Qed.

(* WITHOUT FORCED STORES the archive equals, as a set, the Pareto-optimal subset of all candidates
   offered so far — after every operation, for every insertion order. *)
Theorem C05_is_pareto_front : forall n ops,
  same_dim_b n (cands ops) = true -> consistent_b (cands ops) = true -> no_force_b ops = true ->
  forall k a, run (firstn k ops) = Ok a -> front_eq a (cands (firstn k ops)).
Proof. exact front_every_prefix. Qed.

Theorem C05_is_pareto_front_final : forall n ops a,
  same_dim_b n (cands ops) = true -> consistent_b (cands ops) = true -> no_force_b ops = true ->
  run ops = Ok a -> front_eq a (cands ops).
Proof. exact front_final. Qed.

(* REPORTED VALUES ARE EVALUATIONS.  The archive never fabricates or alters an entry: every member is
   one of the offered candidates ... *)
Theorem C05_members_are_offers : forall n ops a,
  same_dim_b n (cands ops) = true -> run ops = Ok a -> forall m, In m a -> In m (cands ops).
Proof. exact members_are_offers. Qed.

(* ... so for streams whose candidates are created as (eval acts, acts) — the only way the explorer
   creates them; [eval] abstract here, the concrete valuation is C01's — every member's objective
   values are those of the model evaluated at that member's action set, and such streams are
   consistent by construction: the invariant needs no consistency hypothesis. *)
Theorem C05_values_are_evaluations : forall (eval : list bool -> list Q) n ks,
  same_dim_b n (cands (eval_ops eval ks)) = true ->
  forall k a, run (firstn k (eval_ops eval ks)) = Ok a ->
    (forall m, In m a -> e_vec m = eval (e_acts m)) /\ nondominated a /\ dup_free a.
Proof. exact eval_stream_invariant. Qed.

(* THE ARCHIVE'S OWN SELF-CHECK (IsNonDominant, run by the explorer when CheckNonDominance is set):
   it never fails on the explorer's language ... *)
Theorem C05_self_check_never_fails : forall n ops,
  same_dim_b n (cands ops) = true -> no_raw_b ops = true ->
  (consistent_b (cands ops) = true \/ no_force_b ops = true) ->
  forall k a, run (firstn k ops) = Ok a -> is_non_dominant a = Ok true.
Proof. exact self_check_never_fails. Qed.

(* ... but it does not establish the invariant: its inner loop never looks at the last entry. *)
Theorem C05_self_check_incomplete_refuted :
  exists a, same_dim_b 1 a = true /\ is_non_dominant a = Ok true /\ ~ nondominated a.
Proof. exact self_check_incomplete. Qed.

(* WHY [consistent] IS A HYPOTHESIS.  The full statement without it is false of the faithful model:
   (a) a forced store can leave two members with the same action set; *)
Theorem C05_needs_consistency_refuted :
  exists ops, same_dim_b 2 (cands ops) = true /\ no_raw_b ops = true
    /\ consistent_b (cands ops) = false
    /\ exists a, run ops = Ok a /\ ~ dup_free a.
Proof. exact needs_consistency_dup. Qed.

(* (b) an Offer-only stream can refuse a Pareto-optimal candidate as a "duplicate". *)
Theorem C05_front_needs_consistency_refuted :
  exists ops, same_dim_b 2 (cands ops) = true /\ no_force_b ops = true
    /\ consistent_b (cands ops) = false
    /\ exists a, run ops = Ok a /\ ~ front_eq a (cands ops).
Proof. exact needs_consistency_front. Qed.

(* WHY THE LANGUAGE IS RESTRICTED.  A forced store that does not follow a "rejected, dominated" verdict
   breaks both halves of the invariant even on consistent streams. *)
Theorem C05_raw_force_refuted :
  (exists ops, same_dim_b 2 (cands ops) = true /\ consistent_b (cands ops) = true
     /\ exists a, run ops = Ok a /\ ~ nondominated a)
  /\ (exists ops, same_dim_b 2 (cands ops) = true /\ consistent_b (cands ops) = true
     /\ exists a, run ops = Ok a /\ ~ dup_free a).
Proof. exact raw_force_breaks_invariant. Qed.

(* ---- non-vacuity: a stream meeting every hypothesis, with ties, an equal vector under a different
   action set, a repeated action set, an eviction, both refusals and a forced store ---- *)
Definition ex_A := [true; false; false].
Definition ex_B := [false; true; false].
Definition ex_C := [true; true; false].
Definition ex_D := [false; false; true].
Definition ex_stream : list op :=
  [ Offer (mkE [2#1; 2#1] ex_A);          (* stored, no dominance *)
    Offer (mkE [2#1; 2#1] ex_B);          (* equal vector, other action set: stored *)
    Offer (mkE [2#1; 2#1] ex_A);          (* repeated action set: rejected, duplicate *)
    Offer (mkE [3#1; 2#1] ex_C);          (* tie in one component: rejected, dominated *)
    OfferForce (mkE [3#1; 2#1] ex_C);     (* rejected, dominated; forced: both dominating members leave *)
    Offer (mkE [1#1; 5#1] ex_D) ].        (* incomparable: stored *)

Example C05_example_hypotheses :
  same_dim_b 2 (cands ex_stream) = true /\ consistent_b (cands ex_stream) = true /\ no_raw_b ex_stream = true.
Proof. vm_compute. repeat split. Qed.

Example C05_example_trace :
  map (fun r => match r with Ok (rs, a) => (map sres_code rs, length a) | Panic => ([], 0%nat) end)
      (trace_from [] ex_stream)
  = [([1], 1); ([1], 2); ([3], 2); ([2], 2); ([2; 5], 1); ([1], 2)]%nat.
Proof. vm_compute. reflexivity. Qed.

Example C05_example_run :
  run ex_stream = Ok [mkE [3#1; 2#1] ex_C; mkE [1#1; 5#1] ex_D].
Proof. vm_compute. reflexivity. Qed.

Definition ex_offers : list op :=
  [ Offer (mkE [2#1; 2#1] ex_A); Offer (mkE [2#1; 2#1] ex_B); Offer (mkE [1#1; 2#1] ex_C);
    Offer (mkE [0#1; 9#1] ex_D); Offer (mkE [2#1; 2#1] ex_A) ].

Example C05_example_front_hypotheses :
  same_dim_b 2 (cands ex_offers) = true /\ consistent_b (cands ex_offers) = true /\ no_force_b ex_offers = true.
Proof. vm_compute. repeat split. Qed.

Example C05_example_front :
  run ex_offers = Ok [mkE [1#1; 2#1] ex_C; mkE [0#1; 9#1] ex_D]
  /\ pareto_front (cands ex_offers) = [mkE [1#1; 2#1] ex_C; mkE [0#1; 9#1] ex_D].
Proof. vm_compute. split; reflexivity. Qed.

(* an evaluation function and a stream built from it *)
Definition ex_eval (s : list bool) : list Q :=
  [inject_Z (Z.of_nat (length (filter (fun b => b) s))); inject_Z (Z.of_nat (length (filter negb s)))].

Example C05_example_eval :
  same_dim_b 2 (cands (eval_ops ex_eval [(false, ex_A); (true, ex_C); (false, ex_D); (true, ex_A)])) = true
  /\ run (eval_ops ex_eval [(false, ex_A); (true, ex_C); (false, ex_D); (true, ex_A)])
     = Ok [mkE [1#1; 2#1] ex_A; mkE [2#1; 1#1] ex_C; mkE [1#1; 2#1] ex_D].
Proof. vm_compute. split; reflexivity. Qed.

Print Assumptions C05_total.
Print Assumptions C05_invariant.
Print Assumptions C05_invariant_final.
Print Assumptions C05_refusal_reason.
Print Assumptions C05_refusal_first_match.
Print Assumptions C05_eviction_reason.
Print Assumptions C05_forced_store_exact.
Print Assumptions C05_stored_present.
Print Assumptions C05_forced_present.
Print Assumptions C05_is_pareto_front.
Print Assumptions C05_is_pareto_front_final.
Print Assumptions C05_members_are_offers.
Print Assumptions C05_values_are_evaluations.
Print Assumptions C05_self_check_never_fails.
Print Assumptions C05_self_check_incomplete_refuted.
Print Assumptions C05_needs_consistency_refuted.
Print Assumptions C05_front_needs_consistency_refuted.
Print Assumptions C05_raw_force_refuted.
