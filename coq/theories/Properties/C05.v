(* C05 — placeholder while the pipeline is brought up *)
From Coq Require Import List QArith.
From Crem Require Import Base.Res Dominance NdArchive.
Import ListNotations.
Example C05_example_run : run [Offer (mkE [1#1; 2#1] [true]); Offer (mkE [0#1; 3#1] [false])] =
  Ok [mkE [1#1; 2#1] [true]; mkE [0#1; 3#1] [false]].
Proof. vm_compute. reflexivity. Qed.
