(* C03 — A configured variable limit is never exceeded by any held or reported state.
   Statements only; proofs in LimitsProofs.v (on top of the C01 invariant and the C10 exactness of
   validity).  Random picks, acceptance decisions, archive outcomes (which members survive, whether the
   candidate is stored), moves and return-to-base selections are universally quantified inputs. *)
From Coq Require Import List ZArith QArith Bool.
From Crem Require Import Catchment CatchmentProofs Limits LimitsProofs.
Import ListNotations.

(* the initial randomisation: if the loop ends normally (no attempt-limit panic, cf. C19) from a state
   within the limit, the resulting state is within the limit *)
Theorem C03_randomisation_respects_limit :
  forall d picks s s', wf_dataset d = true ->
    Inv d s -> state_is_valid d s = true -> picks_ok d picks = true ->
    randomize d picks s = LOk s' -> state_is_valid d s' = true.
Proof.
  intros d picks s s' Hd I V Hp Hr.
  exact (proj2 (randomize_valid d Hd picks s s' (conj I V) Hp Hr)).
Qed.
Print Assumptions C03_randomisation_respects_limit.

(* single-objective annealer: with the limit attainable at the starting extreme, the state after the
   initial randomisation and after EVERY iteration is within the limit — any number of iterations,
   any picks, any acceptance decisions *)
Theorem C03_single_objective_run :
  forall d picks0 inputs states, wf_dataset d = true ->
    state_is_valid d (start_extreme d) = true ->
    picks_ok d picks0 = true -> kp_inputs_ok d inputs = true ->
    kp_run d picks0 inputs = Some states ->
    Forall (fun s => state_is_valid d s = true) states.
Proof. exact (fun d p i st Hd => kp_run_valid d Hd p i st). Qed.
Print Assumptions C03_single_objective_run.

(* multi-objective annealer: after the initial randomisation and after EVERY iteration the current
   solution is within the limit and so is the model evaluated at every archived action set (hence every
   solution later written to the output files or returned to as a base) *)
Theorem C03_multi_objective_run :
  forall d picks0 inputs ms, wf_dataset d = true ->
    state_is_valid d (start_extreme d) = true ->
    picks_ok d picks0 = true -> mo_inputs_ok d inputs = true ->
    mo_run d picks0 inputs = Some ms ->
    Forall (fun m => mo_ok d m = true) ms.
Proof. exact (fun d p i ms Hd => mo_run_valid d Hd p i ms). Qed.
Print Assumptions C03_multi_objective_run.

(* what "valid against the scenario" means when a solution is re-evaluated from its encoding (result
   saver, engine): decompressing a valid set into ANY reachable model state gives a state within the limit *)
Theorem C03_reported_valid_respects_limit :
  forall d s bits, wf_dataset d = true -> Inv d s ->
    length bits = nactions d -> set_valid d bits = true ->
    state_is_valid d (decompress d s bits) = true.
Proof. intros d s bits Hd I Hl Hv. exact (proj2 (decompress_valid d Hd s bits I Hl Hv)). Qed.
Print Assumptions C03_reported_valid_respects_limit.

(* non-vacuity: a tiny data set with an implementation-cost limit of 1100 — attainable at the starting
   extreme (nothing active, cost 0); the randomisation activates the 1000-dollar action, is refused (the check after an
   initialising activation counts the change twice) and puts it back; three iterations follow *)
Definition ex_d : dataset :=
  mkData [3; 5]%Z
    [ mkAction 3 Gully [(OriginalGullySediment, 7 # 2); (ActionedGullySediment, 1 # 2); (ImplementationCostVar, 1000 # 1)];
      mkAction 5 HillSlope [(HillSlopeErosionOriginalAttribute, 11 # 3); (HillSlopeErosionActionedAttribute, 5 # 3);
                             (ImplementationCostVar, 250 # 1)] ]
    (fun _ _ => mkCtx (1 # 5) (9 # 1) (7 # 2) (11 # 3) 0 0) (Some (VIC, 1100 # 1)).
Example C03_nonvacuous :
  wf_dataset ex_d = true /\ state_is_valid ex_d (start_extreme ex_d) = true /\
  match kp_run ex_d [0%nat; 1%nat] [(1%nat, true); (0%nat, true); (1%nat, true)] with
  | Some states => map (fun s => v_total (st_ic s)) states
  | None => []
  end = [0; 25000; 25000; 0]%Z.
Proof. vm_compute. split; [reflexivity|split; reflexivity]. Qed.
