(* C11 — Aggregates are consistent: total = sum of unit shares; total N = PN + DN.
   Statements only; proofs in CatchmentProofs.v. *)
From Coq Require Import List ZArith QArith Bool.
From Crem Require Import Catchment CatchmentProofs.
Import ListNotations.
Open Scope Z_scope.

(* in every state reachable by any well-formed history, each of the six variables' catchment total is
   the sum of its per-planning-unit values (grid units = the variable's reporting precision) *)
Theorem C11_total_is_sum_of_units :
  forall d h k, wf_dataset d = true -> wf_history d h = true ->
    v_total (var (run d h) k) = zsum (map (v_vals (var (run d h) k)) (d_pus d)).
Proof. exact (fun d h k Hd Hh => aggregates d Hd h k Hh). Qed.
Print Assumptions C11_total_is_sum_of_units.

(* total nitrogen = particulate + dissolved, per planning unit and for the catchment *)
Theorem C11_total_nitrogen :
  forall d h, wf_dataset d = true -> wf_history d h = true ->
    let s := run d h in
    (forall pu, v_vals (st_tn s) pu = v_vals (st_pn s) pu + v_vals (st_dn s) pu) /\
    v_total (st_tn s) = v_total (st_pn s) + v_total (st_dn s).
Proof. exact (fun d h Hd Hh => tn_is_pn_plus_dn d Hd h Hh). Qed.
Print Assumptions C11_total_nitrogen.

(* the figures reported for a state (what SolutionBuilder copies into solution files and the engine
   serves) are these observables: they are the canonical valuation, whose totals are sums by definition *)
Theorem C11_reported_figures :
  forall d h, wf_dataset d = true -> wf_history d h = true ->
    obs_of d (run d h) = canon_obs d (st_active (run d h)).
Proof. exact (fun d h Hd Hh => obs_is_valuation d Hd h Hh). Qed.
Print Assumptions C11_reported_figures.

Example C11_nonvacuous :
  let d := mkData [3; 5]
    [ mkAction 3 Gully [(OriginalGullySediment, 7 # 2); (ActionedGullySediment, 1 # 2)];
      mkAction 5 HillSlope [(HillSlopeErosionOriginalAttribute, 11 # 3); (HillSlopeErosionActionedAttribute, 5 # 3)] ]
    (fun _ _ => mkCtx (1 # 5) (9 # 1) (7 # 2) (11 # 3) 0 0) None in
  wf_dataset d = true /\ wf_history d [TryAccept 0; SetAct 1 true] = true /\
  v_total (st_sed (run d [TryAccept 0; SetAct 1 true])) =
  zsum (map (v_vals (st_sed (run d [TryAccept 0; SetAct 1 true]))) [3; 5]) /\
  v_total (st_sed (run d [TryAccept 0; SetAct 1 true])) <> v_total (st_sed (run d [])).
Proof. vm_compute. repeat split. discriminate. Qed.
