(* C06 — multi-objective step rule and return-to-base schedule. Statements only. *)
From Coq Require Import List ZArith NArith QArith Bool Floats.
From Crem Require Import Base.Res Dominance SuppRtbFloat Suppapitnarm SuppapitnarmProofs.
Import ListNotations.

Example C06_default_parameters_schedule :
  let p := mk_params 20000 10 (mkf 8556839292003942 (-53)) 1%float Product false in
  (do us <- sched_init p; sched_returns p (N.to_nat 60000) 1%N us)
  = Ok [(20000%N, 19000%N, 19000%float); (39000%N, 18050%N, 18050%float); (57050%N, 17147%N, 17147.5%float)].
Proof. exact default_schedule_example. Qed.
Print Assumptions C06_default_parameters_schedule.
