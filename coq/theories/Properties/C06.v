(* C06 — Multi-objective step rule and return-to-base schedule (suppapitnarm explorer).
   Statements only; every proof is [exact <lemma>] from SuppapitnarmProofs / SuppapitnarmSchedule /
   SuppRtbFloatProofs / SuppapitnarmCompose.  Model: Suppapitnarm.v (explorer), NdArchive.v (the archive
   model of C05, used as it is: attempt / force / is_non_dominant), SuppRtbFloat.v (binary64 leaves in Coq
   primitive floats).

   Reading guide.  [accept_phase] = AttemptToArchiveState + AcceptOrRevertChange; [iteration] =
   TryRandomChange; CoolDown; [reach p s0 n s] = s is reachable from s0 in n iterations for SOME
   inputs (candidates, exp values, draws, picks) -- theorems over [reach] / [run] therefore hold for ALL
   candidate and draw sequences.  The acceptance probability is [accept_prob k es] (k = Product: the
   suppapitnarm coolant, k = Mean: the averaged coolant) of the values es_i = exp(-|change_i|/T) that
   math.Exp returned; the uniform draw is [unitary draw]; p > u is [PrimFloat.ltb u p]. *)
From Coq Require Import List ZArith NArith QArith Bool Floats Reals.
From Flocq Require Import Core.
From Crem Require Import Base.Res Dominance NdArchive NdArchiveProofs Catchment Limits LimitsProofs Compose ComposeProofs
  SuppRtbFloat Suppapitnarm SuppRtbFloatProofs SuppapitnarmProofs SuppapitnarmSchedule SuppapitnarmCompose.
Import ListNotations.

(* ================= 1. the move rule, for every state and every candidate ================= *)

(* the solution set stores the candidate or already holds its action set => move with probability 1 *)
Theorem C06_move_certain_when_stored_or_held : forall p s i v d s1,
  accept_phase p s i = Ok (v, d, s1) -> stored_or_held v = true ->
  d = AcceptDesirable /\ cur s1 = i_cand i /\ accprob s1 = 1%float /\ accepted s1 = true.
Proof. exact move_certain. Qed.

(* "already holds its action set", stated on the solution set itself: some member has the candidate's
   action set and no member dominates the candidate (the solution set is mutually non-dominated and
   values are a function of the action set -- C05/C01 -- so a held action set is never dominated) *)
Theorem C06_move_certain_when_action_set_held : forall p s i,
  (exists x, In x (arch s) /\ same_acts x (i_cand i)) ->
  (forall x, In x (arch s) -> dominates (e_vec x) (e_vec (i_cand i)) = Ok false) ->
  exists s1, accept_phase p s i = Ok (RejectedWithDuplicateEntryDetected, AcceptDesirable, s1)
             /\ cur s1 = i_cand i /\ arch s1 = arch s /\ accprob s1 = 1%float.
Proof. exact move_certain_when_held. Qed.

(* what the four verdicts mean (no other verdict can come out of the attempt) *)
Theorem C06_verdict_sound : forall p s i v d s1,
  accept_phase p s i = Ok (v, d, s1) ->
  match v with
  | StoredWithNoDominanceDetected | StoredReplacingDominatedEntries =>
      In (i_cand i) (arch s1) /\ cur s1 = i_cand i
  | RejectedWithDuplicateEntryDetected =>
      (exists x, In x (arch s) /\ same_acts x (i_cand i)) /\ arch s1 = arch s
  | RejectedWithStoredEntryDominanceDetected =>
      exists x, In x (arch s) /\ dominates (e_vec x) (e_vec (i_cand i)) = Ok true
  | _ => False
  end.
Proof. exact verdict_sound. Qed.

(* otherwise: move  <=>  acceptance probability > uniform draw (float-exact) *)
Theorem C06_move_iff_probability_exceeds_draw : forall p s i v d s1,
  accept_phase p s i = Ok (v, d, s1) -> stored_or_held v = false ->
  let pr := accept_prob (p_kind p) (i_es i) in
  let u := unitary (i_draw i) in
  v = RejectedWithStoredEntryDominanceDetected
  /\ accprob s1 = pr
  /\ (d = AcceptUndesirable <-> PrimFloat.ltb u pr = true)
  /\ (d = RevertUndesirable <-> PrimFloat.ltb u pr = false)
  /\ d <> AcceptDesirable.
Proof. exact move_iff_probability. Qed.

(* ... in which case the candidate is forced into the solution set *)
Theorem C06_accepted_undesirable_is_forced : forall p s i v d s1,
  accept_phase p s i = Ok (v, d, s1) -> d = AcceptUndesirable ->
  cur s1 = i_cand i /\ force (arch s) (i_cand i) = Ok (StoredForcingDominatingStateRemoval, arch s1)
  /\ In (i_cand i) (arch s1)
  /\ storage s1 = StoredForcingDominatingStateRemoval /\ accepted s1 = true.
Proof. exact accepted_undesirable_forced. Qed.

(* no move => the current solution (and the solution set) is unchanged *)
Theorem C06_no_move_current_unchanged : forall p s i v d s1,
  accept_phase p s i = Ok (v, d, s1) -> d = RevertUndesirable ->
  cur s1 = cur s /\ arch s1 = arch s /\ accepted s1 = false.
Proof. exact no_move_unchanged. Qed.

(* the move rule never touches the schedule *)
Theorem C06_move_rule_leaves_schedule : forall p s i v d s1,
  accept_phase p s i = Ok (v, d, s1) ->
  until s1 = until s /\ stepf s1 = stepf s /\ iter s1 = iter s /\ last_rtb s1 = last_rtb s /\ temp s1 = temp s.
Proof. exact accept_leaves_schedule. Qed.

(* whole iteration without a return-to-base: current solution = what the move rule decided *)
Theorem C06_iteration_current_solution : forall p s i o s',
  iteration p s i = Ok (o, s') -> o_base o = None ->
  (o_decision o = RevertUndesirable -> cur s' = cur s /\ arch s' = arch s)
  /\ (o_decision o <> RevertUndesirable ->
      cur s' = i_cand i /\ exists x, In x (arch s') /\ same_acts x (i_cand i)).
Proof. exact iteration_current. Qed.

(* every iteration of every successful run is such an iteration, from a state reachable in n steps *)
Theorem C06_runs_are_iterations : forall p is s os s',
  run p s is = Ok (os, s') ->
  length os = length is /\ reach p s (length is) s'
  /\ forall n i, nth_error is n = Some i ->
       exists sn o sn', reach p s n sn /\ iteration p sn i = Ok (o, sn') /\ nth_error os n = Some o.
Proof. exact run_reach. Qed.


(* ================= 1b. over C05's archive model and the composed model ================= *)

(* In EVERY run of the model (from Initialise, any inputs with vectors of one length d and values a function
   of the action set -- boolean hypotheses) the archive is exactly C05's pure archive run over the operation
   sequence Offer / OfferForce the explorer emitted, hence mutually non-dominated, duplicate-free and made of
   offered candidates (C05's invariant, NdArchiveProofs.inv_run) *)
Theorem C06_archive_is_C05_run_and_invariant : forall p d c0 t0 s0 is os s,
  init_state p c0 t0 = Ok s0 -> run p s0 is = Ok (os, s) ->
  same_dim_b d (map i_cand is) = true -> consistent_b (map i_cand is) = true ->
  arch s = run_b_from [] (ops_of is os)
  /\ nondominated (arch s) /\ dup_free (arch s) /\ incl (arch s) (map i_cand is).
Proof. exact run_archive_invariant_b. Qed.

(* ... which discharges the hypothesis of C06_move_certain_when_action_set_held: in every run, a candidate
   whose action set the solution set already holds is moved to with certainty (the "held and also dominated"
   corner does not exist) *)
Theorem C06_move_certain_when_action_set_held_in_any_run : forall p d c0 t0 s0 is os s i,
  init_state p c0 t0 = Ok s0 -> run p s0 is = Ok (os, s) ->
  same_dim_b d (map i_cand (is ++ [i])) = true -> consistent_b (map i_cand (is ++ [i])) = true ->
  (exists x, In x (arch s) /\ same_acts x (i_cand i)) ->
  exists s1, accept_phase p s i = Ok (RejectedWithDuplicateEntryDetected, AcceptDesirable, s1)
             /\ cur s1 = i_cand i /\ arch s1 = arch s /\ accprob s1 = 1%float.
Proof. exact held_in_any_run. Qed.

(* with vectors of one length the move rule is total and IS C05's pure step: Offer, or OfferForce exactly
   when the verdict is undesirable and p > u *)
Theorem C06_move_rule_is_C05_step : forall p d s i,
  dim_ok d (arch s) -> wf_len d (i_cand i) ->
  let c := i_cand i in
  let v := fst (attempt_b (arch s) c) in
  let acc := decide (accept_prob (p_kind p) (i_es i)) (unitary (i_draw i)) in
  let forced := negb (stored_or_held v) && acc in
  let moves := stored_or_held v || acc in
  exists s1,
    accept_phase p s i =
      Ok (v, (if stored_or_held v then AcceptDesirable else if acc then AcceptUndesirable else RevertUndesirable), s1)
    /\ arch s1 = snd (step_b (arch s) (if forced then OfferForce c else Offer c))
    /\ cur s1 = (if moves then c else cur s)
    /\ dim_ok d (arch s1).
Proof. exact accept_phase_pure. Qed.

(* the float-exact move rule refines the step rule [cm_apply] of the composed model (Compose.v, the model of
   composed_multi_objective_run): on the candidate the catchment model values at pot2's action set, with the
   coolant's answer := (acceptance probability > uniform draw in binary64), accept_phase and cm_apply
   agree on the verdict, the archive, the recorded operation and the move *)
Theorem C06_step_rule_refines_composed : forall p d m pot2 s i rtb m',
  arch s = cm_arch m -> dim_ok 6 (cm_arch m) ->
  i_cand i = entry_of d (active_list d pot2) ->
  cm_apply d m pot2 (coolant_accepts p i) rtb = CMOk m' ->
  exists dd s1,
    accept_phase p s i = Ok (fst (attempt_b (cm_arch m) (i_cand i)), dd, s1)
    /\ arch s1 = cm_arch m'
    /\ cm_hist m' = cm_hist m ++ [(decision_eqb dd AcceptUndesirable, e_acts (i_cand i))]
    /\ cur s1 = (if moves dd then i_cand i else cur s)
    /\ (rtb = None ->
        cm_cur m' = (if moves dd then synchronise d (cm_cur m) (e_acts (i_cand i)) else cm_cur m)).
Proof. exact step_rule_refines_composed. Qed.

(* whole iterations (move rule AND return to base) simulate the composed model: [sim] = same archive, same
   current action set; the composed model's return-to-base selection is the index the iteration picked *)
Theorem C06_iteration_refines_composed : forall p d m pot2 s i o s',
  CMValid d m -> sim d s m ->
  i_cand i = entry_of d (active_list d pot2) ->
  iteration p s i = Ok (o, s') ->
  exists m', cm_apply d m pot2 (coolant_accepts p i) (rtb_of i o s') = CMOk m' /\ sim d s' m'.
Proof. exact iteration_refines_composed. Qed.

(* hence the guarantees of composed_multi_objective_run carry over to the float-exact model, step by step:
   on catchment-valued candidates (wf data set, valid potential state) the successor again simulates a valid
   composed state, and its archive is mutually non-dominated, duplicate-free, valued by the catchment model
   and within the limit *)
Theorem C06_iteration_keeps_composed_guarantees : forall p d m pot2 s i o s',
  wf_dataset d = true -> CMValid d m -> Valid d pot2 -> sim d s m ->
  i_cand i = entry_of d (active_list d pot2) ->
  iteration p s i = Ok (o, s') ->
  exists m', CMValid d m' /\ sim d s' m'
    /\ nondominated (arch s') /\ dup_free (arch s')
    /\ forall e, In e (arch s') -> e_vec e = eval_vec d (e_acts e) /\ set_valid d (e_acts e) = true.
Proof. exact iteration_keeps_composed_guarantees. Qed.

(* ================= 2. probabilities lie in [0,1] ================= *)

(* the float combination, given 0 <= e_i <= 1 (finite) for every value math.Exp returned *)
Theorem C06_acceptance_probability_in_unit_interval : forall k es,
  es <> [] -> (Z.of_nat (length es) <= 2 ^ 53)%Z ->
  Forall (fun e => fin e /\ (0 <= val e <= 1)%R) es ->
  fin (accept_prob k es) /\ (0 <= val (accept_prob k es) <= 1)%R.
Proof. exact accept_prob_unit. Qed.

(* the same with boolean hypotheses and conclusion: the float comparisons 0 <= p and p <= 1 answer true *)
Theorem C06_acceptance_probability_in_unit_interval_bool : forall k es,
  es <> [] -> (Z.of_nat (length es) <= 2 ^ 53)%Z ->
  forallb factor_in_range es = true -> factor_in_range (accept_prob k es) = true.
Proof. exact accept_prob_unit_bool. Qed.

Example C06_unit_interval_hypotheses_satisfiable :
  forallb factor_in_range [mkf 1 (-1); mkf 3 (-2); 1%float; 0%float] = true
  /\ accept_prob Product [mkf 1 (-1); mkf 3 (-2)] = mkf 3 (-3)
  /\ accept_prob Mean [mkf 1 (-1); mkf 3 (-2)] = mkf 5 (-3).
Proof. vm_compute. repeat split; reflexivity. Qed.

(* the ideal formula: for every change and every positive temperature *)
Theorem C06_ideal_exp_in_unit_interval : forall d T : R,
  (0 < T)%R -> (0 < exp (- Rabs d / T) <= 1)%R.
Proof. exact ideal_exp_unit. Qed.

(* ================= 3. the return-to-base schedule ================= *)
(* hypothesis [params_ok p]: 1 <= InitialReturnToBaseStep <= 2^53, 1 <= MinimumReturnToBaseRate <= 2^53,
   0 <= ReturnToBaseAdjustmentFactor <= 1 (a boolean test; NaN fails it) *)

Theorem C06_initial_state_defined : forall p, params_ok p = true ->
  forall c0 t0, exists s0, init_state p c0 t0 = Ok s0.
Proof. exact init_state_ok. Qed.

(* every countdown is defined (the uint64 conversion stays inside its modelled domain) and >= 1 *)
Theorem C06_countdowns_defined : forall p, params_ok p = true ->
  forall j, exists c, sched_countdown p j = Ok c /\ (1 <= c < 2 ^ 64)%N.
Proof. exact countdown_defined. Qed.

(* the first return is due after exactly the configured initial number of iterations *)
Theorem C06_first_countdown_is_initial_step : forall p, params_ok p = true ->
  sched_countdown p 0 = Ok (Z.to_N (p_init p)).
Proof. exact countdown_first. Qed.

(* countdown_j = floor(step_j), step_{j+1} = max(min, step_j (x) factor) with (x) the binary64 product:
   the executable recurrence [sched_step] read over the reals *)
Theorem C06_countdown_is_floor_of_step : forall p, params_ok p = true ->
  forall j, sched_countdown p j = Ok (Z.to_N (Zfloor (val (sched_step p j)))).
Proof. exact countdown_is_floor. Qed.

Theorem C06_step_recurrence : forall p, params_ok p = true ->
  forall j, val (sched_step p (S j)) = Rmax (IZR (p_min p)) (val (sched_step p j * p_factor p)%float).
Proof. exact sched_step_recurrence. Qed.

(* after the first return no interval is below the configured minimum ... *)
Theorem C06_countdown_never_below_minimum : forall p, params_ok p = true ->
  forall j c, sched_countdown p (S j) = Ok c -> (Z.to_N (p_min p) <= c)%N.
Proof. exact countdown_ge_min. Qed.

(* ... and the intervals never grow *)
Theorem C06_countdowns_non_increasing : forall p, params_ok p = true ->
  forall j c c', sched_countdown p (S j) = Ok c -> sched_countdown p (S (S j)) = Ok c' -> (c' <= c)%N.
Proof. exact countdown_nonincreasing. Qed.

Theorem C06_first_interval_non_increasing : forall p, params_ok p = true ->
  forall c0 c1, (p_min p <= p_init p)%Z ->
  sched_countdown p 0 = Ok c0 -> sched_countdown p 1 = Ok c1 -> (c1 <= c0)%N.
Proof. exact countdown_first_nonincreasing. Qed.

(* the countdown machine compared in the long schedule-only correspondence runs ([sched_tick]) is exactly
   the projection of an iteration on (countdown, step): candidates, draws and the archive do not matter *)
Theorem C06_schedule_is_independent_of_candidates : forall p s i o s',
  iteration p s i = Ok (o, s') ->
  sched_tick p (until s, stepf s) = Ok (is_some (o_base o), (until s', stepf s'))
  /\ iter s' = (iter s + 1)%N
  /\ last_rtb s' = (if is_some (o_base o) then iter s else last_rtb s).
Proof. exact iteration_sched. Qed.

(* invariant of every state reachable in n iterations, whatever the candidates and draws were:
   k returns so far, the last at iteration t = countdown_0 + ... + countdown_{k-1} (= LastReturnedToBase),
   the counter holds t + countdown_k - n, the step is step_k, currentIteration = n + 1 *)
Theorem C06_schedule_invariant : forall p, params_ok p = true ->
  forall c0 t0 s0 n s, init_state p c0 t0 = Ok s0 -> reach p s0 n s -> sched_inv p n s.
Proof. exact reach_sched_inv. Qed.

(* the unsigned countdown never wraps: it is >= 1 whenever it is about to be decremented *)
Theorem C06_countdown_never_wraps : forall p, params_ok p = true ->
  forall c0 t0 s0 n s, init_state p c0 t0 = Ok s0 -> reach p s0 n s -> (1 <= until s < 2 ^ 64)%N.
Proof. exact reach_no_wrap. Qed.

(* a return fires in iteration n+1  <=>  n+1 = countdown_0 + ... + countdown_k for some k *)
Theorem C06_return_exactly_at_partial_sums : forall p, params_ok p = true ->
  forall c0 t0 s0 n s i o s', init_state p c0 t0 = Ok s0 -> reach p s0 n s ->
  iteration p s i = Ok (o, s') ->
  (o_base o <> None <-> exists k, ret_iter p (S k) = Ok (N.of_nat (S n))).
Proof. exact reach_fire_iff. Qed.

(* whenever a return fires the selected base is a member of the (non-empty) solution set and becomes
   the current solution -- for every state, not only reachable ones *)
Theorem C06_return_selects_archive_member : forall p s i o s' b,
  iteration p s i = Ok (o, s') -> o_base o = Some b ->
  In b (arch s') /\ cur s' = b /\ arch s' <> [].
Proof. exact return_base_member. Qed.

Theorem C06_archive_never_empty_after_an_iteration : forall p s i o s',
  iteration p s i = Ok (o, s') -> arch s' <> [].
Proof. exact iteration_archive_nonempty. Qed.

(* no iteration can panic: with CheckNonDominance off (the default) and one vector length, every run on
   every candidate/draw/pick sequence completes *)
Theorem C06_runs_never_panic : forall p, params_ok p = true ->
  forall d c0 t0 is, p_check_nd p = false -> Forall (fun i => wf_len d (i_cand i)) is ->
  exists s0 os s', init_state p c0 t0 = Ok s0 /\ run p s0 is = Ok (os, s').
Proof. exact run_total. Qed.

(* ---- the boundary of the quantifier, as refutations ---- *)

(* beyond 2^53 float64(int64) is inexact: the first return is NOT after the configured number of
   iterations (harmless in practice: 9.0e15 iterations) *)
Theorem C06_first_countdown_large_init_refuted :
  exists p, (1 <= p_init p)%Z /\ (1 <= p_min p)%Z /\ factor_in_range (p_factor p) = true
            /\ sched_countdown p 0 <> Ok (Z.to_N (p_init p)).
Proof. exact large_init_refuted. Qed.

(* with init < min the second interval is longer than the first, and the first is below the minimum *)
Theorem C06_intervals_non_increasing_needs_init_ge_min_refuted :
  exists p c0 c1, params_ok p = true /\ sched_countdown p 0 = Ok c0 /\ sched_countdown p 1 = Ok c1
                  /\ (c0 < c1)%N /\ (c0 < Z.to_N (p_min p))%N.
Proof. exact init_below_min_refuted. Qed.

(* ---- non-vacuity ---- *)
Definition C06_default_params : params :=
  mk_params 20000 10 (mkf 8556839292003942 (-53)) 1%float Product false.

Example C06_default_params_ok : params_ok C06_default_params = true.
Proof. vm_compute. reflexivity. Qed.

(* 20000 x 0.95 = 19000.0 in binary64 (18999 in exact arithmetic): returns at 20000, 39000, 57050 *)
Example C06_default_parameters_schedule :
  (do us <- sched_init C06_default_params; sched_returns C06_default_params (N.to_nat 60000) 1%N us)
  = Ok [(20000%N, 19000%N, 19000%float); (39000%N, 18050%N, 18050%float); (57050%N, 17147%N, 17147.5%float)].
Proof. exact default_schedule_example. Qed.

Example C06_default_return_iterations :
  map (ret_iter C06_default_params) [1; 2; 3]%nat = [Ok 20000%N; Ok 39000%N; Ok 57050%N].
Proof. vm_compute. reflexivity. Qed.

(* a three-iteration run exhibiting all three decisions and a return to base *)
Example C06_example_run : example_run_statement.
Proof. exact example_run_holds. Qed.

Print Assumptions C06_move_certain_when_stored_or_held.
Print Assumptions C06_move_certain_when_action_set_held.
Print Assumptions C06_verdict_sound.
Print Assumptions C06_move_iff_probability_exceeds_draw.
Print Assumptions C06_accepted_undesirable_is_forced.
Print Assumptions C06_no_move_current_unchanged.
Print Assumptions C06_move_rule_leaves_schedule.
Print Assumptions C06_iteration_current_solution.
Print Assumptions C06_runs_are_iterations.
Print Assumptions C06_archive_is_C05_run_and_invariant.
Print Assumptions C06_move_certain_when_action_set_held_in_any_run.
Print Assumptions C06_move_rule_is_C05_step.
Print Assumptions C06_step_rule_refines_composed.
Print Assumptions C06_iteration_refines_composed.
Print Assumptions C06_iteration_keeps_composed_guarantees.
Print Assumptions C06_acceptance_probability_in_unit_interval.
Print Assumptions C06_acceptance_probability_in_unit_interval_bool.
Print Assumptions C06_ideal_exp_in_unit_interval.
Print Assumptions C06_initial_state_defined.
Print Assumptions C06_countdowns_defined.
Print Assumptions C06_first_countdown_is_initial_step.
Print Assumptions C06_countdown_is_floor_of_step.
Print Assumptions C06_step_recurrence.
Print Assumptions C06_countdown_never_below_minimum.
Print Assumptions C06_countdowns_non_increasing.
Print Assumptions C06_first_interval_non_increasing.
Print Assumptions C06_schedule_is_independent_of_candidates.
Print Assumptions C06_schedule_invariant.
Print Assumptions C06_countdown_never_wraps.
Print Assumptions C06_return_exactly_at_partial_sums.
Print Assumptions C06_return_selects_archive_member.
Print Assumptions C06_archive_never_empty_after_an_iteration.
Print Assumptions C06_runs_never_panic.
Print Assumptions C06_first_countdown_large_init_refuted.
Print Assumptions C06_intervals_non_increasing_needs_init_ge_min_refuted.
