(* C15 -- The engine answers every request with a well-formed response and never panics.
   Statements only; every proof is [exact <lemma>] from EngineProofs.

   Model: Engine.v (the handlers of cmd/cremengine/engine/api with every unchecked Go expression as an explicit [Panic]).
   CLAIMED PARTIAL.  What is proved: for EVERY sequence of abstract requests whose library calls return, no handler
   panics, every status is documented, every non-200 answer is the JSON error document, and JSON-declared bodies come
   from the marshaller.  What is NOT proved (sampled by the correspondence stream only): that the library calls made
   on the request body (TOML decoder, model interpreter and initialisation, encoding/csv + caster, encoding/json,
   json.MarshalIndent, regexp) themselves return -- in the model that is the hypothesis [wf_request]. *)
From Coq Require Import List String ZArith QArith Bool.
From Crem Require Import Base.Res Engine EngineProofs EngineAdmin.
Import ListNotations.

Section C15.
Context {V : Type}.

(* FULL statement (kept visible): no request sequence whatsoever makes a handler panic. *)
Definition C15_no_panic_full : Prop := forall rs : list (request V), exists s : state V, run init_state rs = Ok s.

(* It is false of the faithful model: a panic inside a library call propagates through the handler (nothing recovers
   it), and the model represents such a panic as an outcome of the parse-level view (the ...LibPanic constructors).
   The witness on the real code was POST /scenario with YearsOfErosion = 0 (a panic inside the model interpretation,
   DESIGN.md D14c); it has since been repaired in /repo (2d5fa4a) and the harness, which still replays that request on
   every run, now sees a 400.  No library panic reachable by a request is known on the current tree; that none exists
   is exactly what is sampled rather than proved. *)
Theorem C15_no_panic_full_refuted : ~ C15_no_panic_full.
Proof.
  intro H. destruct (H [lib_panic_request]) as [s Hs]. simpl in Hs. discriminate.
Qed.

(* PARTIAL form, proved: for all request sequences whose library calls return (and whose CSV view has the shape
   tables.baseTable builds), of any length, over all routes, methods, content types and parse-level bodies. *)
Theorem C15_no_panic_partial : forall rs : list (request V),
  forallb wf_request rs = true -> exists s : state V, run init_state rs = Ok s.
Proof. exact run_never_panics. Qed.

(* the same, one request at a time: in every reachable state every such request is answered *)
Theorem C15_every_request_answered_partial : forall (s : state V) (r : request V),
  reachable s -> wf_request r = true -> exists resp s', handle s r = Ok (resp, s').
Proof. exact handle_returns. Qed.

(* the remaining clauses hold for ALL states and ALL abstract requests (no hypothesis) *)
Theorem C15_status_documented : forall (s : state V) (r : request V) resp s',
  handle s r = Ok (resp, s') -> In (rs_status resp) [200; 400; 404; 405; 415; 500; 503]%nat.
Proof. exact status_documented. Qed.

Theorem C15_error_is_json : forall (s : state V) (r : request V) resp s',
  handle s r = Ok (resp, s') -> rs_status resp <> 200%nat -> rs_ctype resp = CtJson /\ rs_body resp = BErr.
Proof. exact error_is_json_document. Qed.

Theorem C15_success_is_not_an_error_document : forall (s : state V) (r : request V) resp s',
  handle s r = Ok (resp, s') -> rs_status resp = 200%nat -> rs_body resp <> BErr.
Proof. exact ok_is_not_error_document. Qed.

Theorem C15_json_wellformed : forall (s : state V) (r : request V) resp s',
  handle s r = Ok (resp, s') ->
  match rs_ctype resp with
  | CtJson => match rs_body resp with BText _ => False | _ => True end     (* a marshalled value, never stored bytes *)
  | CtToml | CtCsv => exists t, rs_body resp = BText t                     (* stored bytes, verbatim *)
  | CtOther => False
  end.
Proof. exact json_bodies_are_marshalled. Qed.

(* Semantically wrong input is a client error, not silent acceptance: a POST /solutions whose table has an Actions cell
   that does not decode into the management actions of the loaded scenario (wrong word count, a word beyond 64 bits,
   an empty word -- all of which pass the hexadecimal pattern) is never answered 200 -- in ANY state; so by
   C15_error_is_json it gets the JSON error document, and by C14_error_leaves_state nothing is stored. *)
Theorem C15_undecodable_encoding_is_client_error : forall (s : state V) (r : request V) t resp s',
  rq_route r = RSolutions -> rq_meth r = MPost -> rq_csv r = CsvOk t ->
  (forall m, st_model s = Some m -> has_undecodable (List.length (d_actions (m_desc m))) t = true) ->
  handle s r = Ok (resp, s') -> rs_status resp <> 200%nat.
Proof. exact undecodable_encoding_refused. Qed.

(* ---- the whole server: API multiplexer + admin multiplexer (status / shutdown) + the status handler on the API's "/" ---- *)
Theorem C15_server_no_panic_partial : forall (qs : list (sreq V)) name version status,
  forallb wf_sreq qs = true -> exists sv', server_run (init_server name version status) qs = Ok sv'.
Proof.
  intros qs name version status H.
  destruct (server_run_never_panics qs (init_server name version status) Inv_init H) as (sv' & E & _). eauto.
Qed.

Theorem C15_server_status_documented : forall (sv : server V) q resp sv',
  server_handle sv q = Ok (resp, sv') -> In (rs_status resp) [200; 400; 404; 405; 415; 500; 503]%nat.
Proof. exact server_status_documented. Qed.

Theorem C15_server_error_is_json : forall (sv : server V) q resp sv',
  server_handle sv q = Ok (resp, sv') -> rs_status resp <> 200%nat -> rs_ctype resp = CtJson /\ rs_body resp = BErr.
Proof. exact server_error_is_json. Qed.

(* admin requests never touch the engine's resources; POST /shutdown is the only request that signals the shutdown,
   and GET /status reports it afterwards *)
Theorem C15_admin_requests_leave_engine : forall (sv : server V) m rt resp sv',
  server_handle sv (ToAdmin m rt) = Ok (resp, sv') -> sv_engine sv' = sv_engine sv.
Proof. exact admin_requests_leave_engine. Qed.

Theorem C15_shutdown_signals : forall (sv : server V) resp sv',
  server_handle sv (ToAdmin MPost AShutdown) = Ok (resp, sv') ->
  sv_shutdowns sv' = S (sv_shutdowns sv) /\ sv_status sv' = "SHUTTING_DOWN"%string
  /\ server_handle sv' (ToAdmin MGet AStatus) = Ok (status_doc sv', sv').
Proof. exact shutdown_signals. Qed.

Theorem C15_only_shutdown_signals : forall (sv : server V) q resp sv',
  server_handle sv q = Ok (resp, sv') -> sv_shutdowns sv' <> sv_shutdowns sv -> q = ToAdmin MPost AShutdown.
Proof. exact only_shutdown_signals. Qed.

End C15.

(* Non-vacuity: a concrete well-formed sequence that loads a scenario, writes, reads, and sends malformed input. *)
Definition ex_desc : desc (list bool) :=
  {| d_actions := [(17%Z, "GullyRestoration"%string); (17%Z, "RiverBankRestoration"%string); (18%Z, "RiverBankRestoration"%string)];
     d_pus := [17%Z; 18%Z]; d_asis := [("SedimentProduction"%string, 1059911 # 1000)];
     d_valid := fun b => negb (nth 0 b false && nth 2 b false); d_errs := fun _ => "E"%string; d_eval := fun b => b |}.
Definition ex_req (m : meth) (rt : route) (ct : ctype) : request (list bool) :=
  {| rq_meth := m; rq_route := rt; rq_ctype := ct; rq_raw := "raw"%string; rq_toml := TomlOk "S"%string (MOk ex_desc);
     rq_csv := CsvOk {| t_header := ["SubCatchment"%string; "RiverBankRestoration"%string];
                        t_rows := [[CF (Fin (18 # 1)) "18"%string; CF (Fin (1 # 1)) "1"%string]] |};
     rq_json := JsonAttrs [("Encoding"%string, AStr "5"%string); ("Note"%string, AOther "7"%string)] |}.
Definition ex_seq : list (request (list bool)) :=
  [ ex_req MGet RModel CtOther; ex_req MPost RScenario CtToml; ex_req MPut RActive CtCsv; ex_req MPatch RModel CtJson;
    ex_req MPut (RSubcatchment None) CtJson; ex_req MPut (RSubcatchment (Some 18%Z)) CtJson; ex_req MPost RSolutions CtCsv;
    ex_req MOther RNone CtOther; ex_req MGet (RSolution "As-Is"%string) CtOther ].
Example C15_example_wf : forallb wf_request ex_seq = true.
Proof. vm_compute. reflexivity. Qed.
Example C15_example_statuses :
  (fix go (s : state (list bool)) rs := match rs with [] => [] | r :: rs' =>
     match handle s r with Ok (resp, s') => rs_status resp :: go s' rs' | Panic => [0%nat] end end) init_state ex_seq
  = [404; 200; 200; 200; 404; 400; 400; 404; 404]%nat.
Proof. vm_compute. reflexivity. Qed.

Example C15_example_undecodable :
  decodes 13 "40" = true /\ decodes 13 "1:2" = false /\ decodes 13 "10000000000000000" = false
  /\ decodes 13 ":" = false /\ decodes 13 "" = false /\ decodes 65 "1:2" = true
  /\ has_undecodable 13 {| t_header := ["Solution"; "SedimentProduction"; "Actions"; "Summary"]%string;
                           t_rows := [[CS "As-Is"; CF (Fin (1059911 # 1000)) "1059.911"; CF (Fin 0) "0"; CS "as is"];
                                      [CS "1-of-8"; CF (Fin 1) "1"; CS "1:2"; CS "x"]]%string |} = true.
Proof. vm_compute. repeat split; reflexivity. Qed.

Print Assumptions C15_no_panic_full_refuted.
Print Assumptions C15_no_panic_partial.
Print Assumptions C15_every_request_answered_partial.
Print Assumptions C15_status_documented.
Print Assumptions C15_error_is_json.
Print Assumptions C15_success_is_not_an_error_document.
Print Assumptions C15_json_wellformed.
Print Assumptions C15_undecodable_encoding_is_client_error.
Print Assumptions C15_server_no_panic_partial.
Print Assumptions C15_server_status_documented.
Print Assumptions C15_server_error_is_json.
Print Assumptions C15_admin_requests_leave_engine.
Print Assumptions C15_shutdown_signals.
Print Assumptions C15_only_shutdown_signals.
