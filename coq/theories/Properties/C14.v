(* C14 -- placeholder while the pipeline is brought up; theorems follow. *)
From Coq Require Import List String.
From Crem Require Import Base.Res Engine.
Example C14_placeholder : (@init_state unit) = init_state.
Proof. reflexivity. Qed.
