(* C14 -- Engine resources reflect exactly the writes applied, whatever the route taken.
   Statements only; every proof is [exact <lemma>] from EngineProofs / EngineC14 (the refutation computes).

   Model: Engine.v -- the REST engine's handlers transcribed with the order of their side effects (snapshot, pool,
   attributes), from the sources as committed in /repo (fix series proposed_fixes/SERIES-C14C15.txt + CSV cell-text fix b0400cb).
   "reachable s": s is the state after some sequence of requests whose library calls return (wf_request). *)
From Coq Require Import List String ZArith QArith Bool.
From Crem Require Import Base.Res Engine EngineProofs EngineC14 EngineSolutions EngineCatchment EngineEncoding EngineCorr EngineSized.
From Crem Require Catchment.
Import ListNotations.

Section C14.
Context {V : Type}.

(* 1. A request answered with an error status leaves the engine exactly as it was -- the WHOLE state, hence every
      readable resource -- in every reachable state, for every request. *)
Theorem C14_error_leaves_state : forall (s : state V) (r : request V) resp s',
  reachable s -> wf_request r = true -> handle s r = Ok (resp, s') -> rs_status resp <> 200%nat -> s' = s.
Proof. exact error_leaves_state. Qed.

(* 2. Text resources byte-for-byte: after ANY request sequence, GET /scenario (resp. /solutions) returns exactly the
      body of the last POST /scenario (resp. /solutions) that was answered 200, and 404 if there was none. *)
Theorem C14_text_verbatim : forall (rs : list (request V)) (s : state V) (r : request V),
  forallb wf_request rs = true -> run init_state rs = Ok s -> rq_meth r = MGet ->
  (rq_route r = RScenario ->
   handle s r = Ok (match last_posted RScenario (applied init_state rs) None with
                    | Some t => {| rs_status := 200; rs_ctype := CtToml; rs_body := BText t |}
                    | None => error_response 404 end, s))
  /\ (rq_route r = RSolutions ->
   handle s r = Ok (match last_posted RSolutions (applied init_state rs) None with
                    | Some t => {| rs_status := 200; rs_ctype := CtCsv; rs_body := BText t |}
                    | None => error_response 404 end, s)).
Proof. exact text_verbatim. Qed.

(* 3. Reads reflect the writes: the six read-only resources never change the state, are computed from
      (scenario text, solutions text, snapshot) alone, and the snapshot is ALWAYS the snapshot of the live model --
      no write route leaves a stale snapshot behind (the defect of the per-subcatchment PUT before its fix). *)
Theorem C14_reads_do_not_write : forall (s : state V) (r : request V),
  reachable s -> is_read r = true -> exists resp, handle s r = Ok (resp, s).
Proof. intros s r H. apply read_keeps_state. now apply reachable_Inv. Qed.

Theorem C14_reads_depend_on_resources_only : forall (s1 s2 : state V) (r : request V) resp1 resp2,
  reachable s1 -> reachable s2 -> is_read r = true -> resources s1 = resources s2 ->
  handle s1 r = Ok (resp1, s1) -> handle s2 r = Ok (resp2, s2) -> resp1 = resp2.
Proof. intros s1 s2 r resp1 resp2 H1 H2. apply read_depends_on_resources; now apply reachable_Inv. Qed.

Theorem C14_snapshot_is_current : forall s : state V, reachable s -> st_snap s = option_map snapshot_of (st_model s).
Proof. intros s H. apply snapshot_is_current. now apply reachable_Inv. Qed.

(* 3b. Exactly the successful writes: replaying only the requests that were answered 200 and are not reads (failed
       requests and the six read-only resources dropped) from the same start reproduces the SAME state, hence the same
       resources.  (Besides the writes, [effective] keeps the GET /solutions/<label> requests answered 200: they load
       the solution pool -- a cache -- and, by the second theorem, touch no readable resource.) *)
Theorem C14_only_successful_writes_matter : forall (rs : list (request V)) (s : state V),
  forallb wf_request rs = true -> run init_state rs = Ok s -> run init_state (effective init_state rs) = Ok s.
Proof. intros rs s. apply only_effective_requests_matter. exact Inv_init. Qed.

Theorem C14_solution_read_keeps_resources : forall (s : state V) label resp s',
  get_solution s label = Ok (resp, s') -> resources s' = resources s /\ st_model s' = st_model s /\ st_soltable s' = st_soltable s.
Proof. exact solution_read_keeps_resources. Qed.

(* 4. Route equivalence, at full strength: from ANY reachable state, two sequences of reads, whole-table PUTs,
      per-subcatchment PUTs and encoding PATCHes that each perform at least one successful write and end in the same
      action set leave the same model representation (id, scenario, action set, valuation, and the same value under
      every attribute name).  (Until proposed_fixes/C14-6 this held only for states in which the client had not patched
      an engine-maintained attribute name; PATCH /model now refuses those names, which makes [tidy5] an invariant.) *)
Theorem C14_route_equivalence : forall (s s1 s2 : state V) (rs1 rs2 : list (request V)),
  reachable s ->
  forallb wf_request rs1 = true -> forallb pure_route rs1 = true -> run s rs1 = Ok s1 -> wrote s rs1 = true ->
  forallb wf_request rs2 = true -> forallb pure_route rs2 = true -> run s rs2 = Ok s2 -> wrote s rs2 = true ->
  option_map m_bits (st_model s1) = option_map m_bits (st_model s2) ->
  exists sn1 sn2, st_snap s1 = Some sn1 /\ st_snap s2 = Some sn2 /\ same_representation sn1 sn2.
Proof. exact route_equivalence_full. Qed.

(* the invariant behind it: in every reachable state the engine-maintained attribute names (Encoding,
   ParetoFrontMember, ValidAgainstScenario, ValidationErrors, ModelSuppliedPlanningUnitName) occur at most once,
   non-null, and the planning-unit name has its initial value *)
Theorem C14_engine_attributes_stay_tidy : forall (s : state V) m,
  reachable s -> st_model s = Some m -> tidy5 (m_attrs m).
Proof. intros s m Hr Em. exact (proj1 (reachable_tidy s Hr m Em)). Qed.

(* 4b. Replaced solution summaries: after ANY request sequence, GET /solutions/<label> is answered from the summary in
       force NOW -- [last_table]: the table of the last POST /solutions answered 200, none once a later POST /scenario was
       answered 200 -- and from nothing else: 404 (the JSON error document) unless a row of THAT table carries the label;
       otherwise 200 with the Actions and Summary cells of the FIRST such row and the action set that encoding decodes
       into (the As-Is label: the scenario's as-is entry).  Labels served from an earlier summary, however often, make no
       difference: the solution pool is a cache whose every entry is what a fresh lookup in the current table yields
       (EngineSolutions.PoolOk, an invariant of the reachable states). *)
Theorem C14_solution_served_from_current_summary : forall (rs : list (request V)) (s : state V) (label : string) resp s',
  forallb wf_request rs = true -> run init_state rs = Ok s ->
  get_solution s label = Ok (resp, s') ->
  answer_from (last_table (applied init_state rs) None) (st_model s) label resp.
Proof. exact solution_from_current_summary. Qed.

Theorem C14_label_not_in_current_summary_is_not_found : forall (s : state V) (label : string) resp s' t,
  reachable s -> st_soltable s = Some t -> label_row label (t_rows t) = Ok None ->
  get_solution s label = Ok (resp, s') -> resp = error_response 404 /\ s' = s.
Proof. exact label_not_in_current_summary. Qed.

(* 4c. The encoding leg of the route triple, for EVERY number of management actions (no bound, no word-boundary case
       split): in every reachable state with a loaded scenario, PATCH /model [{Encoding: encode bits}] -- the text the
       engine itself serves as the Encoding attribute of the action set [bits] -- is answered 200 and leaves the live model
       and the served snapshot in exactly [bits].  With C14_route_equivalence the representation is then the one the
       whole-table and per-subcatchment routes to [bits] produce. *)
Theorem C14_encoding_patch_reaches_its_set : forall (s : state V) (m : mstate V) (r : request V) (bits : list bool),
  reachable s -> st_model s = Some m ->
  List.length bits = List.length (d_actions (m_desc m)) -> 1 <= List.length bits ->
  encoding_patch_of r bits ->
  exists resp m', handle s r = Ok (resp, with_model s m' (snapshot_of m'))
    /\ rs_status resp = 200%nat /\ m_bits m' = bits /\ m_desc m' = m_desc m /\ m_id m' = m_id m.
Proof. intros s m r bits H. apply encoding_patch_reaches_its_set. now apply reachable_Inv. Qed.

End C14.

(* the codec itself: what Encoding() writes for a set, Decode accepts and reads back as that set -- whatever the archive
   held, whether the last word is partly used, full, or a single bit *)
Theorem C14_encoding_decodes_to_its_set : forall (bs cur : list bool), 1 <= List.length bs ->
  decode (List.length bs) cur (encode bs) = (true, bs).
Proof. exact decode_encode. Qed.

Theorem C14_encoding_is_injective : forall b1 b2 : list bool,
  1 <= List.length b1 -> List.length b1 = List.length b2 -> encode b1 = encode b2 -> b1 = b2.
Proof. exact encode_injective. Qed.

(* 5. The abstract valuation tied to the catchment model (EngineCatchment.v): for an ARBITRARY well-formed catchment
      data set [d], in every reachable engine state whose scenario is [d], the decision variables served by GET /model
      are THE catchment valuation (Catchment.canon_obs: totals and per-unit values of the six variables) of the action
      set last written -- and equal what the Go catchment model shows after ANY history of its own operations ending in
      that action set (C01). *)
Theorem C14_served_variables_are_the_catchment_valuation :
  forall (d : Catchment.dataset) errs (s : state valuation) (m : mstate valuation),
    Catchment.wf_dataset d = true -> reachable s -> st_model s = Some m -> m_desc m = engine_desc d errs ->
    exists sn, st_snap s = Some sn
      /\ sn_bits sn = m_bits m
      /\ sn_vars sn = catch_eval d (m_bits m)
      /\ map Catchment.o_total (sn_vars sn) = catch_totals d (m_bits m)
      /\ (forall h, Catchment.wf_history d h = true -> Catchment.active_list d (Catchment.run d h) = m_bits m ->
                    Catchment.o_vars (Catchment.obs_of d (Catchment.run d h)) = sn_vars sn).
Proof. exact served_variables_are_the_catchment_valuation. Qed.

Theorem C14_routes_serve_the_same_catchment_valuation :
  forall (d : Catchment.dataset) errs (s s1 s2 : state valuation) (rs1 rs2 : list (request valuation)) m,
    reachable s -> st_model s = Some m -> m_desc m = engine_desc d errs ->
    forallb wf_request rs1 = true -> forallb pure_route rs1 = true -> Engine.run s rs1 = Ok s1 -> wrote s rs1 = true ->
    forallb wf_request rs2 = true -> forallb pure_route rs2 = true -> Engine.run s rs2 = Ok s2 -> wrote s rs2 = true ->
    option_map m_bits (st_model s1) = option_map m_bits (st_model s2) ->
    exists sn1 sn2, st_snap s1 = Some sn1 /\ st_snap s2 = Some sn2 /\ same_representation sn1 sn2
      /\ sn_vars sn1 = catch_eval d (sn_bits sn1) /\ sn_vars sn2 = catch_eval d (sn_bits sn1).
Proof. exact routes_serve_the_same_catchment_valuation. Qed.

(* ---------------------------------------------------------------------------------------------------------------- *)
(* Regression case: the former witness against full route equivalence.  PATCH /model [{ModelSuppliedPlanningUnitName: "X"}]
   used to be accepted; the whole-table PUT then kept "X" while the encoding PATCH re-asserted "SubCatchment".  It is now
   answered 400, leaves the state alone, and the two routes serve the same attributes. *)
Definition w_desc : desc (list bool) :=
  {| d_actions := [(17%Z, "GullyRestoration"%string); (17%Z, "RiverBankRestoration"%string); (18%Z, "RiverBankRestoration"%string)];
     d_pus := [17%Z; 18%Z]; d_asis := [("SedimentProduction"%string, 1059911 # 1000)];
     d_valid := fun _ => true; d_errs := fun _ => "E"%string; d_eval := fun b => b |}.
Definition w_req (m : meth) (rt : route) (ct : ctype) (j : json_view) : request (list bool) :=
  {| rq_meth := m; rq_route := rt; rq_ctype := ct; rq_raw := "raw"%string; rq_toml := TomlOk "S"%string (MOk w_desc);
     rq_csv := CsvOk {| t_header := ["SubCatchment"%string; "RiverBankRestoration"%string];
                        t_rows := [[CF (Fin (18 # 1)) "18"%string; CF (Fin (1 # 1)) "1"%string]] |};
     rq_json := j |}.
Definition w_patch_name : request (list bool) :=
  w_req MPatch RModel CtJson (JsonAttrs [("ModelSuppliedPlanningUnitName"%string, AStr "X"%string)]).
Definition w_prefix : list (request (list bool)) := [ w_req MPost RScenario CtToml JsonErr; w_patch_name ].
Definition w_route_table : list (request (list bool)) := [ w_req MPut RActive CtCsv JsonErr ].
Definition w_route_patch : list (request (list bool)) :=
  [ w_req MPatch RModel CtJson (JsonAttrs [("Encoding"%string, AStr "4"%string)]) ].
Definition w_s : state (list bool) := Eval vm_compute in match run init_state w_prefix with Ok s => s | Panic => init_state end.
Definition w_s1 : state (list bool) := Eval vm_compute in match run w_s w_route_table with Ok s => s | Panic => init_state end.
Definition w_s2 : state (list bool) := Eval vm_compute in match run w_s w_route_patch with Ok s => s | Panic => init_state end.
Example C14_regression_patched_planning_unit_name :
  run init_state w_prefix = Ok w_s /\ run w_s w_route_table = Ok w_s1 /\ run w_s w_route_patch = Ok w_s2
  /\ (exists resp, handle w_s w_patch_name = Ok (resp, w_s) /\ rs_status resp = 400%nat)
  /\ option_map m_bits (st_model w_s1) = Some [false; false; true]
  /\ option_map sn_attrs (st_snap w_s1) = option_map sn_attrs (st_snap w_s2)
  /\ option_map (fun sn => a_value (sn_attrs sn) "ModelSuppliedPlanningUnitName") (st_snap w_s1) = Some (AStr "SubCatchment").
Proof.
  split; [vm_compute; reflexivity|]. split; [vm_compute; reflexivity|]. split; [vm_compute; reflexivity|].
  split; [eexists; vm_compute; split; reflexivity|]. vm_compute. repeat split; reflexivity.
Qed.

(* Non-vacuity: a reachable loaded state and the three routes from it. *)
Definition ex_loaded : list (request (list bool)) := [ w_req MPost RScenario CtToml JsonErr ].
Definition ex_route_sub : list (request (list bool)) :=
  [ w_req MPut (RSubcatchment (Some 18%Z)) CtJson (JsonAttrs [("RiverBankRestoration"%string, AStr "Active"%string)]) ].
Definition ex_s : state (list bool) := Eval vm_compute in match run init_state ex_loaded with Ok s => s | Panic => init_state end.
Example C14_example_routes_agree :
  run init_state ex_loaded = Ok ex_s
  /\ (exists m, st_model ex_s = Some m /\ a_count (m_attrs m) "Encoding" = 1%nat /\ a_value (m_attrs m) mspun = AStr "SubCatchment")
  /\ forallb pure_route (w_route_table ++ ex_route_sub ++ w_route_patch) = true
  /\ wrote ex_s w_route_table = true /\ wrote ex_s ex_route_sub = true /\ wrote ex_s w_route_patch = true
  /\ (exists s1 s2 s3, run ex_s w_route_table = Ok s1 /\ run ex_s ex_route_sub = Ok s2 /\ run ex_s w_route_patch = Ok s3
      /\ option_map m_bits (st_model s1) = Some [false; false; true]
      /\ option_map m_bits (st_model s2) = Some [false; false; true]
      /\ option_map m_bits (st_model s3) = Some [false; false; true]
      /\ option_map sn_attrs (st_snap s1) = option_map sn_attrs (st_snap s2)
      /\ option_map sn_attrs (st_snap s2) = option_map sn_attrs (st_snap s3)).
Proof.
  split; [vm_compute; reflexivity|]. split; [eexists; vm_compute; repeat split; reflexivity|].
  split; [vm_compute; reflexivity|]. split; [vm_compute; reflexivity|]. split; [vm_compute; reflexivity|]. split; [vm_compute; reflexivity|].
  do 3 eexists. vm_compute. repeat split; reflexivity.
Qed.

Example C14_example_error_keeps_state :
  exists resp,
    handle ex_s (w_req MPatch RModel CtJson (JsonAttrs [("Note"%string, AStr "n"%string); ("Encoding"%string, AStr "zz"%string)])) = Ok (resp, ex_s)
    /\ rs_status resp = 400%nat.
Proof. eexists. vm_compute. split; reflexivity. Qed.

(* Non-vacuity of 4b: a long summary, its label "L2" served, a short summary without "L2" posted, "L2" asked for again:
   404; the label the short summary has instead is served with ITS row's cells. *)
Definition sum_row (l enc : string) : list cell :=
  [CS l; CF (Fin (1059911 # 1000)) "1059.911"%string; CS enc; CS (String.append "summary of " l)].
Definition sum_req (rows : list (list cell)) : request (list bool) :=
  {| rq_meth := MPost; rq_route := RSolutions; rq_ctype := CtCsv; rq_raw := "summary text"%string; rq_toml := TomlErr;
     rq_csv := CsvOk {| t_header := ["Solution"%string; "SedimentProduction"%string; "Actions"%string; "Summary"%string];
                        t_rows := rows |};
     rq_json := JsonErr |}.
Definition sol_get (l : string) : request (list bool) :=
  {| rq_meth := MGet; rq_route := RSolution l; rq_ctype := CtOther; rq_raw := ""%string; rq_toml := TomlErr; rq_csv := CsvErr; rq_json := JsonErr |}.
Definition sum_long := sum_req [sum_row "As-Is" "0"; sum_row "L1" "1"; sum_row "L2" "2"; sum_row "L3" "4"].
Definition sum_short := sum_req [sum_row "As-Is" "0"; sum_row "S1" "6"].
Definition sum_history : list (request (list bool)) :=
  [ w_req MPost RScenario CtToml JsonErr; sum_long; sol_get "L2"; sol_get "L3"; sum_short ].
Example C14_example_replaced_summary :
  forallb wf_request sum_history = true
  /\ exists s, run init_state sum_history = Ok s
     /\ (exists resp, handle s (sol_get "L2") = Ok (resp, s) /\ resp = error_response 404)
     /\ (exists resp, handle s (sol_get "L3") = Ok (resp, s) /\ resp = error_response 404)
     /\ (exists resp s', handle s (sol_get "S1") = Ok (resp, s') /\ rs_status resp = 200%nat
          /\ rs_body resp = BSolution "S"%string [false; true; true] [false; true; true] (Some ("6"%string, "summary of S1"%string))).
Proof.
  split; [vm_compute; reflexivity|]. eexists. split; [vm_compute; reflexivity|].
  split; [eexists; split; vm_compute; reflexivity|]. split; [eexists; split; vm_compute; reflexivity|].
  do 2 eexists. vm_compute. repeat split; reflexivity.
Qed.

(* ---------------------------------------------------------------------------------------------------------------- *)
(* Word boundaries, executed (EngineSized.v: definitions and the evaluations, run once by the build): scenarios with n
   management actions, two per planning unit.  For every target set that fills, empties or straddles the last word,
   from a state that differs from the target at the boundary actions, the three routes -- whole-table upload,
   per-subcatchment updates, encoding patch -- end in the target set, serve its canonical Encoding and answer
   GET /model, /model/actions/active and /model/subcatchment/<id> (every unit) identically; plus a full sweep (one
   per-subcatchment update for EVERY unit) from the freshly posted scenario.  The literal texts next to them pin the
   format: a FULL last word (64, 128 actions) keeps every one of its bits. *)
Example C14_example_routes_agree_63_actions :
  sz_all_triples_ok 63 = true
  /\ encode (sz_set 63 (fun _ => true)) = "7FFFFFFFFFFFFFFF"%string
  /\ encode (sz_set 63 (fun i => Nat.eqb i 62)) = "4000000000000000"%string
  /\ decode 63 (repeat false 63) "FFFFFFFFFFFFFFFF" = (true, sz_set 63 (fun _ => true)).   (* bit 63 is beyond the 63 actions: dropped *)
Proof. exact sz_example_63. Qed.

Example C14_example_routes_agree_64_actions :
  sz_all_triples_ok 64 = true
  /\ encode (sz_set 64 (fun _ => true)) = "FFFFFFFFFFFFFFFF"%string
  /\ encode (sz_set 64 (fun i => Nat.eqb i 63)) = "8000000000000000"%string
  /\ decode 64 (repeat false 64) "FFFFFFFFFFFFFFFF" = (true, sz_set 64 (fun _ => true))
  /\ decode 64 (repeat false 64) "8000000000000000" = (true, sz_set 64 (fun i => Nat.eqb i 63))
  /\ fst (decode 64 (repeat false 64) "0:1") = false /\ fst (decode 64 (repeat false 64) "") = false.
Proof. exact sz_example_64. Qed.

Example C14_example_routes_agree_65_actions :
  sz_all_triples_ok 65 = true
  /\ encode (sz_set 65 (fun _ => true)) = "FFFFFFFFFFFFFFFF:1"%string
  /\ encode (sz_set 65 (fun i => Nat.eqb i 64)) = "0:1"%string
  /\ encode (sz_set 65 (fun _ => false)) = "0:0"%string
  /\ decode 65 (repeat false 65) "0:FFFFFFFFFFFFFFFF" = (true, sz_set 65 (fun i => Nat.eqb i 64))
  /\ fst (decode 65 (repeat false 65) "1") = false /\ fst (decode 65 (repeat false 65) "0:0:0") = false.
Proof. exact sz_example_65. Qed.

Example C14_example_routes_agree_128_actions :
  sz_all_triples_ok 128 = true
  /\ encode (sz_set 128 (fun _ => true)) = "FFFFFFFFFFFFFFFF:FFFFFFFFFFFFFFFF"%string
  /\ encode (sz_set 128 (fun i => Nat.eqb i 127)) = "0:8000000000000000"%string
  /\ encode (sz_set 128 (sz_last_word 128)) = "0:FFFFFFFFFFFFFFFF"%string
  /\ decode 128 (repeat false 128) "1:FFFFFFFFFFFFFFFF" = (true, sz_set 128 (fun i => Nat.eqb i 0 || sz_last_word 128 i))
  /\ fst (decode 128 (repeat false 128) "FFFFFFFFFFFFFFFF") = false.
Proof. exact sz_example_128. Qed.

(* and the sizes around them, the multi-word ones included *)
Example C14_example_routes_agree_around_word_boundaries :
  forallb sz_all_triples_ok [1; 2; 3; 62; 66; 127; 129; 192] = true.
Proof. exact sz_example_around. Qed.

(* non-vacuity of 4c at a full last word: the hypotheses hold for the 64-action scenario *)
Example C14_example_encoding_patch_64 :
  exists s m, run init_state [sz_post 64] = Ok s /\ st_model s = Some m
    /\ List.length (sz_set 64 (fun i => Nat.eqb i 63)) = List.length (d_actions (m_desc m))
    /\ encoding_patch_of (sz_patch 64 "8000000000000000") (sz_set 64 (fun i => Nat.eqb i 63))
    /\ wf_request (sz_patch 64 "8000000000000000") = true.
Proof. exact sz_example_patch_64. Qed.

Print Assumptions C14_error_leaves_state.
Print Assumptions C14_text_verbatim.
Print Assumptions C14_reads_do_not_write.
Print Assumptions C14_reads_depend_on_resources_only.
Print Assumptions C14_snapshot_is_current.
Print Assumptions C14_only_successful_writes_matter.
Print Assumptions C14_solution_read_keeps_resources.
Print Assumptions C14_solution_served_from_current_summary.
Print Assumptions C14_label_not_in_current_summary_is_not_found.
Print Assumptions C14_route_equivalence.
Print Assumptions C14_engine_attributes_stay_tidy.
Print Assumptions C14_encoding_patch_reaches_its_set.
Print Assumptions C14_encoding_decodes_to_its_set.
Print Assumptions C14_encoding_is_injective.
Print Assumptions C14_served_variables_are_the_catchment_valuation.
Print Assumptions C14_routes_serve_the_same_catchment_valuation.
