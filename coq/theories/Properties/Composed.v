(* Composition of C01 + C03 + C05 + C06 (archive side): one theorem about whole multi-objective runs of the
   composed model Compose.v — catchment valuation, randomisation loops, the transcribed archive and the
   explorer's step rule.  Statement only; proof in ComposeProofs.v.  Checked as part of C03. *)
From Coq Require Import List ZArith QArith Bool.
From Crem Require Import Catchment Limits NdArchive Compose ComposeProofs.
Import ListNotations.

(* For every wf data set with a limit attainable at the starting extreme, ALL picks, coolant decisions and
   return-to-base selections, and any number of iterations: at every iteration boundary
   - the current solution is within the limit,
   - the archive holds no member dominated by another and no two members with the same action set,
   - every member's objective vector is the catchment model's valuation of the member's action set,
   - and every member is within the limit. *)
Theorem composed_multi_objective_run :
  forall d picks0 inputs ms, wf_dataset d = true ->
    state_is_valid d (start_extreme d) = true ->
    picks_ok d picks0 = true -> cm_inputs_ok d inputs = true ->
    cm_run d picks0 inputs = Some ms ->
    Forall (fun m =>
      state_is_valid d (cm_cur m) = true /\
      nondominated (cm_arch m) /\ dup_free (cm_arch m) /\
      forall e, In e (cm_arch m) -> e_vec e = eval_vec d (e_acts e) /\ set_valid d (e_acts e) = true) ms.
Proof. exact (fun d p i ms Hd => composed_run_ok d Hd p i ms). Qed.
Print Assumptions composed_multi_objective_run.

(* =====================================================================================================
   Composition of C01 + C02 + C03 + C04 + C07 for the SINGLE-objective (Kirkpatrick) annealer
   (ComposeKp.v: Kirkpatrick.iterate instantiated with the catchment model under a limit; proofs in
   ComposeKpProofs.v; real runs replayed by ComposeKpCorr.check_krun, checked as part of C03).

   Numbers: model values are grid integers (Z, exact rationals underneath: DESIGN 3a); what the explorer
   sees is binary64 (Coq primitive floats, DESIGN 3b).  The bridge is COMPUTED by the model, not assumed:
     grid_float k g      = float64(g) / float64(scale k)          what math.RoundFloat leaves for grid value g
     reported_change k s = (un + ch) - un in binary64              ChangePerPlanningUnitDecisionVariableCommand.Change()
   and the replay compares both with the floats the Go model reports, on every iteration (assumption A-FLOAT
   checked per case).  [ki_e] (the value math.Exp returned) and [ki_u] (the uniform draw) are inputs; the
   argument the code hands to math.Exp is stated in clause (c).
   ===================================================================================================== *)
From Coq Require Import Floats.
From Crem Require Import Kirkpatrick ComposeKp ComposeKpProofs.
From Crem Require AnnealLoop.

(* what [step_facts d cfg n b x b' dec] says of ONE iteration: n = CoolDown calls so far, b = (explorer fields,
   model state) before, x = (pick, math.Exp result, draw, cool?), b' = after, dec = the decision *)
Theorem composed_single_objective_step_reading :
  forall d cfg n (b : boundary) x (b' : boundary) dec,
    step_facts d cfg n b x b' dec <->
    (let k := kc_obj cfg in
     let m := snd b in
     let m1 := propose d m (ki_pick x) in
     let c := reported_change k m1 in
     let T := st_T (fst b) in
     (* (a) C03: the state held after the iteration respects the limit *)
     state_is_valid d (snd b') = true
     (* (b) C01: every total -- in particular the objective value the explorer reads -- is the valuation of the
            current action set; the binary64 value the explorer reads is that of the valuation *)
     /\ (forall k', v_total (var (snd b') k') = canon_total d k' (st_active (snd b')))
     /\ objective_float k (snd b') = grid_float k (canon_total d k (st_active (snd b')))
     (* (c) C04: the decision is the Metropolis decision for the reported change, the temperature and the draw *)
     /\ dec = metropolis_spec (kc_dir cfg) (mkInput (change_is_valid d m1) c (ki_e x) (ki_u x))
     /\ (change_is_valid d m1 = false -> dec = RevertInvalid)
     /\ (change_is_valid d m1 = true -> improves (kc_dir cfg) c = true -> dec = AcceptDesirable)
     /\ (change_is_valid d m1 = true -> improves (kc_dir cfg) c = false ->
           dec = (if (ki_u x <? ki_e x)%float then AcceptUndesirable else RevertUndesirable)
           /\ step_exp_arg (kc_dir cfg) (fst b) (mkInput true c (ki_e x) (ki_u x)) = exp_arg T c)
     (* (d) C02: accepted = the proposed state, moved by exactly the reported grid change; otherwise the previous one *)
     /\ snd b' = (if accepts dec then accept m1 else revert m1)
     /\ (forall j, st_active (snd b') j = if accepts dec then flip (st_active m) (ki_pick x) j else st_active m j)
     /\ (forall k', v_total (var (snd b') k')
                  = if accepts dec then (v_total (var m k') + cmd_change (v_cmd (var m1 k')))%Z else v_total (var m k'))
     (* (e) C07: the temperature is T0 * cf^n (binary64, one multiplication per CoolDown) *)
     /\ T = AnnealLoop.temp_after (kc_cf cfg) (kc_T0 cfg) n
     /\ st_T (fst b') = AnnealLoop.temp_after (kc_cf cfg) (kc_T0 cfg) (n + cooled x)
     /\ st_cf (fst b') = kc_cf cfg).
Proof. exact (fun d cfg n b x b' dec => iff_refl _). Qed.
Print Assumptions composed_single_objective_step_reading.

(* For every wf data set with a limit attainable at the starting extreme, either configured optimisation direction,
   each of the six objective variables, every starting temperature and cooling factor, ALL initial picks, and ALL
   per-iteration picks, math.Exp results, draws and cooling flags, any number of iterations:
   the state after the initial randomisation respects the limit and carries the valuation of its action set, and
   EVERY iteration satisfies (a)-(e) above. *)
Theorem composed_single_objective_run :
  forall d cfg picks0 inputs s0 tr, wf_dataset d = true ->
    configured (kc_dir cfg) = true ->
    state_is_valid d (start_extreme d) = true ->
    picks_ok d picks0 = true -> kp_inputs_in_range d inputs = true ->
    ckp_run d cfg picks0 inputs = Some (s0, tr) ->
    state_is_valid d s0 = true
    /\ (forall k, v_total (var s0 k) = canon_total d k (st_active s0))
    /\ length tr = length inputs
    /\ forall j x, nth_error inputs j = Some x ->
         exists b' dec, nth_error tr j = Some (b', dec)
           /\ step_facts d cfg (cooled_count (firstn j inputs))
                         (boundary_before (init_state (kc_T0 cfg) (kc_cf cfg), s0) tr j) x b' dec.
Proof. exact (fun d cfg p i s0 tr Hd Hdir => ckp_run_pointwise d Hd cfg Hdir p i s0 tr). Qed.
Print Assumptions composed_single_objective_run.

(* the same, as a chain (the form the induction proves) *)
Theorem composed_single_objective_run_chain :
  forall d cfg picks0 inputs s0 tr, wf_dataset d = true ->
    configured (kc_dir cfg) = true ->
    state_is_valid d (start_extreme d) = true ->
    picks_ok d picks0 = true -> kp_inputs_in_range d inputs = true ->
    ckp_run d cfg picks0 inputs = Some (s0, tr) ->
    state_is_valid d s0 = true
    /\ (forall k, v_total (var s0 k) = canon_total d k (st_active s0))
    /\ trace_facts d cfg 0 (init_state (kc_T0 cfg) (kc_cf cfg), s0) inputs tr.
Proof. exact (fun d cfg p i s0 tr Hd Hdir => ckp_run_ok d Hd cfg Hdir p i s0 tr). Qed.
Print Assumptions composed_single_objective_run_chain.

(* the composed run IS a run of C04's explorer over an abstract model (so every C04 theorem about
   Kirkpatrick.iterations applies to it) ... *)
Theorem composed_single_objective_run_is_C04_iterations :
  forall d cfg inputs b,
    iterations (kp_ops d (kc_obj cfg)) (kc_dir cfg) b (map kp_pq inputs)
    = (last (map fst (ckp_iters d cfg b inputs)) b, map snd (ckp_iters d cfg b inputs)).
Proof. exact ckp_iters_iterations. Qed.
Print Assumptions composed_single_objective_run_is_C04_iterations.

(* ... and its model states ARE a run of C03's single-objective model Limits.kp_run whose decision inputs are the
   Metropolis decisions (so C03_single_objective_run applies to it literally) *)
Theorem composed_single_objective_run_is_C03_kp_run :
  forall d cfg picks0 inputs s0 tr,
    ckp_run d cfg picks0 inputs = Some (s0, tr) ->
    kp_run d picks0 (map (fun xr => (ki_pick (fst xr), accepts (snd (snd xr)))) (combine inputs tr))
    = Some (s0 :: map (fun r => snd (fst r)) tr).
Proof. exact ckp_run_refines_kp_run. Qed.
Print Assumptions composed_single_objective_run_is_C03_kp_run.

(* "improving" read on the grid: whenever the binary64 change has the sign of the grid change it stands for (the
   computable side condition [sign_faithful], evaluated on every replayed iteration), clause (c) decides on the
   sign of the GRID change *)
Theorem composed_single_objective_improving_on_grid :
  forall dir k c, sign_faithful k c = true ->
    improves dir (cmd_change_float k c) = improves_grid dir (cmd_change c).
Proof. exact improves_on_grid. Qed.
Print Assumptions composed_single_objective_improving_on_grid.

(* non-vacuity: two planning units, a gully action (1000 dollars) and a hill-slope action (250 dollars), implementation
   cost limited to 1100, minimising sediment from T0 = 10 with cooling factor 1/2.  The randomisation tries the gully
   action, is refused and stops (nothing active, sediment 32.334).  Then: the hill-slope action improves (-2.000) and is
   accepted; the gully action would cost 1250 > 1100: invalid, reverted; undoing the hill-slope action worsens by
   (14.667 + 2) - 14.667 = 2.0000000000000018 in binary64: at T = 2.5 exp(-0.8) = 0.449 <= 0.9: reverted; the same
   proposal at T = 1.25 with exp(-1.6) = 0.2019 > 0.1: accepted.  Temperatures 5, 2.5, 1.25, 0.625. *)
Definition exk_d : dataset :=
  mkData [3; 5]%Z
    [ mkAction 3 Gully [(OriginalGullySediment, 7 # 2); (ActionedGullySediment, 1 # 2); (ImplementationCostVar, 1000 # 1)];
      mkAction 5 HillSlope [(HillSlopeErosionOriginalAttribute, 11 # 3); (HillSlopeErosionActionedAttribute, 5 # 3);
                             (ImplementationCostVar, 250 # 1)] ]
    (fun _ _ => mkCtx (1 # 5) (9 # 1) (7 # 2) (11 # 3) 0 0) (Some (VIC, 1100 # 1)).
Definition exk_cfg : kp_cfg := mkKpCfg Minimise VSed 10 0.5.
Definition exk_inputs : list kp_input :=
  [mkKpIn 1 0 0 true; mkKpIn 0 0 0 true;
   mkKpIn 1 0x1.cc1ce4581db83p-2 0x1.ccccccccccccdp-1 true;
   mkKpIn 1 0x1.9d7bebefb4e0cp-3 0x1.999999999999ap-4 true]%float.
Example composed_single_objective_nonvacuous :
  wf_dataset exk_d = true /\ state_is_valid exk_d (start_extreme exk_d) = true
  /\ configured (kc_dir exk_cfg) = true /\ picks_ok exk_d [0%nat; 1%nat] = true
  /\ kp_inputs_in_range exk_d exk_inputs = true
  /\ match ckp_run exk_d exk_cfg [0%nat; 1%nat] exk_inputs with
     | Some (s0, tr) =>
         Some (active_list exk_d s0, v_total (st_sed s0),
               map (fun r => (snd r, active_list exk_d (snd (fst r)), v_total (st_sed (snd (fst r))),
                              v_total (st_ic (snd (fst r))), st_T (fst (fst r)), st_change (fst (fst r)))) tr)
     | None => None
     end
     = Some ([false; false], 32334%Z,
             [(AcceptDesirable, [false; true], 30334%Z, 25000%Z, 5, -2);
              (RevertInvalid, [false; true], 30334%Z, 25000%Z, 2.5, -3);
              (RevertUndesirable, [false; true], 30334%Z, 25000%Z, 1.25, 0x1.0000000000004p+1);
              (AcceptUndesirable, [false; false], 32334%Z, 0%Z, 0.625, 0x1.0000000000004p+1)]%float)
  /\ exp_arg 2.5 0x1.0000000000004p+1 = (-0x1.99999999999a0p-1)%float.
Proof. vm_compute. repeat split; reflexivity. Qed.
