(* Composition of C01 + C03 + C05 + C06 (archive side): one theorem about whole multi-objective runs of the
   composed model Compose.v — catchment valuation, randomisation loops, the transcribed archive and the
   explorer's step rule.  Statement only; proof in ComposeProofs.v.  Checked as part of C03. *)
From Coq Require Import List ZArith QArith Bool.
From Crem Require Import Catchment Limits NdArchive Compose ComposeProofs.
Import ListNotations.

(* For every wf data set with a limit attainable at the starting extreme, ALL picks, coolant decisions and
   return-to-base selections, and any number of iterations: at every iteration boundary
   - the current solution is within the limit,
   - the archive holds no member dominated by another and no two members with the same action set,
   - every member's objective vector is the catchment model's valuation of the member's action set,
   - and every member is within the limit. *)
Theorem composed_multi_objective_run :
  forall d picks0 inputs ms, wf_dataset d = true ->
    state_is_valid d (start_extreme d) = true ->
    picks_ok d picks0 = true -> cm_inputs_ok d inputs = true ->
    cm_run d picks0 inputs = Some ms ->
    Forall (fun m =>
      state_is_valid d (cm_cur m) = true /\
      nondominated (cm_arch m) /\ dup_free (cm_arch m) /\
      forall e, In e (cm_arch m) -> e_vec e = eval_vec d (e_acts e) /\ set_valid d (e_acts e) = true) ms.
Proof. exact (fun d p i ms Hd => composed_run_ok d Hd p i ms). Qed.
Print Assumptions composed_multi_objective_run.
