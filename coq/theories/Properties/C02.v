(* C02 — Proposed changes are transactional: exact revert, accept = reported change.
   Statements only; proofs are in CatchmentProofs.v.  The first five hold in EVERY model state
   (reachable or not), hence for all interleavings of propose / accept / revert decisions; the last
   lifts them to histories through the C01 invariant. *)
From Coq Require Import List ZArith QArith Bool.
From Crem Require Import Catchment CatchmentProofs.
Import ListNotations.
Open Scope Z_scope.

(* while a change is only proposed, every reported value (and every hidden attribute) stays put *)
Theorem C02_propose_keeps_reported_values :
  forall d s i k,
    (forall pu, v_vals (var (propose d s i) k) pu = v_vals (var s k) pu) /\
    v_total (var (propose d s i) k) = v_total (var s k) /\
    (forall pu, v_attrs (var (propose d s i) k) pu = v_attrs (var s k) pu).
Proof. exact propose_keeps_values. Qed.
Print Assumptions C02_propose_keeps_reported_values.

(* reverting restores every observable exactly: action states, totals, per-unit values ... *)
Theorem C02_revert_exact :
  forall d s i, obs_of d (revert (propose d s i)) = obs_of d s.
Proof. exact revert_obs. Qed.
Print Assumptions C02_revert_exact.

(* ... and the hidden per-unit attributes of all six variables, and every flag (hence the encoding,
   which is a function of the flags: C09) *)
Theorem C02_revert_exact_hidden :
  forall d s i,
    same_vars s (revert (propose d s i)) /\ forall j, st_active (revert (propose d s i)) j = st_active s j.
Proof. intros d s i. split; [apply revert_propose_same_vars|apply revert_propose_active]. Qed.
Print Assumptions C02_revert_exact_hidden.

(* accepting moves each variable by exactly the change reported for the proposal *)
Theorem C02_accept_realises_reported_change :
  forall d s i k,
    v_total (var (accept (propose d s i)) k) = v_total (var s k) + cmd_change (v_cmd (var (propose d s i) k)).
Proof. exact accept_total. Qed.
Print Assumptions C02_accept_realises_reported_change.

(* a single action change alters per-unit values only in that action's own planning unit *)
Theorem C02_locality :
  forall d s i k pu, pu <> a_pu (act d i) ->
    v_vals (var (accept (propose d s i)) k) pu = v_vals (var s k) pu.
Proof. exact accept_locality. Qed.
Print Assumptions C02_locality.

(* undoing an accepted change (accept, then revert) is exact as well *)
Theorem C02_undo_exact :
  forall d s i, obs_of d (revert (accept (propose d s i))) = obs_of d s.
Proof. exact undo_obs. Qed.
Print Assumptions C02_undo_exact.

(* a second accept of the same proposal changes nothing (the command's status guard) *)
Theorem C02_accept_idempotent :
  forall d s i k, var (accept (accept (propose d s i))) k = var (accept (propose d s i)) k.
Proof. intros d s i k. apply accept_idempotent. destruct k; reflexivity. Qed.
Print Assumptions C02_accept_idempotent.

(* all interleavings: after ANY well-formed history the state is again one in which the above hold
   and whose observables are the valuation of its active set *)
Theorem C02_every_reachable_state :
  forall d h, wf_dataset d = true -> wf_history d h = true -> Inv d (run d h).
Proof. exact (fun d h Hd Hh => run_inv d Hd h Hh). Qed.
Print Assumptions C02_every_reachable_state.

(* =====================================================================================================
   The two toy implementations of model.Model the shipped Dumb*Annealer configurations run on:
   internal/pkg/model/models/dumb and internal/pkg/model/models/modumb (DumbModels.v).
   Worlds hold several model structs (handles: an original and its DeepClones); operations are addressed
   to a handle; the random pick of TryRandomChange is an argument.  The dumb clauses hold in EVERY world,
   the modumb clauses in every well-formed world ([mw_wf], a boolean that every operation preserves) --
   hence after every history of operations on any handles with any picks
   (C02_dumb_all_interleavings, C02_modumb_all_interleavings).
   ===================================================================================================== *)
From Crem Require Import Base.Res DumbModels DumbModelsProofs.

(* ---------------- dumb.Model (grid: thousandths) ---------------- *)

(* while a change is only proposed, the reported value stays put *)
Theorem C02_dumb_propose_keeps_reported_value :
  forall w h up v, dw_value w h = Some v -> dw_value (dw_step w h (DTry up)) h = Some v.
Proof. exact dw_propose_keeps_value. Qed.
Print Assumptions C02_dumb_propose_keeps_reported_value.

(* reverting restores the only observable the model has (no actions: the encoding is empty) *)
Theorem C02_dumb_revert_exact :
  forall w h up v, dw_value w h = Some v -> dw_value (dw_step (dw_step w h (DTry up)) h DRevert) h = Some v.
Proof. exact dw_revert_exact. Qed.
Print Assumptions C02_dumb_revert_exact.

(* accepting moves ObjectiveValue by exactly the reported change (+1 or -1), wherever the value lies with
   respect to MinimumObjectiveValue / MaximumObjectiveValue *)
Theorem C02_dumb_accept_realises_reported_change :
  forall w h up v, dw_value w h = Some v ->
    exists c, dw_change (dw_step w h (DTry up)) h = Some c /\ (c = 1000 \/ c = -1000) /\
              dw_value (dw_step (dw_step w h (DTry up)) h DAccept) h = Some (v + c).
Proof. exact dw_accept_realises. Qed.
Print Assumptions C02_dumb_accept_realises_reported_change.

(* UndoChange after an accepted proposal is exact as well *)
Theorem C02_dumb_undo_exact :
  forall w h up v, dw_value w h = Some v ->
    dw_value (dw_step (dw_step (dw_step w h (DTry up)) h DAccept) h DUndo) h = Some v.
Proof. exact dw_undo_exact. Qed.
Print Assumptions C02_dumb_undo_exact.

(* whatever is done to one handle (an original or a clone), every other handle keeps its whole state *)
Theorem C02_dumb_other_handles_untouched :
  forall w h o h', h' <> h -> (h' < length (dw_models w))%nat ->
    nth_error (dw_models (dw_step w h o)) h' = nth_error (dw_models w) h'.
Proof. exact dw_handles_independent. Qed.
Print Assumptions C02_dumb_other_handles_untouched.

(* MinimumObjectiveValue / MaximumObjectiveValue are accepted and have no effect on anything reported:
   erasing them from the world and from every SetParameters of a history changes no report *)
Theorem C02_dumb_range_parameters_inert :
  forall w l,
    dw_obs (dw_run (dw_erase_range w) (map (fun ho => (fst ho, dop_erase_range (snd ho))) l)) = dw_obs (dw_run w l).
Proof. exact dumb_range_inert. Qed.
Print Assumptions C02_dumb_range_parameters_inert.

(* all interleavings, spelled out: after ANY history (any handles, any picks, clones included) *)
Theorem C02_dumb_all_interleavings :
  forall hist h up v,
    let w := dw_run dw_new hist in
    dw_value w h = Some v ->
    dw_value (dw_step w h (DTry up)) h = Some v /\
    dw_value (dw_step (dw_step w h (DTry up)) h DRevert) h = Some v /\
    (exists c, dw_change (dw_step w h (DTry up)) h = Some c /\ (c = 1000 \/ c = -1000) /\
               dw_value (dw_step (dw_step w h (DTry up)) h DAccept) h = Some (v + c)) /\
    (forall h' o, h' <> h -> dw_value (dw_step w h' o) h = Some v).
Proof. exact dumb_all_interleavings. Qed.
Print Assumptions C02_dumb_all_interleavings.

(* "accept = reported change" is about ACCEPTING A PROPOSAL.  Stated for an arbitrary state it is false for
   the code as it is: AcceptChange on a model that never proposed anything (a fresh model, or a fresh
   DeepClone -- its variable's command is zero-valued and not yet done) sets ObjectiveValue to 0 while
   the reported change is 0.  No explorer does that (they accept only what they proposed). *)
Theorem C02_dumb_accept_in_any_state_refuted :
  exists s, d_value (d_accept s) <> d_value s + d_change s.
Proof. exists (mkDS 0 1000000 dcmd_fresh). vm_compute. discriminate. Qed.
Print Assumptions C02_dumb_accept_in_any_state_refuted.

(* non-vacuity / the range bounds really are ignored: start ON the minimum, propose downward, accept *)
Example C02_dumb_example_outward_accept_at_the_minimum :
  dw_obs (dw_run dw_new [(0%nat, DSetParams (Some 0) (Some 0) (Some 2000000)); (0%nat, DInit);
                         (0%nat, DTry false); (0%nat, DAccept)]) = [[-1000; -1000; -1000]].
Proof. vm_compute. reflexivity. Qed.
Example C02_dumb_example_clone_then_diverge :
  dw_obs (dw_run dw_new [(0%nat, DDo true); (0%nat, DClone); (1%nat, DTry false); (1%nat, DAccept); (0%nat, DUndo)])
  = [[1000000; 1000; 1001000]; [1000000; -1000; 1000000]].
Proof. vm_compute. reflexivity. Qed.

(* ---------------- modumb.Model (grid: hundredths) ---------------- *)

(* while a change is only proposed, every total and every per-unit value of EVERY handle stays put *)
Theorem C02_modumb_propose_keeps_reported_values :
  forall w hi pick w1, mw_step w hi (MTry pick) = Ok w1 ->
    forall hj b, hbody w hj = Some b -> exists b1, hbody w1 hj = Some b1 /\ same_values b b1.
Proof. exact modumb_propose_keeps_values. Qed.
Print Assumptions C02_modumb_propose_keeps_reported_values.

(* the change reported for the proposal is the picked action's -(k+1) (activation) / +(k+1) (deactivation) *)
Theorem C02_modumb_propose_reports_the_action_change :
  forall w hi pick w1 b, mw_step w hi (MTry pick) = Ok w1 -> hbody w hi = Some b -> mb_active b <> [] ->
    (pick < length (mb_active b))%nat /\
    hbody w1 hi = Some (observe (flip b pick) pick) /\
    mv_change (mb_var (observe (flip b pick) pick) (act_obj pick)) =
      (if is_active b pick then - obj_cost (act_obj pick) else obj_cost (act_obj pick)).
Proof. exact modumb_propose_reports. Qed.
Print Assumptions C02_modumb_propose_reports_the_action_change.

(* reverting restores every observable of EVERY handle: action states (hence the solution encoding, a
   function of them), totals, per-unit values -- in any world, well-formed or not *)
Theorem C02_modumb_revert_exact :
  forall w hi pick w1, mw_step w hi (MTry pick) = Ok w1 ->
    exists w2, mw_step w1 hi MRevert = Ok w2 /\
      forall hj b, hbody w hj = Some b -> exists b2, hbody w2 hj = Some b2 /\ same_obs b b2.
Proof. exact modumb_revert_exact. Qed.
Print Assumptions C02_modumb_revert_exact.

Corollary C02_modumb_revert_restores_encoding :
  forall (A : Type) (encode : list bool -> A) w hi pick w1, mw_step w hi (MTry pick) = Ok w1 ->
    exists w2, mw_step w1 hi MRevert = Ok w2 /\
      forall hj b, hbody w hj = Some b -> exists b2, hbody w2 hj = Some b2 /\ encode (mb_active b2) = encode (mb_active b).
Proof.
  intros A encode w hi pick w1 Ht. destruct (modumb_revert_exact w hi pick w1 Ht) as (w2 & Hs & H).
  exists w2. split; [exact Hs|]. intros hj b Hb. destruct (H hj b Hb) as (b2 & Hb2 & Hact & _).
  exists b2. split; [exact Hb2|]. rewrite Hact. reflexivity.
Qed.
Print Assumptions C02_modumb_revert_restores_encoding.

(* accepting moves each objective by exactly the change reported for it while the proposal was pending *)
Theorem C02_modumb_accept_realises_reported_change :
  forall w hi pick w1 b b1,
    mw_wf w = true -> mw_step w hi (MTry pick) = Ok w1 -> hbody w hi = Some b -> hbody w1 hi = Some b1 ->
    exists w2 b2, mw_step w1 hi MAccept = Ok w2 /\ hbody w2 hi = Some b2 /\
      mb_active b2 = mb_active b1 /\ settled b2 = true /\
      forall k, mv_total (mb_var b2 k) = mv_total (mb_var b k) + mv_change (mb_var b1 k).
Proof. exact modumb_accept_realises. Qed.
Print Assumptions C02_modumb_accept_realises_reported_change.

(* locality: the model HAS planning-unit-local values.  From a state without a pending proposal, propose +
   accept alters per-unit values of the picked action's own objective in its own planning unit only
   (unit = pick / 3, objective = pick mod 3), and there by exactly the reported change *)
Theorem C02_modumb_locality :
  forall w hi pick w1 b, mw_step w hi (MTry pick) = Ok w1 -> hbody w hi = Some b -> settled b = true ->
    exists w2 b1 b2, hbody w1 hi = Some b1 /\ mw_step w1 hi MAccept = Ok w2 /\ hbody w2 hi = Some b2 /\
      (forall k pu, (k <> act_obj pick \/ pu <> act_pu pick) -> mv_vals (mb_var b2 k) pu = mv_vals (mb_var b k) pu) /\
      (mb_active b <> [] ->
         mv_vals (mb_var b2 (act_obj pick)) (act_pu pick) =
         mv_vals (mb_var b (act_obj pick)) (act_pu pick) + mv_change (mb_var b1 (act_obj pick))).
Proof. exact modumb_locality. Qed.
Print Assumptions C02_modumb_locality.

(* UndoChange after propose + accept restores every observable of every handle *)
Theorem C02_modumb_undo_exact :
  forall w hi pick w1 b, mw_step w hi (MTry pick) = Ok w1 -> hbody w hi = Some b -> settled b = true -> mb_active b <> [] ->
    exists w2 w3, mw_step w1 hi MAccept = Ok w2 /\ mw_step w2 hi MUndo = Ok w3 /\
      forall hj bj, hbody w hj = Some bj -> exists b3, hbody w3 hj = Some b3 /\ same_obs bj b3.
Proof. exact modumb_undo_exact. Qed.
Print Assumptions C02_modumb_undo_exact.

(* a decision leaves nothing pending, so in the explorers' discipline (propose; accept | revert) every proposal
   starts from a settled state and C02_modumb_locality applies to it *)
Theorem C02_modumb_decision_settles :
  forall w hi o w' b, (o = MAccept \/ o = MRevert) -> mw_step w hi o = Ok w' -> hbody w' hi = Some b -> settled b = true.
Proof. exact modumb_decision_settles. Qed.
Print Assumptions C02_modumb_decision_settles.

(* every world a program can reach is well-formed *)
Theorem C02_modumb_every_reachable_world :
  forall hist w, mw_run mw_new hist = Ok w -> mw_wf w = true.
Proof. exact (fun hist w H => mw_run_wf hist mw_new w mw_new_wf H). Qed.
Print Assumptions C02_modumb_every_reachable_world.

(* an operation on a handle touches only the body that handle uses and the body its last-applied action
   lives in: a model initialised on its own is not moved by operations on other models ... *)
Theorem C02_modumb_operations_touch_only_own_bodies :
  forall w hi h o w' bj b,
    nth_error (mw_handles w) hi = Some h -> mw_step w hi o = Ok w' ->
    mh_body h <> Some bj -> (forall i, mh_last h <> LAct bj i) ->
    nth_error (mw_bodies w) bj = Some b -> nth_error (mw_bodies w') bj = Some b.
Proof. exact modumb_step_touches. Qed.
Print Assumptions C02_modumb_operations_touch_only_own_bodies.

(* all interleavings, spelled out: after ANY history that does not panic *)
Theorem C02_modumb_all_interleavings :
  forall hist w hi pick w1 b,
    mw_run mw_new hist = Ok w -> mw_step w hi (MTry pick) = Ok w1 -> hbody w hi = Some b ->
    (forall hj bj, hbody w hj = Some bj -> exists b1, hbody w1 hj = Some b1 /\ same_values bj b1) /\
    (exists w2, mw_step w1 hi MRevert = Ok w2 /\
       forall hj bj, hbody w hj = Some bj -> exists b2, hbody w2 hj = Some b2 /\ same_obs bj b2) /\
    (exists b1 w2 b2, hbody w1 hi = Some b1 /\ mw_step w1 hi MAccept = Ok w2 /\ hbody w2 hi = Some b2 /\
       mb_active b2 = mb_active b1 /\ settled b2 = true /\
       forall k, mv_total (mb_var b2 k) = mv_total (mb_var b k) + mv_change (mb_var b1 k)).
Proof. exact modumb_all_interleavings. Qed.
Print Assumptions C02_modumb_all_interleavings.

(* ---- what does NOT hold for the code as it is (witnesses; each reproduced on the real code by the harness) ---- *)
Definition modumb_report (hist : list (nat * mop)) : option (list (option (list bool * list Z))) :=
  match mw_run mw_new hist with
  | Ok w => Some (map (option_map (fun o => (mo_active o, mo_totals o))) (mw_obs w))
  | Panic => None
  end.
Definition one_unit : nat * mop := (0%nat, MSetParams None None None (Some 1%nat)).

(* ... but a DeepClone that has not been initialised itself SHARES the variables and actions of its original:
   an accepted change on the clone (handle 1) moves what the original (handle 0) reports *)
Theorem C02_modumb_clone_shares_state_until_initialised_refuted :
  modumb_report [one_unit; (0%nat, MInit); (0%nat, MClone)] =
    Some [Some ([false; false; false], [100000; 200000; 300000]); Some ([false; false; false], [100000; 200000; 300000])] /\
  modumb_report [one_unit; (0%nat, MInit); (0%nat, MClone); (1%nat, MDo 0%nat)] =
    Some [Some ([true; false; false], [99900; 200000; 300000]); Some ([true; false; false], [99900; 200000; 300000])].
Proof. split; vm_compute; reflexivity. Qed.
Print Assumptions C02_modumb_clone_shares_state_until_initialised_refuted.

(* even an initialised clone keeps the original's lastApplied pointer: RevertChange on the clone before it
   proposed anything itself toggles the ORIGINAL's action without any valuation *)
Theorem C02_modumb_stale_last_applied_refuted :
  modumb_report [one_unit; (0%nat, MInit); (0%nat, MDo 0%nat); (0%nat, MClone); (1%nat, MInit)] =
    Some [Some ([true; false; false], [99900; 200000; 300000]); Some ([false; false; false], [100000; 200000; 300000])] /\
  modumb_report [one_unit; (0%nat, MInit); (0%nat, MDo 0%nat); (0%nat, MClone); (1%nat, MInit); (1%nat, MRevert)] =
    Some [Some ([false; false; false], [99900; 200000; 300000]); Some ([false; false; false], [100000; 200000; 300000])].
Proof. split; vm_compute; reflexivity. Qed.
Print Assumptions C02_modumb_stale_last_applied_refuted.

(* RevertChange is not an undo of an ACCEPTED change (UndoChange is): it toggles the action back and leaves the values *)
Theorem C02_modumb_revert_after_accept_refuted :
  modumb_report [one_unit; (0%nat, MInit); (0%nat, MTry 0%nat); (0%nat, MAccept); (0%nat, MRevert)] =
    Some [Some ([false; false; false], [99900; 200000; 300000])].
Proof. vm_compute. reflexivity. Qed.
Print Assumptions C02_modumb_revert_after_accept_refuted.

(* RevertChange / UndoChange before the model applied any action: a method call on a nil interface *)
Example C02_modumb_revert_before_any_change_panics :
  mw_run mw_new [(0%nat, MInit); (0%nat, MRevert)] = Panic /\ mw_run mw_new [(0%nat, MInit); (0%nat, MUndo)] = Panic.
Proof. split; vm_compute; reflexivity. Qed.

(* UndoableValue reports the planning UNIT's prospective value, not the variable's (cf. the catchment fix 8740ef2):
   2 units, start 1000.00 in unit 0, propose action 3 (unit 1, Objective_0): undoable -1.00, total 1000.00, change -1.00 *)
Example C02_modumb_undoable_value_is_per_unit :
  match mw_run mw_new [(0%nat, MSetParams None None None (Some 2%nat)); (0%nat, MInit); (0%nat, MTry 3%nat)] with
  | Ok w => map (option_map (fun o => (mo_totals o, mo_changes o, mo_undoable o))) (mw_obs w)
  | Panic => []
  end = [Some ([100000; 200000; 300000], [-100; 0; 0], [-100; 0; 0])].
Proof. vm_compute. reflexivity. Qed.

(* non-vacuity: a history with clones, a proposal on it succeeds, the world is well-formed, rounding of the
   starting values (0.125 -> 0.13, -0.125 -> -0.13, 12.344 -> 12.34) *)
Example C02_modumb_example_history :
  match mw_run mw_new [(0%nat, MSetParams (Some (1 # 8)) (Some (-1 # 8)) (Some (12344 # 1000)) (Some 2%nat)); (0%nat, MInit);
                       (0%nat, MTry 4%nat); (0%nat, MAccept); (0%nat, MClone); (1%nat, MInit); (1%nat, MTry 5%nat)] with
  | Ok w => (mw_wf w, map (option_map (fun o => (mo_active o, mo_totals o, mo_changes o, mo_vals o))) (mw_obs w))
  | Panic => (false, [])
  end = (true, [Some ([false; false; false; false; true; false], [13; -213; 1234], [0; 0; 0], [[13; 0]; [-13; -200]; [1234; 0]]);
                Some ([false; false; false; false; false; true], [13; -13; 1234], [0; 0; -300], [[13; 0]; [-13; 0]; [1234; 0]])]).
Proof. vm_compute. reflexivity. Qed.
