(* C02 — Proposed changes are transactional: exact revert, accept = reported change.
   Statements only; proofs are in CatchmentProofs.v.  The first five hold in EVERY model state
   (reachable or not), hence for all interleavings of propose / accept / revert decisions; the last
   lifts them to histories through the C01 invariant. *)
From Coq Require Import List ZArith QArith Bool.
From Crem Require Import Catchment CatchmentProofs.
Import ListNotations.
Open Scope Z_scope.

(* while a change is only proposed, every reported value (and every hidden attribute) stays put *)
Theorem C02_propose_keeps_reported_values :
  forall d s i k,
    (forall pu, v_vals (var (propose d s i) k) pu = v_vals (var s k) pu) /\
    v_total (var (propose d s i) k) = v_total (var s k) /\
    (forall pu, v_attrs (var (propose d s i) k) pu = v_attrs (var s k) pu).
Proof. exact propose_keeps_values. Qed.
Print Assumptions C02_propose_keeps_reported_values.

(* reverting restores every observable exactly: action states, totals, per-unit values ... *)
Theorem C02_revert_exact :
  forall d s i, obs_of d (revert (propose d s i)) = obs_of d s.
Proof. exact revert_obs. Qed.
Print Assumptions C02_revert_exact.

(* ... and the hidden per-unit attributes of all six variables, and every flag (hence the encoding,
   which is a function of the flags: C09) *)
Theorem C02_revert_exact_hidden :
  forall d s i,
    same_vars s (revert (propose d s i)) /\ forall j, st_active (revert (propose d s i)) j = st_active s j.
Proof. intros d s i. split; [apply revert_propose_same_vars|apply revert_propose_active]. Qed.
Print Assumptions C02_revert_exact_hidden.

(* accepting moves each variable by exactly the change reported for the proposal *)
Theorem C02_accept_realises_reported_change :
  forall d s i k,
    v_total (var (accept (propose d s i)) k) = v_total (var s k) + cmd_change (v_cmd (var (propose d s i) k)).
Proof. exact accept_total. Qed.
Print Assumptions C02_accept_realises_reported_change.

(* a single action change alters per-unit values only in that action's own planning unit *)
Theorem C02_locality :
  forall d s i k pu, pu <> a_pu (act d i) ->
    v_vals (var (accept (propose d s i)) k) pu = v_vals (var s k) pu.
Proof. exact accept_locality. Qed.
Print Assumptions C02_locality.

(* undoing an accepted change (accept, then revert) is exact as well *)
Theorem C02_undo_exact :
  forall d s i, obs_of d (revert (accept (propose d s i))) = obs_of d s.
Proof. exact undo_obs. Qed.
Print Assumptions C02_undo_exact.

(* a second accept of the same proposal changes nothing (the command's status guard) *)
Theorem C02_accept_idempotent :
  forall d s i k, var (accept (accept (propose d s i))) k = var (accept (propose d s i)) k.
Proof. intros d s i k. apply accept_idempotent. destruct k; reflexivity. Qed.
Print Assumptions C02_accept_idempotent.

(* all interleavings: after ANY well-formed history the state is again one in which the above hold
   and whose observables are the valuation of its active set *)
Theorem C02_every_reachable_state :
  forall d h, wf_dataset d = true -> wf_history d h = true -> Inv d (run d h).
Proof. exact (fun d h Hd Hh => run_inv d Hd h Hh). Qed.
Print Assumptions C02_every_reachable_state.
