(* Executable model of the catchment model's valuation core
   (internal/pkg/model/models/catchment: CoreModel.go, variables/*/*.go, and
   internal/pkg/model/{action,variable}, pkg/command), written from the Go source AFTER the
   three `fix:` commits for D1-D3 (DESIGN.md section 7).  No proofs in this file.

   Numeric policy (DESIGN section 3a): action constants and planning-unit attributes are the
   exact rationals of the float64 values the running Go model holds; every quantity the code
   stores after RoundFloat is an integer number of grid units (1/1000, or 1/100 for costs).

   Go -> Coq:
     SimpleManagementAction / ModelManagementActions   -> st_active, st_last, toggle_*
     sedimentproduction / particulatenitrogen / dissolvednitrogen handle*Action + *Command
                                                       -> consts, setc, getc, calc, build_attr_cmd
     totalnitrogen.observeAction                       -> build_tn_cmd
     implementationcost / opportunitycost              -> build_cost_cmd
     variable.ChangePerPlanningUnitDecisionVariableCommand, command.BaseCommand -> cmd, do_cmd, undo_cmd
     PerPlanningUnitDecisionVariable.SetPlanningUnitValue -> set_pu_value
     CoreModel.{AcceptChange, RevertChange, SetManagementAction, SynchroniseTo, ChangeIsValid,
                StateIsValid}, ModelCompressor.Decompress -> accept, revert, set_action, synchronise,
                change_is_valid, state_is_valid, decompress                                   *)
From Coq Require Import List ZArith QArith Bool Arith.
Import ListNotations.
Open Scope Z_scope.

(* ---------- action types (ordered as their Go type-name strings sort) ---------- *)
Inductive atype := Gully | HillSlope | Riparian | Wetland.

Definition atype_eqb (a b : atype) : bool :=
  match a, b with
  | Gully, Gully | HillSlope, HillSlope | Riparian, Riparian | Wetland, Wetland => true
  | _, _ => false
  end.

(* names of the per-action model variables the handlers read (action.ModelVariableName) *)
Inductive mvname :=
| OriginalBufferVegetation | ActionedBufferVegetation
| OriginalRiparianSedimentProduction | ActionedRiparianSedimentProduction
| OriginalGullySediment | ActionedGullySediment
| HillSlopeErosionOriginalAttribute | HillSlopeErosionActionedAttribute
| SedimentRemovalEfficiency
| ParticulateNitrogenOriginalAttribute | ParticulateNitrogenActionedAttribute
| FineSedimentOriginalAttribute | FineSedimentActionedAttribute
| ParticulateNitrogenRemovalEfficiency
| DissolvedNitrogenOriginalAttribute | DissolvedNitrogenActionedAttribute
| DissolvedNitrogenRemovalEfficiency
| ImplementationCostVar      (* <Type>Cost            *)
| OpportunityCostVar.        (* <Type>OpportunityCost *)

Scheme Equality for mvname.

Record action := mkAction {
  a_pu : Z;
  a_type : atype;
  a_vars : list (mvname * Q)      (* SimpleManagementAction.variables *)
}.

(* Go: sma.variables[name] -- a missing key reads as 0 *)
Fixpoint mv_lookup (l : list (mvname * Q)) (n : mvname) : Q :=
  match l with
  | [] => 0%Q
  | (k, v) :: l' => if mvname_beq k n then v else mv_lookup l' n
  end.
Definition mv (a : action) (n : mvname) : Q := mv_lookup (a_vars a) n.

(* ---------- planning-unit attribute record (one shape for the three pollutant variables) ---------- *)
Record ctx := mkCtx {
  veg : Q;    (* riparian vegetation proportion            *)
  rip : Q;    (* riparian (river bank) contribution        *)
  gul : Q;    (* gully contribution                        *)
  hill : Q;   (* hill-slope contribution                   *)
  wet : Q;    (* wetland removal efficiency                *)
  aux : Q     (* DN only: riparian dissolved-N removal efficiency (never written by a command) *)
}.

Definition ctx0 : ctx := mkCtx 0 0 0 0 0 0.

Inductive pk := PSed | PPN | PDN.                 (* the three attribute-carrying variables *)

Definition comps := (Q * Q)%type.                 (* the attribute components one action type owns *)

(* what each action type WRITES (the *Command.Do/Undo bodies) *)
Definition setc (t : atype) (c : comps) (x : ctx) : ctx :=
  match t with
  | Riparian  => mkCtx (fst c) (snd c) (gul x) (hill x) (wet x) (aux x)
  | Gully     => mkCtx (veg x) (rip x) (fst c) (hill x) (wet x) (aux x)
  | HillSlope => mkCtx (veg x) (rip x) (gul x) (fst c) (wet x) (aux x)
  | Wetland   => mkCtx (veg x) (rip x) (gul x) (hill x) (fst c) (aux x)
  end.

(* what each command remembers as "undone" when it is built *)
Definition getc (t : atype) (x : ctx) : comps :=
  match t with
  | Riparian  => (veg x, rip x)
  | Gully     => (gul x, 0%Q)
  | HillSlope => (hill x, 0%Q)
  | Wetland   => (wet x, 0%Q)
  end.

(* the constants a handler takes from the observed action for the state [b] of that action
   (b = true: actioned values; b = false: original values) *)
Definition conversionFactor : Q := 1 # 100.

Definition consts (k : pk) (a : action) (b : bool) : comps :=
  match a_type a, k with
  | Riparian, PSed =>
      if b then (mv a ActionedBufferVegetation, mv a ActionedRiparianSedimentProduction)
      else (mv a OriginalBufferVegetation, mv a OriginalRiparianSedimentProduction)
  | Riparian, PPN =>
      if b then (mv a ActionedBufferVegetation,
                 mv a ActionedRiparianSedimentProduction * mv a FineSedimentActionedAttribute * conversionFactor)%Q
      else (mv a OriginalBufferVegetation,
            mv a OriginalRiparianSedimentProduction * mv a FineSedimentOriginalAttribute * conversionFactor)%Q
  | Riparian, PDN =>
      if b then (mv a ActionedBufferVegetation, mv a DissolvedNitrogenActionedAttribute)
      else (mv a OriginalBufferVegetation, mv a DissolvedNitrogenOriginalAttribute)
  | Gully, PSed => (if b then mv a ActionedGullySediment else mv a OriginalGullySediment, 0%Q)
  | Gully, PPN => (if b then mv a ParticulateNitrogenActionedAttribute else mv a ParticulateNitrogenOriginalAttribute, 0%Q)
  | Gully, PDN => (if b then mv a DissolvedNitrogenActionedAttribute else mv a DissolvedNitrogenOriginalAttribute, 0%Q)
  | HillSlope, PSed => (if b then mv a HillSlopeErosionActionedAttribute else mv a HillSlopeErosionOriginalAttribute, 0%Q)
  | HillSlope, PPN => (if b then mv a ParticulateNitrogenActionedAttribute else mv a ParticulateNitrogenOriginalAttribute, 0%Q)
  | HillSlope, PDN => (if b then mv a DissolvedNitrogenActionedAttribute else mv a DissolvedNitrogenOriginalAttribute, 0%Q)
  | Wetland, PSed => (if b then mv a SedimentRemovalEfficiency else 0%Q, 0%Q)
  | Wetland, PPN => (if b then mv a ParticulateNitrogenRemovalEfficiency else 0%Q, 0%Q)
  | Wetland, PDN => (if b then mv a DissolvedNitrogenRemovalEfficiency else 0%Q, 0%Q)
  end.

(* ---------- rounding to the reporting grid: math.RoundFloat = round half away from zero ---------- *)
Definition round_half_away (q : Q) : Z :=
  let n := Qnum q in
  let d := Zpos (Qden q) in
  if n >=? 0 then (2 * n + d) / (2 * d) else - ((2 * (- n) + d) / (2 * d)).

Definition round_grid (scale : Z) (q : Q) : Z := round_half_away (q * inject_Z scale)%Q.
Definition round3 := round_grid 1000.
Definition round2 := round_grid 100.

(* sedimentproduction/particulatenitrogen.riparianBufferFilter *)
Definition Qltb (a b : Q) : bool := negb (Qle_bool b a).
Definition riparian_filter (v : Q) : Q :=
  if Qltb v (1 # 4) then 1%Q else if Qltb (3 # 4) v then (1 # 4) else (1 - v)%Q.

(* calculateSedimentProduction / calculateNitrogenProduction (pre-rounding value) *)
Definition raw (k : pk) (x : ctx) : Q :=
  match k with
  | PSed | PPN => (rip x + gul x + ((1 - wet x) * hill x) * riparian_filter (veg x))%Q
  | PDN => (rip x + gul x + ((1 - wet x) * (1 - veg x * aux x)) * hill x)%Q
  end.
Definition calc (k : pk) (x : ctx) : Z := round3 (raw k x).

(* ---------- commands ---------- *)
Record cmd := mkCmd {
  c_null : bool;                (* variable.NullChangeCommand *)
  c_pu : Z;
  c_undone : Z;                 (* undoneValue (grid units) *)
  c_done : Z;                   (* doneValue                *)
  c_attr : option (atype * comps * comps);   (* owner type, undone components, done components *)
  c_isdone : bool               (* BaseCommand.status = Done *)
}.
Definition null_cmd : cmd := mkCmd true 0 0 0 None false.
Definition cmd_change (c : cmd) : Z := if c_null c then 0 else c_done c - c_undone c.

(* ---------- one decision variable ---------- *)
Record vstate := mkV {
  v_attrs : Z -> ctx;           (* planningUnitAttributes / subCatchmentAttributes *)
  v_vals : Z -> Z;              (* planningUnitValues, grid units; absent key = 0 *)
  v_total : Z;                  (* value *)
  v_cmd : cmd
}.

Definition fupd {X} (f : Z -> X) (k : Z) (v : X) : Z -> X := fun j => if j =? k then v else f j.

(* PerPlanningUnitDecisionVariable.SetPlanningUnitValue *)
Definition set_pu_value (v : vstate) (pu new : Z) : vstate :=
  mkV (v_attrs v) (fupd (v_vals v) pu new) (v_total v + (new - v_vals v pu)) (v_cmd v).

Definition set_cmd (v : vstate) (c : cmd) : vstate := mkV (v_attrs v) (v_vals v) (v_total v) c.
Definition mark (c : cmd) (b : bool) : cmd := mkCmd (c_null c) (c_pu c) (c_undone c) (c_done c) (c_attr c) b.

(* <X>Command.Do : guarded by the status; value first, then the owned attribute components *)
Definition do_cmd (v : vstate) : vstate :=
  let c := v_cmd v in
  if c_null c then v else if c_isdone c then v else
  let v1 := set_pu_value v (c_pu c) (c_done c) in
  let at' := match c_attr c with
             | Some (t, _, dn) => fupd (v_attrs v1) (c_pu c) (setc t dn (v_attrs v1 (c_pu c)))
             | None => v_attrs v1
             end in
  mkV at' (v_vals v1) (v_total v1) (mark c true).

Definition undo_cmd (v : vstate) : vstate :=
  let c := v_cmd v in
  if c_null c then v else if negb (c_isdone c) then v else
  let v1 := set_pu_value v (c_pu c) (c_undone c) in
  let at' := match c_attr c with
             | Some (t, un, _) => fupd (v_attrs v1) (c_pu c) (setc t un (v_attrs v1 (c_pu c)))
             | None => v_attrs v1
             end in
  mkV at' (v_vals v1) (v_total v1) (mark c false).

(* handle<Type>Action of the three pollutant variables: as-is / to-be contexts from the action's
   constants for the owned components and from the STORED attributes for the rest *)
Definition build_attr_cmd (k : pk) (a : action) (b : bool) (v : vstate) : cmd :=
  let pu := a_pu a in
  let x := v_attrs v pu in
  let asis := calc k (setc (a_type a) (consts k a (negb b)) x) in
  let tobe := calc k (setc (a_type a) (consts k a b) x) in
  let un := v_vals v pu in
  mkCmd false pu un (un + (tobe - asis)) (Some (a_type a, getc (a_type a) x, consts k a b)) false.

(* totalnitrogen.observeAction: rounded PN change + rounded DN change, on the TN value of the unit *)
Definition build_tn_cmd (a : action) (pnc dnc : cmd) (v : vstate) : cmd :=
  let pu := a_pu a in
  let un := v_vals v pu in
  mkCmd false pu un (un + (cmd_change pnc + cmd_change dnc)) None false.

(* implementationcost / opportunitycost .handleActionForModelVariable *)
Definition build_cost_cmd (name : mvname) (a : action) (b : bool) (v : vstate) : cmd :=
  let pu := a_pu a in
  let cost := round2 (mv a name) in
  let un := v_vals v pu in
  mkCmd false pu un (un + (if b then cost else - cost)) None false.

(* ---------- dataset and whole-model state ---------- *)
Inductive vk := VSed | VPN | VDN | VTN | VIC | VOC.

Record dataset := mkData {
  d_pus : list Z;                           (* planning-unit ids (sub-catchment table order) *)
  d_actions : list action;                  (* in the model's sorted order: index = action index *)
  d_base_attrs : pk -> Z -> ctx;            (* per-unit attribute record as the Go initialisation derived it *)
  d_limit : option (vk * Q)                 (* the single variable limit, if configured *)
}.

Record state := mkS {
  st_active : nat -> bool;
  st_last : option nat;                     (* lastApplied *)
  st_sed : vstate; st_pn : vstate; st_dn : vstate;
  st_tn : vstate; st_ic : vstate; st_oc : vstate
}.

Definition var (s : state) (k : vk) : vstate :=
  match k with VSed => st_sed s | VPN => st_pn s | VDN => st_dn s
             | VTN => st_tn s | VIC => st_ic s | VOC => st_oc s end.

Definition dummy_action : action := mkAction 0 Gully [].
Definition act (d : dataset) (i : nat) : action := nth i (d_actions d) dummy_action.
Definition nactions (d : dataset) : nat := length (d_actions d).

(* ---------- the valuation of an action set (the SPEC side of C01) ----------
   [f i] = is action i active.  For each planning unit and each of the four action types there is
   at most one action (wf_dataset); the attribute components that action owns hold the action's
   actioned or original constants, every other component keeps the data set's base value. *)
Fixpoint find_from (l : list action) (i : nat) (pu : Z) (t : atype) : option nat :=
  match l with
  | [] => None
  | a :: l' => if (a_pu a =? pu) && atype_eqb (a_type a) t then Some i else find_from l' (S i) pu t
  end.
Definition find_act (d : dataset) (pu : Z) (t : atype) : option nat := find_from (d_actions d) 0 pu t.

(* the components the (unique) action of type [t] in unit [pu] contributes under the flags [f] *)
Definition comp (d : dataset) (k : pk) (f : nat -> bool) (pu : Z) (t : atype) : option comps :=
  match find_act d pu t with
  | Some i => Some (consts k (act d i) (f i))
  | None => None
  end.

Definition canon_attrs (d : dataset) (k : pk) (f : nat -> bool) (pu : Z) : ctx :=
  let b := d_base_attrs d k pu in
  mkCtx (match comp d k f pu Riparian with Some c => fst c | None => veg b end)
        (match comp d k f pu Riparian with Some c => snd c | None => rip b end)
        (match comp d k f pu Gully with Some c => fst c | None => gul b end)
        (match comp d k f pu HillSlope with Some c => fst c | None => hill b end)
        (match comp d k f pu Wetland with Some c => fst c | None => wet b end)
        (aux b).

Definition cost_name (k : vk) : mvname := match k with VOC => OpportunityCostVar | _ => ImplementationCostVar end.

Fixpoint cost_from (l : list action) (i : nat) (name : mvname) (f : nat -> bool) (pu : Z) : Z :=
  match l with
  | [] => 0
  | a :: l' => (if (a_pu a =? pu) && f i then round2 (mv a name) else 0) + cost_from l' (S i) name f pu
  end.

Definition canon_val (d : dataset) (k : vk) (f : nat -> bool) (pu : Z) : Z :=
  match k with
  | VSed => calc PSed (canon_attrs d PSed f pu)
  | VPN => calc PPN (canon_attrs d PPN f pu)
  | VDN => calc PDN (canon_attrs d PDN f pu)
  | VTN => calc PPN (canon_attrs d PPN f pu) + calc PDN (canon_attrs d PDN f pu)
  | VIC | VOC => cost_from (d_actions d) 0 (cost_name k) f pu
  end.

Definition zsum (l : list Z) : Z := fold_right Z.add 0 l.
Definition canon_total (d : dataset) (k : vk) (f : nat -> bool) : Z :=
  zsum (map (canon_val d k f) (d_pus d)).

Definition none_active : nat -> bool := fun _ => false.

Definition fresh_v (d : dataset) (k : vk) : vstate :=
  mkV (match k with VSed => canon_attrs d PSed none_active | VPN => canon_attrs d PPN none_active
                  | VDN => canon_attrs d PDN none_active | _ => fun _ => ctx0 end)
      (canon_val d k none_active) (canon_total d k none_active) null_cmd.

(* CoreModel.Initialise: variables rebuilt from the data set, all actions inactive *)
Definition fresh (d : dataset) : state :=
  mkS none_active None
      (fresh_v d VSed) (fresh_v d VPN) (fresh_v d VDN) (fresh_v d VTN) (fresh_v d VIC) (fresh_v d VOC).

Definition upd (f : nat -> bool) (i : nat) (b : bool) : nat -> bool :=
  fun j => if Nat.eqb j i then b else f j.
Definition flip (f : nat -> bool) (i : nat) : nat -> bool := upd f i (negb (f i)).

(* the six action observers, in subscription order Sed, PN, DN, TN, IC, OC
   (buildActionObservers: creation order of the decision variables) *)
Definition observe (d : dataset) (s : state) (i : nat) : state :=
  let a := act d i in
  let b := st_active s i in
  let csed := build_attr_cmd PSed a b (st_sed s) in
  let cpn := build_attr_cmd PPN a b (st_pn s) in
  let cdn := build_attr_cmd PDN a b (st_dn s) in
  let ctn := build_tn_cmd a cpn cdn (st_tn s) in
  let cic := build_cost_cmd ImplementationCostVar a b (st_ic s) in
  let coc := build_cost_cmd OpportunityCostVar a b (st_oc s) in
  mkS (st_active s) (st_last s)
      (set_cmd (st_sed s) csed) (set_cmd (st_pn s) cpn) (set_cmd (st_dn s) cdn)
      (set_cmd (st_tn s) ctn) (set_cmd (st_ic s) cic) (set_cmd (st_oc s) coc).

Definition with_active (s : state) (f : nat -> bool) (l : option nat) : state :=
  mkS f l (st_sed s) (st_pn s) (st_dn s) (st_tn s) (st_ic s) (st_oc s).

Definition map_vars (f : vstate -> vstate) (s : state) : state :=
  mkS (st_active s) (st_last s)
      (f (st_sed s)) (f (st_pn s)) (f (st_dn s)) (f (st_tn s)) (f (st_ic s)) (f (st_oc s)).

(* ManagementAction.ToggleActivation on action i, observed (a proposal: TryRandomChange) *)
Definition propose (d : dataset) (s : state) (i : nat) : state :=
  observe d (with_active s (flip (st_active s) i) (Some i)) i.

(* CoreModel.AcceptChange: ApplyDoneValue on every variable *)
Definition accept (s : state) : state := map_vars do_cmd s.

(* CoreModel.RevertChange: ApplyUndoneValue on every variable, then the last applied action is
   toggled back unobserved *)
Definition revert (s : state) : state :=
  let s1 := map_vars undo_cmd s in
  match st_last s1 with
  | Some i => with_active s1 (flip (st_active s1) i) (st_last s1)
  | None => s1     (* Go: lastApplied is nil -> nil dereference; excluded by wf histories *)
  end.

(* CoreModel.SetManagementAction(index, value) *)
Definition set_action (d : dataset) (s : state) (i : nat) (b : bool) : state :=
  if Bool.eqb (st_active s i) b then s
  else accept (observe d (with_active s (upd (st_active s) i b) (Some i)) i).

(* SimpleManagementAction.Initialising(De)Activation: every observer builds its command and Does it.
   [setlast] = the caller is ModelManagementActions.Randomly(De)Initialise(Any)Action, which records the
   action as lastApplied first; InitialiseAllActionsTo(In)active call the action directly. *)
Definition initialising_set (d : dataset) (s : state) (i : nat) (b : bool) (setlast : bool) : state :=
  if Bool.eqb (st_active s i) b then
    (if setlast then with_active s (st_active s) (Some i) else s)
  else accept (observe d (with_active s (flip (st_active s) i) (if setlast then Some i else st_last s)) i).

(* SynchroniseTo(other) and ModelCompressor.Decompress: SetManagementAction(index, bit) for every index *)
Fixpoint set_all (d : dataset) (s : state) (i : nat) (bits : list bool) : state :=
  match bits with
  | [] => s
  | b :: bits' => set_all d (set_action d s i b) (S i) bits'
  end.
Definition synchronise (d : dataset) (s : state) (bits : list bool) : state := set_all d s 0 bits.
Definition decompress := synchronise.

Definition active_list (d : dataset) (s : state) : list bool := map (st_active s) (seq 0 (nactions d)).

(* ---------- validity (variable.Bounds, CoreModel.ChangeIsValid / StateIsValid) ---------- *)
Definition scale_of (k : vk) : Z := match k with VIC | VOC => 100 | _ => 1000 end.
Definition grid_to_Q (k : vk) (z : Z) : Q := (inject_Z z / inject_Z (scale_of k))%Q.

(* UndoableValue() = Value() + command.Change() *)
Definition undoable_value (s : state) (k : vk) : Z := v_total (var s k) + cmd_change (v_cmd (var s k)).

Definition within (d : dataset) (k : vk) (z : Z) : bool :=
  match d_limit d with
  | Some (k', m) => if match k, k' with VSed, VSed | VPN, VPN | VDN, VDN | VTN, VTN | VIC, VIC | VOC, VOC => true | _, _ => false end
                    then Qle_bool (grid_to_Q k z) m else true
  | None => true
  end.

Definition all_vk : list vk := [VSed; VPN; VDN; VTN; VIC; VOC].
Definition change_is_valid (d : dataset) (s : state) : bool :=
  forallb (fun k => within d k (undoable_value s k)) all_vk.
Definition state_is_valid (d : dataset) (s : state) : bool :=
  forallb (fun k => within d k (v_total (var s k))) all_vk.

Definition with_limit (d : dataset) (l : option (vk * Q)) : dataset :=
  mkData (d_pus d) (d_actions d) (d_base_attrs d) l.

(* the value quoted in the rejection reason (Bounds.BoundErrorAsText of the UndoableValue) *)
Definition rejection_quote (d : dataset) (s : state) : option Z :=
  match d_limit d with
  | Some (k, _) => if within d k (undoable_value s k) then None else Some (undoable_value s k)
  | None => None
  end.

(* ---------- histories ---------- *)
Inductive op :=
| TryAccept (i : nat)                 (* propose i; accept                *)
| TryRevert (i : nat)                 (* propose i; revert                *)
| TryAcceptRevert (i : nat)           (* propose i; accept; revert (undo) *)
| SetAct (i : nat) (b : bool)         (* SetManagementAction              *)
| InitSet (i : nat) (b : bool) (setlast : bool)  (* Initialising(De)Activation; the randomisation loops and
                                         InitialiseAllActionsTo(In)active are sequences of these *)
| Sync (bits : list bool)             (* SynchroniseTo / Decompress       *)
| Reinit.                             (* Initialise(AsIs|Unchanged|Random before its activation pass):
                                         rebuilt from the data *)

Definition step (d : dataset) (s : state) (o : op) : state :=
  match o with
  | TryAccept i => accept (propose d s i)
  | TryRevert i => revert (propose d s i)
  | TryAcceptRevert i => revert (accept (propose d s i))
  | SetAct i b => set_action d s i b
  | InitSet i b l => initialising_set d s i b l
  | Sync bits => synchronise d s bits
  | Reinit => fresh d
  end.

Definition run (d : dataset) (h : list op) : state := fold_left (step d) h (fresh d).

(* indices beyond the action list make the Go code panic (slice index out of range);
   histories are therefore required to stay in range *)
Definition op_in_range (d : dataset) (o : op) : bool :=
  match o with
  | TryAccept i | TryRevert i | TryAcceptRevert i | SetAct i _ | InitSet i _ _ => Nat.ltb i (nactions d)
  | Sync bits => Nat.leb (length bits) (nactions d)
  | Reinit => true
  end.
Definition wf_history (d : dataset) (h : list op) : bool := forallb (op_in_range d) h.

(* a freshly initialised model to which exactly the set [bits] is applied, in index order *)
Definition apply_set (d : dataset) (bits : list bool) : state := synchronise d (fresh d) bits.

(* ---------- well-formed data sets (boolean, evaluated on every data set the harness loads) ---------- *)
Fixpoint zmem (z : Z) (l : list Z) : bool :=
  match l with [] => false | y :: l' => (y =? z) || zmem z l' end.
Fixpoint znodup (l : list Z) : bool :=
  match l with [] => true | y :: l' => negb (zmem y l') && znodup l' end.
Definition opt_nat_eqb (o : option nat) (i : nat) : bool :=
  match o with Some j => Nat.eqb j i | None => false end.
Definition action_ok (d : dataset) (i : nat) : bool :=
  zmem (a_pu (act d i)) (d_pus d) &&
  opt_nat_eqb (find_act d (a_pu (act d i)) (a_type (act d i))) i.
Definition wf_dataset (d : dataset) : bool :=
  znodup (d_pus d) && forallb (action_ok d) (seq 0 (nactions d)).

(* ---------- observables ---------- *)
Record vobs := mkVO { o_total : Z; o_vals : list Z }.
Definition obs_var (d : dataset) (v : vstate) : vobs := mkVO (v_total v) (map (v_vals v) (d_pus d)).
Record obs := mkObs { o_active : list bool; o_vars : list vobs }.
Definition obs_of (d : dataset) (s : state) : obs :=
  mkObs (active_list d s) (map (fun k => obs_var d (var s k)) all_vk).

(* the SPEC: what the observables of ANY state with active set [f] must be *)
Definition canon_obs (d : dataset) (f : nat -> bool) : obs :=
  mkObs (map f (seq 0 (nactions d)))
        (map (fun k => mkVO (canon_total d k f) (map (canon_val d k f) (d_pus d))) all_vk).
