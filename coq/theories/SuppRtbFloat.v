(* C06, numeric leaves (DESIGN.md section 3(b)): bit-exact binary64 via Coq's primitive floats.

   Go code modelled here
     math.Max                                   -> [go_max]        (transcribed case by case)
     float64(int64) for 0 <= z < 2^63           -> [of_int64]
     uint64(float64) for finite 0 <= x < 2^64   -> [f2u64]         (anything else: [Panic], see below)
     Explorer.adjustReturnToBaseRate            -> [next_step]
     Coolant.calculateAcceptanceProbability     -> [prob_product] (suppapitnarm), [prob_mean] (averaged)
     Coolant.DecideIfAcceptable                 -> [decide]
     rand.Float64Unitary                        -> [unitary]
     Coolant.CoolDown                           -> [cool]

   No proofs in this file, so that it still evaluates when a proof breaks. *)
From Coq Require Import ZArith NArith List Bool Floats Uint63.
From Crem Require Import Base.Res.
Import ListNotations.
Open Scope bool_scope.

(* ---- building a float from the harness' exact export m * 2^e (|m| < 2^53) ---- *)
Definition mkf (m e : Z) : float :=
  let a := Z.ldexp (of_uint63 (Uint63.of_Z (Z.abs m))) e in
  if (m <? 0)%Z then (- a)%float else a.

(* bit-exact equality: same class, sign, mantissa, exponent ([Prim2SF] is canonical); NaN = NaN *)
Definition sf_same (a b : spec_float) : bool :=
  match a, b with
  | S754_zero s, S754_zero t => Bool.eqb s t
  | S754_infinity s, S754_infinity t => Bool.eqb s t
  | S754_nan, S754_nan => true
  | S754_finite s m e, S754_finite t n f => Bool.eqb s t && Pos.eqb m n && Z.eqb e f
  | _, _ => false
  end.
Definition fsame (x y : float) : bool := sf_same (Prim2SF x) (Prim2SF y).

(* ---- math.Max (src/math/dim.go, identical special cases in the amd64 assembly)
     switch { case IsInf(x,1) || IsInf(y,1): return Inf(1)
              case IsNaN(x) || IsNaN(y):     return NaN()
              case x == 0 && x == y:         if Signbit(x) { return y }; return x }
     if x > y { return x }; return y                                                  ---- *)
Definition is_pos_inf (x : float) : bool := PrimFloat.eqb x infinity.

Definition go_max (x y : float) : float :=
  if is_pos_inf x || is_pos_inf y then infinity
  else if PrimFloat.is_nan x || PrimFloat.is_nan y then nan
  else if PrimFloat.eqb x 0%float && PrimFloat.eqb x y then (if get_sign x then y else x)
  else if PrimFloat.ltb y x then x else y.

(* ---- float64(v) for an int64 0 <= v < 2^63 (round to nearest even, like CVTSI2SD) ---- *)
Definition int64_in_domain (z : Z) : bool := ((0 <=? z) && (z <? 2 ^ 63))%Z.
Definition of_int64 (z : Z) : float := of_uint63 (Uint63.of_Z z).

(* ---- uint64(x): truncation toward zero for finite 0 <= x < 2^64.  For any other argument the Go
   specification leaves the result implementation-specific; the model does not invent a value: it
   answers [Panic] (= "outside the modelled domain"), and the schedule theorems prove this branch is
   unreachable under the parameter validators' ranges. ---- *)
Definition f2u64 (x : float) : res N :=
  match Prim2SF x with
  | S754_zero _ => Ok 0%N
  | S754_finite false m e =>
      let z := match e with
               | Z0 => Zpos m
               | Zpos p => Z.shiftl (Zpos m) (Zpos p)
               | Zneg p => Z.shiftr (Zpos m) (Zpos p)
               end in
      if (z <? 2 ^ 64)%Z then Ok (Z.to_N z) else Panic
  | _ => Panic
  end.

(* ---- adjustReturnToBaseRate: step = math.Max(float64(min), step * factor) ---- *)
Definition next_step (minf factor step : float) : float := go_max minf (step * factor)%float.

(* ---- coolants.  [es] are the values math.Exp returned, one per objective (inputs of the model). ---- *)
Definition prob_product (es : list float) : float := fold_left PrimFloat.mul es 1%float.

(* float64(len(es)): lengths are far below 2^53, the conversion is exact *)
Definition float_of_len (es : list float) : float := of_uint63 (Uint63.of_Z (Z.of_nat (length es))).
Definition prob_mean (es : list float) : float :=
  (fold_left PrimFloat.add es 0%float / float_of_len es)%float.

Inductive coolant_kind := Product | Mean.
Definition accept_prob (k : coolant_kind) (es : list float) : float :=
  match k with Product => prob_product es | Mean => prob_mean es end.

(* return c.acceptanceProbability > randomValue *)
Definition decide (p u : float) : bool := PrimFloat.ltb u p.

(* Float64Unitary: float64(r.Int63n(2^53)) / float64(2^53 - 1); [k] is the 53-bit integer drawn *)
Definition unitary (k : Z) : float :=
  (of_uint63 (Uint63.of_Z k) / of_uint63 (Uint63.of_Z (2 ^ 53 - 1)))%float.

(* c.temperature *= c.coolingFactor *)
Definition cool (t a : float) : float := (t * a)%float.

(* setAcceptanceProbability(math.Min(Guaranteed, probability)) is only ever called with probability =
   Guaranteed = 1: the stored value is 1. *)
Definition guaranteed : float := 1%float.

(* ---- boolean hypotheses of the schedule theorems (the validators' ranges, NaN excluded) ---- *)
Definition factor_in_range (f : float) : bool := PrimFloat.leb 0 f && PrimFloat.leb f 1.
Definition exact_int_range (z : Z) : bool := ((1 <=? z) && (z <=? 2 ^ 53))%Z.
