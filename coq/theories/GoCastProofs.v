(* Lemmas about the caster / formatter model (GoCast.v) used by C20 and C13. *)
From Coq Require Import List String Ascii QArith ZArith Bool Arith Lia.
From Crem Require Import Base.Res CsvTable CsvTableProofs GoCast.
Import ListNotations.
Local Open Scope nat_scope.

Lemma model_cast_agrees : cast_agrees model_cast.
Proof. intros s g H. unfold model_cast. rewrite H. reflexivity. Qed.

Lemma model_fmt_agrees : fmt_agrees model_fmt.
Proof. intros x s H. unfold model_fmt. rewrite H. reflexivity. Qed.

(* The full reading of "numeric fields as numbers, ALL others as text" is false of the loader at the level of the
   typed cell: the field T is neither a number nor loaded as a text cell (it is a bool). *)
Lemma c20_typed_refuted :
  exists cast recs t col row,
    cast_agrees cast /\ rectangular recs = true /\ loads cast recs t /\
    col < n_cols recs /\ row < n_rows recs /\
    ~ typed_faithfully cast recs t col row.
Proof.
  exists model_cast, [["a"%string]; ["T"%string]].
  eexists. exists 0, 0.
  split; [exact model_cast_agrees|].
  split; [reflexivity|].
  split; [unfold loads; vm_compute; reflexivity|].
  split; [vm_compute; lia|]. split; [vm_compute; lia|].
  unfold typed_faithfully. vm_compute. discriminate.
Qed.

(* ---------- class lemmas about the caster model: which fields are text (unbounded) ---------- *)

Local Open Scope char_scope.

Definition float_char (c : ascii) : bool :=
  is_digit c || in_class ["."; "e"; "E"; "+"; "-"] c.

Lemma read_sign_prefix : forall s b r, read_sign s = (b, r) ->
  exists p, s = p ++ r /\ forallb float_char p = true.
Proof.
  intros [|c s] b r H; cbn [read_sign] in H.
  - injection H as <- <-. exists []. split; reflexivity.
  - destruct (Ascii.eqb c "+") eqn:E1.
    + injection H as <- <-. exists [c]. split; [reflexivity|].
      apply Ascii.eqb_eq in E1. subst c. reflexivity.
    + destruct (Ascii.eqb c "-") eqn:E2.
      * injection H as <- <-. exists [c]. split; [reflexivity|]. apply Ascii.eqb_eq in E2. subst c. reflexivity.
      * injection H as <- <-. exists []. split; reflexivity.
Qed.

Lemma read_digits_prefix : forall s acc n a k r, read_digits acc n s = (a, k, r) ->
  exists p, s = p ++ r /\ forallb float_char p = true.
Proof.
  intros s; induction s as [|c s IH]; intros acc n a k r H; cbn [read_digits] in H.
  - injection H as <- <- <-. exists []. split; reflexivity.
  - destruct (is_digit c) eqn:Ed.
    + destruct (IH _ _ _ _ _ H) as [p [-> Hp]]. exists (c :: p). split; [reflexivity|].
      cbn [forallb]. unfold float_char at 1. rewrite Ed. exact Hp.
    + injection H as <- <- <-. exists []. split; reflexivity.
Qed.

Lemma read_exp_prefix : forall s e n a k r, read_exp e n s = (a, k, r) ->
  exists p, s = p ++ r /\ forallb float_char p = true.
Proof.
  intros s; induction s as [|c s IH]; intros e n a k r H; cbn [read_exp] in H.
  - injection H as <- <- <-. exists []. split; reflexivity.
  - destruct (is_digit c) eqn:Ed.
    + destruct (IH _ _ _ _ _ H) as [p [-> Hp]]. exists (c :: p). split; [reflexivity|].
      cbn [forallb]. unfold float_char at 1. rewrite Ed. exact Hp.
    + injection H as <- <- <-. exists []. split; reflexivity.
Qed.

Lemma read_mantissa_prefix : forall s m nf r, read_mantissa s = Some (m, nf, r) ->
  exists p, s = p ++ r /\ forallb float_char p = true.
Proof.
  intros s m nf r H. unfold read_mantissa in H.
  destruct (read_digits 0 0 s) as [[m1 n1] r1] eqn:E1.
  destruct (read_digits_prefix _ _ _ _ _ _ E1) as [p1 [-> Hp1]].
  destruct r1 as [|c r2].
  - destruct (n1 =? 0)%nat; [discriminate|]. injection H as <- <- <-. exists p1. split; [reflexivity|exact Hp1].
  - destruct (Ascii.eqb c ".") eqn:Ec.
    + destruct (read_digits m1 0 r2) as [[m2 n2] r3] eqn:E2.
      destruct (read_digits_prefix _ _ _ _ _ _ E2) as [p2 [-> Hp2]].
      destruct (n1 + n2 =? 0)%nat; [discriminate|]. injection H as <- <- <-.
      exists (p1 ++ c :: p2). split; [rewrite <- app_assoc; reflexivity|].
      rewrite forallb_app, Hp1. cbn [forallb andb]. apply Ascii.eqb_eq in Ec. subst c. exact Hp2.
    + destruct (n1 =? 0)%nat; [discriminate|]. injection H as <- <- <-. exists p1. split; [reflexivity|exact Hp1].
Qed.

Lemma read_exponent_prefix : forall s e r, read_exponent s = Some (e, r) ->
  exists p, s = p ++ r /\ forallb float_char p = true.
Proof.
  intros [|c s] e r H; cbn [read_exponent] in H.
  - injection H as <- <-. exists []. split; reflexivity.
  - destruct (is_e c) eqn:Ee.
    + destruct (read_sign s) as [eneg r1] eqn:Es.
      destruct (read_sign_prefix _ _ _ Es) as [ps [-> Hps]].
      destruct (read_exp 0 0 r1) as [[e' n] r2] eqn:Ex.
      destruct (read_exp_prefix _ _ _ _ _ _ Ex) as [px [-> Hpx]].
      destruct (n =? 0)%nat; [discriminate|]. injection H as <- <-.
      exists (c :: ps ++ px). split; [cbn; rewrite <- app_assoc; reflexivity|].
      cbn [forallb]. rewrite forallb_app, Hps, Hpx.
      unfold is_e in Ee. apply orb_prop in Ee. destruct Ee as [Ee|Ee]; apply Ascii.eqb_eq in Ee; subst c; reflexivity.
    + injection H as <- <-. exists []. split; reflexivity.
Qed.

Lemma parse_dec_float_chars : forall s v, parse_dec s = Some v -> forallb float_char s = true.
Proof.
  intros s v H. unfold parse_dec in H.
  destruct (read_sign s) as [neg r0] eqn:Es.
  destruct (read_sign_prefix _ _ _ Es) as [p0 [-> Hp0]].
  destruct (read_mantissa r0) as [[[m nf] r1]|] eqn:Em; [|discriminate].
  destruct (read_mantissa_prefix _ _ _ _ Em) as [p1 [-> Hp1]].
  destruct (read_exponent r1) as [[e r2]|] eqn:Ee; [|discriminate].
  destruct (read_exponent_prefix _ _ _ Ee) as [p2 [-> Hp2]].
  destruct r2; [|discriminate].
  rewrite !forallb_app, Hp0, Hp1, Hp2. reflexivity.
Qed.

Lemma parse_dec_none_of_other_char : forall s c, In c s -> float_char c = false -> parse_dec s = None.
Proof.
  intros s c Hin Hc. destruct (parse_dec s) as [v|] eqn:E; [|reflexivity].
  apply parse_dec_float_chars in E. rewrite forallb_forall in E. specialize (E c Hin). congruence.
Qed.

Lemma parse_bool_none_of_colon : forall s, In ":" (chars s) -> parse_bool s = None.
Proof.
  intros s Hin. unfold parse_bool.
  assert (Hno : forall l, (forall x, In x l -> ~ In ":" (chars x)) -> str_in s l = false).
  { intros l Hl. unfold str_in. destruct (existsb (String.eqb s) l) eqn:E; [|reflexivity].
    apply existsb_exists in E. destruct E as [x [Hx Heq]]. apply String.eqb_eq in Heq. subst x.
    exfalso. apply (Hl s Hx Hin). }
  rewrite !Hno; [reflexivity| |].
  - intros x Hx Hc. cbn in Hx. repeat (destruct Hx as [<-|Hx]; [vm_compute in Hc; intuition discriminate|]). exact Hx.
  - intros x Hx Hc. cbn in Hx. repeat (destruct Hx as [<-|Hx]; [vm_compute in Hc; intuition discriminate|]). exact Hx.
Qed.

(* facts about the letters of an encoding, by inspection of all 256 characters *)
Definition hexcolon (c : ascii) : bool :=
  let n := nat_of_ascii c in
  (((48 <=? n) && (n <=? 57)) || ((65 <=? n) && (n <=? 70)) || ((97 <=? n) && (n <=? 102)) || (n =? 58))%nat.

Lemma hexcolon_facts : forall c, hexcolon c = true ->
  Ascii.eqb c "_" = false /\ Ascii.eqb c "+" = false /\ Ascii.eqb c "-" = false /\
  in_class ["i"; "I"; "n"; "N"] c = false /\ in_class ["x"; "X"] c = false.
Proof.
  intros c H.
  destruct c as [[] [] [] [] [] [] [] []]; vm_compute in H; try discriminate H; vm_compute; repeat split; reflexivity.
Qed.

Lemma hexcolon_no_underscore : forall s, forallb hexcolon s = true -> in_class s "_" = false.
Proof.
  intros s; induction s as [|c s IH]; intro H; [reflexivity|].
  cbn [forallb] in H. apply andb_prop in H. destruct H as [Hc Hs].
  unfold in_class. cbn [existsb]. rewrite Ascii.eqb_sym. destruct (hexcolon_facts c Hc) as [-> _]. exact (IH Hs).
Qed.

Lemma hexcolon_modelled : forall s, forallb hexcolon s = true -> modelled s = true.
Proof.
  intros s H. unfold modelled. rewrite (hexcolon_no_underscore s H). cbn [negb andb].
  destruct s as [|c r]; [reflexivity|].
  cbn [forallb] in H. apply andb_prop in H. destruct H as [Hc Hr].
  destruct (hexcolon_facts c Hc) as [_ [Hp [Hm [Hin _]]]].
  cbn [read_sign]. rewrite Hp, Hm. cbn [snd]. rewrite Hin. cbn [negb andb].
  destruct r as [|x r']; [rewrite andb_false_r; reflexivity|].
  cbn [forallb] in Hr. apply andb_prop in Hr. destruct Hr as [Hx _].
  destruct (hexcolon_facts x Hx) as [_ [_ [_ [_ Hxx]]]]. rewrite Hxx, andb_false_r. reflexivity.
Qed.

(* An encoding of several words (scenarios with more than 64 management actions) is never type-cast:
   every string over [0-9A-Fa-f:] that contains ':' is text, hence read back verbatim. *)
Lemma colon_encoding_is_text : forall s, forallb hexcolon (chars s) = true -> In ":" (chars s) ->
  go_cast s = Some TText.
Proof.
  intros s Hh Hc. unfold go_cast. rewrite (hexcolon_modelled _ Hh). cbn [negb].
  rewrite (parse_dec_none_of_other_char (chars s) ":" Hc eq_refl).
  unfold bool_or_text. rewrite (parse_bool_none_of_colon s Hc). reflexivity.
Qed.
