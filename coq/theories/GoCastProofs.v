(* Lemmas about the caster / formatter model (GoCast.v) used by C20 and C13. *)
From Coq Require Import List String Ascii QArith ZArith Bool Arith Lia.
From Crem Require Import Base.Res CsvTable CsvTableProofs GoCast.
Import ListNotations.
Local Open Scope nat_scope.

Lemma model_cast_agrees : cast_agrees model_cast.
Proof. intros s g H. unfold model_cast. rewrite H. reflexivity. Qed.

Lemma model_fmt_agrees : fmt_agrees model_fmt.
Proof. intros x s H. unfold model_fmt. rewrite H. reflexivity. Qed.

(* The full reading of "numeric fields as numbers, ALL others as text" is false of the loader:
   the field T is neither a number nor read back as text. *)
Lemma c20_typed_refuted :
  exists cast fmt recs t col row,
    cast_agrees cast /\ rectangular recs = true /\ loads cast recs t /\
    col < n_cols recs /\ row < n_rows recs /\
    ~ typed_faithfully cast fmt recs t col row.
Proof.
  exists model_cast, model_fmt, [["a"%string]; ["T"%string]].
  eexists. exists 0, 0.
  split; [exact model_cast_agrees|].
  split; [reflexivity|].
  split; [unfold loads; vm_compute; reflexivity|].
  split; [vm_compute; lia|]. split; [vm_compute; lia|].
  unfold typed_faithfully. vm_compute. discriminate.
Qed.
