(* Proofs about SharedSection.v: under the lock discipline every read of the shared model returns the
   valuation of the reader's OWN input, for every number of runs and every interleaving; without it
   (a read after Unlock) there is an interleaving in which a run files another run's values. *)
From Coq Require Import List Arith Bool Lia.
From Crem Require Import SharedSection.
Import ListNotations.

Lemma nth_error_set_nth_eq {A} (l : list A) : forall i x y,
  nth_error l i = Some y -> nth_error (set_nth l i x) i = Some x.
Proof.
  induction l as [|h t IH]; intros [|i] x y H; simpl in *; try discriminate; [reflexivity|].
  eapply IH; eauto.
Qed.

Lemma nth_error_set_nth_neq {A} (l : list A) : forall i j x,
  i <> j -> nth_error (set_nth l i x) j = nth_error l j.
Proof.
  induction l as [|h t IH]; intros [|i] [|j] x H; simpl; try reflexivity; [congruence|].
  apply IH. congruence.
Qed.

Section SharedProofs.
  Variables M In Out : Type.
  Variable load : In -> M -> M.
  Variable obs : M -> Out.
  Variable eval : In -> Out.
  Variable in_eqb : In -> In -> bool.
  Hypothesis load_obs : forall c m, obs (load c m) = eval c.
  Hypothesis in_eqb_eq : forall a b, in_eqb a b = true -> a = b.

  Notation sstate := (sstate M In Out).
  Notation sstep := (sstep M In Out load obs).
  Notation sexec := (sexec M In Out load obs).
  Notation disc := (disciplined In in_eqb).

  Definition mode_of (s : sstate) (r : nat) : mode In :=
    if holds M In Out s r
    then match ss_loaded M In Out s with Some c => InsideLoaded c | None => InsideEmpty end
    else Outside.

  Definition SInv (s : sstate) : Prop :=
    (forall r p, nth_error (ss_pcs M In Out s) r = Some p -> disc (mode_of s r) p = true) /\
    (forall c, ss_loaded M In Out s = Some c -> ss_holder M In Out s <> None -> obs (ss_mem M In Out s) = eval c) /\
    (forall r c o, List.In (r, c, o) (ss_outs M In Out s) -> o = eval c).

  Lemma holds_true s r : holds M In Out s r = true -> ss_holder M In Out s = Some r.
  Proof.
    unfold holds. destruct (ss_holder M In Out s) as [h|]; [|discriminate].
    intro H. apply Nat.eqb_eq in H. now subst.
  Qed.

  Lemma mode_inside_holds s r : mode_of s r <> Outside -> ss_holder M In Out s = Some r.
  Proof.
    unfold mode_of. destruct (holds M In Out s r) eqn:H; [intros _; now apply holds_true|congruence].
  Qed.

  Lemma other_outside s r r' : ss_holder M In Out s = Some r -> r <> r' -> mode_of s r' = Outside.
  Proof.
    intros Hh Hne. unfold mode_of, holds. rewrite Hh.
    destruct (Nat.eqb r r') eqn:E; [apply Nat.eqb_eq in E; congruence|reflexivity].
  Qed.

  Lemma sstep_inv s r : SInv s -> SInv (sstep s r).
  Proof.
    intros Hinv. pose proof Hinv as (H1 & H2 & H3). unfold SharedSection.sstep.
    destruct (nth_error (ss_pcs M In Out s) r) as [p|] eqn:Hp; [|exact Hinv].
    destruct p as [|i rest]; [exact Hinv|].
    pose proof (H1 r _ Hp) as Hd.
    destruct i as [|c|c|].
    - (* Acq *)
      destruct (ss_holder M In Out s) as [h|] eqn:Hh; [exact Hinv|].
      assert (Hm : mode_of s r = Outside) by (unfold mode_of, holds; now rewrite Hh).
      rewrite Hm in Hd. cbn [disciplined] in Hd.
      refine (conj _ (conj _ H3)); cbn [ss_pcs ss_loaded ss_holder ss_mem].
      + intros r' p' Hn. destruct (Nat.eq_dec r r') as [<-|Hne].
        * rewrite (nth_error_set_nth_eq _ _ _ _ Hp) in Hn. inversion Hn; subst p'.
          unfold mode_of, holds. cbn [ss_holder ss_loaded]. now rewrite Nat.eqb_refl.
        * rewrite nth_error_set_nth_neq in Hn by assumption.
          assert (Hold : mode_of s r' = Outside) by (unfold mode_of, holds; now rewrite Hh).
          specialize (H1 r' p' Hn). rewrite Hold in H1.
          unfold mode_of, holds. cbn [ss_holder ss_loaded].
          destruct (Nat.eqb r r') eqn:E; [apply Nat.eqb_eq in E; congruence|exact H1].
      + intros c Hc. discriminate.
    - (* Ld c *)
      assert (Hh : ss_holder M In Out s = Some r).
      { apply mode_inside_holds. intro E. rewrite E in Hd. cbn [disciplined] in Hd. discriminate. }
      refine (conj _ (conj _ H3)); cbn [ss_pcs ss_loaded ss_holder ss_mem].
      + intros r' p' Hn. destruct (Nat.eq_dec r r') as [<-|Hne].
        * rewrite (nth_error_set_nth_eq _ _ _ _ Hp) in Hn. inversion Hn; subst p'.
          unfold mode_of, holds. cbn [ss_holder ss_loaded]. rewrite Hh, Nat.eqb_refl.
          destruct (mode_of s r); cbn [disciplined] in Hd; [discriminate|exact Hd|exact Hd].
        * rewrite nth_error_set_nth_neq in Hn by assumption.
          specialize (H1 r' p' Hn). rewrite (other_outside s r r' Hh Hne) in H1.
          unfold mode_of, holds. cbn [ss_holder ss_loaded]. rewrite Hh.
          destruct (Nat.eqb r r') eqn:E; [apply Nat.eqb_eq in E; congruence|exact H1].
      + intros c0 Hc _. inversion Hc; subst c0. apply load_obs.
    - (* Rd c *)
      destruct (mode_of s r) as [| |c'] eqn:Hm; cbn [disciplined] in Hd; try discriminate.
      apply andb_true_iff in Hd as [Heq Hd]. apply in_eqb_eq in Heq. subst c'.
      assert (Hh : ss_holder M In Out s = Some r) by (apply mode_inside_holds; rewrite Hm; discriminate).
      assert (Hl : ss_loaded M In Out s = Some c).
      { unfold mode_of in Hm. destruct (holds M In Out s r); [|discriminate].
        destruct (ss_loaded M In Out s); inversion Hm; reflexivity. }
      refine (conj _ (conj _ _)); cbn [ss_pcs ss_loaded ss_holder ss_mem ss_outs].
      + intros r' p' Hn. destruct (Nat.eq_dec r r') as [<-|Hne].
        * rewrite (nth_error_set_nth_eq _ _ _ _ Hp) in Hn. inversion Hn; subst p'.
          change (disc (mode_of s r) rest = true). now rewrite Hm.
        * rewrite nth_error_set_nth_neq in Hn by assumption. exact (H1 r' p' Hn).
      + exact H2.
      + intros r' c' o Hin. apply in_app_or in Hin as [Hin|[Hin|[]]]; [now apply (H3 r' c' o)|].
        inversion Hin; subst. apply H2; [assumption|congruence].
    - (* Rel *)
      assert (Hh : ss_holder M In Out s = Some r).
      { apply mode_inside_holds. intro E. rewrite E in Hd. cbn [disciplined] in Hd. discriminate. }
      assert (Hho : holds M In Out s r = true) by (unfold holds; now rewrite Hh, Nat.eqb_refl).
      rewrite Hho.
      refine (conj _ (conj _ H3)); cbn [ss_pcs ss_loaded ss_holder ss_mem].
      + intros r' p' Hn. unfold mode_of, holds. cbn [ss_holder ss_loaded].
        destruct (Nat.eq_dec r r') as [<-|Hne].
        * rewrite (nth_error_set_nth_eq _ _ _ _ Hp) in Hn. inversion Hn; subst p'.
          destruct (mode_of s r); cbn [disciplined] in Hd; [discriminate|exact Hd|exact Hd].
        * rewrite nth_error_set_nth_neq in Hn by assumption.
          specialize (H1 r' p' Hn). now rewrite (other_outside s r r' Hh Hne) in H1.
      + intros c Hc. discriminate.
  Qed.

  Lemma sinit_inv m0 progs :
    forallb (disc Outside) progs = true -> SInv (sinit M In Out m0 progs).
  Proof.
    intro Hall. rewrite forallb_forall in Hall. refine (conj _ (conj _ _)); cbn.
    - intros r p Hn. apply nth_error_In in Hn. unfold mode_of, holds. cbn. now apply Hall.
    - intros c Hc. discriminate.
    - intros r c o [].
  Qed.

  Lemma fold_inv sched : forall s, SInv s -> SInv (fold_left sstep sched s).
  Proof. induction sched as [|r sched IH]; intros s H; simpl; [exact H|]. apply IH. now apply sstep_inv. Qed.

  (* every read of every run, under every interleaving, for every number of runs *)
  Theorem disciplined_reads_are_own m0 progs sched :
    forallb (disc Outside) progs = true ->
    forall r c o, List.In (r, c, o) (ss_outs M In Out (sexec m0 progs sched)) -> o = eval c.
  Proof.
    intros Hall. unfold SharedSection.sexec.
    destruct (fold_inv sched _ (sinit_inv m0 progs Hall)) as (_ & _ & H3). exact H3.
  Qed.

  (* mutual exclusion: whoever is inside a critical section holds the mutex, so at most one run is *)
  Theorem disciplined_mutual_exclusion m0 progs sched :
    forallb (disc Outside) progs = true ->
    let s := sexec m0 progs sched in
    forall r r', mode_of s r <> Outside -> mode_of s r' <> Outside -> r = r'.
  Proof.
    intros _ s r r' Hr Hr'. apply mode_inside_holds in Hr. apply mode_inside_holds in Hr'. congruence.
  Qed.

  Lemma section_disciplined c n : (forall a, in_eqb a a = true) -> disc Outside (section In c n) = true.
  Proof.
    intro Hrefl. unfold section. cbn [disciplined].
    induction n as [|n IH]; cbn [repeat app disciplined]; [reflexivity|]. now rewrite Hrefl.
  Qed.
End SharedProofs.

(* ---- the discipline is needed: a read after Unlock files another run's values ---- *)
Definition leaky_prog (c : nat) : list (instr nat) := [Acq; Ld c; Rel; Rd c].

Lemma unprotected_read_leaks :
  let s := sexec nat nat nat (fun c _ => c) (fun m => m) 0 [leaky_prog 1; leaky_prog 2] [0; 0; 0; 1; 1; 1; 0] in
  ss_outs nat nat nat s = [(0, 1, 2)].
Proof. vm_compute. reflexivity. Qed.

Lemma leaky_prog_not_disciplined c : disciplined nat Nat.eqb Outside (leaky_prog c) = false.
Proof. reflexivity. Qed.
