(* Correspondence checker for C20: the model's executable definitions evaluated by vm_compute on the records the
   real encoding/csv reader produced, with the real caster's verdict per field, against what the real
   ParseCsvTextIntoTable / ColumnAndRowSize / Header / Cell / CellString did on the same text. *)
From Coq Require Import List String QArith Qabs ZArith Bool Arith.
From Crem Require Import Base.Res Base.Fl CsvTable GoCast.
Import ListNotations.
Local Open Scope nat_scope.

Definition num_eqb (a b : num) : bool :=
  match a, b with
  | Fin n1 q1, Fin n2 q2 => Bool.eqb n1 n2 && Qeq_bool q1 q2
  | Inf n1, Inf n2 => Bool.eqb n1 n2
  | NaN, NaN => true
  | _, _ => false
  end.

Definition tag_eqb (a b : tag) : bool :=
  match a, b with
  | TNum x, TNum y => num_eqb x y
  | TBool x, TBool y => Bool.eqb x y
  | TText, TText => true
  | _, _ => false
  end.

Definition cellv_eqb (a b : cellv) : bool :=
  match a, b with
  | VNum x, VNum y => num_eqb x y
  | VBool x, VBool y => Bool.eqb x y
  | VStr x, VStr y => String.eqb x y
  | _, _ => false
  end.

Definition opt_eqb {A} (eq : A -> A -> bool) (a b : option A) : bool :=
  match a, b with Some x, Some y => eq x y | None, None => true | _, _ => false end.

Fixpoint list_eqb {A} (eq : A -> A -> bool) (a b : list A) : bool :=
  match a, b with
  | [], [] => true
  | x :: a', y :: b' => eq x y && list_eqb eq a' b'
  | _, _ => false
  end.

(* a field as the csv reader returned it, what the REAL caster made of it, and "%v" of the number (if one) *)
Record fld := mkF { f_s : string; f_tag : tag; f_fmt : string }.

Inductive outcome := OPanic | ORejected | OLoaded.

(* what Cell / CellString returned for one cell; None = the call panicked *)
Record cobs := mkO { o_cell : option cellv; o_str : option string }.

Record case := mk {
  c_csv : option (list (list fld));       (* None: the csv reader returned an error *)
  c_outcome : outcome;
  c_header : list string;
  c_dims : option (nat * nat);            (* ColumnAndRowSize; None = it panicked *)
  c_cells : list (list cobs);             (* row-major, every (row, col) below the reported dimensions *)
  c_probes : list (nat * nat * bool) }.   (* (col, row, did Cell(col,row) panic?) around the boundary *)

Definition all_fields (c : case) : list fld :=
  match c_csv c with Some recs => List.concat recs | None => [] end.

Definition cast_of (fs : list fld) : caster :=
  fun s => match find (fun f => String.eqb (f_s f) s) fs with Some f => f_tag f | None => TText end.

Definition fmt_of (fs : list fld) : num -> string :=
  fun x => match find (fun f => match f_tag f with TNum y => num_eqb x y | _ => false end) fs with
           | Some f => f_fmt f | None => "<no such number in this case>"%string end.

Definition csv_of (c : case) : csv_result :=
  match c_csv c with
  | None => CsvError
  | Some recs => CsvRecords (map (map f_s) recs)
  end.

Definition res_obs {A} (r : res A) : option A := match r with Ok a => Some a | Panic => None end.

Definition is_panic {A} (r : res A) : bool := match r with Panic => true | Ok _ => false end.

Fixpoint check_row (fmt : num -> string) (t : table) (row col : nat) (os : list cobs) : bool :=
  match os with
  | [] => true
  | o :: os' =>
    opt_eqb cellv_eqb (res_obs (cell t col row)) (o_cell o)
    && opt_eqb String.eqb (res_obs (cell_string fmt t col row)) (o_str o)
    && check_row fmt t row (S col) os'
  end.

Fixpoint check_rows (fmt : num -> string) (t : table) (row : nat) (rs : list (list cobs)) : bool :=
  match rs with
  | [] => true
  | r :: rs' => check_row fmt t row 0 r && check_rows fmt t (S row) rs'
  end.

Definition dims_eqb (a b : nat * nat) : bool := Nat.eqb (fst a) (fst b) && Nat.eqb (snd a) (snd b).

(* the value strconv produced is within one part in 2^52 of the exact decimal value of the literal
   (necessary for correct rounding of a normal number; zero/subnormal results are only sign-checked) *)
Definition close_to (q a : Q) : bool :=
  Qeq_bool a 0 || Qle_bool (Qabs (q - a) * inject_Z (2 ^ 52)) a.

Definition go_cast_agrees (f : fld) : bool :=
  match go_cast (f_s f) with
  | None => true                                          (* outside the modelled domain *)
  | Some TText => tag_eqb (f_tag f) TText
  | Some (TBool b) => tag_eqb (f_tag f) (TBool b)
  | Some (TNum (Fin neg q)) =>
    match f_tag f with TNum (Fin neg' a) => Bool.eqb neg neg' && close_to q a | _ => false end
  | Some (TNum _) => false
  end.

(* and the formatter model, where it speaks *)
Definition go_fmt_agrees (f : fld) : bool :=
  match f_tag f with
  | TNum x => match go_fmt_v x with Some s => String.eqb s (f_fmt f) | None => true end
  | _ => true
  end.

Definition check_case (c : case) : bool :=
  let fs := all_fields c in
  let cast := cast_of fs in
  let fmt := fmt_of fs in
  (* the harness data is a function of the field text *)
  forallb (fun f => tag_eqb (cast (f_s f)) (f_tag f)) fs
  && forallb go_cast_agrees fs
  && forallb go_fmt_agrees fs
  && match parse_csv_text_into_table cast (csv_of c), c_outcome c with
     | Panic, OPanic => true
     | Ok Rejected, ORejected => true
     | Ok (Loaded t), OLoaded =>
       list_eqb String.eqb (header t) (c_header c)
       && opt_eqb dims_eqb (res_obs (column_and_row_size t)) (c_dims c)
       && match c_dims c with
          | Some (cols, rows) =>
            Nat.eqb (List.length (c_cells c)) rows
            && forallb (fun r => Nat.eqb (List.length r) cols) (c_cells c)
          | None => true
          end
       && check_rows fmt t 0 (c_cells c)
       && forallb (fun p => match p with (col, row, pan) => Bool.eqb (is_panic (cell t col row)) pan end)
                  (c_probes c)
     | _, _ => false
     end.

Fixpoint mismatches_from (i : nat) (cs : list case) : list nat :=
  match cs with
  | [] => []
  | c :: cs' => if check_case c then mismatches_from (S i) cs' else i :: mismatches_from (S i) cs'
  end.

Definition mismatches := mismatches_from 0.

(* how many fields of the cases fall inside the domain of go_cast (reported in the evidence) *)
Definition modelled_fields (cs : list case) : nat :=
  List.length (filter (fun f => match go_cast (f_s f) with Some _ => true | None => false end)
                      (List.concat (map all_fields cs))).
