(* EngineAdmin.v -- the whole REST server as a request sees it: the engine's API multiplexer (Engine.v) plus the admin
   multiplexer (internal/pkg/server/admin/Mux.go) and the status handler that server.RestServer.WithApiMux also registers
   on the API multiplexer under "^/$".

   admin.Mux: routes "^/status$" (StatusHandler: GET -> 200 with the ServiceStatus document, anything else 405) and
   "^/shutdown$" (shutdownHandler: POST -> Status := "SHUTTING_DOWN", 200 with the document, then a value is sent on the
   done channel, which ends RestServer.Start's wait; anything else 405); every other path 404 (rest.MuxImpl.ServeHTTP).
   The handlers contain no unchecked assertion, index expression or panic (census: harness/astfacts15 scans the package).
   Not modelled: the Time field (a timestamp) and the blocking of shutdownHandler's channel send when nothing waits on
   the done channel (RestServer.Start always does). *)
From Coq Require Import List String ZArith QArith Bool Lia Arith.
From Crem Require Import Base.Res Engine EngineProofs.
Import ListNotations.
Open Scope string_scope.
Open Scope list_scope.
Open Scope nat_scope.

Section Admin.
Context {V : Type}.

Inductive aroute := AStatus | AShutdown | ANone.
Inductive sreq :=
| ToApi (r : request V)                 (* API port, a path other than "/" *)
| ToApiRoot (m : meth)                  (* API port, path "/": the admin multiplexer's StatusHandler *)
| ToAdmin (m : meth) (rt : aroute).     (* admin port *)

Record server := {
  sv_engine : state V;
  sv_name : string; sv_version : string;   (* ServiceStatus.ServiceName / Version: set at start-up, never written by a request *)
  sv_status : string;                      (* ServiceStatus.Status *)
  sv_shutdowns : nat }.                    (* values sent on the done channel *)

Definition with_engine (sv : server) (e : state V) : server :=
  {| sv_engine := e; sv_name := sv_name sv; sv_version := sv_version sv; sv_status := sv_status sv; sv_shutdowns := sv_shutdowns sv |}.

Definition status_doc (sv : server) : response V := ok_json (BStatus (sv_name sv) (sv_version sv) (sv_status sv)).

(* StatusHandler *)
Definition status_handler (sv : server) (m : meth) : response V * server :=
  match m with MGet => (status_doc sv, sv) | _ => (error_response 405, sv) end.

(* shutdownHandler *)
Definition shutdown_handler (sv : server) (m : meth) : response V * server :=
  match m with
  | MPost =>
      let sv' := {| sv_engine := sv_engine sv; sv_name := sv_name sv; sv_version := sv_version sv;
                    sv_status := "SHUTTING_DOWN"; sv_shutdowns := S (sv_shutdowns sv) |} in
      (status_doc sv', sv')
  | _ => (error_response 405, sv)
  end.

Definition server_handle (sv : server) (q : sreq) : res (response V * server) :=
  match q with
  | ToApi r => match handle (sv_engine sv) r with
               | Ok (resp, e') => Ok (resp, with_engine sv e')
               | Panic => Panic
               end
  | ToApiRoot m => Ok (status_handler sv m)
  | ToAdmin m AStatus => Ok (status_handler sv m)
  | ToAdmin m AShutdown => Ok (shutdown_handler sv m)
  | ToAdmin m ANone => Ok (error_response 404, sv)
  end.

Fixpoint server_run (sv : server) (qs : list sreq) : res server :=
  match qs with
  | [] => Ok sv
  | q :: qs' => match server_handle sv q with Ok (_, sv') => server_run sv' qs' | Panic => Panic end
  end.

Definition wf_sreq (q : sreq) : bool := match q with ToApi r => wf_request r | _ => true end.
Definition init_server (name version status : string) : server :=
  {| sv_engine := init_state; sv_name := name; sv_version := version; sv_status := status; sv_shutdowns := 0 |}.

(* ---------------- lemmas ---------------- *)

Lemma server_handle_shape : forall sv q resp sv',
  server_handle sv q = Ok (resp, sv') -> is_error_response resp \/ is_ok_response resp.
Proof.
  intros sv q resp sv' H. destruct q as [r|m|m rt]; simpl in H.
  - destruct (handle (sv_engine sv) r) as [[resp0 e']|] eqn:E; [|discriminate]. inversion H; subst.
    exact (handle_shape _ _ _ _ E).
  - destruct m; inversion H; subst; simpl; (try (right; split; [reflexivity|exact I])); left; unfold is_error_response; auto 6.
  - destruct rt; destruct m; inversion H; subst; simpl; (try (right; split; [reflexivity|exact I])); left; unfold is_error_response; auto 6.
Qed.

Lemma server_run_never_panics : forall (qs : list sreq) sv,
  Inv (sv_engine sv) -> forallb wf_sreq qs = true -> exists sv', server_run sv qs = Ok sv' /\ Inv (sv_engine sv').
Proof.
  induction qs as [|q qs IH]; intros sv HI Hwf; simpl; [eauto|].
  simpl in Hwf. apply andb_true_iff in Hwf. destruct Hwf as [Hq Hqs].
  destruct q as [r|m|m rt]; simpl.
  - destruct (handle_spec (sv_engine sv) r HI Hq) as (resp & e' & E & HI' & _). rewrite E. apply IH; assumption.
  - destruct m; simpl; apply IH; assumption.
  - destruct rt; destruct m; simpl; apply IH; assumption.
Qed.

Lemma server_status_documented : forall sv q resp sv',
  server_handle sv q = Ok (resp, sv') -> In (rs_status resp) [200; 400; 404; 405; 415; 500; 503].
Proof.
  intros sv q resp sv' H. destruct (server_handle_shape sv q resp sv' H) as [[E|[E|[E|E]]]|[E _]]; try rewrite E; simpl; auto 8.
Qed.

Lemma server_error_is_json : forall sv q resp sv',
  server_handle sv q = Ok (resp, sv') -> rs_status resp <> 200 -> rs_ctype resp = CtJson /\ rs_body resp = BErr.
Proof.
  intros sv q resp sv' H Hst. destruct (server_handle_shape sv q resp sv' H) as [[E|[E|[E|E]]]|[E _]]; try (rewrite E; split; reflexivity).
  congruence.
Qed.

(* an admin request never touches the engine; an API request never touches the status or the shutdown signal *)
Lemma admin_requests_leave_engine : forall sv m rt resp sv',
  server_handle sv (ToAdmin m rt) = Ok (resp, sv') -> sv_engine sv' = sv_engine sv.
Proof. intros sv m rt resp sv' H. destruct rt; destruct m; inversion H; reflexivity. Qed.

Lemma api_requests_leave_admin : forall sv r resp sv',
  server_handle sv (ToApi r) = Ok (resp, sv') -> sv_status sv' = sv_status sv /\ sv_shutdowns sv' = sv_shutdowns sv.
Proof.
  intros sv r resp sv' H. simpl in H. destruct (handle (sv_engine sv) r) as [[resp0 e']|]; [|discriminate].
  inversion H; subst. split; reflexivity.
Qed.

(* the shutdown request is the only one that signals, and it is what /status then reports *)
Lemma shutdown_signals : forall sv resp sv',
  server_handle sv (ToAdmin MPost AShutdown) = Ok (resp, sv') ->
  sv_shutdowns sv' = S (sv_shutdowns sv) /\ sv_status sv' = "SHUTTING_DOWN"
  /\ server_handle sv' (ToAdmin MGet AStatus) = Ok (status_doc sv', sv').
Proof. intros sv resp sv' H. inversion H; subst. repeat split. Qed.

Lemma only_shutdown_signals : forall sv q resp sv',
  server_handle sv q = Ok (resp, sv') -> sv_shutdowns sv' <> sv_shutdowns sv -> q = ToAdmin MPost AShutdown.
Proof.
  intros sv q resp sv' H Hn. destruct q as [r|m|m rt].
  - destruct (api_requests_leave_admin sv r resp sv' H) as [_ E]. congruence.
  - destruct m; inversion H; subst; congruence.
  - destruct rt; destruct m; inversion H; subst; simpl in *; congruence.
Qed.

End Admin.

Arguments sreq : clear implicits.
Arguments server : clear implicits.
