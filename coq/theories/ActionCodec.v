(* C09, "portable" clause: the path an action set takes from one model instance to another.

     source instance --Compress--> CompressedModelState --Encoding()--> text
     text --Decode (into the Compress of the target instance)--> CompressedModelState --Decompress--> target instance

   (cmd/cremengine/engine/api/v1modelHandler.go reInitialiseModelWithEncoding, SolutionPool.AddSolution;
    scenario.Saver.deriveSolutionFromCompressedModel; suppapitnarm.Explorer return-to-base.)

   A model instance is seen through its management-action list: the (planning unit, type) keys in the
   order CoreModel.observeActions leaves them (gathered from Go maps in an arbitrary order, then
   ModelManagementActions.Sort()), and one activation flag per action.  No proofs in this file. *)
From Coq Require Import List NArith ZArith String Bool.
From Crem Require Import Base.Res BoolArchive ActionOrder.
Import ListNotations.

Record instance := mk_instance { i_keys : list key; i_active : list bool }.

(* observeActions: whatever order the maps gave, then Sort(); every action starts as the data says *)
Definition new_instance (gathered : list key) (active_of : key -> bool) : instance :=
  let ks := sort_actions (fun k => k) gathered in mk_instance ks (map active_of ks).

(* the active SET of an instance, as the keys of its active actions *)
Definition active_keys (i : instance) : list key :=
  map fst (filter snd (combine (i_keys i) (i_active i))).

(* Compress(target); Decode(text); on nil error Decompress into the target (v1modelHandler) *)
Definition transfer_text (enc : string) (dst_active : list bool) : res (option (list bool)) :=
  do shell <- compress_actions dst_active;
  do r <- decode shell enc;
  let '(shell', ok) := r in
  if ok then do m <- decompress shell' dst_active; Ok (Some m) else Ok None.

Definition encoding_of (src_active : list bool) : res string :=
  do a <- compress_actions src_active; Ok (snd (encoding a)).

Definition transfer (src_active dst_active : list bool) : res (option (list bool)) :=
  do enc <- encoding_of src_active; transfer_text enc dst_active.

Definition transfer_instance (src dst : instance) : res (option instance) :=
  do r <- transfer (i_active src) (i_active dst);
  Ok (option_map (mk_instance (i_keys dst)) r).
