(* Correspondence checker for C04: evaluated by vm_compute on gen/cases_C04_*.v.

   A case is one explorer instance (direction, starting temperature, cooling factor) driven through
   a sequence of scripted proposals; the model is folded along the same sequence (so stale fields
   such as the probability kept by an invalid proposal are compared too) and every projected
   observable of every step is compared bit-for-bit. *)
From Coq Require Import Floats ZArith Uint63 Bool List.
From Crem Require Import Kirkpatrick.
Import ListNotations.
Open Scope float_scope.

(* ---- exact import of binary64 values: sign, integer mantissa (< 2^53), binary exponent ---- *)
Definition mkf (neg : bool) (m : int) (ex : Z) : float :=
  let x := Z.ldexp (of_uint63 m) ex in if neg then - x else x.
Definition finf (neg : bool) : float := if neg then neg_infinity else infinity.
Definition fnan : float := nan.

(* from the IEEE-754 bit pattern: sign bit, and the low 63 bits as a primitive integer
   (primitive-integer literals parse ~1000x faster than 64-bit Z literals) *)
Definition of_bits (neg : bool) (b : int) : float :=
  let ex := Uint63.land (Uint63.lsr b 52) 2047 in
  let frac := Uint63.land b 4503599627370495 in           (* 2^52 - 1 *)
  if Uint63.eqb ex 2047 then (if Uint63.eqb frac 0 then finf neg else fnan)
  else if Uint63.eqb ex 0 then mkf neg frac (-1074)
  else mkf neg (Uint63.lor frac 4503599627370496) (Uint63.to_Z ex - 1075).

(* same bit pattern (all NaNs identified; +0 and -0 distinguished) *)
Definition same_bits (a b : float) : bool :=
  if is_nan a then is_nan b
  else if is_nan b then false
  else PrimFloat.eqb a b && Bool.eqb (get_sign a) (get_sign b).

Definition dec_eqb (a b : decision) : bool :=
  match a, b with
  | RevertInvalid, RevertInvalid | AcceptDesirable, AcceptDesirable
  | AcceptUndesirable, AcceptUndesirable | RevertUndesirable, RevertUndesirable => true
  | _, _ => false
  end.

Definition call_eqb (a b : call) : bool :=
  match a, b with
  | CTry, CTry | CValid, CValid | CChange, CChange | CAccept, CAccept | CRevert, CRevert => true
  | _, _ => false
  end.

Fixpoint calls_eqb (a b : list call) : bool :=
  match a, b with
  | [], [] => true
  | x :: a', y :: b' => call_eqb x y && calls_eqb a' b'
  | _, _ => false
  end.

(* the AcceptChange / RevertChange calls among the calls received by the explored model *)
Definition verdict_calls (l : list call) : list call :=
  filter (fun x => match x with CAccept | CRevert => true | _ => false end) l.

Definition optb_eqb (a b : option bool) : bool :=
  match a, b with
  | None, None => true
  | Some x, Some y => Bool.eqb x y
  | _, _ => false
  end.

Definition optf_same (a b : option float) : bool :=
  match a, b with
  | None, None => true
  | Some x, Some y => same_bits x y
  | _, _ => false
  end.

(* one proposal + everything the harness observed on the real explorer *)
Record cstep := mkS {
  (* script (scripted model) or observation of the explored model's answers (live model) *)
  s_valid : bool;          (* verdict Model().ChangeIsValid() returned *)
  s_change : float;        (* what Model().DecisionVariableChange(objective) returns for this proposal *)
  s_arg : float;           (* harness: -math.Abs(change seen by the explorer)/Temperature *)
  s_e : float;             (* harness: math.Exp(s_arg) *)
  s_u : float;             (* what the real Float64Unitary returns for the scripted rand.Source value *)
  s_cool : bool;           (* CoolDown() called after this proposal *)
  (* observed, property-level *)
  o_dec : decision;        (* from the explorer's event notes *)
  o_prob : float;          (* exported field AcceptanceProbability after the proposal *)
  o_evprob : option float; (* AcceptanceProbability attribute of the decision event (None: invalid) *)
  o_calls : list call;     (* calls received by the explored model *)
  o_obj : float;           (* ObjectiveValue() after the proposal *)
  o_T : float;             (* Temperature after the proposal (and the CoolDown, if any) *)
  (* observed, internal (compared outside the obligations) *)
  o_evdes : option bool;   (* ChangeIsDesirable attribute of the desirability event (None: invalid) *)
  o_desirable : bool;      (* changeIsDesirable *)
  o_accepted : bool;       (* changeAccepted *)
  o_invalid : bool;        (* changeInvalid *)
  o_change : float;        (* objectiveValueChange *)
  o_draws : nat            (* number of Int63 calls on the rand.Source during the proposal *)
}.

Record case := mkC {
  c_dir : direction;
  c_T0 : float;
  c_cf : float;
  c_obj0 : float;
  c_obj_law : bool;        (* the explored model is the scripted one, which obeys the accept/revert laws by
                              construction: its objective is compared with the recurrence.  For a live crem
                              model the recurrence is judged on the implementation side (oracle) only. *)
  c_steps : list cstep
}.

(* the objective of the explored model (scripted: one binary64 addition on AcceptChange; the live
   dumb model moves by exactly representable integers): the recurrence of the property *)
Definition objective_after (obj : float) (dec : decision) (c : float) : float :=
  if accepts dec then obj + c else obj.

(* property-level comparison of one step; threads the model state and objective *)
Definition check_step (d : direction) (law : bool) (s : state) (obj : float) (c : cstep) : bool * bool * state * float :=
  let i := mkInput (s_valid c) (s_change c) (s_e c) (s_u c) in
  let '(s1, dec) := step d s i in
  let s2 := after_cool (s_cool c) s1 in
  let obj1 := if law then objective_after obj dec (s_change c) else o_obj c in
  let ok :=
    (* the argument the harness exponentiated is the argument the code computes (bit for bit) *)
    (if draws d s i then same_bits (step_exp_arg d s i) (s_arg c) else true)
    (* decision: events, and the verdict calls on the explored model (the complete call sequence is
       compared among the internal observables); for configured directions also the
       independent statement of the table *)
    && dec_eqb dec (o_dec c)
    && (if configured d then dec_eqb (metropolis_spec d i) (o_dec c) else true)
    && calls_eqb (verdict_calls (calls_of d dec)) (verdict_calls (o_calls c))
    (* reported probability: exported field (meaningful after a valid proposal) and event attribute *)
    && (if s_valid c then same_bits (st_prob s1) (o_prob c) else true)
    && optf_same (match dec with RevertInvalid => None | _ => Some (st_prob s1) end) (o_evprob c)
    (* objective recurrence and temperature *)
    && same_bits obj1 (o_obj c)
    && same_bits (st_T s2) (o_T c) in
  let ok_internal :=
    same_bits (st_prob s1) (o_prob c)
    && calls_eqb (calls_of d dec) (o_calls c)
    && Bool.eqb (st_accepted s1) (o_accepted c)
    && Bool.eqb (st_invalid s1) (o_invalid c)
    && Bool.eqb (st_desirable s1) (o_desirable c)
    && optb_eqb (match dec with RevertInvalid => None | _ => Some (st_desirable s1) end) (o_evdes c)
    && same_bits (st_change s1) (o_change c)
    && Nat.eqb (if draws d s i then 1 else 0) (o_draws c) in
  (ok, ok_internal, s2, obj1).

Fixpoint check_steps (d : direction) (law : bool) (s : state) (obj : float) (cs : list cstep) : bool * bool :=
  match cs with
  | [] => (true, true)
  | c :: cs' =>
      let '(ok, oki, s', obj') := check_step d law s obj c in
      let '(r, ri) := check_steps d law s' obj' cs' in
      (ok && r, oki && ri)
  end.

Definition check_case (c : case) : bool * bool :=
  check_steps (c_dir c) (c_obj_law c) (init_state (c_T0 c) (c_cf c)) (c_obj0 c) (c_steps c).

Fixpoint mismatches_from (sel : bool * bool -> bool) (n : nat) (cs : list case) : list nat :=
  match cs with
  | [] => []
  | c :: cs' => if sel (check_case c) then mismatches_from sel (S n) cs' else n :: mismatches_from sel (S n) cs'
  end.

(* obligations: property-level observables *)
Definition mismatches := mismatches_from fst 0.
(* recorded as a note only: unexported flags, the stale probability after an invalid proposal, draw counts *)
Definition mismatches_internal := mismatches_from snd 0.

(* the hypothesis of the binary64 range theorem, checked on every math.Exp result fed to the model *)
Definition exp_results_in01 (cs : list case) : bool :=
  forallb (fun c => forallb (fun st => in01 (s_e st)) (c_steps c)) cs.

(* Float64Unitary against its transcription (note only): pairs (Int63 value, observed draw) *)
Definition unitary_mismatches (ks : list (int * float)) : nat :=
  length (filter (fun ku => negb (same_bits (float64_unitary (fst ku)) (snd ku))) ks).

(* ---- the reconstruction of floats, verified on values whose bit patterns are known ---- *)
(* 0.95 = 0x3FEE666666666666 = 8556839292003942 * 2^-53 ; 1e-300 = 0x01A56E1FC2F8F359 ;
   -0.0 ; smallest subnormal ; largest finite *)
Definition reconstruction_ok : bool :=
  same_bits (mkf false 8556839292003942 (-53)) 0x1.e666666666666p-1
  && same_bits (mkf false 6032057205060441 (-1049)) 0x1.56e1fc2f8f359p-997
  && same_bits (mkf true 0 0) (-0)
  && negb (same_bits (mkf true 0 0) 0)
  && same_bits (mkf false 1 (-1074)) 0x0.0000000000001p-1022
  && same_bits (mkf false 9007199254740991 971) 0x1.fffffffffffffp1023
  && same_bits (mkf true 1 0) (-1)
  && same_bits (of_bits false 4606732058837280358) 0x1.e666666666666p-1     (* 0x3FEE666666666666 *)
  && same_bits (of_bits false 118622047889322841) 0x1.56e1fc2f8f359p-997      (* 0x01A56E1FC2F8F359 *)
  && same_bits (of_bits true 0) (-0)
  && same_bits (of_bits false 1) 0x0.0000000000001p-1022
  && same_bits (of_bits false 4503599627370495) 0x0.fffffffffffffp-1022      (* largest subnormal *)
  && same_bits (of_bits false 4503599627370496) 0x1p-1022                    (* smallest normal *)
  && same_bits (of_bits false 9218868437227405311) 0x1.fffffffffffffp1023
  && same_bits (of_bits true 4607182418800017408) (-1)
  && same_bits (of_bits true 9218868437227405312) neg_infinity
  && same_bits (of_bits false 9218868437227405312) infinity
  && is_nan (of_bits false 9221120237041090560)
  && same_bits (float64_unitary 9223372036854775807) 1
  && same_bits (float64_unitary 9007199254740990) 0x1.fffffffffffffp-1.
