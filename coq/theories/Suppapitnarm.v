(* C06 — executable model of internal/pkg/annealing/explorer/suppapitnarm/Explorer.go
   (TryRandomChange, AcceptOrRevertChange, changeTriedIsDesirable, AcceptDesirableChange,
   AcceptUndesirableChange, RevertLastChange, ReturnToBaseIfRequired, shouldReturnToBase,
   returnToBaseInsideArchive, adjustReturnToBaseRate, deriveIterationsUntilReturnToBase,
   checkNonDominanceIfRequired, CoolDown) and of the parts of
   internal/pkg/model/archive/NonDominanceModelArchive.go it calls (AttemptToArchiveState,
   newModelStateCannotBeArchived, ForceModelStateIntoArchive, SelectRandomModel, IsNonDominant).

   A solution is an [NdArchive.entry]: the action set (list of booleans, as compressed by
   ModelCompressor) and its decision-variable vector in sorted-key order (exact rationals, as in C17's
   model).  The archive operations are NOT transcribed again here: they are C05's (NdArchive.v).  Modelling assumption (discharged by C01 for the catchment model): the
   vector of a model is a function of its action set, so synchronising / decompressing the current
   model to a solution's action set gives it that solution's vector.

   Inputs of one iteration ([input]): the candidate the randomisation produced, the values math.Exp
   returned for it, the 53-bit integer behind the uniform draw, the integer behind the return-to-base
   pick.  Go panics (length-mismatched vectors in Dominates, failed assertion in selectRandomIndex,
   "Dominance detected ...") are [Panic].  No proofs in this file. *)
From Coq Require Import List ZArith NArith QArith Bool Floats.
From Crem Require Import Base.Res Dominance NdArchive SuppRtbFloat.
Import ListNotations.

(* The archive is C05's model NdArchive.v -- the transcription of NonDominanceModelArchive.go that is tied
   to the real archive by C05's own correspondence check and carries the invariant theorems
   (NdArchiveProofs.v).  [entry] = (objective vector, action set); [attempt] = AttemptToArchiveState,
   [force] = ForceModelStateIntoArchive, [is_non_dominant] = IsNonDominant (as written: the inner loop
   never looks at the last entry), [sres] = archive.StorageResult in iota order. *)
Notation mk_entry := mkE (only parsing).
Notation verdict := sres (only parsing).

Definition verdict_eqb (a b : verdict) : bool := Nat.eqb (sres_code a) (sres_code b).

(* ---- explorer ---- *)

Record params := mk_params {
  p_init : Z;          (* InitialReturnToBaseStep     (int64, validator: non-negative) *)
  p_min : Z;           (* MinimumReturnToBaseRate     (int64, validator: non-negative) *)
  p_factor : float;    (* ReturnToBaseAdjustmentFactor (validator: 0 <= f <= 1)        *)
  p_cooling : float;   (* coolant CoolingFactor *)
  p_kind : coolant_kind;
  p_check_nd : bool    (* CheckNonDominance *)
}.

Record st := mk_st {
  cur : entry;               (* currentModel *)
  arch : list entry;         (* modelArchive.archive, in slice order *)
  until : N;                 (* iterationsUntilReturnToBase (uint64) *)
  stepf : float;             (* returnToBaseStep *)
  iter : N;                  (* currentIteration *)
  last_rtb : N;              (* lastReturnedToBase *)
  desirable : bool;          (* changeIsDesirable: sticky across iterations when the switch matches no case *)
  accepted : bool;           (* changeAccepted *)
  storage : verdict;         (* archiveStorageResult *)
  accprob : float;           (* coolant.acceptanceProbability *)
  temp : float               (* coolant.temperature *)
}.

Record input := mk_input {
  i_cand : entry;        (* Compress(potentialModel) after generatePotentialModel *)
  i_es : list float;     (* math.Exp(-|d_i|/T), i over the objectives, as returned by math.Exp *)
  i_draw : Z;            (* Int63n(2^53) behind Float64Unitary (consumed only if the coolant is asked) *)
  i_pick : nat           (* any natural; the Intn(len) result is i_pick mod len (consumed only on return) *)
}.

Definition two64 : N := (2 ^ 64)%N.

(* SetParameters + Initialise: step = float64(init); deriveIterationsUntilReturnToBase; iteration 1;
   empty archive.  [c0] is the (randomised) starting solution, [t0] the starting temperature. *)
Definition init_state (p : params) (c0 : entry) (t0 : float) : res st :=
  let s0 := of_int64 (p_init p) in
  do u <- f2u64 s0;
  Ok (mk_st c0 [] u s0 1%N 0%N false false StoredReplacingDominatedEntries 0%float t0).

(* changeTriedIsDesirable: a switch with no default *)
Definition change_desirable (prev : bool) (v : verdict) : bool :=
  match v with
  | StoredWithNoDominanceDetected | StoredReplacingDominatedEntries
  | RejectedWithDuplicateEntryDetected => true
  | RejectedWithStoredEntryDominanceDetected => false
  | _ => prev
  end.

(* the same switch as data, for the source-level tie (gen/Facts06.v, regenerated from the Go source) *)
Definition all_verdicts : list verdict :=
  [StoredReplacingDominatedEntries; StoredWithNoDominanceDetected; RejectedWithStoredEntryDominanceDetected;
   RejectedWithDuplicateEntryDetected; CanBeStored; StoredForcingDominatingStateRemoval].
Definition desirable_cases : list nat :=
  map sres_code (filter (fun v => change_desirable false v) all_verdicts).
Definition undesirable_cases : list nat :=
  map sres_code (filter (fun v => negb (change_desirable true v)) all_verdicts).
Definition sticky_cases : list nat :=
  map sres_code (filter (fun v => negb (change_desirable false v) && change_desirable true v) all_verdicts).

Inductive decision := AcceptDesirable | AcceptUndesirable | RevertUndesirable.

Definition decision_eqb (a b : decision) : bool :=
  match a, b with
  | AcceptDesirable, AcceptDesirable | AcceptUndesirable, AcceptUndesirable
  | RevertUndesirable, RevertUndesirable => true
  | _, _ => false
  end.

(* AttemptToArchiveState + AcceptOrRevertChange.  Returns the verdict of the attempt (as notified by
   changeTriedIsDesirable), the decision taken, and the new state. *)
Definition accept_phase (p : params) (s : st) (i : input) : res (verdict * decision * st) :=
  do va <- attempt (arch s) (i_cand i);
  let v := fst va in
  let a1 := snd va in
  let des := change_desirable (desirable s) v in
  if des then
    (* AcceptDesirableChange: probability := min(1,1); accepted; current := potential *)
    Ok (v, AcceptDesirable,
        mk_st (i_cand i) a1 (until s) (stepf s) (iter s) (last_rtb s) des true v guaranteed (temp s))
  else
    let pr := accept_prob (p_kind p) (i_es i) in
    if decide pr (unitary (i_draw i)) then
      (* AcceptUndesirableChange: force into the archive; accepted; current := potential *)
      do f <- force a1 (i_cand i);
      Ok (v, AcceptUndesirable,
          mk_st (i_cand i) (snd f) (until s) (stepf s) (iter s) (last_rtb s) des true
                (fst f) pr (temp s))
    else
      (* RevertLastChange: the potential model is simply ignored *)
      Ok (v, RevertUndesirable,
          mk_st (cur s) a1 (until s) (stepf s) (iter s) (last_rtb s) des false v pr (temp s)).

(* ke.iterationsUntilReturnToBase-- on a uint64 *)
Definition dec64 (n : N) : N := if (n =? 0)%N then (two64 - 1)%N else N.pred n.

(* ReturnToBaseIfRequired.  Returns the selected base (if a return fired) and the new state. *)
Definition rtb_phase (p : params) (s : st) (i : input) : res (option entry * st) :=
  let u := dec64 (until s) in
  if (u <=? 0)%N then
    (* selectRandomIndex asserts 0 < range <= len(archive) with range = len(archive) *)
    match arch s with
    | [] => Panic
    | e0 :: _ =>
        let b := nth (Nat.modulo (i_pick i) (length (arch s))) (arch s) e0 in
        (* adjustReturnToBaseRate + deriveIterationsUntilReturnToBase *)
        let s' := next_step (of_int64 (p_min p)) (p_factor p) (stepf s) in
        do u' <- f2u64 s';
        Ok (Some b, mk_st b (arch s) u' s' (iter s) (iter s) (desirable s) (accepted s) (storage s)
                          (accprob s) (temp s))
    end
  else
    Ok (None, mk_st (cur s) (arch s) u (stepf s) (iter s) (last_rtb s) (desirable s) (accepted s)
                    (storage s) (accprob s) (temp s)).

(* checkNonDominanceIfRequired *)
Definition check_phase (p : params) (s : st) : res st :=
  if p_check_nd p then
    do nd <- is_non_dominant (arch s);
    if nd then Ok s else Panic
  else Ok s.

Record obs := mk_obs {
  o_verdict : verdict;       (* "ArchiveStorageResult" of the changeTriedIsDesirable event *)
  o_decision : decision;     (* which of the three acceptance events was sent *)
  o_base : option entry      (* "Returning to Base" (and the entry selected) *)
}.

(* TryRandomChange *)
Definition try_random_change (p : params) (s : st) (i : input) : res (obs * st) :=
  do r1 <- accept_phase p s i;
  let '(v, d, s1) := r1 in
  do r2 <- rtb_phase p s1 i;
  let '(b, s2) := r2 in
  do s3 <- check_phase p s2;
  Ok (mk_obs v d b,
      mk_st (cur s3) (arch s3) (until s3) (stepf s3) (iter s3 + 1)%N (last_rtb s3) (desirable s3)
            (accepted s3) (storage s3) (accprob s3) (temp s3)).

(* Explorer.CoolDown *)
Definition cool_down (p : params) (s : st) : st :=
  mk_st (cur s) (arch s) (until s) (stepf s) (iter s) (last_rtb s) (desirable s) (accepted s)
        (storage s) (accprob s) (cool (temp s) (p_cooling p)).

(* one annealing iteration as the annealers drive the explorer: TryRandomChange; CoolDown *)
Definition iteration (p : params) (s : st) (i : input) : res (obs * st) :=
  do r <- try_random_change p s i;
  Ok (fst r, cool_down p (snd r)).

(* a whole run: observations in order and the final state *)
Fixpoint run (p : params) (s : st) (is : list input) : res (list obs * st) :=
  match is with
  | [] => Ok ([], s)
  | i :: is' =>
      do r <- iteration p s i;
      do r' <- run p (snd r) is';
      Ok (fst r :: fst r', snd r')
  end.

(* ---- the schedule alone: the countdown machine does not depend on candidates or the archive ---- *)

(* step_j and countdown_j of the property *)
Fixpoint sched_step (p : params) (j : nat) : float :=
  match j with
  | O => of_int64 (p_init p)
  | S j' => next_step (of_int64 (p_min p)) (p_factor p) (sched_step p j')
  end.
Definition sched_countdown (p : params) (j : nat) : res N := f2u64 (sched_step p j).

(* one tick of (until, step): fired?, new pair *)
Definition sched_tick (p : params) (us : N * float) : res (bool * (N * float)) :=
  let u := dec64 (fst us) in
  if (u <=? 0)%N then
    let s' := next_step (of_int64 (p_min p)) (p_factor p) (snd us) in
    do u' <- f2u64 s'; Ok (true, (u', s'))
  else Ok (false, (u, snd us)).

(* iterations (1-based) at which a return fires among the first n ticks, each with the countdown and
   step installed at that return *)
Fixpoint sched_returns (p : params) (n : nat) (it : N) (us : N * float) : res (list (N * N * float)) :=
  match n with
  | O => Ok []
  | S n' =>
      do r <- sched_tick p us;
      do rest <- sched_returns p n' (it + 1)%N (snd r);
      if fst r then Ok ((it, fst (snd r), snd (snd r)) :: rest) else Ok rest
  end.

Definition sched_init (p : params) : res (N * float) :=
  let s0 := of_int64 (p_init p) in
  do u <- f2u64 s0; Ok (u, s0).

(* iteration of the k-th return-to-base (k >= 1): the sum of the first k countdowns *)
Fixpoint ret_iter (p : params) (k : nat) : res N :=
  match k with
  | O => Ok 0%N
  | S k' => do t <- ret_iter p k'; do c <- sched_countdown p k'; Ok (t + c)%N
  end.

(* boolean hypotheses of the schedule theorems: 1 <= init, min <= 2^53 (float64(int64) exact),
   0 <= factor <= 1 (not NaN) *)
Definition params_ok (p : params) : bool :=
  exact_int_range (p_init p) && exact_int_range (p_min p) && factor_in_range (p_factor p).

(* states reachable from s0 in exactly n iterations (TryRandomChange; CoolDown), for ANY inputs *)
Inductive reach (p : params) (s0 : st) : nat -> st -> Prop :=
| reach_0 : reach p s0 O s0
| reach_S n s i o s' : reach p s0 n s -> iteration p s i = Ok (o, s') -> reach p s0 (S n) s'.

(* ---- vocabulary of the property statements (Properties/C06.v) ---- *)

(* two solutions with the same action set *)
Definition same_acts (x c : entry) : Prop := acts_eqb (e_acts x) (e_acts c) = true.

(* "the solution set stores the candidate or already holds its action set" *)
Definition stored_or_held (v : verdict) : bool :=
  match v with
  | StoredWithNoDominanceDetected | StoredReplacingDominatedEntries
  | RejectedWithDuplicateEntryDetected => true
  | _ => false
  end.

Definition is_some {A} (o : option A) : bool := match o with Some _ => true | None => false end.

(* after n iterations: k returns have happened, the last at iteration t = sum of the first k countdowns;
   the next is due at t + c with c = countdown_k; the unsigned counter holds what is left of it *)
Definition sched_inv (p : params) (n : nat) (s : st) : Prop :=
  exists k t c,
    ret_iter p k = Ok t /\ sched_countdown p k = Ok c
    /\ (t <= N.of_nat n < t + c)%N
    /\ until s = (t + c - N.of_nat n)%N
    /\ stepf s = sched_step p k
    /\ iter s = (N.of_nat n + 1)%N
    /\ last_rtb s = t.

(* all decision-variable vectors have one length d (one model: d decision variables) *)
Definition wf_len (d : nat) (e : entry) : Prop := length (e_vec e) = d.

(* the archive operation one iteration performs, in C05's operation language (NdArchive.op):
   OfferForce exactly when the undesirable candidate was accepted, Offer otherwise *)
Definition op_of (i : input) (o : obs) : op :=
  if decision_eqb (o_decision o) AcceptUndesirable then OfferForce (i_cand i) else Offer (i_cand i).

Fixpoint ops_of (is : list input) (os : list obs) : list op :=
  match is, os with
  | i :: is', o :: os' => op_of i o :: ops_of is' os'
  | _, _ => []
  end.

(* ---- what the model assumes about the SOURCE, as data: compared by computation with gen/Facts06.v, which
   harness/astfacts06 regenerates from the current Go source on every check (gen/obl_C06.v) ---- *)
From Coq Require Import String.
Open Scope string_scope.

Inductive pdefault := DInt (z : Z) | DFloat (f : float) | DBool (b : bool) | DOther (text : string).

(* archive.StorageResult in iota order (the Go identifier of [CanBeStored] is unexported) *)
Definition storage_result_names : list string :=
  ["StoredReplacingDominatedEntries"; "StoredWithNoDominanceDetected";
   "RejectedWithStoredEntryDominanceDetected"; "RejectedWithDuplicateEntryDetected";
   "canBeStored"; "StoredForcingDominatingStateRemoval"].

(* [try_random_change]: Compress(current); generatePotentialModel; Compress(potential) = the candidate;
   differences candidate - current (what the coolant is given); attempt on the candidate; AcceptOrRevertChange
   on those differences; ReturnToBaseIfRequired; checkNonDominanceIfRequired; currentIteration++ *)
Definition try_random_change_order : list string :=
  ["compress:currentModel"; "call:generatePotentialModel()"; "compress:potentialModel";
   "differences:compressed(potentialModel)-compressed(currentModel)";
   "attempt:compressed(potentialModel)";
   "call:AcceptOrRevertChange(differences(compressed(potentialModel)-compressed(currentModel)))";
   "call:ReturnToBaseIfRequired(compressed(potentialModel))";
   "call:checkNonDominanceIfRequired()"; "++:currentIteration"].

(* suppapitnarm/Parameters.go: key, validator, default.  [params_ok] is the validators' range of the three
   schedule parameters (with NaN excluded and the exact-conversion bound 2^53 added) *)
Definition default_factor : float := mkf 8556839292003942 (-53).   (* 0.95 *)
Definition default_isolation : float := mkf 8106479329266893 (-53). (* 0.9 *)
Definition param_specs : list (string * string * pdefault) :=
  [("ReturnToBaseAdjustmentFactor", "IsDecimalBetweenZeroAndOne", DFloat default_factor);
   ("InitialReturnToBaseStep", "IsNonNegativeInteger", DInt 20000);
   ("MinimumReturnToBaseRate", "IsNonNegativeInteger", DInt 10);
   ("ReturnToBaseIsolationFraction", "IsDecimalBetweenZeroAndOne", DFloat default_isolation);
   ("CheckNonDominance", "IsBoolean", DBool false)].

(* where the schedule reads them: step := float64(GetInt64(Initial...)) in SetParameters;
   GetInt64(Minimum...) and GetFloat64(...Factor) in adjustReturnToBaseRate; GetBoolean(CheckNonDominance) *)
Definition getter_sites_needed : list (string * string * string) :=
  [("SetParameters", "GetInt64", "InitialReturnToBaseStep");
   ("adjustReturnToBaseRate", "GetInt64", "MinimumReturnToBaseRate");
   ("adjustReturnToBaseRate", "GetFloat64", "ReturnToBaseAdjustmentFactor");
   ("checkNonDominanceIfRequired", "GetBoolean", "CheckNonDominance")].

Definition pdefault_eqb (a b : pdefault) : bool :=
  match a, b with
  | DInt x, DInt y => Z.eqb x y
  | DFloat x, DFloat y => fsame x y
  | DBool x, DBool y => Bool.eqb x y
  | _, _ => false
  end.

Definition spec_eqb (a b : string * string * pdefault) : bool :=
  String.eqb (fst (fst a)) (fst (fst b)) && String.eqb (snd (fst a)) (snd (fst b)) && pdefault_eqb (snd a) (snd b).

Definition triple_eqb (a b : string * string * string) : bool :=
  String.eqb (fst (fst a)) (fst (fst b)) && String.eqb (snd (fst a)) (snd (fst b)) && String.eqb (snd a) (snd b).

Fixpoint strings_eqb (a b : list string) : bool :=
  match a, b with
  | [], [] => true
  | x :: a', y :: b' => String.eqb x y && strings_eqb a' b'
  | _, _ => false
  end.

(* equality of two lists of codes as sets *)
Definition nats_subset (a b : list nat) : bool := forallb (fun x => existsb (Nat.eqb x) b) a.
Definition nats_same_set (a b : list nat) : bool := nats_subset a b && nats_subset b a.
