(* C08 — census of the package-level variables of crem that code running after initialisation touches, with the
   reason why each kind of use cannot make one run's progress visible to another run (or one request's to another).
   gen/PkgVars.v is regenerated from the repository's CURRENT source by harness/astfacts08 on every run;
   gen/obl_C08_pkgvars.v computes [uncovered accounted pkg_var_uses] and demands [].  Removing a variable or a use is
   harmless; a NEW variable touched by run code, or a new kind of use of an old one (a setter called at run time on a
   shared converter, a shared scratch collection that is reset and refilled, an assignment), is not in the census and
   breaks the obligation.  No proofs in this file. *)
From Coq Require Import List String Bool.
Import ListNotations.
Open Scope string_scope.

Inductive why :=
| setup               (* written/used by the process's main goroutine before the scenario runs or after it has returned *)
| null_object         (* stateless null object / test double: nothing to share *)
| converter_read_only (* strings.Converter / message.Printer configured once in the initialiser; Convert/Sprintf only read it *)
| regexp              (* *regexp.Regexp: documented safe for concurrent use *)
| caster_read_only    (* strings.BaseCaster configured once in init(); Cast only reads it *)
| stateless_helper    (* value of a struct type without fields *)
| constant_table.     (* enumeration value / heading table / cell description: never written after its initialiser *)

Definition accounted : list (string * string * why) := [
  ("cmd/cremengine/bootstrap.LogHandler", "call:Error", setup);
  ("cmd/cremengine/bootstrap.LogHandler", "read", setup);
  ("cmd/cremengine/bootstrap.myEngine", "assign", setup);
  ("cmd/cremengine/bootstrap.myEngine", "call:LogHandler", setup);
  ("cmd/cremengine/bootstrap.myEngine", "call:Run", setup);
  ("cmd/cremengine/bootstrap.myEngine", "call:SetScenario", setup);
  ("cmd/cremengine/bootstrap.myEngine", "call:SetSolution", setup);
  ("cmd/cremengine/bootstrap.myEngine", "call:SetSolutionSummary", setup);
  ("cmd/cremengine/bootstrap.myInterpreter", "call:Errors", setup);
  ("cmd/cremengine/bootstrap.myInterpreter", "call:Interpret", setup);
  ("cmd/cremengine/commandline.licence", "read", setup);
  ("cmd/cremengine/config/interpreter.ServerLogger", "assign", setup);
  ("cmd/cremengine/config/interpreter.ServerLogger", "read", setup);
  ("cmd/cremengine/config/interpreter.engineStatus", "read", setup);
  ("cmd/cremengine/engine.NullEngine", "read", null_object);
  ("cmd/cremengine/engine/api.modelCompressor", "call:Compress", stateless_helper);
  ("cmd/cremengine/engine/api.modelCompressor", "call:Decompress", stateless_helper);
  ("cmd/cremexplorer/bootstrap.LogHandler", "assign", setup);
  ("cmd/cremexplorer/bootstrap.LogHandler", "call:Error", setup);
  ("cmd/cremexplorer/bootstrap.LogHandler", "call:Info", setup);
  ("cmd/cremexplorer/bootstrap.LogHandler", "read", setup);
  ("cmd/cremexplorer/bootstrap.myInterpreter", "call:Errors", setup);
  ("cmd/cremexplorer/bootstrap.myInterpreter", "call:Interpret", setup);
  ("cmd/cremexplorer/bootstrap.myScenario", "assign", setup);
  ("cmd/cremexplorer/bootstrap.myScenario", "call:LogHandler", setup);
  ("cmd/cremexplorer/bootstrap.myScenario", "call:Run", setup);
  ("cmd/cremexplorer/commandline.licence", "read", setup);
  ("cmd/cremexplorer/config/data.CsvOutput", "field:value", constant_table);
  ("cmd/cremexplorer/config/data.DetailLevel", "field:value", constant_table);
  ("cmd/cremexplorer/config/data.ExcelOutput", "call:String", constant_table);
  ("cmd/cremexplorer/config/data.ExcelOutput", "field:value", constant_table);
  ("cmd/cremexplorer/config/data.ExcelOutput", "read", constant_table);
  ("cmd/cremexplorer/config/data.JsonOutput", "field:value", constant_table);
  ("cmd/cremexplorer/config/data.SummaryLevel", "field:value", constant_table);
  ("internal/app/DumbAnnealer.LogHandler", "assign", setup);
  ("internal/app/DumbAnnealer.LogHandler", "call:Error", setup);
  ("internal/app/DumbAnnealer.LogHandler", "call:Info", setup);
  ("internal/app/DumbAnnealer.LogHandler", "read", setup);
  ("internal/app/DumbAnnealer.myInterpreter", "call:Errors", setup);
  ("internal/app/DumbAnnealer.myInterpreter", "call:Interpret", setup);
  ("internal/app/DumbAnnealer.myScenario", "assign", setup);
  ("internal/app/DumbAnnealer.myScenario", "call:LogHandler", setup);
  ("internal/app/DumbAnnealer.myScenario", "call:Run", setup);
  ("internal/pkg/annealing/explorer/null.NullExplorer", "read", null_object);
  ("internal/pkg/annealing/observer.defaultConverter", "call:Convert", converter_read_only);
  ("internal/pkg/annealing/solution/encoding.NullEncoder", "read", null_object);
  ("internal/pkg/annealing/solution/encoding/csv.currencyConverter", "call:Convert", converter_read_only);
  ("internal/pkg/annealing/solution/encoding/csv.defaultConverter", "call:Convert", converter_read_only);
  ("internal/pkg/annealing/solution/encoding/csv.variableHeadings", "read", constant_table);
  ("internal/pkg/annealing/solution/encoding/excel.baseVariableHeadings", "range", constant_table);
  ("internal/pkg/annealing/solution/encoding/excel.baseVariableHeadings", "read", constant_table);
  ("internal/pkg/annealing/solution/set/encoding.NullEncoder", "read", null_object);
  ("internal/pkg/annealing/solution/set/encoding/csv.defaultConverter", "call:Convert", converter_read_only);
  ("internal/pkg/annealing/solution/set/encoding/json.nameMatcher", "call:FindStringSubmatch", regexp);
  ("internal/pkg/config/data.AveragedSuppapitnarm", "field:Value", constant_table);
  ("internal/pkg/config/data.AveragedSuppapitnarm", "read", constant_table);
  ("internal/pkg/config/data.BareBones", "field:Value", constant_table);
  ("internal/pkg/config/data.BareBones", "read", constant_table);
  ("internal/pkg/config/data.Concurrent", "field:value", constant_table);
  ("internal/pkg/config/data.Json", "field:Value", constant_table);
  ("internal/pkg/config/data.Json", "read", constant_table);
  ("internal/pkg/config/data.Kirkpatrick", "field:Value", constant_table);
  ("internal/pkg/config/data.Kirkpatrick", "read", constant_table);
  ("internal/pkg/config/data.NameValuePair", "field:Value", constant_table);
  ("internal/pkg/config/data.NameValuePair", "read", constant_table);
  ("internal/pkg/config/data.NativeLibrary", "field:Value", constant_table);
  ("internal/pkg/config/data.NativeLibrary", "read", constant_table);
  ("internal/pkg/config/data.RawMessage", "field:Value", constant_table);
  ("internal/pkg/config/data.RawMessage", "read", constant_table);
  ("internal/pkg/config/data.Sequential", "field:value", constant_table);
  ("internal/pkg/config/data.Suppapitnarm", "field:Value", constant_table);
  ("internal/pkg/config/data.Suppapitnarm", "read", constant_table);
  ("internal/pkg/config/data.UnspecifiedAnnealerType", "read", constant_table);
  ("internal/pkg/config/data.UnspecifiedFormatterType", "read", constant_table);
  ("internal/pkg/config/data.UnspecifiedLoggerType", "read", constant_table);
  ("internal/pkg/dataset/csv.caster", "call:Cast", caster_read_only);
  ("internal/pkg/dataset/csv.metaTableHeadings", "index", constant_table);
  ("internal/pkg/dataset/csv.metaTableHeadings", "range", constant_table);
  ("internal/pkg/dataset/csv.metaTableHeadings", "read", constant_table);
  ("internal/pkg/dataset/excel.cellSizeCellDetail", "read", constant_table);
  ("internal/pkg/dataset/excel.nColsCellDetail", "read", constant_table);
  ("internal/pkg/dataset/excel.nRowsCellDetail", "read", constant_table);
  ("internal/pkg/dataset/excel.noDataCellDetail", "field:label", constant_table);
  ("internal/pkg/dataset/excel.noDataCellDetail", "field:row", constant_table);
  ("internal/pkg/dataset/excel.noDataCellDetail", "field:valueCol", constant_table);
  ("internal/pkg/dataset/excel.noDataCellDetail", "read", constant_table);
  ("internal/pkg/dataset/excel.xllCornerCellDetail", "read", constant_table);
  ("internal/pkg/dataset/excel.yllCornerCellDetail", "read", constant_table);
  ("internal/pkg/model.NullModel", "read", null_object);
  ("internal/pkg/model/action.NullManagementAction", "read", null_object);
  ("internal/pkg/model/models/modumb.Objectives", "index", constant_table);
  ("internal/pkg/model/models/modumb.Objectives", "range", constant_table);
  ("internal/pkg/model/variable.converter", "call:Convert", converter_read_only);
  ("internal/pkg/model/variable.currencyConverter", "call:Convert", converter_read_only);
  ("internal/pkg/model/variable.defaultConverter", "call:Convert", converter_read_only);
  ("internal/pkg/scenario.NullRunner", "read", null_object);
  ("internal/pkg/scenario.NullScenario", "read", null_object);
  ("internal/pkg/scenario.iterationMatcher", "call:FindAllString", regexp);
  ("internal/pkg/scenario.prettifiedMatcher", "call:ReplaceAllString", regexp);
  ("pkg/assert/release.nullAssertion", "read", null_object);
  ("pkg/logging.DISCARD", "read", constant_table);
  ("pkg/logging.STDERR", "read", constant_table);
  ("pkg/logging.STDOUT", "read", constant_table);
  ("pkg/logging/formatters.jsonConverter", "call:Convert", converter_read_only);
  ("pkg/logging/formatters.nvpConverter", "call:Convert", converter_read_only);
  ("pkg/logging/loggers.DefaultTestingLogger", "read", null_object);
  ("pkg/strings.localised", "call:Sprintf", converter_read_only);
  ("pkg/strings.localised", "read", converter_read_only);
  ("pkg/threading.mainThreadChannel", "assign", setup);
  ("pkg/threading.mainThreadChannel", "read", setup)
].

Definition covered (acc : list (string * string * why)) (v u : string) : bool :=
  existsb (fun a => String.eqb (fst (fst a)) v && String.eqb (snd (fst a)) u) acc.

Definition uncovered (acc : list (string * string * why)) (facts : list (string * list string)) : list (string * string) :=
  flat_map (fun f => map (fun u => (fst f, u)) (filter (fun u => negb (covered acc (fst f) u)) (snd f))) facts.

(* the writes the census admits are all of the [setup] kind *)
Definition run_time_writes (acc : list (string * string * why)) : list (string * string) :=
  map fst (filter (fun a => String.eqb (snd (fst a)) "assign" && match snd a with setup => false | _ => true end) acc).
