(* C12 — the saver's abstract decompression model (Saver.v, Section SaverModel) instantiated with the concrete
   catchment model of Catchment.v and the action encoding of BoolArchive.v, and the three hypotheses of the
   faithfulness theorems DISCHARGED from C01 (CatchmentProofs: every reachable state is valued as its active set
   alone says) and C09 (BoolArchiveProofs: Encoding / Decode round trip).

     St         := Catchment.state                 the saver's private CoreModel
     init       := Catchment.fresh d               Initialise(AsIs): rebuilt from the data set, nothing active
     decompress := fun e s => Catchment.decompress d s (bits_of (nactions d) e)
                                                   ModelCompressor.Decompress of the member whose Actions encode as e:
                                                   SetManagementAction(index, bit) for every index
     enc_of     := fun s => enc_bits (active_list d s)
                                                   Compress(model).Encoding(): New(len); SetValue per action; %X words
     vals_of    := fun s => o_vars (obs_of d s)    the six totals and every per-planning-unit value, in grid units

   An archive member is represented in Saver.v by the text of its action encoding; [bits_of] recovers the member's
   flags from that text with the real Decode (C09: for the encoding of n >= 1 flags that is exactly those flags). *)
From Coq Require Import List String Bool Arith Lia Permutation.
From Crem Require Import Base.Res BoolArchive BoolArchiveProofs Catchment CatchmentProofs Saver SaverProofs.
Import ListNotations.
Local Open Scope nat_scope.

(* Compress(model).Encoding() of a flag vector *)
Definition enc_bits (bs : list bool) : string := snd (BoolArchive.encoding (of_bits bs)).

(* the flags a text decodes to in an archive of n entries; a text Decode rejects stands for no member at all *)
Definition bits_of (n : nat) (e : string) : list bool :=
  match BoolArchive.decode (new_archive n) e with
  | Ok (a, true) => bits a
  | _ => []
  end.

Section Instance.
  Variable d : dataset.

  Definition c_init : state := fresh d.
  Definition c_decompress (e : string) (s : state) : state := Catchment.decompress d s (bits_of (nactions d) e).
  Definition c_enc_of (s : state) : string := enc_bits (active_list d s).
  Definition c_vals_of (s : state) : list vobs := o_vars (obs_of d s).

  (* the encodings of this model's action sets *)
  Definition c_canon (e : string) : Prop := exists bs, List.length bs = nactions d /\ e = enc_bits bs.
End Instance.

(* ------------------------------------------------------------------------------------------------------------ *)

Lemma new_archive_wf : forall n, wf (new_archive n) /\ a_size (new_archive n) = n.
Proof. intros n. exact (reachable_wf n []). Qed.

Lemma bits_length : forall a, List.length (bits a) = a_size a.
Proof. intros a. unfold bits. now rewrite map_length, seq_length. Qed.

Lemma bits_of_length : forall n e, List.length (bits_of n e) <= n.
Proof.
  intros n e. unfold bits_of. destruct (new_archive_wf n) as [W S].
  destruct (decode_spec (new_archive n) e W) as (a' & -> & _ & Sa & _).
  destruct (decode_accepts _ e); cbn; [|lia]. rewrite bits_length, Sa, S. lia.
Qed.

(* C09 round trip, in the form used here *)
Lemma bits_of_enc : forall bs, bs <> [] -> bits_of (List.length bs) (enc_bits bs) = bs.
Proof.
  intros bs H. unfold bits_of, enc_bits. rewrite (roundtrip_of_bits bs H). apply of_bits_bits.
Qed.

Lemma map_nth_seq_self : forall (bs : list bool), map (fun j => nth j bs false) (seq 0 (List.length bs)) = bs.
Proof.
  intros bs. apply (nth_ext _ _ false false).
  - now rewrite map_length, seq_length.
  - intros k Hk. rewrite map_length, seq_length in Hk. now rewrite nth_map_seq.
Qed.

Section Discharge.
  Variable d : dataset.
  Hypothesis Hwf : wf_dataset d = true.
  Hypothesis Hn : (1 <=? nactions d) = true.

  Local Notation n := (nactions d).

  (* every state the saver's model can be in is the end of a well-formed history of the catchment model *)
  Definition hist (es : list string) : list Catchment.op := map (fun e => Sync (bits_of n e)) es.

  Lemma hist_wf : forall es, wf_history d (hist es) = true.
  Proof.
    intros es. unfold wf_history, hist. rewrite forallb_forall. intros o Ho.
    apply in_map_iff in Ho as (e & <- & _). cbn. apply Nat.leb_le. apply bits_of_length.
  Qed.

  Lemma fold_hist : forall es s,
    fold_left (fun s e => c_decompress d e s) es s = fold_left (Catchment.step d) (hist es) s.
  Proof. induction es as [|e es IH]; intros s; [reflexivity|]. cbn. apply IH. Qed.

  Lemma reachable_run : forall s, reachable state (c_init d) (c_decompress d) s ->
    exists es, s = Catchment.run d (hist es).
  Proof. intros s [es ->]. exists es. unfold Catchment.run, c_init. apply fold_hist. Qed.

  Lemma decompress_run : forall es e,
    c_decompress d e (Catchment.run d (hist es)) = Catchment.run d (hist (es ++ [e])).
  Proof. intros es e. unfold Catchment.run, hist. rewrite map_app, fold_left_app. reflexivity. Qed.

  (* Decompress of n flags leaves exactly those flags *)
  Lemma active_after_decompress : forall s bs, List.length bs = n ->
    active_list d (Catchment.decompress d s bs) = bs.
  Proof.
    intros s bs L. unfold active_list, Catchment.decompress, synchronise.
    rewrite <- (map_nth_seq_self bs) at 2. rewrite L. apply map_ext_in. intros j Hj. apply in_seq in Hj.
    rewrite set_all_active. rewrite L.
    replace (0 <=? j) with true by (symmetry; apply Nat.leb_le; lia).
    replace (j <? 0 + n) with true by (symmetry; apply Nat.ltb_lt; lia).
    cbn [andb]. now rewrite Nat.sub_0_r.
  Qed.

  Lemma canon_bits : forall e, c_canon d e -> exists bs, List.length bs = n /\ e = enc_bits bs /\ bits_of n e = bs.
  Proof.
    intros e (bs & L & ->). exists bs. repeat split; [exact L|]. rewrite <- L. apply bits_of_enc.
    intros ->. cbn in L. apply Nat.leb_le in Hn. lia.
  Qed.

  (* C01 history independence + C09 round trip *)
  Theorem discharge_vals : forall e s, reachable state (c_init d) (c_decompress d) s -> c_canon d e ->
    c_vals_of d (c_decompress d e s) = c_vals_of d (c_decompress d e (c_init d)).
  Proof.
    intros e s R C. apply reachable_run in R as [es ->]. destruct (canon_bits e C) as (bs & L & _ & B).
    unfold c_vals_of. f_equal. rewrite decompress_run.
    change (c_init d) with (Catchment.run d (hist [])). rewrite decompress_run.
    apply (same_set_same_values d Hwf); try apply hist_wf.
    rewrite <- !decompress_run. unfold c_decompress. rewrite B. now rewrite !active_after_decompress.
  Qed.

  (* C09 round trip: re-compressing the decompressed model gives the member's own encoding *)
  Theorem discharge_enc : forall e s, reachable state (c_init d) (c_decompress d) s -> c_canon d e ->
    c_enc_of d (c_decompress d e s) = e.
  Proof.
    intros e s _ C. destruct (canon_bits e C) as (bs & L & E & B).
    unfold c_enc_of, c_decompress. rewrite B, active_after_decompress by exact L. now symmetry.
  Qed.

  Lemma init_canon : c_canon d (c_enc_of d (c_init d)).
  Proof. exists (active_list d (c_init d)). split; [|reflexivity]. unfold active_list. now rewrite map_length, seq_length. Qed.

  (* decompressing the as-is encoding into the as-is model changes no value *)
  Theorem discharge_init : c_vals_of d (c_decompress d (c_enc_of d (c_init d)) (c_init d)) = c_vals_of d (c_init d).
  Proof.
    unfold c_vals_of. f_equal.
    change (c_init d) with (Catchment.run d (hist [])) at 2 3. rewrite decompress_run.
    apply (same_set_same_values d Hwf); try apply hist_wf.
    rewrite <- decompress_run. unfold c_decompress.
    destruct (canon_bits _ init_canon) as (bs & L & E & B). rewrite B, active_after_decompress by exact L.
    (* bs is the as-is flag vector: same length, same encoding, and the encoding is canonical *)
    assert (L2 : List.length bs = List.length (active_list d (c_init d)))
      by (unfold active_list; now rewrite map_length, seq_length).
    symmetry. apply (proj1 (canonical_of_bits _ _ (eq_sym L2))). exact E.
  Qed.

  (* the valuation of a fresh model decompressed from a canonical encoding IS the spec valuation of those flags *)
  Lemma eval_is_canon_obs : forall bs, List.length bs = n ->
    c_vals_of d (c_decompress d (enc_bits bs) (c_init d)) = o_vars (canon_obs d (fun j => nth j bs false)).
  Proof.
    intros bs L. destruct (canon_bits (enc_bits bs) (ex_intro _ bs (conj L eq_refl))) as (bs' & L' & E & B).
    unfold c_vals_of, c_decompress. rewrite B. f_equal.
    change (Catchment.decompress d (c_init d) bs') with (apply_set d bs').
    rewrite inv_obs by (apply (apply_set_inv d Hwf); lia).
    assert (bs' = bs) as -> by (symmetry; apply (proj1 (canonical_of_bits bs bs' (eq_trans L (eq_sym L')))); exact E).
    apply canon_obs_ext. intros j Hj.
    pose proof (active_after_decompress (fresh d) bs L) as A. unfold active_list in A.
    apply (f_equal (fun l => nth j l false)) in A. rewrite nth_map_seq in A by exact Hj. exact A.
  Qed.
End Discharge.

(* ------------------------------------------------------------------------------------------------------------ *)
(* the statements of Properties/C12.v *)

Definition members_ok (d : dataset) (members : list (list bool)) : bool :=
  forallb (fun bs => List.length bs =? nactions d) members.

Lemma members_canon : forall d members, members_ok d members = true -> Forall (c_canon d) (map enc_bits members).
Proof.
  intros d members H. unfold members_ok in H. rewrite forallb_forall in H. apply Forall_forall. intros e He.
  apply in_map_iff in He as (bs & <- & I). exists bs. split; [|reflexivity]. now apply Nat.eqb_eq, H.
Qed.

Lemma c12_rows_faithful_catchment :
  forall (d : dataset), wf_dataset d = true -> (1 <=? nactions d) = true ->
  forall (members : list (list bool)), members_ok d members = true ->
  forall (run : string) (st0 : state) (order : summary (list vobs)) (x : row (list vobs)),
    Permutation order (snd (save_set state (list vobs) (c_init d) (c_decompress d) (c_enc_of d) (c_vals_of d)
                                     run (map enc_bits members) st0)) ->
    In x (as_sorted_array order) ->
    r_vals x = o_vars (obs_of d (apply_set d (bits_of (nactions d) (r_enc x)))).
Proof.
  intros d Hwf Hn members Hm run st0 order x P I.
  exact (rows_faithful_set _ _ _ _ _ _ (c_canon d) (discharge_vals d Hwf Hn) (discharge_enc d Hn) (discharge_init d Hwf Hn)
                           run _ st0 order x (members_canon d members Hm) P I).
Qed.

Lemma c12_rows_faithful_catchment_single :
  forall (d : dataset), wf_dataset d = true -> (1 <=? nactions d) = true ->
  forall (optimised : list bool), (List.length optimised =? nactions d) = true ->
  forall (run : string) (st0 : state) (order : summary (list vobs)) (x : row (list vobs)),
    Permutation order (snd (save_optimised state (list vobs) (c_init d) (c_decompress d) (c_enc_of d) (c_vals_of d)
                                           run (enc_bits optimised) st0)) ->
    In x (as_sorted_array order) ->
    r_vals x = o_vars (obs_of d (apply_set d (bits_of (nactions d) (r_enc x)))).
Proof.
  intros d Hwf Hn bs Hb run st0 order x P I.
  refine (rows_faithful_optimised _ _ _ _ _ _ (c_canon d) (discharge_enc d Hn) (discharge_init d Hwf Hn)
                                  run _ st0 order x _ P I).
  exists bs. split; [now apply Nat.eqb_eq | reflexivity].
Qed.

(* the whole array in closed form: row k carries member k's encoding and THE spec valuation (canon_obs: a function of
   the flags alone, no history) of member k's action set *)
Fixpoint catchment_member_rows (d : dataset) (run : string) (n k : nat) (members : list (list bool)) : list (row (list vobs)) :=
  match members with
  | [] => []
  | bs :: ms => mk_row k (row_label (member_id run k n)) (o_vars (canon_obs d (fun j => nth j bs false))) (enc_bits bs) (member_note k n)
                :: catchment_member_rows d run n (S k) ms
  end.

Lemma member_rows_catchment : forall d, wf_dataset d = true -> (1 <=? nactions d) = true ->
  forall members run n k, members_ok d members = true ->
  member_rows state (list vobs) (c_init d) (c_decompress d) (c_vals_of d) run n k (map enc_bits members)
  = catchment_member_rows d run n k members.
Proof.
  intros d Hwf Hn. induction members as [|bs ms IH]; intros run n k H; [reflexivity|].
  cbn in H. apply andb_true_iff in H as [Hb Hm]. apply Nat.eqb_eq in Hb.
  cbn [map member_rows catchment_member_rows]. unfold eval at 1. rewrite (eval_is_canon_obs d Hwf Hn bs Hb).
  f_equal. now apply IH.
Qed.

Lemma c12_rows_explicit_catchment :
  forall (d : dataset), wf_dataset d = true -> (1 <=? nactions d) = true ->
  forall (members : list (list bool)), members_ok d members = true ->
  forall (run : string) (st0 : state) (order : summary (list vobs)),
    Permutation order (snd (save_set state (list vobs) (c_init d) (c_decompress d) (c_enc_of d) (c_vals_of d)
                                     run (map enc_bits members) st0)) ->
    as_sorted_array order
    = mk_row 0 (row_label (as_is_id run)) (o_vars (canon_obs d (fun _ => false)))
             (enc_bits (repeat false (nactions d))) as_is_note
      :: catchment_member_rows d run (List.length members) 1 members.
Proof.
  intros d Hwf Hn members Hm run st0 order P.
  rewrite (rows_explicit_set _ _ _ _ _ _ (c_canon d) (discharge_vals d Hwf Hn) (discharge_enc d Hn) (discharge_init d Hwf Hn)
                             run _ st0 order (members_canon d members Hm) P).
  rewrite map_length. rewrite (member_rows_catchment d Hwf Hn) by exact Hm. f_equal.
  unfold as_is_row, eval.
  assert (A : active_list d (c_init d) = repeat false (nactions d)).
  { unfold active_list, c_init, fresh. cbn [st_active]. generalize (nactions d) at 1 2. intros m. generalize 0.
    induction m as [|m IH]; intros s; cbn; [reflexivity | now rewrite IH]. }
  unfold c_enc_of. rewrite A.
  rewrite (eval_is_canon_obs d Hwf Hn) by apply repeat_length.
  f_equal. f_equal. apply canon_obs_ext. intros j _.
  clear. generalize (nactions d). intros m. revert j. induction m as [|m IH]; intros j; destruct j; cbn; auto.
Qed.
