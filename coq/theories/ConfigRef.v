(* C19 — reference instances used by the non-vacuity examples and the refutation witnesses of Properties/C19.v:
   the facts as astfacts19 extracts them from the repository at the time of writing, the parts of the parameter
   specification tables the interpreter reads, a two-action data set, and environments.  The check does NOT depend on these
   being current: the theorems are instantiated with the REGENERATED facts and tables in gen/obl_C19.v, and the
   correspondence evaluates the model with the regenerated ones.  No proofs in this file. *)
From Coq Require Import List ZArith QArith String Bool Arith Floats.
From Crem Require Import Base.Res Params Catchment Limits ConfigLoops Config ConfigSpec.
Import ListNotations.
Open Scope string_scope.
Open Scope list_scope.

Definition ref_facts : facts := mkFacts
  1 1 "." 1
  [MEmpty "Scenario.Name"; MLess "Scenario.RunNumber" 1; MGreater "Scenario.RunNumber" 9223372036854775807;
   MLess "Scenario.Reporting.ReportEveryNumberOfIterations" 1;
   MUnspecified "Annealer.Type"; MEmpty "Model.Type"]
  ["CSV"; "JSON"; "EXCEL"] ["Summary"; "Detail"] ["Kirkpatrick"; "Suppapitnarm"; "AveragedSuppapitnarm"]
  ["Sequential"; "Concurrent"] ["NativeLibrary"; "BareBones"] ["RawMessage"; "JSON"; "NameValuePair"]
  [("NullModel", MKNull); ("DumbModel", MKDumb); ("MultiObjectiveDumbModel", MKMoDumb); ("CatchmentModel", MKCatchment)]
  [("", AKNull); ("Kirkpatrick", AKFam FKirkpatrick); ("Suppapitnarm", AKFam FSuppapitnarm); ("AveragedSuppapitnarm", AKFam FAveraged)]
  ["StandardOutput"; "StandardError"; "Discarded"].

Definition max_int64 : Z := 9223372036854775807.
Definition big : Q := 1000000000000000000000 # 1.

Definition ref_tables : tables := mkTables
  (table_of [mkSpec "MaximumIterations" (KIntegerBetween 0 max_int64) (VInt 0) false])
  (table_of [mkSpec "DecisionVariable" KString (VString "ObjectiveValue") false;
             mkSpec "OptimisationDirection" (KOneOf ["Minimising"; "Maximising"]) (VString "Minimising") false])
  (table_of [mkSpec "StartingTemperature" (KDecimalBetween 0 big) (VFloat 0) false;
             mkSpec "CoolingFactor" (KDecimalBetween 0 1) (VFloat 1) false])
  (table_of [mkSpec "InitialReturnToBaseStep" (KIntegerBetween 0 max_int64) (VInt 20000) false;
             mkSpec "CheckNonDominance" KBoolean (VBool false) false])
  (table_of [mkSpec "StartingTemperature" (KDecimalBetween 0 big) (VFloat 0) false;
             mkSpec "CoolingFactor" (KDecimalBetween 0 1) (VFloat 1) false])
  (table_of [mkSpec "StartingTemperature" (KDecimalBetween 0 big) (VFloat 0) false;
             mkSpec "CoolingFactor" (KDecimalBetween 0 1) (VFloat 1) false])
  (table_of ([mkSpec "DataSourcePath" KReadableFile (VString "") false;
              mkSpec "YearsOfErosion" (KIntegerBetween 1 max_int64) (VInt 100) false]
             ++ map (fun kv => mkSpec (fst kv) (KDecimalBetween 0 big) VNil true) limit_keys))
  (table_of [mkSpec "InitialObjectiveValue" KDecimal (VFloat 1000) false])
  (table_of [mkSpec "InitialObjectiveOneValue" KDecimal (VFloat 1000) false]).

(* a two-action data set (that of Properties/C03.v, without a limit): a 1000-dollar gully action in unit 3, a 250-dollar hill-slope
   action in unit 5 *)
Definition ref_d0 : dataset :=
  mkData [3; 5]%Z
    [ mkAction 3 Gully [(OriginalGullySediment, 7 # 2); (ActionedGullySediment, 1 # 2); (ImplementationCostVar, 1000 # 1)];
      mkAction 5 HillSlope [(HillSlopeErosionOriginalAttribute, 11 # 3); (HillSlopeErosionActionedAttribute, 5 # 3);
                             (ImplementationCostVar, 250 # 1)] ]
    (fun _ _ => mkCtx (1 # 5) (9 # 1) (7 # 2) (11 # 3) 0 0) None.

(* the three tables behind "tables.csv": subcatchments 3 and 5, a gully in 3, a Gully row for 3 and a Hillslope row for 5 --
   and behind "dangling.csv": the same with a second gully in subcatchment 9, which is not listed *)
Definition ref_shape : data_shape :=
  mkShape [CNum 3; CNum 5] true [CNum 3] true [(CNum 3, "Gully"); (CNum 5, "Hillslope")] true.
Definition ref_shape_dangling : data_shape :=
  mkShape [CNum 3; CNum 5] true [CNum 3; CNum 9] true [(CNum 3, "Gully"); (CNum 5, "Hillslope")] true.

(* the world the witnesses live in: "data.csv" is readable and is [ref_d0]; "broken.csv" is readable, loads, but lacks a table;
   "notes.txt" is readable and is no data set; "tables.csv" / "dangling.csv" name three tables each (see above; "tables.csv" names
   "t/sub.csv", "t/gullies.csv", "t/actions.csv"); the output path "out" is usable, "file" is an existing file; the directory "nowhere"
   does not exist; a file name may be 255 bytes long; the working directory is "/work"; no Excel *)
Definition ref_env : env := mkEnv
  (fun p => existsb (String.eqb p) ["data.csv"; "broken.csv"; "notes.txt"; "tables.csv"; "dangling.csv"])
  (fun p => if p =? "data.csv" then DataOk ref_d0 else if p =? "broken.csv" then DataMalformed
            else if p =? "tables.csv" then DataTables ref_shape ref_d0
            else if p =? "dangling.csv" then DataTables ref_shape_dangling ref_d0 else DataUnloadable)
  (fun p => p =? "file") (fun p => negb (p =? "file"))
  (fun p => negb (p =? "nowhere/prof")) (fun p => negb (p =? "nowhere/prof"))
  false
  (fun _ => true)
  (fun f => (String.length f <=? 255)%nat)
  "/work"
  (fun p => if p =? "tables.csv" then ["tables.csv"; "t/sub.csv"; "t/gullies.csv"; "t/actions.csv"]
            else if p =? "data.csv" then ["data.csv"] else []).

(* a minimal accepted document: Scenario.Name, Scenario.OutputPath, Annealer.Type (+ parameters), Model.Type (+ parameters) *)
Definition doc (name : string) (annealer : string) (aparams : pmap) (model : string) (mparams : pmap) : config :=
  mkConfig true false (Value name) Absent Absent (Value "out") Absent Absent Absent Absent Absent Absent Absent Absent
           (Value annealer) Absent aparams (Value model) mparams.

Definition with_runs (z : Z) (c : config) : config :=
  mkConfig (c_decodes c) (c_unknown_keys c) (c_name c) (Value z) (c_max_concurrent c) (c_output_path c) (c_output_type c)
           (c_output_level c) (c_cpu_profile c) (c_report_every c) (c_check_invariant c) (c_logger_type c) (c_formatter c)
           (c_log_dests c) (c_annealer_type c) (c_event_notifier c) (c_annealer_params c) (c_model_type c) (c_model_params c).

Definition with_concurrent (z : Z) (c : config) : config :=
  mkConfig (c_decodes c) (c_unknown_keys c) (c_name c) (c_run_number c) (Value z) (c_output_path c) (c_output_type c)
           (c_output_level c) (c_cpu_profile c) (c_report_every c) (c_check_invariant c) (c_logger_type c) (c_formatter c)
           (c_log_dests c) (c_annealer_type c) (c_event_notifier c) (c_annealer_params c) (c_model_type c) (c_model_params c).

Definition with_profile (path : string) (c : config) : config :=
  mkConfig (c_decodes c) (c_unknown_keys c) (c_name c) (c_run_number c) (c_max_concurrent c) (c_output_path c) (c_output_type c)
           (c_output_level c) (Value path) (c_report_every c) (c_check_invariant c) (c_logger_type c) (c_formatter c)
           (c_log_dests c) (c_annealer_type c) (c_event_notifier c) (c_annealer_params c) (c_model_type c) (c_model_params c).

Definition with_output (path : string) (otype : field string) (c : config) : config :=
  mkConfig (c_decodes c) (c_unknown_keys c) (c_name c) (c_run_number c) (c_max_concurrent c) (Value path) otype
           (c_output_level c) (c_cpu_profile c) (c_report_every c) (c_check_invariant c) (c_logger_type c) (c_formatter c)
           (c_log_dests c) (c_annealer_type c) (c_event_notifier c) (c_annealer_params c) (c_model_type c) (c_model_params c).

Definition kp_catchment (mparams : pmap) : config :=
  doc "P" "Kirkpatrick" [("MaximumIterations", VInt 3); ("DecisionVariable", VString "SedimentProduction")]
      "CatchmentModel" mparams.

Definition supp_catchment (mparams : pmap) : config :=
  doc "P" "Suppapitnarm" [("MaximumIterations", VInt 2)] "CatchmentModel" mparams.

(* round-robin picks, and one iteration's worth of inputs *)
Definition rr (n : nat) : list nat := List.concat (repeat (seq 0 n) n).
Definition ref_choice : choice :=
  mkChoice (rr 2) (repeat (mkIt 1 true (rr 2) true None) 3).

(* load; interpret; run -- as one function, for the examples *)
Inductive verdict := VLoadErrors (es : list err) | VInterpretErrors (es : list err) | VPanic | VRun (r : run_result).

Definition pipeline (F : facts) (T : tables) (E : env) (c : config) (choices : nat -> choice) : verdict :=
  match load F c with
  | Crash => VPanic
  | Errors es => VLoadErrors es
  | Done l =>
      match interpret F T E l with
      | Crash => VPanic
      | Errors es => VInterpretErrors es
      | Done sc => VRun (run_model E sc choices 1%float 1%float)
      end
  end.
