(* EngineSized.v -- the engine model EXECUTED on scenarios whose number of management actions sits on and around the 64-bit
   word boundaries of the action encoding (the general statements are EngineEncoding.decode_encode /
   encoding_patch_reaches_its_set and EngineC14.route_equivalence_full; these are their instances, evaluated).

   Scenario with n actions: two per planning unit (gully and river bank restoration of units 100, 101, ...; a last unit
   with one action when n is odd).  For every target set that fills, empties or straddles the last word, from a state
   that differs from the target at the boundary actions, the three routes -- whole-table upload, per-subcatchment
   updates, encoding patch with the canonical text -- must end in the target set, serve [encode target] as the Encoding
   attribute and give the same answers to GET /model, GET /model/actions/active and GET /model/subcatchment/<id> for
   every unit.  Evaluated once, here, by the build (vm); Properties/C14.v states the Examples and refers to these. *)
From Coq Require Import List String Ascii ZArith NArith QArith Bool.
From Crem Require Import Base.Res Engine EngineProofs EngineC14 EngineCorr EngineEncoding.
Import ListNotations.
Open Scope list_scope.
Open Scope nat_scope.

Definition sz_type (i : nat) : string := if Nat.even i then "GullyRestoration"%string else "RiverBankRestoration"%string.
Definition sz_pu (k : nat) : Z := Z.of_nat (100 + k).
Definition sz_desc (n : nat) : desc (list bool) :=
  {| d_actions := map (fun i => (sz_pu (Nat.div i 2), sz_type i)) (seq 0 n);
     d_pus := map sz_pu (seq 0 (Nat.div (n + 1) 2));
     d_asis := []; d_valid := fun _ => true; d_errs := fun _ => ""%string; d_eval := fun b => b |}.
Definition sz_req (n : nat) (m : meth) (rt : route) (ct : ctype) (c : csv_view) (j : json_view) : request (list bool) :=
  {| rq_meth := m; rq_route := rt; rq_ctype := ct; rq_raw := "raw"%string; rq_toml := TomlOk "S"%string (MOk (sz_desc n));
     rq_csv := c; rq_json := j |}.
Definition sz_cell (b : bool) : cell := if b then CF (Fin (1 # 1)) "1"%string else CF (Fin (0 # 1)) "0"%string.
Definition sz_table (n : nat) (bits : list bool) : request (list bool) :=
  sz_req n MPut RActive CtCsv
    (CsvOk {| t_header := ["SubCatchment"%string; "GullyRestoration"%string; "RiverBankRestoration"%string];
              t_rows := map (fun k => [CF (Fin (inject_Z (sz_pu k))) "pu"%string; sz_cell (nth (2 * k) bits false); sz_cell (nth (2 * k + 1) bits false)])
                            (seq 0 (Nat.div (n + 1) 2)) |}) JsonErr.
Definition sz_state (b : bool) : aval := AStr (if b then "Active"%string else "Inactive"%string).
Definition sz_sub (n : nat) (bits : list bool) (k : nat) : request (list bool) :=
  (fun k => sz_req n MPut (RSubcatchment (Some (sz_pu k))) CtJson CsvErr
                  (JsonAttrs (("GullyRestoration"%string, sz_state (nth (2 * k) bits false))
                              :: (if Nat.ltb (2 * k + 1) n then [("RiverBankRestoration"%string, sz_state (nth (2 * k + 1) bits false))] else [])))) k.
(* the full sweep: one update for EVERY planning unit *)
Definition sz_subs (n : nat) (bits : list bool) : list (request (list bool)) :=
  map (sz_sub n bits) (seq 0 (Nat.div (n + 1) 2)).
(* from the state [from]: one update for every unit with an action that differs (and for unit 100 in any case) *)
Definition sz_subs_from (n : nat) (from bits : list bool) : list (request (list bool)) :=
  map (sz_sub n bits)
      (filter (fun k => Nat.eqb k 0 || negb (Bool.eqb (nth (2 * k) from false) (nth (2 * k) bits false))
                        || negb (Bool.eqb (nth (2 * k + 1) from false) (nth (2 * k + 1) bits false)))
              (seq 0 (Nat.div (n + 1) 2))).
Definition sz_patch (n : nat) (enc : string) : request (list bool) :=
  sz_req n MPatch RModel CtJson CsvErr (JsonAttrs [("Encoding"%string, AStr enc)]).
Definition sz_post (n : nat) : request (list bool) := sz_req n MPost RScenario CtToml CsvErr JsonErr.

Definition sz_set (n : nat) (p : nat -> bool) : list bool := map p (seq 0 n).
Definition sz_last_word (n i : nat) : bool := Nat.eqb (Nat.div i 64) (Nat.div (n - 1) 64).
(* (target set, its canonical text is computed by [encode]; the literal texts of the interesting ones are stated below) *)
Definition sz_targets (n : nat) : list (list bool) :=
  [ sz_set n (fun _ => true); sz_set n (fun _ => false); sz_set n (fun i => Nat.eqb i (n - 1));
    sz_set n (fun i => Nat.eqb i 62); sz_set n (fun i => Nat.eqb i 63); sz_set n (fun i => Nat.eqb i 64);
    sz_set n (fun i => Nat.leb 62 i && Nat.leb i 64); sz_set n (fun i => negb (sz_last_word n i)); sz_set n (sz_last_word n);
    sz_set n (fun i => negb (Nat.eqb i (n - 1))); sz_set n (fun i => Nat.eqb (Nat.modulo i 3) 1) ].
(* the state before: the target with the boundary actions flipped *)
Definition sz_before (n : nat) (t : list bool) : list bool :=
  map (fun i => let b := nth i t false in
                if Nat.eqb i 0 || Nat.eqb i 62 || Nat.eqb i 63 || Nat.eqb i 64 || Nat.eqb i (n - 1) || Nat.eqb i 127 then negb b else b)
      (seq 0 n).

Definition sz_reads (n : nat) : list (request (list bool)) :=
  get_req RModel :: get_req RActive :: map (fun k => get_req (RSubcatchment (Some (sz_pu k)))) (seq 0 (Nat.div (n + 1) 2)).
Definition sz_served (s : state (list bool)) (n : nat) : list (option (nat * list (Z * list string) * list (string * bool) * attrs)) :=
  map (fun r => match handle s r with
                | Ok (resp, _) => Some (rs_status resp,
                                        match rs_body resp with BActive l => l | _ => [] end,
                                        match rs_body resp with BSubcatchment l => l | _ => [] end,
                                        match rs_body resp with BModel sn => sn_attrs sn | _ => [] end)
                | Panic => None
                end) (sz_reads n).
Definition sz_served_eqb (n : nat) (s1 s2 : state (list bool)) : bool :=
  list_eqb (opt_eqb (fun x y =>
      Nat.eqb (fst (fst (fst x))) (fst (fst (fst y))) && amap_eqb (snd (fst (fst x))) (snd (fst (fst y)))
      && list_eqb (fun p q => String.eqb (fst p) (fst q) && Bool.eqb (snd p) (snd q)) (snd (fst x)) (snd (fst y))
      && attrs_eqb (snd x) (snd y)))
    (sz_served s1 n) (sz_served s2 n).

Definition sz_route_ok (n : nat) (s0 : state (list bool)) (route : list (request (list bool))) (t : list bool) : option (state (list bool)) :=
  match run s0 route with
  | Ok s => match st_model s, st_snap s with
            | Some m, Some sn =>
                if list_eqb Bool.eqb (m_bits m) t && list_eqb Bool.eqb (sn_bits sn) t
                   && aval_eqb (a_value (sn_attrs sn) "Encoding") (AStr (encode t))
                then Some s else None
            | _, _ => None
            end
  | Panic => None
  end.
Definition sz_triple_ok (n : nat) (t : list bool) : bool :=
  match run init_state [sz_post n; sz_table n (sz_before n t)] with
  | Ok s0 =>
      match sz_route_ok n s0 [sz_table n t] t, sz_route_ok n s0 (sz_subs_from n (sz_before n t) t) t,
            sz_route_ok n s0 [sz_patch n (encode t)] t with
      | Some s1, Some s2, Some s3 =>
          forallb wf_request (sz_table n t :: sz_patch n (encode t) :: sz_subs_from n (sz_before n t) t)
          && forallb pure_route (sz_table n t :: sz_patch n (encode t) :: sz_subs_from n (sz_before n t) t)
          && sz_served_eqb n s1 s2 && sz_served_eqb n s1 s3
      | _, _, _ => false
      end
  | Panic => false
  end.
(* the full sweep from the freshly posted scenario *)
Definition sz_sweep_ok (n : nat) (t : list bool) : bool :=
  match run init_state [sz_post n] with
  | Ok s0 =>
      match sz_route_ok n s0 [sz_table n t] t, sz_route_ok n s0 (sz_subs n t) t, sz_route_ok n s0 [sz_patch n (encode t)] t with
      | Some s1, Some s2, Some s3 => sz_served_eqb n s1 s2 && sz_served_eqb n s1 s3
      | _, _, _ => false
      end
  | Panic => false
  end.
Definition sz_all_triples_ok (n : nat) : bool :=
  forallb (sz_triple_ok n) (sz_targets n) && sz_sweep_ok n (sz_set n (fun i => negb (Nat.eqb (Nat.modulo i 3) 1))).


(* ------------------------------------------------------------------------------------------------ *)
(** * the evaluations                                                                                 *)

Lemma sz_ok_63 : sz_all_triples_ok 63 = true. Proof. vm_cast_no_check (eq_refl true). Qed.
Lemma sz_ok_64 : sz_all_triples_ok 64 = true. Proof. vm_cast_no_check (eq_refl true). Qed.
Lemma sz_ok_65 : sz_all_triples_ok 65 = true. Proof. vm_cast_no_check (eq_refl true). Qed.
Lemma sz_ok_128 : sz_all_triples_ok 128 = true. Proof. vm_cast_no_check (eq_refl true). Qed.

Lemma sz_example_63 :
  sz_all_triples_ok 63 = true
  /\ encode (sz_set 63 (fun _ => true)) = "7FFFFFFFFFFFFFFF"%string
  /\ encode (sz_set 63 (fun i => Nat.eqb i 62)) = "4000000000000000"%string
  /\ decode 63 (repeat false 63) "FFFFFFFFFFFFFFFF" = (true, sz_set 63 (fun _ => true)).
Proof. split; [exact sz_ok_63|]. vm_compute. repeat split; reflexivity. Qed.

Lemma sz_example_64 :
  sz_all_triples_ok 64 = true
  /\ encode (sz_set 64 (fun _ => true)) = "FFFFFFFFFFFFFFFF"%string
  /\ encode (sz_set 64 (fun i => Nat.eqb i 63)) = "8000000000000000"%string
  /\ decode 64 (repeat false 64) "FFFFFFFFFFFFFFFF" = (true, sz_set 64 (fun _ => true))
  /\ decode 64 (repeat false 64) "8000000000000000" = (true, sz_set 64 (fun i => Nat.eqb i 63))
  /\ fst (decode 64 (repeat false 64) "0:1") = false /\ fst (decode 64 (repeat false 64) "") = false.
Proof. split; [exact sz_ok_64|]. vm_compute. repeat split; reflexivity. Qed.

Lemma sz_example_65 :
  sz_all_triples_ok 65 = true
  /\ encode (sz_set 65 (fun _ => true)) = "FFFFFFFFFFFFFFFF:1"%string
  /\ encode (sz_set 65 (fun i => Nat.eqb i 64)) = "0:1"%string
  /\ encode (sz_set 65 (fun _ => false)) = "0:0"%string
  /\ decode 65 (repeat false 65) "0:FFFFFFFFFFFFFFFF" = (true, sz_set 65 (fun i => Nat.eqb i 64))
  /\ fst (decode 65 (repeat false 65) "1") = false /\ fst (decode 65 (repeat false 65) "0:0:0") = false.
Proof. split; [exact sz_ok_65|]. vm_compute. repeat split; reflexivity. Qed.

Lemma sz_example_128 :
  sz_all_triples_ok 128 = true
  /\ encode (sz_set 128 (fun _ => true)) = "FFFFFFFFFFFFFFFF:FFFFFFFFFFFFFFFF"%string
  /\ encode (sz_set 128 (fun i => Nat.eqb i 127)) = "0:8000000000000000"%string
  /\ encode (sz_set 128 (sz_last_word 128)) = "0:FFFFFFFFFFFFFFFF"%string
  /\ decode 128 (repeat false 128) "1:FFFFFFFFFFFFFFFF" = (true, sz_set 128 (fun i => Nat.eqb i 0 || sz_last_word 128 i))
  /\ fst (decode 128 (repeat false 128) "FFFFFFFFFFFFFFFF") = false.
Proof. split; [exact sz_ok_128|]. vm_compute. repeat split; reflexivity. Qed.

Lemma sz_example_around : forallb sz_all_triples_ok [1; 2; 3; 62; 66; 127; 129; 192] = true.
Proof. vm_cast_no_check (eq_refl true). Qed.

Lemma sz_example_patch_64 :
  exists s m, run init_state [sz_post 64] = Ok s /\ st_model s = Some m
    /\ List.length (sz_set 64 (fun i => Nat.eqb i 63)) = List.length (d_actions (m_desc m))
    /\ encoding_patch_of (sz_patch 64 "8000000000000000") (sz_set 64 (fun i => Nat.eqb i 63))
    /\ wf_request (sz_patch 64 "8000000000000000") = true.
Proof. do 2 eexists. vm_compute. repeat split; reflexivity. Qed.

(* the checker is not vacuous: a set that is NOT the target is rejected, and so is a route that stops short *)
Lemma sz_checker_rejects :
  (match run init_state [sz_post 64] with
   | Ok s0 => match sz_route_ok 64 s0 [sz_patch 64 "0"] (sz_set 64 (fun i => Nat.eqb i 63)) with Some _ => true | None => false end
   | Panic => true end) = false
  /\ (match run init_state [sz_post 64] with
      | Ok s0 => match sz_route_ok 64 s0 (firstn 31 (sz_subs 64 (sz_set 64 (fun _ => true)))) (sz_set 64 (fun _ => true)) with Some _ => true | None => false end
      | Panic => true end) = false.
Proof. vm_compute. split; reflexivity. Qed.
