(* Correspondence checker for C07: evaluated by vm_compute on gen/cases_C07_*.v.

   A case = the configuration of one Anneal() call of the real code (annealer kind, budget N, number of
   observers, where the explorer was scripted to panic and with what, the value of currentIteration and of
   the temperature before the call, the cooling factor) + what was observed: the global log (who saw /
   which call, event code, iteration number, temperature bit pattern), how Anneal() ended, the value of
   currentIteration and of the temperature afterwards, and the number of attribute anomalies the recording
   observer counted (must be 0).

   All numbers are Z (fast to parse); floats are exchanged as their 64-bit IEEE patterns and compared after
   decoding to [spec_float] ([Prim2SF] of the model's primitive float on one side, [sf_of_bits] of the
   observed pattern on the other; every NaN is the same NaN). *)
From Coq Require Import List ZArith Bool Floats.
From Crem Require Import AnnealLoop.
Import ListNotations.
Open Scope Z_scope.

Definition sf_of_bits (z : Z) : spec_float :=
  let s := Z.testbit z 63 in
  let ef := (z / 4503599627370496) mod 2048 in
  let fr := z mod 4503599627370496 in
  if ef =? 0 then (if fr =? 0 then S754_zero s else S754_finite s (Z.to_pos fr) (-1074))
  else if ef =? 2047 then (if fr =? 0 then S754_infinity s else S754_nan)
  else S754_finite s (Z.to_pos (fr + 4503599627370496)) (ef - 1075).

Definition fl_of_bits (z : Z) : float := SF2Prim (sf_of_bits z).

Definition sf_same (x y : spec_float) : bool :=
  match x, y with
  | S754_zero s, S754_zero s' => Bool.eqb s s'
  | S754_infinity s, S754_infinity s' => Bool.eqb s s'
  | S754_nan, S754_nan => true
  | S754_finite s m e, S754_finite s' m' e' => Bool.eqb s s' && Pos.eqb m m' && Z.eqb e e'
  | _, _ => false
  end.

Definition event_code (e : event) : Z * Z :=
  match e with
  | ExplorerInit => (0, 0)
  | ExplorerTry k => (1, Z.of_nat k)
  | ExplorerCool k => (2, Z.of_nat k)
  | ExplorerTearDown => (3, 0)
  | LogError => (4, 0)
  | LogInfo => (5, 0)
  | EvStart => (6, 0)
  | EvStartIter k => (7, Z.of_nat k)
  | EvCooling k => (8, Z.of_nat k)
  | EvFinishIter k => (9, Z.of_nat k)
  | EvFinish k => (10, Z.of_nat k)
  end.

Definition payload_of_code (z : Z) : payload :=
  if z =? 1 then PayloadError else if z =? 2 then PayloadOther else PayloadNil.

Definition step_of_codes (where_ pay who : Z) : step_outcome :=
  if where_ =? 1 then PanicInTry (payload_of_code pay)
  else if where_ =? 2 then PanicInCoolBefore (payload_of_code pay)
  else if where_ =? 3 then PanicInCoolAfter (payload_of_code pay)
  else if where_ =? 4 then PanicInStartObserver (Z.to_nat who) (payload_of_code pay)
  else if where_ =? 5 then PanicInFinishObserver (Z.to_nat who) (payload_of_code pay)
  else StepOk.

(* where 6 / 7: observer `who` panics on the start / finish event; td: TearDown panics *)
Definition faults_of_codes (init where_ pay who td : Z) : faults :=
  mkFaults (if init =? 0 then InitOk else InitPanics (payload_of_code init))
           (if where_ =? 6 then Some (Z.to_nat who, payload_of_code pay) else None)
           (if where_ =? 7 then Some (Z.to_nat who, payload_of_code pay) else None)
           (if td =? 0 then None else Some (payload_of_code td)).

Definition outcome_code (o : outcome) : Z :=
  match o with
  | Finished | Swallowed _ => 0           (* Anneal() returned *)
  | Repanicked _ PayloadError => 1        (* re-panicked with the injected error or an error wrapping it
                                             (whether it is wrapped is not compared: not part of the property) *)
  | Repanicked _ PayloadOther => 2        (* re-panicked with the very value *)
  | Repanicked _ PayloadNil => 4          (* re-panicked with an error that is none of the injected values *)
  | OutOfFuel => 99
  end.
(* which panic's value comes out when TearDown panics on top of another fault is checked by the harness' classification:
   codes 1 / 2 are only reported for the value of the panic that the model says is in flight (TearDown's) *)

Record case := mkCase {
  c_ann : Z;        (* 0 SimpleAnnealer, 1 ElapsedTimeTrackingAnnealer *)
  c_N : Z; c_m : Z;
  c_init : Z;       (* 0 ok, 1/2/3 Initialise panics with error / other / nil *)
                    (* c_where: 0 none, 1 TryRandomChange, 2/3 CoolDown before/after the multiplication, 4/5 observer c_who on
                       StartedIteration/FinishedIteration c_k, 6/7 observer c_who on the start / finish event *)
  c_k : Z; c_where : Z; c_pay : Z;
  c_who : Z;        (* the observer that panics (where 4..7) *)
  c_td : Z;         (* 0: TearDown returns; 1/2/3: it panics with error / other / nil *)
  c_c0 : Z; c_T0 : Z; c_a : Z;
  c_temps : list Z; (* the distinct temperature bit patterns of the log, in order of first appearance *)
  c_log : list Z;   (* flattened quadruples: who, event code, k, index into c_temps;
                       who = 0: nobody (a call), i+1: observer i, -m: observers 0..m-1 one after the other
                       (lossless run-length re-encoding done by tools/props/C07.py to keep the file small) *)
  c_out : Z; c_fin : Z; c_ft : Z; c_anom : Z }.

Definition model_run (c : case) : run :=
  anneal_gen (if c_ann c =? 0 then SimpleAnnealer else ElapsedTimeTrackingAnnealer)
             (faults_of_codes (c_init c) (c_where c) (c_pay c) (c_who c) (c_td c))
             (Z.to_nat (c_c0 c)) (Z.to_nat (c_N c))
             (panic_at (Z.to_nat (c_k c)) (step_of_codes (c_where c) (c_pay c) (c_who c)))
             (fl_of_bits (c_T0 c)) (fl_of_bits (c_a c)).

Definition entry := (Z * Z * Z * spec_float)%type.

(* Compared: calls on the explorer and the four annealing-state events.  NOT compared (the property does not constrain
   them, the harness does not record them): log lines and the relayed "Cooling" note. *)
Definition is_compared (x : stamped) : bool :=
  match fst x with
  | LogError | LogInfo | EvCooling _ => false
  | _ => true
  end.

Definition model_log (c : case) : list entry :=
  map (fun d : option nat * stamped =>
         let '(code, k) := event_code (fst (snd d)) in
         (match fst d with None => 0 | Some i => Z.of_nat (S i) end, code, k, Prim2SF (snd (snd d))))
      (let r := model_run c in
       let tr := filter is_compared (trace r) in
       match cut r with
       | None => deliveries (Z.to_nat (c_m c)) tr
       | Some j => deliveries_cut (Z.to_nat (c_m c)) j tr      (* = run_deliveries on the compared events *)
       end).

Definition expand (w code k : Z) (t : spec_float) : list entry :=
  if w <? 0 then map (fun i => (Z.of_nat (S i), code, k, t)) (seq 0 (Z.to_nat (- w))) else [(w, code, k, t)].

Fixpoint observed_log (temps : list Z) (l : list Z) : option (list entry) :=
  match l with
  | [] => Some []
  | w :: code :: k :: ti :: rest =>
      match observed_log temps rest, nth_error temps (Z.to_nat ti) with
      | Some es, Some bits => Some (expand w code k (sf_of_bits bits) ++ es)
      | _, _ => None
      end
  | _ => None
  end.

Definition entry_eqb (x y : entry) : bool :=
  let '(w, c, k, t) := x in let '(w', c', k', t') := y in
  (w =? w') && (c =? c') && (k =? k') && sf_same t t'.

Fixpoint list_eqb {A} (eqb : A -> A -> bool) (xs ys : list A) : bool :=
  match xs, ys with
  | [], [] => true
  | x :: xs', y :: ys' => eqb x y && list_eqb eqb xs' ys'
  | _, _ => false
  end.

Definition check_case (c : case) : bool :=
  let r := model_run c in
  match observed_log (c_temps c) (c_log c) with
  | None => false
  | Some obs =>
      list_eqb entry_eqb (model_log c) obs
      && (outcome_code (result r) =? c_out c)
      && (Z.of_nat (final_iteration r) =? c_fin c)
      && sf_same (Prim2SF (final_temperature r)) (sf_of_bits (c_ft c))
      && (c_anom c =? 0)
  end.

Fixpoint mismatches_from (i : nat) (cs : list case) : list nat :=
  match cs with
  | [] => []
  | c :: cs' => if check_case c then mismatches_from (S i) cs' else i :: mismatches_from (S i) cs'
  end.

Definition mismatches := mismatches_from 0.
