(* EngineCorr.v -- correspondence checker for C14 / C15, evaluated by vm_compute on gen/cases_C14_*.v, gen/cases_C15_*.v.

   A case is one request SEQUENCE run against a fresh real Mux: per step the abstract request (parse-level views computed
   by the harness with the same library calls the handlers use), the projected response the implementation gave (or
   that it panicked), and the projected content of the readable resources fetched after the step.  The checker runs
   [Engine.handle] from [init_state] over the same requests and compares.

   Valuation: V := list bool and d_eval := id.  The harness does not trust the engine for the valuation: it compares the
   decision-variable section the engine served with the valuation of a FRESH model instance put into the served action
   set, and reports the result as [vars_ok]; the checker requires vars_ok = true and served action set = model's. *)
From Coq Require Import List String Ascii ZArith NArith QArith Bool.
From Crem Require Import Base.Res Engine EngineAdmin.
Import ListNotations.
Open Scope string_scope.
Open Scope list_scope.
Open Scope nat_scope.

Definition CV := list bool.

(* ---------- observed (projected) responses ---------- *)
Inductive obody :=
| OErr                                  (* well-formed JSON {Type:"ERROR", Message:<string>, Time:<string>} *)
| OSuccess (msg : string)               (* well-formed JSON {Type:"SUCCESS", Message: msg, Time:<string>} *)
| OText (t : text)                      (* the exact bytes *)
| OModel (id : string) (active : list (Z * list string)) (vars_ok : bool) (a : attrs)
| OActive (l : list (Z * list string))
| OApplicable (l : list (Z * list string))
| OSubcatchment (l : list (string * bool))
| OSolution (id : string) (active : list (Z * list string)) (vars_ok : bool)
            (enc summary : option string) (pfm valid : option bool)
| OStatus (name version status : string) (* well-formed JSON {ServiceName, Version, Status, Time}, all strings *)
| OOther (what : string).               (* anything the projection does not recognise *)
Inductive oresp := OPanic | OResp (status : nat) (ct : ctype) (b : obody).

Record obs := {
  o_scenario : oresp; o_solutions : oresp; o_model : oresp; o_active : oresp; o_applicable : oresp;
  o_subs : list (option Z * oresp) }.
Record step := { sp_req : request CV; sp_resp : oresp; sp_obs : option obs }.   (* None: same as after the previous step *)
Record case := { c_steps : list step }.

(* ---------- equality tests ---------- *)
Fixpoint list_eqb {A} (e : A -> A -> bool) (x y : list A) : bool :=
  match x, y with
  | [], [] => true
  | a :: x', b :: y' => e a b && list_eqb e x' y'
  | _, _ => false
  end.
Definition aval_eqb (x y : aval) : bool :=
  match x, y with
  | ANull, ANull => true
  | ABool a, ABool b => Bool.eqb a b
  | AStr a, AStr b => String.eqb a b
  | AOther a, AOther b => String.eqb a b
  | _, _ => false
  end.
Definition attrs_eqb : attrs -> attrs -> bool :=
  list_eqb (fun p q => String.eqb (fst p) (fst q) && aval_eqb (snd p) (snd q)).
Definition ctype_eqb (x y : ctype) : bool :=
  match x, y with CtToml, CtToml | CtCsv, CtCsv | CtJson, CtJson | CtOther, CtOther => true | _, _ => false end.
Definition opt_eqb {A} (e : A -> A -> bool) (x y : option A) : bool :=
  match x, y with None, None => true | Some a, Some b => e a b | _, _ => false end.

(* association lists keyed by planning unit: compared after sorting by key *)
Fixpoint insert_z {A} (k : Z) (v : A) (l : list (Z * A)) : list (Z * A) :=
  match l with
  | [] => [(k, v)]
  | (k', v') :: l' => if (k <=? k')%Z then (k, v) :: l else (k', v') :: insert_z k v l'
  end.
Definition sort_z {A} (l : list (Z * A)) : list (Z * A) := fold_right (fun p acc => insert_z (fst p) (snd p) acc) [] l.
Definition amap_eqb (x y : list (Z * list string)) : bool :=
  list_eqb (fun p q => Z.eqb (fst p) (fst q) && list_eqb String.eqb (snd p) (snd q)) (sort_z x) (sort_z y).

(* the action set of a snapshot as the map the engine serves *)
Definition bits_map (d : desc CV) (bits : list bool) : list (Z * list string) :=
  map (fun pu => (pu, types_where true pu (d_actions d) bits)) (active_pus (d_actions d) bits []).

Definition body_matches (m : rbody CV) (o : obody) : bool :=
  match m, o with
  | BErr, OErr => true
  | BSuccess a, OSuccess b => String.eqb a b
  | BText a, OText b => String.eqb a b
  | BModel sn, OModel id act ok a =>
      String.eqb (sn_id sn) id && amap_eqb (active_map sn) act && ok && attrs_eqb (sn_attrs sn) a
  | BActive a, OActive b => amap_eqb a b
  | BApplicable a, OApplicable b => amap_eqb a b
  | BSubcatchment a, OSubcatchment b => list_eqb (fun p q => String.eqb (fst p) (fst q) && Bool.eqb (snd p) (snd q)) a b
  | BStatus n v st, OStatus on ov ost => String.eqb n on && String.eqb v ov && String.eqb st ost
  | BSolution id bits _ None, OSolution oid act ok _ _ pfm _ =>
      (* the As-Is entry: only its ParetoFrontMember = false is set explicitly *)
      String.eqb id oid && ok && opt_eqb Bool.eqb pfm (Some false)
  | BSolution id bits _ (Some (enc, summary)), OSolution oid act ok oenc osum pfm valid =>
      String.eqb id oid && ok
      && opt_eqb String.eqb oenc (Some enc) && opt_eqb String.eqb osum (Some summary)
      && opt_eqb Bool.eqb pfm (Some true) && opt_eqb Bool.eqb valid (Some true)
  | _, _ => false
  end.

(* BSolution does not carry the descriptor; the action map of a pooled solution is compared by the caller *)
Definition solution_map_matches (s : state CV) (m : rbody CV) (o : obody) : bool :=
  match m, o, st_model s with
  | BSolution _ bits _ _, OSolution _ act _ _ _ _ _, Some md => amap_eqb (bits_map (m_desc md) bits) act
  | BSolution _ _ _ _, _, _ => false
  | _, _, _ => true
  end.

Definition resp_matches (s : state CV) (m : outcome CV) (o : oresp) : bool :=
  match m, o with
  | Panic, OPanic => true
  | Ok (r, _), OResp st ct b =>
      Nat.eqb (rs_status r) st && ctype_eqb (rs_ctype r) ct && body_matches (rs_body r) b
      && solution_map_matches s (rs_body r) b
  | _, _ => false
  end.

(* ---------- the six read-only resources ---------- *)
Definition get_req (rt : route) : request CV :=
  {| rq_meth := MGet; rq_route := rt; rq_ctype := CtOther; rq_raw := ""; rq_toml := TomlErr; rq_csv := CsvErr; rq_json := JsonErr |}.

Definition state_unchanged_by (s : state CV) (o : outcome CV) : bool :=
  match o with
  | Ok (_, s') =>
      (* the reads below never touch the state; checked structurally on the parts that have decidable equality *)
      opt_eqb String.eqb (st_text s) (st_text s') && opt_eqb String.eqb (st_name s) (st_name s')
      && opt_eqb String.eqb (st_soltext s) (st_soltext s')
  | Panic => true
  end.

Definition obs_matches (s : state CV) (o : obs) : bool :=
  let chk rt ob := let out := handle s (get_req rt) in resp_matches s out ob && state_unchanged_by s out in
  chk RScenario (o_scenario o) && chk RSolutions (o_solutions o) && chk RModel (o_model o)
  && chk RActive (o_active o) && chk RApplicable (o_applicable o)
  && forallb (fun p => chk (RSubcatchment (fst p)) (snd p)) (o_subs o).

(* ---------- running a case ---------- *)
(* returns None when every step matched, Some i = index of the first step that did not *)
Fixpoint check_steps (s : state CV) (last : option obs) (steps : list step) (i : nat) : option nat :=
  match steps with
  | [] => None
  | st :: rest =>
      let out := handle s (sp_req st) in
      if negb (csv_wf (rq_csv (sp_req st))) && negb (match rq_csv (sp_req st) with CsvLibPanic => true | _ => false end) then Some i else
      if negb (resp_matches s out (sp_resp st)) then Some i else
      match out with
      | Panic => match rest with [] => None | _ => Some i end     (* the harness abandons a Mux that panicked *)
      | Ok (_, s') =>
          let o := match sp_obs st with Some o => Some o | None => last end in
          match o with
          | None => Some i
          | Some ob => if obs_matches s' ob then check_steps s' o rest (S i) else Some (1000 + i)
          end
      end
  end.

Definition first_bad (c : case) : option nat := check_steps init_state None (c_steps c) 0.
Definition check_case (c : case) : bool := match first_bad c with None => true | Some _ => false end.

Fixpoint mismatches_from (i : nat) (cs : list case) : list nat :=
  match cs with
  | [] => []
  | c :: cs' => if check_case c then mismatches_from (S i) cs' else i :: mismatches_from (S i) cs'
  end.
Definition mismatches := mismatches_from 0.

(* diagnostics: (case index, step index; +1000 when the response matched but the resources after it did not) *)
Fixpoint diag_from (i : nat) (cs : list case) : list (nat * nat) :=
  match cs with
  | [] => []
  | c :: cs' => match first_bad c with None => diag_from (S i) cs' | Some k => (i, k) :: diag_from (S i) cs' end
  end.
Definition diag := diag_from 0.

(* ---------- helpers for the generated files ---------- *)
(* run-length encoded lists: the harness sends large bodies made of thousands of identical filler rows / entries; the
   generated case carries (count, element) pairs and the list is rebuilt here, inside vm_compute *)
Definition rle {A : Type} (l : list (N * A)) : list A :=
  flat_map (fun p => N.iter (fst p) (cons (snd p)) []) l.
Fixpoint lookup_bits (l : list (list bool * string)) (b : list bool) : option string :=
  match l with [] => None | (x, tok) :: l' => if list_eqb Bool.eqb x b then Some tok else lookup_bits l' b end.
(* a scenario descriptor: [invalid] lists the action sets (among those evaluated on fresh instances in this run) that
   are invalid, each with the token standing for its validation error text *)
Definition mkdesc (acts : list (Z * string)) (pus : list Z) (asis : list (string * Q)) (invalid : list (list bool * string)) : desc CV :=
  {| d_actions := acts; d_pus := pus; d_asis := asis;
     d_valid := fun b => match lookup_bits invalid b with None => true | Some _ => false end;
     d_errs := fun b => match lookup_bits invalid b with None => "" | Some tok => tok end;
     d_eval := fun b => b |}.

(* float -> planning unit id conversion, checked against the running binary *)
Definition conv_ok (f : fval) (id : Z) : bool := Z.eqb (pu_of_float f) id.

Fixpoint conv_mismatches_from (i : nat) (l : list (fval * Z)) : list nat :=
  match l with
  | [] => []
  | (f, id) :: l' => if conv_ok f id then conv_mismatches_from (S i) l' else i :: conv_mismatches_from (S i) l'
  end.
Definition conv_mismatches := conv_mismatches_from 0.

(* ---------- server-level sequences: API + admin multiplexer ---------- *)
Record sstep := { ss_req : sreq CV; ss_resp : oresp; ss_signalled : bool }.   (* did the done channel receive a value *)
Record scase := { sc_name : string; sc_version : string; sc_status : string; sc_steps : list sstep }.

Fixpoint check_ssteps (sv : server CV) (steps : list sstep) (i : nat) : option nat :=
  match steps with
  | [] => None
  | st :: rest =>
      match server_handle sv (ss_req st) with
      | Panic => match ss_resp st, rest with OPanic, [] => None | _, _ => Some i end
      | Ok (r, sv') =>
          if resp_matches (sv_engine sv) (Ok (r, sv_engine sv')) (ss_resp st)
             && Bool.eqb (ss_signalled st) (negb (Nat.eqb (sv_shutdowns sv') (sv_shutdowns sv)))
          then check_ssteps sv' rest (S i) else Some i
      end
  end.
Definition scase_ok (c : scase) : bool :=
  match check_ssteps (init_server (sc_name c) (sc_version c) (sc_status c)) (sc_steps c) 0 with None => true | Some _ => false end.
Fixpoint smismatches_from (i : nat) (cs : list scase) : list nat :=
  match cs with [] => [] | c :: cs' => if scase_ok c then smismatches_from (S i) cs' else i :: smismatches_from (S i) cs' end.
Definition smismatches := smismatches_from 0.
