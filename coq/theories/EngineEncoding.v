(* EngineEncoding.v -- the encoding route of the engine model, for EVERY number of management actions.

   Engine.v models pkg/archive.BooleanArchive's Encoding / Decode abstractly ([encode], [decode]: the action set as a
   bit list, 64 actions per word, words as upper-case hexadecimal joined by ':'; the bits of the last word beyond the
   action count are dropped by construction).  Here:

     decode_encode                     decode (length bs) cur (encode bs) = (true, bs)   for every non-empty bs:
                                       an encoding produced for a set is accepted and denotes exactly that set,
                                       whether the last word is partly used (63, 65 actions), full (64, 128) or a
                                       single bit (65, 129), and whatever the archive held before;
     bits_to_words_is_words_of_bits    the words of [encode] are the words C09's model of the archive builds with
                                       New + SetValue (BoolArchive.words_of_bits, BoolArchiveProofs.build_is_of_bits);
     encoding_patch_reaches_its_set    in every state satisfying the engine invariant with a loaded scenario,
                                       PATCH /model [{Encoding: encode bits}] is answered 200 and leaves the model
                                       (and the snapshot served by the reads) in exactly the action set [bits].

   With EngineC14.route_equivalence_full (same set by any route => same representation) this is the encoding leg of the
   route triple at every action count. *)
From Coq Require Import List String Ascii ZArith NArith Bool Lia.
From Crem Require Import Base.Res Engine EngineProofs EngineC14.
From Crem Require BoolArchive BoolArchiveProofs.
Import ListNotations.
Open Scope list_scope.

Module BA := BoolArchive.
Module BAP := BoolArchiveProofs.

(* ------------------------------------------------------------------------------------------------ *)
(** * strings                                                                                        *)

Lemma sapp_nil_r : forall s : string, String.append s EmptyString = s.
Proof. induction s as [|c s IH]; cbn [String.append]; [reflexivity|now rewrite IH]. Qed.

Lemma sapp_assoc : forall a b c : string, String.append (String.append a b) c = String.append a (String.append b c).
Proof. induction a as [|x a IH]; intros b c; cbn [String.append]; [reflexivity|now rewrite IH]. Qed.

Definition colon : ascii := ":"%char.
Definition no_colon (s : string) : bool := all_chars (fun c => negb (Ascii.eqb c colon)) s.

Lemma split_on_no_colon : forall s cur, no_colon s = true -> split_on colon s cur = [String.append cur s].
Proof.
  induction s as [|c s IH]; intros cur H; cbn [split_on].
  - now rewrite sapp_nil_r.
  - unfold no_colon in H. cbn [all_chars] in H. apply andb_true_iff in H. destruct H as [Hc Hs].
    apply negb_true_iff in Hc. rewrite Hc. rewrite (IH _ Hs), sapp_assoc. reflexivity.
Qed.

Lemma split_on_app_colon : forall a rest cur, no_colon a = true ->
  split_on colon (String.append a (String colon rest)) cur = String.append cur a :: split_on colon rest EmptyString.
Proof.
  induction a as [|c a IH]; intros rest cur H; cbn [String.append split_on].
  - rewrite Ascii.eqb_refl, sapp_nil_r. reflexivity.
  - unfold no_colon in H. cbn [all_chars] in H. apply andb_true_iff in H. destruct H as [Hc Hs].
    apply negb_true_iff in Hc. rewrite Hc. rewrite (IH _ _ Hs), sapp_assoc. reflexivity.
Qed.

Lemma split_join : forall l : list string, l <> [] -> forallb no_colon l = true -> split_colon (join_colon l) = l.
Proof.
  induction l as [|x l IH]; intros Hne H; [contradiction|].
  cbn [forallb] in H. apply andb_true_iff in H. destruct H as [Hx Hl].
  destruct l as [|y l'].
  - cbn [join_colon]. unfold split_colon. fold colon. now rewrite (split_on_no_colon _ _ Hx).
  - change (join_colon (x :: y :: l')) with (String.append x (String colon (join_colon (y :: l')))).
    unfold split_colon. fold colon. rewrite (split_on_app_colon _ _ _ Hx). cbn [String.append].
    f_equal. apply IH; [discriminate|exact Hl].
Qed.

(* ------------------------------------------------------------------------------------------------ *)
(** * one word: %X and strconv.ParseUint(_, 16, 64)                                                  *)

Local Open Scope N_scope.

Lemma lt16_cases : forall d, d < 16 ->
  d = 0 \/ d = 1 \/ d = 2 \/ d = 3 \/ d = 4 \/ d = 5 \/ d = 6 \/ d = 7 \/ d = 8 \/ d = 9 \/ d = 10 \/ d = 11
  \/ d = 12 \/ d = 13 \/ d = 14 \/ d = 15.
Proof. intros d H. lia. Qed.

Lemma hexchar_not_colon : forall d, d < 16 -> Ascii.eqb (hexchar d) colon = false.
Proof. intros d H. pose proof (lt16_cases d H) as E. repeat (destruct E as [E|E]; [subst d; reflexivity|]). subst d; reflexivity. Qed.

Lemma hexval_hexchar : forall d, d < 16 -> hexval (hexchar d) = Some d.
Proof. intros d H. pose proof (lt16_cases d H) as E. repeat (destruct E as [E|E]; [subst d; reflexivity|]). subst d; reflexivity. Qed.

Lemma mod16_lt : forall n, n mod 16 < 16.
Proof. intro n. apply N.mod_lt. discriminate. Qed.

Lemma hex_aux_no_colon : forall f n acc, no_colon acc = true -> no_colon (hex_aux f n acc) = true.
Proof.
  induction f as [|f IH]; intros n acc H; cbn [hex_aux]; [exact H|].
  destruct (n =? 0); [exact H|]. apply IH. unfold no_colon in *. cbn [all_chars].
  rewrite (hexchar_not_colon _ (mod16_lt n)). exact H.
Qed.

Lemma to_hex_no_colon : forall n, no_colon (to_hex n) = true.
Proof. intro n. unfold to_hex. destruct (n =? 0); [reflexivity|]. apply hex_aux_no_colon. reflexivity. Qed.

Lemma hex_aux_nonempty : forall f n acc, acc <> EmptyString -> hex_aux f n acc <> EmptyString.
Proof.
  induction f as [|f IH]; intros n acc H; cbn [hex_aux]; [exact H|].
  destruct (n =? 0); [exact H|]. apply IH. discriminate.
Qed.

Lemma hex_aux_S_nonempty : forall f n, n <> 0 -> hex_aux (S f) n EmptyString <> EmptyString.
Proof.
  intros f n H. cbn [hex_aux]. apply N.eqb_neq in H. rewrite H. apply hex_aux_nonempty. discriminate.
Qed.

Lemma parse_hex_aux_hex_aux : forall f n acc, n < 16 ^ N.of_nat f -> n < two64 ->
  parse_hex_aux (hex_aux f n acc) 0 = parse_hex_aux acc n.
Proof.
  induction f as [|f IH]; intros n acc Hf H64.
  - cbn [hex_aux]. change (16 ^ N.of_nat 0) with 1 in Hf. assert (n = 0) by lia. subst n. reflexivity.
  - cbn [hex_aux]. destruct (n =? 0) eqn:E0.
    + apply N.eqb_eq in E0. subst n. reflexivity.
    + apply N.eqb_neq in E0.
      rewrite Nat2N.inj_succ, N.pow_succ_r' in Hf.
      assert (Hd : n / 16 < 16 ^ N.of_nat f) by (apply N.div_lt_upper_bound; [discriminate|exact Hf]).
      assert (Hle : n / 16 <= n) by (apply N.div_le_upper_bound; [discriminate|lia]).
      rewrite IH by (try exact Hd; lia).
      cbn [parse_hex_aux]. rewrite (hexval_hexchar _ (mod16_lt n)).
      assert (En : n / 16 * 16 + n mod 16 = n) by (rewrite N.mul_comm; symmetry; apply N.div_mod; discriminate).
      rewrite En. apply N.ltb_lt in H64. rewrite H64. reflexivity.
Qed.

Lemma parse_to_hex : forall n, n < two64 -> parse_hex64 (to_hex n) = Some n.
Proof.
  intros n H. unfold to_hex. destruct (n =? 0) eqn:E0.
  - apply N.eqb_eq in E0. subst n. reflexivity.
  - assert (Hne : hex_aux 16 n EmptyString <> EmptyString).
    { apply (hex_aux_S_nonempty 15). now apply N.eqb_neq. }
    unfold parse_hex64. destruct (hex_aux 16 n EmptyString) as [|c s] eqn:Es; [contradiction|].
    rewrite <- Es. rewrite parse_hex_aux_hex_aux; [reflexivity| |exact H].
    change (16 ^ N.of_nat 16) with two64. exact H.
Qed.

Lemma parse_all_to_hex : forall ws, Forall (fun w => w < two64) ws -> parse_all (map to_hex ws) = Some ws.
Proof.
  induction ws as [|w ws IH]; intro H; cbn [map parse_all]; [reflexivity|].
  inversion H as [|? ? Hw Hws]; subst. rewrite (parse_to_hex _ Hw), (IH Hws). reflexivity.
Qed.

(* ------------------------------------------------------------------------------------------------ *)
(** * the words: Engine's packing is C09's                                                           *)

Lemma word_of_bits_N : forall bs k, word_of_bits bs k = BA.N_of_bits bs * 2 ^ k.
Proof.
  induction bs as [|b bs IH]; intro k; cbn [word_of_bits BA.N_of_bits]; [reflexivity|].
  rewrite IH, N.shiftl_1_l, N.pow_add_r, N.pow_1_r. destruct b; cbn [N.b2n]; ring.
Qed.

Local Close Scope N_scope.
Local Open Scope nat_scope.

Lemma skipn_plus : forall {A} b a (l : list A), skipn (b + a) l = skipn a (skipn b l).
Proof.
  intros A b. induction b as [|b IH]; intros a l; [reflexivity|].
  destruct l as [|x l]; cbn [Nat.add skipn]; [destruct a; reflexivity|apply IH].
Qed.

Lemma words_of_bits_map : forall f bs,
  Engine.words_of_bits f bs = map (fun k => BA.N_of_bits (firstn 64 (skipn (64 * k) bs))) (seq 0 f).
Proof.
  induction f as [|f IH]; intro bs; [reflexivity|].
  cbn [Engine.words_of_bits]. rewrite word_of_bits_N, N.pow_0_r, N.mul_1_r, IH.
  cbn [seq map]. rewrite Nat.mul_0_r. cbn [skipn]. f_equal.
  rewrite <- seq_shift, map_map. apply map_ext. intro k.
  replace (64 * S k) with (64 + 64 * k) by lia. now rewrite skipn_plus.
Qed.

Lemma bits_to_words_is_words_of_bits : forall bs, bits_to_words bs = BA.words_of_bits bs.
Proof. intro bs. unfold bits_to_words, BA.words_of_bits. apply words_of_bits_map. Qed.

Lemma words_to_bits_words : forall bs, words_to_bits (List.length bs) (bits_to_words bs) = bs.
Proof.
  intro bs. rewrite bits_to_words_is_words_of_bits.
  apply (nth_ext _ _ false false); [apply words_to_bits_length|].
  intros j Hj. rewrite words_to_bits_length in Hj. unfold words_to_bits.
  rewrite (BAP.nth_map_seq _ _ _ _ Hj). apply BAP.bit_at_words_of_bits.
Qed.

Lemma bits_to_words_lt64 : forall bs, Forall (fun w => (w < two64)%N) (bits_to_words bs).
Proof.
  intro bs. rewrite bits_to_words_is_words_of_bits. destruct (BAP.of_bits_wf bs) as (_ & H & _). exact H.
Qed.

Lemma bits_to_words_length : forall bs, List.length (bits_to_words bs) = archive_len (List.length bs).
Proof. intro bs. unfold bits_to_words. apply words_of_bits_length. Qed.

(* ------------------------------------------------------------------------------------------------ *)
(** * Decode after Encoding, every action count                                                      *)

Theorem decode_encode : forall (bs cur : list bool), 1 <= List.length bs ->
  decode (List.length bs) cur (encode bs) = (true, bs).
Proof.
  intros bs cur Hn. unfold decode, encode.
  assert (Hne : map to_hex (bits_to_words bs) <> []).
  { intro E. apply (f_equal (@List.length string)) in E. rewrite map_length, bits_to_words_length in E.
    unfold archive_len in E. cbn [List.length] in E.
    assert (1 <= (List.length bs + 63) / 64) by (apply Nat.div_le_lower_bound; lia). lia. }
  rewrite split_join; [|exact Hne|].
  - rewrite map_length, bits_to_words_length, Nat.eqb_refl. cbn [negb].
    rewrite (parse_all_to_hex _ (bits_to_words_lt64 bs)), words_to_bits_words. reflexivity.
  - rewrite forallb_forall. intros s Hs. apply in_map_iff in Hs. destruct Hs as (w & <- & _). apply to_hex_no_colon.
Qed.

Corollary decodes_encode : forall bs, 1 <= List.length bs -> decodes (List.length bs) (encode bs) = true.
Proof. intros bs H. unfold decodes. now rewrite decode_encode. Qed.

(* the same set has ONE text (the Encoding attribute is a function of the set) and different sets of the same size have
   different texts: the text decodes back *)
Corollary encode_injective : forall b1 b2, 1 <= List.length b1 -> List.length b1 = List.length b2 -> encode b1 = encode b2 -> b1 = b2.
Proof.
  intros b1 b2 H1 Hl E. pose proof (decode_encode b1 [] H1) as D1.
  assert (H2 : 1 <= List.length b2) by lia. pose proof (decode_encode b2 [] H2) as D2.
  rewrite E, Hl in D1. rewrite D1 in D2. now inversion D2.
Qed.

(* ------------------------------------------------------------------------------------------------ *)
(** * The encoding route reaches exactly its set                                                     *)

Section Route.
Context {V : Type}.
Notation state := (state V).
Notation request := (request V).
Notation mstate := (mstate V).

Definition encoding_patch_of (r : request) (bits : list bool) : Prop :=
  rq_meth r = MPatch /\ rq_route r = RModel /\ rq_ctype r = CtJson
  /\ rq_json r = JsonAttrs [("Encoding"%string, AStr (encode bits))].

Theorem encoding_patch_reaches_its_set : forall (s : state) (m : mstate) (r : request) (bits : list bool),
  Inv s -> st_model s = Some m ->
  List.length bits = List.length (d_actions (m_desc m)) -> 1 <= List.length bits ->
  encoding_patch_of r bits ->
  exists resp m', handle s r = Ok (resp, with_model s m' (snapshot_of m'))
    /\ rs_status resp = 200 /\ m_bits m' = bits /\ m_desc m' = m_desc m /\ m_id m' = m_id m.
Proof.
  intros s m r bits HI Em Hlen Hn (Hm & Hr & Hc & Hj).
  unfold handle. rewrite Hr, Hm. unfold patch_model.
  destruct HI as [[HE | HE] [HT HS]].
  - destruct HE as (_ & _ & Em0 & _). rewrite Em in Em0. discriminate.
  - destruct HE as (t0 & n0 & m0 & p0 & Et & En & Em0 & Ep & Esn & Eid & Elen).
    rewrite Em in Em0. inversion Em0; subst m0. clear Em0.
    rewrite Esn, Hc, Hj, Em. rewrite <- Hlen.
    cbn [patch_valid engine_maintained]. cbn [String.eqb Ascii.eqb Bool.eqb orb].
    rewrite (decodes_encode bits Hn). cbn [andb negb].
    unfold res_bind. cbn [patch_apply]. cbn [String.eqb Ascii.eqb Bool.eqb]. cbn [m_desc m_bits m_id m_attrs].
    rewrite <- Hlen. rewrite (decode_encode bits (m_bits m) Hn).
    match goal with |- context[derive (st_soltable s) ?mm] =>
      destruct (derive_ok (st_soltable s) mm HT) as (m1 & ED1 & _); rewrite ED1 end.
    change (engine_maintained "Encoding"%string) with false. cbn [negb]. unfold res_bind. cbn [patch_apply].
    destruct (derive_ok (st_soltable s) m1 HT) as (m3 & ED3 & _). rewrite ED3.
    destruct (derive_frame _ _ _ ED1) as (Hd1 & Hi1 & Hb1). destruct (derive_frame _ _ _ ED3) as (Hd3 & Hi3 & Hb3).
    cbn [m_desc m_id m_bits] in Hd1, Hi1, Hb1.
    exists (ok_json (BSuccess "Model resource successfully patched")), m3.
    split; [reflexivity|]. split; [reflexivity|]. split; [congruence|]. split; congruence.
Qed.

End Route.
