(* Model of pkg/dominance/Float64Vector.go (C17).

   Vectors are lists of exact rationals: the harness exports every finite
   float64 exactly (big.Rat.SetFloat64); -0.0 and 0.0 export to the same
   rational, as Go's comparison operators treat them.  NaN/Inf are outside
   the property's quantifier ("finite vectors") and are never exported.

   The two loops of [Dominates] are transcribed as written: both iterate over
   the indices of the receiver and index the argument unchecked, so a shorter
   argument is a [Panic] (unless the first loop returned before reaching the
   missing index). *)
From Coq Require Import List QArith Bool.
From Crem Require Import Base.Res.
Import ListNotations.

Definition Qgt_bool (a b : Q) : bool := negb (Qle_bool a b).
Definition Qlt_bool (a b : Q) : bool := negb (Qle_bool b a).

(* for index := range this { if this[index] > other[index] { return false } } *)
Fixpoint pass_none_greater (x y : list Q) : res bool :=
  match x, y with
  | [], _ => Ok true
  | a :: x', b :: y' => if Qgt_bool a b then Ok false else pass_none_greater x' y'
  | _ :: _, [] => Panic
  end.

(* for index := range this { if this[index] < other[index] { return true } } return false *)
Fixpoint pass_some_less (x y : list Q) : res bool :=
  match x, y with
  | [], _ => Ok false
  | a :: x', b :: y' => if Qlt_bool a b then Ok true else pass_some_less x' y'
  | _ :: _, [] => Panic
  end.

Definition dominates (x y : list Q) : res bool :=
  do ok <- pass_none_greater x y;
  if ok then pass_some_less x y else Ok false.

(* IsDominatedBy: otherCandidate.Dominates(v) *)
Definition is_dominated_by (x y : list Q) : res bool := dominates y x.

(* DominancePresent: v.Dominates(o) || o.Dominates(v)   (short-circuit) *)
Definition dominance_present (x y : list Q) : res bool :=
  do d <- dominates x y;
  if d then Ok true else dominates y x.

Definition no_dominance_present (x y : list Q) : res bool :=
  res_map negb (dominance_present x y).

Definition is_comparable (x y : list Q) : bool := Nat.eqb (length x) (length y).

(* ---- Spec: the strict Pareto order, stated independently of the scan ---- *)

Inductive all_le : list Q -> list Q -> Prop :=
| all_le_nil : all_le [] []
| all_le_cons a b x y : a <= b -> all_le x y -> all_le (a :: x) (b :: y).

Inductive some_lt : list Q -> list Q -> Prop :=
| some_lt_here a b x y : a < b -> length x = length y -> some_lt (a :: x) (b :: y)
| some_lt_later a b x y : some_lt x y -> some_lt (a :: x) (b :: y).

Definition pareto_lt (x y : list Q) : Prop := all_le x y /\ some_lt x y.

(* pointwise Qeq *)
Definition vec_eq (x y : list Q) : Prop := Forall2 Qeq x y.

(* ---- executable mirror of the spec, used by the correspondence check ---- *)
Fixpoint all_le_b (x y : list Q) : bool :=
  match x, y with
  | [], [] => true
  | a :: x', b :: y' => Qle_bool a b && all_le_b x' y'
  | _, _ => false
  end.
Fixpoint some_lt_b (x y : list Q) : bool :=
  match x, y with
  | a :: x', b :: y' => Qlt_bool a b || some_lt_b x' y'
  | _, _ => false
  end.
Definition pareto_lt_b (x y : list Q) : bool := all_le_b x y && some_lt_b x y.
