(* Proofs about the ordering of management actions (C09): [less] is a strict total order on
   (planning unit, type); a list with distinct keys has exactly one sorted arrangement, so every
   correct sort -- whatever order the Go maps delivered the actions in -- returns the same list. *)
From Coq Require Import List NArith String Ascii Bool Lia Permutation Sorted.
From Crem Require Import ActionOrder.
Import ListNotations.
Local Open Scope N_scope.

Lemma N_of_ascii_inj : forall a b, N_of_ascii a = N_of_ascii b -> a = b.
Proof. intros a b H. rewrite <- (ascii_N_embedding a), <- (ascii_N_embedding b), H. reflexivity. Qed.

Lemma str_ltb_irrefl : forall s, str_ltb s s = false.
Proof. induction s as [|c s IH]; cbn; [reflexivity|]. rewrite N.ltb_irrefl, N.eqb_refl. exact IH. Qed.

Lemma str_ltb_trans : forall a b c, str_ltb a b = true -> str_ltb b c = true -> str_ltb a c = true.
Proof.
  induction a as [|x a IH]; intros [|y b] [|z c] H1 H2; cbn in *; try discriminate; try reflexivity.
  destruct (N.ltb_spec (N_of_ascii x) (N_of_ascii y)) as [Lxy | Gxy];
  destruct (N.ltb_spec (N_of_ascii y) (N_of_ascii z)) as [Lyz | Gyz].
  - destruct (N.ltb_spec (N_of_ascii x) (N_of_ascii z)); [reflexivity|lia].
  - destruct (N.eqb_spec (N_of_ascii y) (N_of_ascii z)) as [E | _]; [|discriminate].
    destruct (N.ltb_spec (N_of_ascii x) (N_of_ascii z)); [reflexivity|lia].
  - destruct (N.eqb_spec (N_of_ascii x) (N_of_ascii y)) as [E | _]; [|discriminate].
    destruct (N.ltb_spec (N_of_ascii x) (N_of_ascii z)); [reflexivity|lia].
  - destruct (N.eqb_spec (N_of_ascii x) (N_of_ascii y)) as [Exy | _]; [|discriminate].
    destruct (N.eqb_spec (N_of_ascii y) (N_of_ascii z)) as [Eyz | _]; [|discriminate].
    destruct (N.ltb_spec (N_of_ascii x) (N_of_ascii z)); [reflexivity|].
    destruct (N.eqb_spec (N_of_ascii x) (N_of_ascii z)); [|lia]. apply (IH b c H1 H2).
Qed.

Lemma str_ltb_total : forall a b, str_ltb a b = false -> str_ltb b a = false -> a = b.
Proof.
  induction a as [|x a IH]; intros [|y b] H1 H2; cbn in *; try discriminate; [reflexivity|].
  destruct (N.ltb_spec (N_of_ascii x) (N_of_ascii y)) as [|Gxy]; [discriminate|].
  destruct (N.ltb_spec (N_of_ascii y) (N_of_ascii x)) as [|Gyx]; [discriminate|].
  assert (E : N_of_ascii x = N_of_ascii y) by lia. rewrite E, N.eqb_refl in *.
  apply N_of_ascii_inj in E. subst y. f_equal. apply IH; assumption.
Qed.

Lemma less_irrefl : forall k, less k k = false.
Proof. intros [p t]. unfold less. cbn. rewrite N.ltb_irrefl, N.eqb_refl. apply str_ltb_irrefl. Qed.

Lemma less_trans : forall a b c, less a b = true -> less b c = true -> less a c = true.
Proof.
  intros [p1 t1] [p2 t2] [p3 t3]. unfold less. cbn. intros Hab Hbc.
  destruct (N.ltb_spec p1 p2) as [L12 | G12]; destruct (N.ltb_spec p2 p3) as [L23 | G23];
  destruct (N.ltb_spec p1 p3) as [L13 | G13]; try reflexivity; try lia;
  destruct (N.eqb_spec p1 p2) as [E12 | N12]; destruct (N.eqb_spec p2 p3) as [E23 | N23];
  destruct (N.eqb_spec p1 p3) as [E13 | N13]; try discriminate; try lia.
  apply (str_ltb_trans _ _ _ Hab Hbc).
Qed.

Lemma less_total : forall a b, less a b = false -> less b a = false -> a = b.
Proof.
  intros [p1 t1] [p2 t2]. unfold less. cbn.
  destruct (N.ltb_spec p1 p2); [discriminate|]. destruct (N.ltb_spec p2 p1); [discriminate|].
  assert (p1 = p2) by lia. subst p2. rewrite N.eqb_refl. intros H1 H2. f_equal. apply str_ltb_total; assumption.
Qed.

Lemma less_asym : forall a b, less a b = true -> less b a = false.
Proof.
  intros a b H. destruct (less b a) eqn:E; [|reflexivity].
  pose proof (less_trans _ _ _ H E) as C. rewrite less_irrefl in C. discriminate.
Qed.

(* the order of the sorted list: "not Less(later, earlier)", which is what sort.Sort guarantees *)
Definition le_key (a b : key) : Prop := less b a = false.

Lemma le_key_trans : forall a b c, le_key a b -> le_key b c -> le_key a c.
Proof.
  unfold le_key. intros a b c H1 H2. destruct (less c a) eqn:E; [|reflexivity].
  (* c < a, not b < a, so a <= b; if b = a then c < b contradiction; else a < b, c < a < b contradiction *)
  destruct (less a b) eqn:Eab.
  - pose proof (less_trans _ _ _ E Eab) as C. congruence.
  - assert (a = b) by (apply less_total; assumption). subst. congruence.
Qed.

Lemma le_key_antisym : forall a b, le_key a b -> le_key b a -> a = b.
Proof. unfold le_key. intros a b H1 H2. apply less_total; assumption. Qed.

Section Sorting.
  Context {A : Type} (key_of : A -> key).

  Definition le_act (x y : A) : Prop := le_key (key_of x) (key_of y).

  Lemma insert_perm : forall x l, Permutation (x :: l) (insert key_of x l).
  Proof.
    intros x l. induction l as [|y l IH]; cbn; [apply Permutation_refl|].
    destruct (less (key_of y) (key_of x)); [|apply Permutation_refl].
    apply perm_trans with (y :: x :: l); [apply perm_swap|]. apply perm_skip. exact IH.
  Qed.

  Lemma sort_perm : forall l, Permutation l (sort_actions key_of l).
  Proof.
    induction l as [|x l IH]; cbn; [apply perm_nil|].
    apply perm_trans with (x :: sort_actions key_of l); [apply perm_skip; exact IH|apply insert_perm].
  Qed.

  Lemma insert_sorted : forall x l, StronglySorted le_act l -> StronglySorted le_act (insert key_of x l).
  Proof.
    intros x l H. induction H as [|y l Hs IH Hall]; cbn.
    - constructor; [constructor|constructor].
    - destruct (less (key_of y) (key_of x)) eqn:E.
      + constructor; [exact IH|].
        apply Forall_forall. intros z Hz.
        apply (Permutation_in _ (Permutation_sym (insert_perm x l))) in Hz. destruct Hz as [<- | Hz].
        * unfold le_act, le_key. apply less_asym. exact E.
        * apply (proj1 (Forall_forall _ _) Hall). exact Hz.
      + constructor; [constructor; assumption|]. constructor; [exact E|].
        apply Forall_forall. intros z Hz. apply (le_key_trans _ (key_of y)); [exact E|].
        apply (proj1 (Forall_forall _ _) Hall). exact Hz.
  Qed.

  Lemma sort_sorted : forall l, StronglySorted le_act (sort_actions key_of l).
  Proof. induction l as [|x l IH]; cbn; [constructor|]. apply insert_sorted. exact IH. Qed.

  (* a list with distinct keys has at most one sorted arrangement *)
  Lemma sorted_unique : forall l1 l2, NoDup (map key_of l1) -> Permutation l1 l2 ->
    StronglySorted le_act l1 -> StronglySorted le_act l2 -> l1 = l2.
  Proof.
    induction l1 as [|a l1 IH]; intros l2 Hnd Hp H1 H2.
    - apply Permutation_nil in Hp. subst. reflexivity.
    - destruct l2 as [|b l2]; [apply Permutation_sym, Permutation_nil in Hp; discriminate|].
      inversion H1 as [|? ? Hs1 Ha]; subst. inversion H2 as [|? ? Hs2 Hb]; subst.
      cbn [map] in Hnd. inversion Hnd as [|? ? Hnotin Hnd']; subst.
      assert (Hab : a = b).
      { assert (Hin_a : In a (b :: l2)) by (apply (Permutation_in _ Hp); left; reflexivity).
        assert (Hin_b : In b (a :: l1)) by (apply (Permutation_in _ (Permutation_sym Hp)); left; reflexivity).
        destruct Hin_a as [E | Hin_a]; [symmetry; exact E|]. destruct Hin_b as [E | Hin_b]; [exact E|].
        exfalso. apply Hnotin.
        assert (Hk : key_of a = key_of b).
        { apply le_key_antisym.
          - apply (proj1 (Forall_forall _ _) Ha). exact Hin_b.
          - apply (proj1 (Forall_forall _ _) Hb). exact Hin_a. }
        rewrite Hk. apply in_map. exact Hin_b. }
      subst b. f_equal. apply IH; try assumption. apply (Permutation_cons_inv Hp).
  Qed.

  (* determinism: whatever order the actions were gathered in, sorting gives the same list *)
  Lemma sort_deterministic : forall l1 l2, NoDup (map key_of l1) -> Permutation l1 l2 ->
    sort_actions key_of l1 = sort_actions key_of l2.
  Proof.
    intros l1 l2 Hnd Hp. apply sorted_unique.
    - apply (Permutation_NoDup (Permutation_map key_of (sort_perm l1))). exact Hnd.
    - apply perm_trans with l1; [apply Permutation_sym, sort_perm|].
      apply perm_trans with l2; [exact Hp|apply sort_perm].
    - apply sort_sorted.
    - apply sort_sorted.
  Qed.

  (* ... and so does ANY function that returns a sorted permutation of its input (sort.Sort's contract):
     the choice of algorithm, and its instability, cannot matter *)
  Lemma any_sort_agrees : forall (sort' : list A -> list A),
    (forall l, Permutation l (sort' l) /\ StronglySorted le_act (sort' l)) ->
    forall l1 l2, NoDup (map key_of l1) -> Permutation l1 l2 -> sort' l1 = sort_actions key_of l2.
  Proof.
    intros sort' Hc l1 l2 Hnd Hp. destruct (Hc l1) as [Hp1 Hs1]. apply sorted_unique.
    - apply (Permutation_NoDup (Permutation_map key_of Hp1)). exact Hnd.
    - apply perm_trans with l1; [apply Permutation_sym; exact Hp1|].
      apply perm_trans with l2; [exact Hp|apply sort_perm].
    - exact Hs1.
    - apply sort_sorted.
  Qed.

  (* locally sorted (adjacent elements, as sort.Sort documents it) is the same as strongly sorted here *)
  Lemma sorted_strongly : forall l, Sorted le_act l -> StronglySorted le_act l.
  Proof.
    apply Sorted_StronglySorted. intros x y z. unfold le_act. apply le_key_trans.
  Qed.
End Sorting.

Lemma less_strict_total :
  (forall k, less k k = false)
  /\ (forall a b c, less a b = true -> less b c = true -> less a c = true)
  /\ (forall a b, less a b = false -> less b a = false -> a = b).
Proof. exact (conj less_irrefl (conj less_trans less_total)). Qed.

Lemma sort_correct : forall {A} (key_of : A -> key) l,
  Permutation l (sort_actions key_of l) /\ StronglySorted (le_act key_of) (sort_actions key_of l).
Proof. intros A key_of l. exact (conj (sort_perm key_of l) (sort_sorted key_of l)). Qed.
