(* Lemmas for C06 (model: Suppapitnarm.v, SuppRtbFloat.v). *)
From Coq Require Import List ZArith NArith QArith Bool Floats Lia.
From Crem Require Import Base.Res Dominance DominanceProofs SuppRtbFloat Suppapitnarm.
Import ListNotations.

Lemma default_schedule_example :
  let p := mk_params 20000 10 (mkf 8556839292003942 (-53)) 1%float Product false in
  (do us <- sched_init p; sched_returns p (N.to_nat 60000) 1%N us)
  = Ok [(20000%N, 19000%N, 19000%float); (39000%N, 18050%N, 18050%float); (57050%N, 17147%N, 17147.5%float)].
Proof. vm_compute. reflexivity. Qed.
