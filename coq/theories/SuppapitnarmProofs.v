(* Lemmas for C06 (model: Suppapitnarm.v, SuppRtbFloat.v; float facts: SuppRtbFloatProofs.v). *)
From Coq Require Import List ZArith NArith QArith Bool Floats Lia.
From Crem Require Import Base.Res Dominance DominanceProofs NdArchive NdArchiveProofs SuppRtbFloat Suppapitnarm.
Import ListNotations.

Lemma default_schedule_example :
  let p := mk_params 20000 10 (mkf 8556839292003942 (-53)) 1%float Product false in
  (do us <- sched_init p; sched_returns p (N.to_nat 60000) 1%N us)
  = Ok [(20000%N, 19000%N, 19000%float); (39000%N, 18050%N, 18050%float); (57050%N, 17147%N, 17147.5%float)].
Proof. vm_compute. reflexivity. Qed.

(* ---------- the archive operations ---------- *)

Lemma bind_ok {A B} (r : res A) (f : A -> res B) b :
  res_bind r f = Ok b -> exists a, r = Ok a /\ f a = Ok b.
Proof. destruct r as [a|]; cbn; [eauto | discriminate]. Qed.


Lemma cannot_be_archived_cases a c v :
  cannot_be_archived a c = Ok v ->
  (v = CanBeStored)
  \/ (v = RejectedWithStoredEntryDominanceDetected /\ exists x, In x a /\ dominates (e_vec x) (e_vec c) = Ok true)
  \/ (v = RejectedWithDuplicateEntryDetected /\ exists x, In x a /\ same_acts x c).
Proof.
  induction a as [|x a IH]; cbn [cannot_be_archived]; intros H.
  - inversion H. auto.
  - apply bind_ok in H. destruct H as (d & Hd & H). destruct d.
    + inversion H. right; left. split; [reflexivity|]. exists x. split; [left; reflexivity | exact Hd].
    + destruct (acts_eqb (e_acts x) (e_acts c)) eqn:E.
      * inversion H. right; right. split; [reflexivity|]. exists x. split; [left; reflexivity | exact E].
      * destruct (IH H) as [C|[[C (y & Hy & D)]|[C (y & Hy & D)]]]; auto.
        -- right; left. split; [exact C|]. exists y. split; [right; exact Hy | exact D].
        -- right; right. split; [exact C|]. exists y. split; [right; exact Hy | exact D].
Qed.

Lemma evict_dominated_incl c a r : evict_dominated a c = Ok r -> incl (snd r) a.
Proof.
  revert r. induction a as [|x a IH]; cbn [evict_dominated]; intros r H.
  - inversion H. cbn. apply incl_refl.
  - apply bind_ok in H. destruct H as (d & _ & H).
    apply bind_ok in H. destruct H as (r' & Hr' & H).
    specialize (IH r' Hr'). destruct d; inversion H; cbn [snd].
    + apply incl_tl. exact IH.
    + apply incl_cons; [left; reflexivity | apply incl_tl; exact IH].
Qed.

Lemma drop_dominating_incl c a r : drop_dominating a c = Ok r -> incl r a.
Proof.
  revert r. induction a as [|x a IH]; cbn [drop_dominating]; intros r H.
  - inversion H. apply incl_refl.
  - apply bind_ok in H. destruct H as (d & _ & H).
    apply bind_ok in H. destruct H as (r' & Hr' & H).
    specialize (IH r' Hr'). destruct d; inversion H; subst.
    + apply incl_tl. exact IH.
    + apply incl_cons; [left; reflexivity | apply incl_tl; exact IH].
Qed.

Inductive attempt_outcome (a : list entry) (c : entry) : verdict -> list entry -> Prop :=
| ao_stored_plain : attempt_outcome a c StoredWithNoDominanceDetected (a ++ [c])
| ao_stored_replacing kept : incl kept a ->
    attempt_outcome a c StoredReplacingDominatedEntries (kept ++ [c])
| ao_dominated x : In x a -> dominates (e_vec x) (e_vec c) = Ok true ->
    attempt_outcome a c RejectedWithStoredEntryDominanceDetected a
| ao_duplicate x : In x a -> same_acts x c ->
    attempt_outcome a c RejectedWithDuplicateEntryDetected a.

Lemma attempt_cases a c v a' : attempt a c = Ok (v, a') -> attempt_outcome a c v a'.
Proof.
  unfold attempt. intros H. apply bind_ok in H. destruct H as (v0 & Hv0 & H).
  destruct (cannot_be_archived_cases a c v0 Hv0) as [C|[[C (x & Hx & D)]|[C (x & Hx & D)]]]; subst v0.
  - apply bind_ok in H. destruct H as ([any kept] & Hr & H).
    pose proof (evict_dominated_incl _ _ _ Hr) as Hi. cbn [snd] in Hi.
    destruct any; inversion H; subst.
    + apply ao_stored_replacing. exact Hi.
    + apply ao_stored_plain.
  - inversion H; subst. eapply ao_dominated; eassumption.
  - inversion H; subst. eapply ao_duplicate; eassumption.
Qed.

Lemma force_cases a c f :
  force a c = Ok f -> fst f = StoredForcingDominatingStateRemoval /\ exists kept, snd f = kept ++ [c] /\ incl kept a.
Proof.
  unfold force. intros H. apply bind_ok in H. destruct H as (r & Hr & H). inversion H; subst. cbn [fst snd].
  split; [reflexivity|]. exists r. split; [reflexivity | eapply drop_dominating_incl; exact Hr].
Qed.

Lemma in_app_last {A} (l : list A) x : In x (l ++ [x]).
Proof. apply in_or_app. right. left. reflexivity. Qed.

(* ---------- the move rule (AcceptOrRevertChange) ---------- *)


Definition sched_fields_eq (s s' : st) : Prop :=
  until s' = until s /\ stepf s' = stepf s /\ iter s' = iter s /\ last_rtb s' = last_rtb s /\ temp s' = temp s.

Lemma accept_phase_spec p s i v d s1 :
  accept_phase p s i = Ok (v, d, s1) ->
  attempt_outcome (arch s) (i_cand i) v
    (match d with AcceptUndesirable => arch s | _ => arch s1 end)
  /\ sched_fields_eq s s1
  /\ (if stored_or_held v
      then d = AcceptDesirable /\ cur s1 = i_cand i /\ accprob s1 = 1%float /\ accepted s1 = true
           /\ storage s1 = v /\ desirable s1 = true
      else v = RejectedWithStoredEntryDominanceDetected /\ desirable s1 = false
           /\ accprob s1 = accept_prob (p_kind p) (i_es i)
           /\ if decide (accept_prob (p_kind p) (i_es i)) (unitary (i_draw i))
              then d = AcceptUndesirable /\ cur s1 = i_cand i /\ accepted s1 = true
                   /\ force (arch s) (i_cand i) = Ok (StoredForcingDominatingStateRemoval, arch s1)
                   /\ In (i_cand i) (arch s1)
                   /\ storage s1 = StoredForcingDominatingStateRemoval
              else d = RevertUndesirable /\ cur s1 = cur s /\ arch s1 = arch s /\ accepted s1 = false
                   /\ storage s1 = v).
Proof.
  unfold accept_phase. intros H. apply bind_ok in H. destruct H as ([v0 a1] & Hatt & H).
  cbn [fst snd] in H. pose proof (attempt_cases _ _ _ _ Hatt) as Hout.
  assert (Hsf : forall c a st_ acc pr des, sched_fields_eq s
            (mk_st c a (until s) (stepf s) (iter s) (last_rtb s) des acc st_ pr (temp s))).
  { intros. unfold sched_fields_eq. cbn. auto. }
  inversion Hout; subst; cbn [change_desirable stored_or_held] in H |- *.
  - inversion H; subst. cbn. repeat split; auto.
  - inversion H; subst. cbn. repeat split; auto.
  - destruct (decide (accept_prob (p_kind p) (i_es i)) (unitary (i_draw i))) eqn:D.
    + apply bind_ok in H. destruct H as ([fv a2] & Hf & H). inversion H; subst. cbn [fst snd] in *.
      destruct (force_cases _ _ _ Hf) as (Efv & kept & Ea2 & _). cbn [fst snd] in *. subst fv a2. cbn.
      repeat split; auto. apply in_app_last.
    + inversion H; subst. cbn. repeat split; auto.
  - inversion H; subst. cbn. repeat split; auto.
Qed.

(* ---------- return-to-base phase ---------- *)


Lemma rtb_phase_spec p s i b s2 :
  rtb_phase p s i = Ok (b, s2) ->
  sched_tick p (until s, stepf s) = Ok (is_some b, (until s2, stepf s2))
  /\ arch s2 = arch s /\ iter s2 = iter s /\ temp s2 = temp s /\ accprob s2 = accprob s
  /\ desirable s2 = desirable s /\ accepted s2 = accepted s /\ storage s2 = storage s
  /\ match b with
     | Some e => In e (arch s) /\ cur s2 = e /\ last_rtb s2 = iter s
     | None => cur s2 = cur s /\ last_rtb s2 = last_rtb s
     end.
Proof.
  unfold rtb_phase, sched_tick. cbn [fst snd].
  destruct (dec64 (until s) <=? 0)%N.
  - destruct (arch s) as [|e0 a] eqn:Ea; [discriminate|].
    set (b0 := nth (Nat.modulo (i_pick i) (length (e0 :: a))) (e0 :: a) e0).
    assert (Hin : In b0 (e0 :: a)).
    { apply nth_In. apply Nat.mod_upper_bound. discriminate. }
    clearbody b0.
    intros H. apply bind_ok in H. destruct H as (u' & Hu & H). rewrite Hu. cbn [res_bind].
    inversion H; subst. cbn. repeat split; auto.
  - intros H. inversion H; subst. cbn. repeat split; auto.
Qed.

Lemma attempt_outcome_nonempty a c v a' : attempt_outcome a c v a' -> a' <> [].
Proof.
  intros H. inversion H; subst.
  - intros E. apply app_eq_nil in E. destruct E; discriminate.
  - intros E. apply app_eq_nil in E. destruct E; discriminate.
  - intros E. subst. contradiction.
  - intros E. subst. contradiction.
Qed.

Lemma accept_phase_nonempty p s i v d s1 : accept_phase p s i = Ok (v, d, s1) -> arch s1 <> [].
Proof.
  intros H. destruct (accept_phase_spec _ _ _ _ _ _ H) as (Hout & _ & Hrule).
  destruct d.
  - eapply attempt_outcome_nonempty. exact Hout.
  - destruct (stored_or_held v); [destruct Hrule as (E & _); discriminate|].
    destruct Hrule as (_ & _ & _ & Hr).
    destruct (decide _ _); [|destruct Hr as (E & _); discriminate].
    destruct Hr as (_ & _ & _ & _ & Hin & _). intros E. rewrite E in Hin. contradiction.
  - eapply attempt_outcome_nonempty. exact Hout.
Qed.

(* TryRandomChange; CoolDown, decomposed *)
Lemma iteration_decompose p s i o s' :
  iteration p s i = Ok (o, s') ->
  exists s1 s2,
    accept_phase p s i = Ok (o_verdict o, o_decision o, s1)
    /\ rtb_phase p s1 i = Ok (o_base o, s2)
    /\ check_phase p s2 = Ok s2
    /\ cur s' = cur s2 /\ arch s' = arch s2 /\ until s' = until s2 /\ stepf s' = stepf s2
    /\ iter s' = (iter s2 + 1)%N /\ last_rtb s' = last_rtb s2 /\ desirable s' = desirable s2
    /\ accepted s' = accepted s2 /\ storage s' = storage s2 /\ accprob s' = accprob s2
    /\ temp s' = cool (temp s2) (p_cooling p).
Proof.
  unfold iteration, try_random_change. intros H.
  apply bind_ok in H. destruct H as ([o1 s3'] & H & E). inversion E; subst; clear E.
  apply bind_ok in H. destruct H as ([[v d] s1] & H1 & H).
  apply bind_ok in H. destruct H as ([b s2] & H2 & H).
  apply bind_ok in H. destruct H as (s3 & H3 & H). inversion H; subst; clear H.
  assert (s3 = s2).
  { unfold check_phase in H3. destruct (p_check_nd p).
    - apply bind_ok in H3. destruct H3 as (nd & _ & H3). destruct nd; inversion H3; reflexivity.
    - inversion H3; reflexivity. }
  subst s3. exists s1, s2. cbn. repeat split; auto.
Qed.

(* whenever a return fires, the base is a member of the (non-empty) solution set and becomes current *)
Lemma return_base_member p s i o s' b :
  iteration p s i = Ok (o, s') -> o_base o = Some b ->
  In b (arch s') /\ cur s' = b /\ arch s' <> [].
Proof.
  intros H Hb. destruct (iteration_decompose _ _ _ _ _ H) as (s1 & s2 & H1 & H2 & _ & Ec & Ea & _).
  destruct (rtb_phase_spec _ _ _ _ _ H2) as (_ & Ea2 & _ & _ & _ & _ & _ & _ & Hbase).
  rewrite Hb in Hbase. destruct Hbase as (Hin & Hc & _).
  rewrite Ea, Ea2, Ec, Hc. repeat split; auto.
  eapply accept_phase_nonempty. exact H1.
Qed.

(* without a return the current solution is the one the move rule left *)
Lemma no_return_current p s i o s' :
  iteration p s i = Ok (o, s') -> o_base o = None ->
  exists s1, accept_phase p s i = Ok (o_verdict o, o_decision o, s1) /\ cur s' = cur s1 /\ arch s' = arch s1.
Proof.
  intros H Hb. destruct (iteration_decompose _ _ _ _ _ H) as (s1 & s2 & H1 & H2 & _ & Ec & Ea & _).
  destruct (rtb_phase_spec _ _ _ _ _ H2) as (_ & Ea2 & _ & _ & _ & _ & _ & _ & Hbase).
  rewrite Hb in Hbase. destruct Hbase as (Hc & _).
  exists s1. rewrite Ec, Ea, Hc, Ea2. auto.
Qed.

(* the archive after an iteration is never empty (so selectRandomIndex's assertion cannot fail) *)
Lemma iteration_archive_nonempty p s i o s' : iteration p s i = Ok (o, s') -> arch s' <> [].
Proof.
  intros H. destruct (iteration_decompose _ _ _ _ _ H) as (s1 & s2 & H1 & H2 & _ & _ & Ea & _).
  destruct (rtb_phase_spec _ _ _ _ _ H2) as (_ & Ea2 & _).
  rewrite Ea, Ea2. eapply accept_phase_nonempty. exact H1.
Qed.

(* the countdown machine is independent of candidates, draws and the archive *)
Lemma iteration_sched p s i o s' :
  iteration p s i = Ok (o, s') ->
  sched_tick p (until s, stepf s) = Ok (is_some (o_base o), (until s', stepf s'))
  /\ iter s' = (iter s + 1)%N
  /\ last_rtb s' = (if is_some (o_base o) then iter s else last_rtb s).
Proof.
  intros H. destruct (iteration_decompose _ _ _ _ _ H)
    as (s1 & s2 & H1 & H2 & _ & _ & _ & Eu & Es & Ei & El & _).
  destruct (accept_phase_spec _ _ _ _ _ _ H1) as (_ & (Su & Ss & Si & Sl & _) & _).
  destruct (rtb_phase_spec _ _ _ _ _ H2) as (Ht & _ & Ei2 & _ & _ & _ & _ & _ & Hbase).
  rewrite Su, Ss in Ht. rewrite Eu, Es, Ei, El, Ei2, Si. split; [exact Ht|]. split; [reflexivity|].
  destruct (o_base o); cbn [is_some]; destruct Hbase as (? & ?); try tauto.
  - destruct H3. congruence.
  - congruence.
Qed.

(* ---------- runs and reachability ---------- *)

Lemma reach_prepend p s i o s1 n s2 :
  iteration p s i = Ok (o, s1) -> reach p s1 n s2 -> reach p s (S n) s2.
Proof.
  intros H R. induction R as [|n s2 i2 o2 s3 R IH H2].
  - eapply reach_S; [apply reach_0 | exact H].
  - eapply reach_S; [exact IH | exact H2].
Qed.

(* every iteration of a successful run is an [iteration] from a state reachable in that many steps *)
Lemma run_reach p is : forall s os s',
  run p s is = Ok (os, s') ->
  length os = length is /\ reach p s (length is) s'
  /\ forall n i, nth_error is n = Some i ->
       exists sn o sn', reach p s n sn /\ iteration p sn i = Ok (o, sn') /\ nth_error os n = Some o.
Proof.
  induction is as [|i is IH]; intros s os s' H; cbn [run] in H.
  - inversion H; subst. split; [reflexivity|]. split; [apply reach_0|].
    intros n i Hn. destruct n; discriminate.
  - apply bind_ok in H. destruct H as ([o s1] & Hit & H). cbn [fst snd] in H.
    apply bind_ok in H. destruct H as ([os1 s2] & Hrun & H). inversion H; subst; clear H.
    destruct (IH _ _ _ Hrun) as (Hlen & Hreach & Hnth).
    split; [cbn; congruence|]. split; [cbn [length]; eapply reach_prepend; eassumption|].
    intros n i0 Hn. destruct n as [|n].
    + cbn in Hn. inversion Hn; subst. exists s, o, s1. split; [apply reach_0|]. split; [exact Hit | reflexivity].
    + cbn in Hn. destruct (Hnth n i0 Hn) as (sn & o' & sn' & R & Hi & Ho).
      exists sn, o', sn'. split; [eapply reach_prepend; eassumption|]. split; [exact Hi | exact Ho].
Qed.

(* ---------- final forms of the move rule ---------- *)

Lemma move_certain p s i v d s1 :
  accept_phase p s i = Ok (v, d, s1) -> stored_or_held v = true ->
  d = AcceptDesirable /\ cur s1 = i_cand i /\ accprob s1 = 1%float /\ accepted s1 = true.
Proof.
  intros H Hv. destruct (accept_phase_spec _ _ _ _ _ _ H) as (_ & _ & R). rewrite Hv in R. tauto.
Qed.

Lemma verdict_sound p s i v d s1 :
  accept_phase p s i = Ok (v, d, s1) ->
  match v with
  | StoredWithNoDominanceDetected | StoredReplacingDominatedEntries =>
      In (i_cand i) (arch s1) /\ cur s1 = i_cand i
  | RejectedWithDuplicateEntryDetected =>
      (exists x, In x (arch s) /\ same_acts x (i_cand i)) /\ arch s1 = arch s
  | RejectedWithStoredEntryDominanceDetected =>
      exists x, In x (arch s) /\ dominates (e_vec x) (e_vec (i_cand i)) = Ok true
  | _ => False
  end.
Proof.
  intros H. destruct (accept_phase_spec _ _ _ _ _ _ H) as (Hout & _ & R).
  inversion Hout as [E1 E2|kept Hk E1 E2|x Hx Hd E1 E2|x Hx Hd E1 E2]; subst v; cbn [stored_or_held] in R.
  - destruct R as (-> & Hc & _). split; [|exact Hc]. rewrite <- E2. apply in_app_last.
  - destruct R as (-> & Hc & _). split; [|exact Hc]. rewrite <- E2. apply in_app_last.
  - eauto.
  - destruct R as (-> & _). split; [eauto | symmetry; exact E2].
Qed.

Lemma move_iff_probability p s i v d s1 :
  accept_phase p s i = Ok (v, d, s1) -> stored_or_held v = false ->
  let pr := accept_prob (p_kind p) (i_es i) in
  let u := unitary (i_draw i) in
  v = RejectedWithStoredEntryDominanceDetected
  /\ accprob s1 = pr
  /\ (d = AcceptUndesirable <-> PrimFloat.ltb u pr = true)
  /\ (d = RevertUndesirable <-> PrimFloat.ltb u pr = false)
  /\ d <> AcceptDesirable.
Proof.
  intros H Hv. destruct (accept_phase_spec _ _ _ _ _ _ H) as (_ & _ & R). rewrite Hv in R.
  destruct R as (Ev & _ & Ep & R). cbv zeta. unfold decide in R.
  destruct (PrimFloat.ltb (unitary (i_draw i)) (accept_prob (p_kind p) (i_es i))).
  - destruct R as (-> & _). repeat split; auto; try discriminate.
  - destruct R as (-> & _). repeat split; auto; try discriminate.
Qed.

Lemma accepted_undesirable_forced p s i v d s1 :
  accept_phase p s i = Ok (v, d, s1) -> d = AcceptUndesirable ->
  cur s1 = i_cand i /\ force (arch s) (i_cand i) = Ok (StoredForcingDominatingStateRemoval, arch s1)
  /\ In (i_cand i) (arch s1)
  /\ storage s1 = StoredForcingDominatingStateRemoval /\ accepted s1 = true.
Proof.
  intros H Hd. destruct (accept_phase_spec _ _ _ _ _ _ H) as (_ & _ & R).
  destruct (stored_or_held v); [destruct R as (E & _); congruence|].
  destruct R as (_ & _ & _ & R).
  destruct (decide _ _); [|destruct R as (E & _); congruence]. tauto.
Qed.

Lemma no_move_unchanged p s i v d s1 :
  accept_phase p s i = Ok (v, d, s1) -> d = RevertUndesirable ->
  cur s1 = cur s /\ arch s1 = arch s /\ accepted s1 = false.
Proof.
  intros H Hd. destruct (accept_phase_spec _ _ _ _ _ _ H) as (_ & _ & R).
  destruct (stored_or_held v); [destruct R as (E & _); congruence|].
  destruct R as (_ & _ & _ & R).
  destruct (decide _ _); [destruct R as (E & _); congruence|]. tauto.
Qed.

Lemma accept_leaves_schedule p s i v d s1 :
  accept_phase p s i = Ok (v, d, s1) ->
  until s1 = until s /\ stepf s1 = stepf s /\ iter s1 = iter s /\ last_rtb s1 = last_rtb s /\ temp s1 = temp s.
Proof. intros H. destruct (accept_phase_spec _ _ _ _ _ _ H) as (_ & R & _). exact R. Qed.

(* at the level of a whole iteration, when no return-to-base fires *)
Lemma iteration_current p s i o s' :
  iteration p s i = Ok (o, s') -> o_base o = None ->
  (o_decision o = RevertUndesirable -> cur s' = cur s /\ arch s' = arch s)
  /\ (o_decision o <> RevertUndesirable ->
      cur s' = i_cand i /\ exists x, In x (arch s') /\ same_acts x (i_cand i)).
Proof.
  intros H Hb. destruct (no_return_current _ _ _ _ _ H Hb) as (s1 & H1 & Ec & Ea).
  rewrite Ec, Ea. split; intros Hd.
  - destruct (no_move_unchanged _ _ _ _ _ _ H1 Hd) as (? & ? & _). auto.
  - assert (Hself : same_acts (i_cand i) (i_cand i)) by apply acts_eqb_refl.
    destruct (o_decision o) eqn:D; [| |contradiction].
    + destruct (stored_or_held (o_verdict o)) eqn:Sv.
      * pose proof (verdict_sound _ _ _ _ _ _ H1) as V.
        destruct (move_certain _ _ _ _ _ _ H1 Sv) as (_ & Hc & _). split; [exact Hc|].
        destruct (o_verdict o); try discriminate Sv.
        -- exists (i_cand i). tauto.
        -- exists (i_cand i). tauto.
        -- destruct V as ((x & Hx & Hs) & Ea1). exists x. rewrite Ea1. auto.
      * destruct (move_iff_probability _ _ _ _ _ _ H1 Sv) as (_ & _ & _ & _ & N). contradiction.
    + destruct (accepted_undesirable_forced _ _ _ _ _ _ H1 eq_refl) as (? & _ & ? & _). eauto.
Qed.

(* "already holds its action set": if some entry has the candidate's action set and no entry dominates
   the candidate, the verdict is the duplicate one (and the move is therefore certain) *)
Lemma held_verdict a c :
  (exists x, In x a /\ same_acts x c) ->
  (forall x, In x a -> dominates (e_vec x) (e_vec c) = Ok false) ->
  cannot_be_archived a c = Ok RejectedWithDuplicateEntryDetected.
Proof.
  induction a as [|y a IH]; intros (x & Hx & Hs) Hnd; [contradiction|].
  cbn [cannot_be_archived]. rewrite (Hnd y (or_introl eq_refl)). cbn [res_bind].
  destruct (acts_eqb (e_acts y) (e_acts c)) eqn:E; [reflexivity|].
  apply IH.
  - destruct Hx as [->|Hx]; [unfold same_acts in Hs; congruence|]. eauto.
  - intros z Hz. apply Hnd. right. exact Hz.
Qed.

Lemma move_certain_when_held p s i :
  (exists x, In x (arch s) /\ same_acts x (i_cand i)) ->
  (forall x, In x (arch s) -> dominates (e_vec x) (e_vec (i_cand i)) = Ok false) ->
  exists s1, accept_phase p s i = Ok (RejectedWithDuplicateEntryDetected, AcceptDesirable, s1)
             /\ cur s1 = i_cand i /\ arch s1 = arch s /\ accprob s1 = 1%float.
Proof.
  intros Hh Hnd. unfold accept_phase, attempt. rewrite (held_verdict _ _ Hh Hnd).
  cbn. eexists. split; [reflexivity|]. cbn. auto.
Qed.
