(* C08 — runs of a scenario are independent and safe to execute concurrently.

   Executable model (no proofs in this file) of scenario.Runner.runScenario / Runner.run
   (internal/pkg/scenario/Runner.go) and of the shape of one run.

   Go                                                   model
   ---------------------------------------------------  ------------------------------------------
   for runNumber := 1..R { guard <- {}; go doRun(n) }   action [AMain] while [next < R]: enabled iff
                                                        [inflight < c] (send on a full buffered
                                                        channel blocks), spawns run [next]
   runWaitGroup.Wait()                                  action [AMain] once [next = R]: enabled iff
                                                        [ndone = R]
   runner.run(n): annealer.DeepClone(); ids; observers; [ARun i] in phase [Running]: one call of the
     annealerCopy.Anneal()                              run's step function [lstep] on the values of
                                                        ITS OWN locations [fp] and its own choice
   <-concurrentRunGuard                                 [ARun i] in phase [Ran]   (slot released)
   runWaitGroup.Done()                                  [ARun i] in phase [Released]
   a panic in a run goroutine (the annealer re-panics)  [crashed := true]; the process is gone: every
                                                        later action is a no-op
   WaitGroup counter below zero                         [wgpanic := true] (shown unreachable)

   A run is a deterministic step function over its PRIVATE locations: the step function never
   sees the memory, only [view fp m] (the values at its footprint), and what it returns is
   written back to the footprint only.  Objects that are immutable after set-up (parameter maps,
   loaded tables, ...) are constants of the step function, not locations.  Which locations two
   real clones share is decided by the alias translator (harness/c08.go -> gen/Alias.v).

   The scheduler is an arbitrary list of actions; an action that is not enabled (blocked
   goroutine) leaves the state unchanged, so every real schedule is one of these lists. *)
From Coq Require Import List NArith ZArith QArith Bool Arith.
From Crem Require Import Base.Res.
Import ListNotations.

Definition loc := N.
Definition val := Q.
Definition choice := Z.
Definition mem := loc -> val.

(* event = (tag, payload) *)
Definition event := (nat * list val)%type.

Definition upd (m : mem) (l : loc) (v : val) : mem :=
  fun l' => if N.eqb l' l then v else m l'.

Definition view (f : list loc) (m : mem) : list val := map m f.

Fixpoint write (f : list loc) (vs : list val) (m : mem) : mem :=
  match f, vs with
  | l :: f', v :: vs' => write f' vs' (upd m l v)
  | _, _ => m
  end.

(* one run: footprint + step function.  [lstep k view choice] is the k-th step of the run:
   new values for the footprint, emitted events, and whether the run has now returned. *)
Record prog := mkProg {
  fp : list loc;
  lstep : nat -> list val -> choice -> res (list val * list event * bool)
}.

Definition idle_prog : prog := mkProg [] (fun _ _ _ => Ok ([], [], true)).

(* ---------- solo execution of one run (the specification side) ---------- *)

Inductive rstatus := Going | Fin | Crashed.

Record solo_state := mkSolo { so_mem : mem; so_events : list event; so_status : rstatus }.

Definition solo_step (p : prog) (ch : nat -> choice) (k : nat) (s : solo_state) : solo_state :=
  match so_status s with
  | Going =>
      match lstep p k (view (fp p) (so_mem s)) (ch k) with
      | Ok (vs, evs, fin) =>
          mkSolo (write (fp p) vs (so_mem s)) (so_events s ++ evs) (if fin then Fin else Going)
      | Panic => mkSolo (so_mem s) (so_events s) Crashed
      end
  | _ => s
  end.

(* state of the run after its first k steps, alone, from memory m0 *)
Fixpoint solo (p : prog) (ch : nat -> choice) (m0 : mem) (k : nat) : solo_state :=
  match k with
  | O => mkSolo m0 [] Going
  | S k' => solo_step p ch k' (solo p ch m0 k')
  end.

(* ---------- the runner ---------- *)

Inductive phase := Idle | Running | Ran | Released | Finished.

Record rrec := mkR { ph : phase; pc : nat }.

Inductive tev :=
| TRun (i : nat) (e : event)
| TSpawn (i : nat)
| TRelease (i : nat)
| TDone (i : nat)
| TReturn.

Record state := mkS {
  smem : mem;
  runs : nat -> rrec;
  next : nat;          (* loop variable of runScenario, 0-based: runs [0, next) were spawned *)
  inflight : nat;      (* occupancy of concurrentRunGuard *)
  ndone : nat;         (* R - WaitGroup counter *)
  returned : bool;     (* runWaitGroup.Wait() has returned *)
  crashed : bool;      (* a run goroutine panicked: the process has terminated *)
  wgpanic : bool;      (* "sync: negative WaitGroup counter" *)
  trace : list tev
}.

Inductive action := AMain | ARun (i : nat).

Definition updr (f : nat -> rrec) (i : nat) (r : rrec) : nat -> rrec :=
  fun j => if Nat.eqb j i then r else f j.

Definition init_state (m0 : mem) : state :=
  mkS m0 (fun _ => mkR Idle 0) 0 0 0 false false false [].

Section Runner.
  Variable P : list prog.          (* the R runs; R = length P *)
  Variable c : nat.                (* MaximumConcurrentRuns *)
  Variable ch : nat -> nat -> choice.   (* run -> step -> choice *)

  Definition R := length P.
  Definition prog_of (i : nat) : prog := nth i P idle_prog.

  Definition with_run (s : state) (i : nat) (r : rrec) : state :=
    mkS (smem s) (updr (runs s) i r) (next s) (inflight s) (ndone s) (returned s) (crashed s) (wgpanic s) (trace s).

  Definition step_main (s : state) : state :=
    if returned s then s else
    if Nat.ltb (next s) R then
      if Nat.ltb (inflight s) c then
        mkS (smem s) (updr (runs s) (next s) (mkR Running 0)) (S (next s)) (S (inflight s)) (ndone s)
            false (crashed s) (wgpanic s) (trace s ++ [TSpawn (next s)])
      else s                                   (* blocked on the full channel *)
    else
      if Nat.eqb (ndone s) R then
        mkS (smem s) (runs s) (next s) (inflight s) (ndone s) true (crashed s) (wgpanic s) (trace s ++ [TReturn])
      else s.                                  (* blocked in Wait *)

  Definition step_run (s : state) (i : nat) : state :=
    if Nat.ltb i R then
      let r := runs s i in
      match ph r with
      | Idle => s                              (* the goroutine does not exist yet *)
      | Running =>
          let p := prog_of i in
          match lstep p (pc r) (view (fp p) (smem s)) (ch i (pc r)) with
          | Ok (vs, evs, fin) =>
              mkS (write (fp p) vs (smem s))
                  (updr (runs s) i (mkR (if fin then Ran else Running) (S (pc r))))
                  (next s) (inflight s) (ndone s) (returned s) (crashed s) (wgpanic s)
                  (trace s ++ map (TRun i) evs)
          | Panic =>
              mkS (smem s) (updr (runs s) i (mkR Running (S (pc r)))) (next s) (inflight s) (ndone s) (returned s) true (wgpanic s) (trace s)
          end
      | Ran =>
          match inflight s with
          | O => s                             (* receive on an empty channel blocks *)
          | S n =>
              mkS (smem s) (updr (runs s) i (mkR Released (pc r))) (next s) n (ndone s)
                  (returned s) (crashed s) (wgpanic s) (trace s ++ [TRelease i])
          end
      | Released =>
          if Nat.ltb (ndone s) R then
            mkS (smem s) (updr (runs s) i (mkR Finished (pc r))) (next s) (inflight s) (S (ndone s))
                (returned s) (crashed s) (wgpanic s) (trace s ++ [TDone i])
          else
            mkS (smem s) (runs s) (next s) (inflight s) (ndone s) (returned s) (crashed s) true (trace s)
      | Finished => s
      end
    else s.

  Definition step (s : state) (a : action) : state :=
    if crashed s || wgpanic s then s else
    match a with
    | AMain => step_main s
    | ARun i => step_run s i
    end.

  Definition exec (sch : list action) (s : state) : state := fold_left step sch s.

  (* an action is enabled iff it changes something: compared on the counters and phases *)
  Definition enabled (s : state) (a : action) : bool :=
    if crashed s || wgpanic s then false else
    match a with
    | AMain =>
        if returned s then false else
        if Nat.ltb (next s) R then Nat.ltb (inflight s) c else Nat.eqb (ndone s) R
    | ARun i =>
        Nat.ltb i R &&
        match ph (runs s i) with
        | Idle | Finished => false
        | Running | Released => true
        | Ran => negb (Nat.eqb (inflight s) 0)
        end
    end.
End Runner.

(* ---------- projections of the trace ---------- *)

Fixpoint events_of (i : nat) (t : list tev) : list event :=
  match t with
  | [] => []
  | TRun j e :: t' => if Nat.eqb j i then e :: events_of i t' else events_of i t'
  | _ :: t' => events_of i t'
  end.

Definition is_spawn (i : nat) (e : tev) : bool := match e with TSpawn j => Nat.eqb j i | _ => false end.
Definition is_release (i : nat) (e : tev) : bool := match e with TRelease j => Nat.eqb j i | _ => false end.
Definition is_done (i : nat) (e : tev) : bool := match e with TDone j => Nat.eqb j i | _ => false end.

Definition count (f : tev -> bool) (t : list tev) : nat := length (filter f t).

(* number of runs i < n whose record satisfies q *)
Fixpoint countp (q : rrec -> bool) (f : nat -> rrec) (n : nat) : nat :=
  match n with
  | O => 0
  | S n' => (if q (f n') then 1 else 0) + countp q f n'
  end.

Definition occupying (r : rrec) : bool := match ph r with Running | Ran => true | _ => false end.
Definition is_running (r : rrec) : bool := match ph r with Running => true | _ => false end.
Definition is_finished (r : rrec) : bool := match ph r with Finished => true | _ => false end.
Definition not_idle (r : rrec) : bool := match ph r with Idle => false | _ => true end.

(* ---------- footprint disjointness (boolean side condition) ---------- *)

Definition memb (l : loc) (f : list loc) : bool := existsb (N.eqb l) f.

Definition disjointb (f g : list loc) : bool := forallb (fun l => negb (memb l g)) f.

Fixpoint pairwise_disjointb (fs : list (list loc)) : bool :=
  match fs with
  | [] => true
  | f :: fs' => forallb (disjointb f) fs' && pairwise_disjointb fs'
  end.

(* ---------- the annealing run, as the Runner starts it ----------

   Private locations of run with base b: b = temperature, b+1 = annealer.currentIteration,
   b+2 = archive size.  Event tags. *)
Definition tagStartedAnnealing := 1%nat.
Definition tagStartedIteration := 2%nat.
Definition tagFinishedIteration := 3%nat.
Definition tagFinishedAnnealing := 4%nat.

Definition nth_val (n : nat) (vs : list val) : val := nth n vs 0.

Definition qnat (n : nat) : Q := inject_Z (Z.of_nat n).

(* archive size moves by the choice: > 0 grows by one, < 0 shrinks by one (never below 0),
   0 leaves it (the choice stream abstracts RNG + model; only its independence matters here) *)
Definition archive_move (a : val) (x : choice) : val :=
  if (0 <? x)%Z then a + 1
  else if (x <? 0)%Z then (if Qle_bool 1 a then a - 1 else a)
  else a.

(* [fresh = true]: the clone step gives the run its own temperature T0 (code after fix D4 and
   the kirkpatrick family).  [fresh = false]: the clone step keeps whatever the temperature
   location holds (shared-coolant shape, D4). *)
Definition anneal_lstep (fresh : bool) (T0 cf : Q) (N : nat) (k : nat) (vw : list val) (x : choice)
  : res (list val * list event * bool) :=
  let T := nth_val 0 vw in let it := nth_val 1 vw in let ar := nth_val 2 vw in
  match k with
  | O =>  (* DeepClone + SetId + Explorer.Initialise + annealingStarted *)
      let T' := if fresh then T0 else T in
      Ok ([T'; 0; 0], [(tagStartedAnnealing, [T'; 0])], false)
  | S _ =>
      if Nat.leb k N then  (* one iteration of SimpleAnnealer.Anneal *)
        let it' := it + 1 in
        let ar' := archive_move ar x in
        let T' := T * cf in
        Ok ([T'; it'; ar'],
            [(tagStartedIteration, [it'; T; ar]); (tagFinishedIteration, [it'; T'; ar'])], false)
      else  (* annealingFinished; run() returns *)
        Ok ([T; it; ar], [(tagFinishedAnnealing, [it; T; ar])], true)
  end.

Definition anneal_prog (fresh : bool) (T0 cf : Q) (N : nat) (tloc : loc) (base : loc) : prog :=
  mkProg [tloc; (base + 1)%N; (base + 2)%N] (anneal_lstep fresh T0 cf N).

(* the clone of run i (0-based) owns locations 3i, 3i+1, 3i+2 *)
Definition clone_base (i : nat) : loc := (3 * N.of_nat i)%N.

Definition fixed_prog (T0 cf : Q) (N : nat) (i : nat) : prog :=
  anneal_prog true T0 cf N (clone_base i) (clone_base i).

(* D4 shape: every clone uses the prototype's temperature location (1000000) *)
Definition shared_tloc : loc := 1000000%N.
Definition shared_coolant_prog (T0 cf : Q) (N : nat) (i : nat) : prog :=
  anneal_prog false T0 cf N shared_tloc (clone_base i).

Definition fixed_progs (T0 cf : Q) (N : nat) (R : nat) : list prog := map (fixed_prog T0 cf N) (seq 0 R).
Definition shared_progs (T0 cf : Q) (N : nat) (R : nat) : list prog := map (shared_coolant_prog T0 cf N) (seq 0 R).

(* Runner.generateCloneId: "<name> (r/R)" when R > 1, else the plain name; r is 1-based *)
Definition clone_id (R r : nat) : option (nat * nat) :=
  if Nat.ltb 1 R then Some (r, R) else None.

(* ---------- schedules used by examples and by the correspondence ---------- *)

Definition round (R : nat) : list action := AMain :: map ARun (seq 0 R).

Fixpoint rounds (R : nat) (n : nat) : list action :=
  match n with O => [] | S n' => round R ++ rounds R n' end.

(* strictly sequential schedule: spawn, then run i to completion (N+5 steps are enough) *)
Definition sequential (R N : nat) : list action :=
  flat_map (fun i => AMain :: repeat (ARun i) (N + 5)) (seq 0 R) ++ [AMain].

(* observables of one run, extracted from its events *)
Definition has_tag (t : nat) (e : event) : bool := Nat.eqb (fst e) t.

Definition first_with (t : nat) (es : list event) : option (list val) :=
  match filter (has_tag t) es with e :: _ => Some (snd e) | [] => None end.

Definition count_tag (t : nat) (es : list event) : nat := length (filter (has_tag t) es).

(* which run emitted each run event, in trace order (to exhibit interleavings) *)
Fixpoint run_ids (t : list tev) : list nat :=
  match t with
  | [] => []
  | TRun i _ :: t' => i :: run_ids t'
  | _ :: t' => run_ids t'
  end.

(* a schedule every action of which is enabled when it is taken (no goroutine is scheduled while
   blocked): the schedules a real execution consists of *)
Fixpoint enabled_run (P : list prog) (c : nat) (ch : nat -> nat -> choice) (sch : list action) (s : state) : bool :=
  match sch with
  | [] => true
  | a :: sch' => enabled P c s a && enabled_run P c ch sch' (step P c ch s a)
  end.

Fixpoint sumr (f : nat -> nat) (n : nat) : nat :=
  match n with O => 0 | S n' => f n' + sumr f n' end.

(* greedy scheduler: always takes the first enabled action (main first, then runs in order) *)
Fixpoint greedy (P : list prog) (c : nat) (ch : nat -> nat -> choice) (fuel : nat) (s : state) : list action :=
  match fuel with
  | O => []
  | S f =>
      match find (enabled P c s) (AMain :: map ARun (seq 0 (length P))) with
      | Some a => a :: greedy P c ch f (step P c ch s a)
      | None => []
      end
  end.
