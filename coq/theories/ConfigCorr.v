(* Correspondence checker for C19 (evaluated by vm_compute on what the harness observed).  No proofs.

   One case = one generated TOML document: its abstract reading (what the generator put into it), the oracle bits of the
   environment the child processes ran in, and the observation: the SET of outcomes over the seeds it was run under, the
   error tags parsed from the loader's / interpreter's message, the summary files found in the output directory. *)
From Coq Require Import List ZArith QArith String Bool Arith Floats.
From Crem Require Import Base.Res Params Saver AnnealLoop Catchment Limits ConfigLoops Config.
Import ListNotations.
Open Scope string_scope.
Open Scope list_scope.

Inductive data_src :=
| SrcClass (n : nat)                           (* 0 unloadable, 1 malformed, 2 the shipped data set (index 0 of the exported data sets) *)
| SrcTables (sh : data_shape) (di : nat).      (* three loadable tables of this shape; [di] = index of the constants the real model derives
                                                  from them (exported only when the real loader accepts them; otherwise any index) *)

Record case := mkCase {
  k_config : config;
  k_readable : list string;             (* paths on which os.OpenFile succeeded (asked by the harness in the child's cwd) *)
  k_data : list (string * data_src);    (* data source path -> what is there *)
  k_data_files : list (string * list string);   (* data source path -> the meta-file and the table files it names (relative to the cwd) *)
  k_out_is_file : bool;                 (* os.Stat of the OutputPath: an existing non-directory, or an error other than "does not exist" *)
  k_out_creatable : bool;               (* the saver's MkdirAll of a missing OutputPath succeeds *)
  k_profile_dir_ok : bool;              (* the directory of the CpuProfilePath exists *)
  k_profile_creatable : bool;           (* ... and the path itself is not a directory: os.Create succeeds *)
  k_file_creatable : bool;              (* the file system takes the summary file names of this scenario name (length, NUL) *)
  k_outcomes : list nat;                (* 0 load error, 1 interpret error, 2 completed, 3 Run() returned an error,
                                           4 loader panicked, 5 interpreter panicked, 6 process died in Run(), 7 no end within the time limit *)
  k_errs : list err;
  k_summaries : list string             (* sorted names of the *-Summary.* files (of the completed executions; all equal) *)
}.

Definition the_cwd : string := "/verif-c19-cwd".      (* no generated absolute path lies inside the children's working directories *)

Definition env_of (ds : list dataset) (d0 : dataset) (c : case) : env :=
  mkEnv (fun p => existsb (String.eqb p) (k_readable c))
        (fun p => match assoc p (k_data c) with
                  | Some (SrcClass 2%nat) => DataOk d0
                  | Some (SrcClass 1%nat) => DataMalformed
                  | Some (SrcTables sh di) => DataTables sh (nth di ds d0)
                  | _ => DataUnloadable
                  end)
        (fun _ => k_out_is_file c) (fun _ => negb (k_out_is_file c) && k_out_creatable c) (fun _ => k_profile_dir_ok c)
        (fun _ => k_profile_creatable c)
        false (fun _ => true) (fun _ => k_file_creatable c) the_cwd
        (fun p => match assoc p (k_data_files c) with Some l => l | None => [] end).

(* round-robin picks: every index n times, ascending *)
Definition canon_picks (n : nat) : list nat := List.concat (repeat (seq 0 n) n).
Definition canon_choice (n : nat) : nat -> choice := fun _ => mkChoice (canon_picks n) [].

Definition err_eqb (a b : err) : bool :=
  match a, b with
  | EDecode, EDecode | EUnknownKeys, EUnknownKeys | EModelUnregistered, EModelUnregistered | EModelLimits, EModelLimits
  | EAnnealerUnregistered, EAnnealerUnregistered | EScenarioName, EScenarioName
  | EModelData, EModelData | ELimitNotBinding, ELimitNotBinding | EDecisionVariable, EDecisionVariable
  | EOutputPath, EOutputPath | EExcel, EExcel | EProfilePath, EProfilePath
  | EProfileBlocksOutput, EProfileBlocksOutput | EProfileOverwritesInput, EProfileOverwritesInput => true
  | EMandatory x, EMandatory y | EModelParam x, EModelParam y | EAnnealerParam x, EAnnealerParam y
  | ELogDestination x, ELogDestination y => String.eqb x y
  | _, _ => false
  end.

Definition subset {A} (eqb : A -> A -> bool) (l m : list A) : bool := forallb (fun x => existsb (eqb x) m) l.
Definition same_set {A} (eqb : A -> A -> bool) (l m : list A) : bool := subset eqb l m && subset eqb m l.

(* the error tags: after a decoder error the remaining checks run on a partially decoded struct -- only EDecode is predicted *)
Definition errs_match (predicted observed : list err) : bool :=
  if existsb (err_eqb EDecode) predicted then existsb (err_eqb EDecode) observed
  else same_set err_eqb predicted observed.

Inductive prediction :=
| PErrors (code : nat) (es : list err)
| PExactly (code : nat) (files : list string)
| PAnyOf (codes : list nat).

Definition predict (F : facts) (T : tables) (d0 : dataset) (ds : list dataset) (c : case) : prediction :=
  let E := env_of ds d0 c in
  match load F (k_config c) with
  | Crash => PExactly 4 []
  | Errors es => PErrors 0 es
  | Done l =>
      match interpret F T E l with
      | Crash => PExactly 5 []
      | Errors es => PErrors 1 es
      | Done sc =>
          let n := match s_data sc with DataOk d => nactions d | _ => 0%nat end in
          (* since C19-12 an accepted limit is binding: the outcome does not depend on the random picks (C19_accepted_runs_partial);
             the model is run on round-robin picks *)
          match run_model E sc (canon_choice n) 1%float 1%float with
          | Completed fs => PExactly 2 fs
          | RunError => PExactly 3 []
          | RunCrash => PExactly 6 []
          | RunSpin => PExactly 7 []
          end
      end
  end.

Definition nat_in (n : nat) (l : list nat) : bool := existsb (Nat.eqb n) l.

(* the constants the real model derived from tables the MODEL accepts are well formed (the hypothesis [wf_dataset] of the run theorem),
   unless a subcatchment is listed twice *)
Definition tables_wf (d0 : dataset) (ds : list dataset) (c : case) : bool :=
  forallb (fun kv => match snd kv with
                     | SrcTables sh di => negb (shape_ok sh && subcatchments_distinct sh) || wf_dataset (nth di ds d0)
                     | SrcClass _ => true
                     end) (k_data c).

Definition check_case (F : facts) (T : tables) (d0 : dataset) (ds : list dataset) (c : case) : bool :=
  tables_wf d0 ds c &&
  match predict F T d0 ds c with
  | PErrors code es => same_set Nat.eqb (k_outcomes c) [code] && errs_match es (k_errs c)
  | PExactly code files =>
      same_set Nat.eqb (k_outcomes c) [code]
      && (if Nat.eqb code 2 then same_set String.eqb files (k_summaries c) && Nat.eqb (List.length files) (List.length (k_summaries c)) else true)
  | PAnyOf codes => negb (match k_outcomes c with [] => true | _ => false end) && subset Nat.eqb (k_outcomes c) codes
  end.

Fixpoint mismatches_from (F : facts) (T : tables) (d0 : dataset) (ds : list dataset) (cs : list case) (n : nat) : list nat :=
  match cs with
  | [] => []
  | c :: cs' => if check_case F T d0 ds c then mismatches_from F T d0 ds cs' (S n) else n :: mismatches_from F T d0 ds cs' (S n)
  end.

(* [ds]: the shipped data set first, then the constants of every generated data source the real loader accepted *)
Definition mismatches (F : facts) (T : tables) (ds : list dataset) (cs : list case) : list nat :=
  match ds with
  | d0 :: _ => if wf_dataset d0 then mismatches_from F T d0 ds cs 0 else [999%nat]
  | [] => [999%nat]
  end.

(* what the model predicts, for the evidence / a replay *)
Definition outcome_code (F : facts) (T : tables) (d0 : dataset) (ds : list dataset) (c : case) : list nat :=
  match predict F T d0 ds c with
  | PErrors code _ | PExactly code _ => [code]
  | PAnyOf codes => codes
  end.
