(* Correspondence checker for C19 (evaluated by vm_compute on what the harness observed).  No proofs.

   One case = one generated TOML document: its abstract reading (what the generator put into it), the oracle bits of the
   environment the child processes ran in, and the observation: the SET of outcomes over the seeds it was run under, the
   error tags parsed from the loader's / interpreter's message, the summary files found in the output directory. *)
From Coq Require Import List ZArith QArith String Bool Arith Floats.
From Crem Require Import Base.Res Params Saver AnnealLoop Catchment Limits ConfigLoops Config.
Import ListNotations.
Open Scope string_scope.
Open Scope list_scope.

Record case := mkCase {
  k_config : config;
  k_readable : list string;             (* paths on which os.OpenFile succeeded (asked by the harness in the child's cwd) *)
  k_data : list (string * nat);         (* data source path -> 0 unloadable, 1 malformed, 2 the exported data set *)
  k_out_is_file : bool;                 (* os.Stat of the OutputPath: an existing non-directory, or an error other than "does not exist" *)
  k_out_creatable : bool;               (* the saver's MkdirAll of a missing OutputPath succeeds *)
  k_profile_dir_ok : bool;              (* the directory of the CpuProfilePath exists *)
  k_outcomes : list nat;                (* 0 load error, 1 interpret error, 2 completed, 3 Run() returned an error,
                                           4 loader panicked, 5 interpreter panicked, 6 process died in Run(), 7 no end within the time limit *)
  k_errs : list err;
  k_summaries : list string             (* sorted names of the *-Summary.* files (of the completed executions; all equal) *)
}.

Definition env_of (d0 : dataset) (c : case) : env :=
  mkEnv (fun p => existsb (String.eqb p) (k_readable c))
        (fun p => match assoc p (k_data c) with Some 2%nat => DataOk d0 | Some 1%nat => DataMalformed | _ => DataUnloadable end)
        (fun _ => k_out_is_file c) (fun _ => negb (k_out_is_file c) && k_out_creatable c) (fun _ => k_profile_dir_ok c) (fun _ => k_profile_dir_ok c)
        false (fun _ => true).

(* round-robin picks: every index n times, ascending *)
Definition canon_picks (n : nat) : list nat := List.concat (repeat (seq 0 n) n).
Definition canon_choice (n : nat) : nat -> choice := fun _ => mkChoice (canon_picks n) [].

Definition err_eqb (a b : err) : bool :=
  match a, b with
  | EDecode, EDecode | EUnknownKeys, EUnknownKeys | EModelUnregistered, EModelUnregistered | EModelLimits, EModelLimits
  | EAnnealerUnregistered, EAnnealerUnregistered | EScenarioName, EScenarioName
  | EModelData, EModelData | ELimitNotBinding, ELimitNotBinding | EDecisionVariable, EDecisionVariable
  | EOutputPath, EOutputPath | EExcel, EExcel | EProfilePath, EProfilePath => true
  | EMandatory x, EMandatory y | EModelParam x, EModelParam y | EAnnealerParam x, EAnnealerParam y
  | ELogDestination x, ELogDestination y => String.eqb x y
  | _, _ => false
  end.

Definition subset {A} (eqb : A -> A -> bool) (l m : list A) : bool := forallb (fun x => existsb (eqb x) m) l.
Definition same_set {A} (eqb : A -> A -> bool) (l m : list A) : bool := subset eqb l m && subset eqb m l.

(* the error tags: after a decoder error the remaining checks run on a partially decoded struct -- only EDecode is predicted *)
Definition errs_match (predicted observed : list err) : bool :=
  if existsb (err_eqb EDecode) predicted then existsb (err_eqb EDecode) observed
  else same_set err_eqb predicted observed.

Inductive prediction :=
| PErrors (code : nat) (es : list err)
| PExactly (code : nat) (files : list string)
| PAnyOf (codes : list nat).

Definition predict (F : facts) (T : tables) (d0 : dataset) (c : case) : prediction :=
  let E := env_of d0 c in
  match load F (k_config c) with
  | Crash => PExactly 4 []
  | Errors es => PErrors 0 es
  | Done l =>
      match interpret F T E l with
      | Crash => PExactly 5 []
      | Errors es => PErrors 1 es
      | Done sc =>
          let n := match s_data sc with DataOk d => nactions d | _ => 0%nat end in
          (* since C19-12 an accepted limit is binding: the outcome does not depend on the random picks (C19_accepted_runs_partial);
             the model is run on round-robin picks *)
          match run_model E sc (canon_choice n) 1%float 1%float with
          | Completed fs => PExactly 2 fs
          | RunError => PExactly 3 []
          | RunCrash => PExactly 6 []
          | RunSpin => PExactly 7 []
          end
      end
  end.

Definition nat_in (n : nat) (l : list nat) : bool := existsb (Nat.eqb n) l.

Definition check_case (F : facts) (T : tables) (d0 : dataset) (c : case) : bool :=
  match predict F T d0 c with
  | PErrors code es => same_set Nat.eqb (k_outcomes c) [code] && errs_match es (k_errs c)
  | PExactly code files =>
      same_set Nat.eqb (k_outcomes c) [code]
      && (if Nat.eqb code 2 then same_set String.eqb files (k_summaries c) && Nat.eqb (List.length files) (List.length (k_summaries c)) else true)
  | PAnyOf codes => negb (match k_outcomes c with [] => true | _ => false end) && subset Nat.eqb (k_outcomes c) codes
  end.

Fixpoint mismatches_from (F : facts) (T : tables) (d0 : dataset) (cs : list case) (n : nat) : list nat :=
  match cs with
  | [] => []
  | c :: cs' => if check_case F T d0 c then mismatches_from F T d0 cs' (S n) else n :: mismatches_from F T d0 cs' (S n)
  end.

Definition mismatches (F : facts) (T : tables) (d0 : dataset) (cs : list case) : list nat :=
  if wf_dataset d0 then mismatches_from F T d0 cs 0 else [999%nat].

(* what the model predicts, for the evidence / a replay *)
Definition outcome_code (F : facts) (T : tables) (d0 : dataset) (c : case) : list nat :=
  match predict F T d0 c with
  | PErrors code _ | PExactly code _ => [code]
  | PAnyOf codes => codes
  end.
