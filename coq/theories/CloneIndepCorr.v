(* Correspondence checker for C08: evaluated by vm_compute on gen/cases_C08_*.v.
   One case = one execution of the REAL scenario.Runner (R runs, at most c at once, N iterations,
   configured T0 / cooling factor) with, per run, what the harness's observer saw.  The model
   executes [exec] on a schedule derived from the interleaving the Go runtime actually produced
   (observed global order of the runs' events) followed by a round-robin drain, and every
   schedule-independent observable of every run is compared. *)
From Coq Require Import List NArith ZArith QArith Bool Arith.
From Crem Require Import Base.Res CloneIndep.
Import ListNotations.

Inductive family := Kirk | Supp | Avg.

Record runobs := mkRO {
  o_r : nat; o_suffix : bool; o_rtot : nat;
  o_nStartA : nat; o_startT : Q; o_startArch : Z;
  o_firstIter : Z; o_nStartIt : nat; o_nFin : nat; o_finIter : Z }.

Record case := mkC {
  c_fam : family; c_R : nat; c_c : nat; c_N : nat; c_T0 : Q; c_cf : Q;
  c_crashed : bool; c_runs : list runobs; c_order : list nat;
  c_maxInflight : nat; c_nfiles : nat; c_filesOk : bool }.

Definition corr_ch (i k : nat) : choice := (Z.of_nat ((i + k) mod 3) - 1)%Z.

Definition corr_schedule (R N : nat) (order : list nat) : list action :=
  flat_map (fun i => [AMain; ARun i]) order ++ rounds R (R * (N + 6) + 3).

Definition corr_final (c : case) : state :=
  exec (fixed_progs (c_T0 c) (c_cf c) (c_N c) (c_R c)) (c_c c) corr_ch
       (corr_schedule (c_R c) (c_N c) (c_order c)) (init_state (fun _ => 0)).

Definition qz (q : Q) (z : Z) : bool := Qeq_bool q (inject_Z z).

Definition check_run (c : case) (s : state) (o : runobs) : bool :=
  let i := pred (o_r o) in
  let es := events_of i (trace s) in
  (* run id as Runner.generateCloneId builds it *)
  (match clone_id (c_R c) (o_r o) with
   | Some (a, b) => o_suffix o && Nat.eqb a (o_r o) && Nat.eqb b (o_rtot o)
   | None => negb (o_suffix o) && Nat.eqb (o_r o) 1
   end)
  && Nat.eqb (count_tag tagStartedAnnealing es) (o_nStartA o)
  && Nat.eqb (count_tag tagStartedIteration es) (o_nStartIt o)
  && Nat.eqb (count_tag tagFinishedAnnealing es) (o_nFin o)
  && (match first_with tagStartedAnnealing es with
      | Some [T; ar] =>
          Qeq_bool T (o_startT o) &&
          (match c_fam c with
           | Kirk => Z.eqb (o_startArch o) (-1)        (* no archive in that family *)
           | _ => qz ar (o_startArch o)
           end)
      | _ => false
      end)
  && (match first_with tagStartedIteration es with
      | Some (it :: T :: _) => qz it (o_firstIter o) && Qeq_bool T (o_startT o)
      | Some _ => false
      | None => Z.eqb (o_firstIter o) (-1)
      end)
  && (match first_with tagFinishedAnnealing es with
      | Some (it :: _) => qz it (o_finIter o)
      | _ => false
      end).

Definition check_case (c : case) : bool :=
  let s := corr_final c in
  if c_crashed c then false   (* the model's runs never panic: a dead scenario process is a mismatch *)
  else
    returned s && negb (crashed s) && negb (wgpanic s)
    && Nat.eqb (length (c_runs c)) (c_R c)
    && forallb (fun p => Nat.eqb (fst p) (o_r (snd p))) (combine (seq 1 (c_R c)) (c_runs c))
    && forallb (check_run c s) (c_runs c)
    && forallb (fun i => Nat.eqb (count (is_spawn i) (trace s)) 1 && Nat.eqb (count (is_done i) (trace s)) 1) (seq 0 (c_R c))
    && Nat.leb (c_maxInflight c) (c_c c) && Nat.leb 1 (c_maxInflight c)
    && Nat.eqb (c_nfiles c) (c_R c) && c_filesOk c.

Fixpoint mismatches_from (i : nat) (cs : list case) : list nat :=
  match cs with
  | [] => []
  | c :: cs' => if check_case c then mismatches_from (S i) cs' else i :: mismatches_from (S i) cs'
  end.

Definition mismatches := mismatches_from 0.
