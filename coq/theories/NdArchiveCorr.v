(* Correspondence checker for C05: evaluated by vm_compute on gen/cases_C05_*.v.

   Two kinds of case, both made of the implementation's inputs and its observed outputs:

   [CSeq]   an explicit operation sequence with, for every operation, what the real
            NonDominanceModelArchive answered: the StorageResult codes, which earlier candidates
            (by operation index) left the archive and which were added (computed by the harness from
            the pointer set of Archive() before/after the call: a lossless encoding of the archive's
            content after every operation), Len() and IsNonDominant().
   [CBlock] exhaustive one-step extension of a prefix over a fixed candidate alphabet: the state
            reached by the prefix (content mask over the alphabet + length) and, for every
            (kind, candidate) in canonical order, the outcome code of that one further operation.

   In addition, on streams that satisfy the theorems' boolean hypotheses the model's archive is
   checked against the executable spec (non-dominated, duplicate-free, = Pareto front). *)
From Coq Require Import List QArith Bool Arith ZArith.
From Crem Require Import Base.Res Dominance NdArchive.
Import ListNotations.

(* ---------- explicit sequences ---------- *)

Record obs := mkO {
  o_panic : bool;            (* the call panicked (dimension mismatch): the case ends here *)
  o_res : list nat;          (* StorageResult codes returned, in call order *)
  o_removed : list nat;      (* operation indices whose candidate left the archive *)
  o_added : list nat;        (* operation indices whose candidate entered (this one, or nothing) *)
  o_len : nat;               (* Len() afterwards *)
  o_nd : option (res bool) }. (* IsNonDominant() afterwards, when the harness called it (Panic: it panicked) *)

Fixpoint nat_mem (n : nat) (l : list nat) : bool :=
  match l with [] => false | m :: l' => Nat.eqb n m || nat_mem n l' end.

Definition list_nat_eqb (x y : list nat) : bool :=
  Nat.eqb (length x) (length y) && forallb (fun p => Nat.eqb (fst p) (snd p)) (combine x y).

Definition dummy : entry := mkE [] [].

Definition same_set (a : archive) (b : list entry) : bool :=
  Nat.eqb (length a) (length b) && subset_b a b && subset_b b a.

Definition res_bool_eqb (r s : res bool) : bool :=
  match r, s with Ok x, Ok y => Bool.eqb x y | Panic, Panic => true | _, _ => false end.

(* every 16th step, the first 9 and the last one: the O(n^2) spec checks are not repeated at every step of a long sequence *)
Definition sampled (k : nat) (last : bool) : bool := Nat.leb k 8 || last || Nat.eqb (Nat.modulo k 16) 0.

(* spec cross-check of the model's own archive, where the theorems' hypotheses hold.  The
   hypotheses are prefix-closed, so they are evaluated once on the whole stream. *)
Definition inv_flag (ops : list op) : bool :=
  no_raw_b ops && (consistent_b (cands ops) || no_force_b ops).
Definition front_flag (ops : list op) : bool :=
  no_force_b ops && consistent_b (cands ops).

Definition spec_ok (invf frontf : bool) (done : list op) (a : archive) : bool :=
  (if invf then nondominated_b a && dup_free_b a else true)
  && (if frontf then front_eq_b a (cands done) else true).

(* ops: whole sequence (for index lookup); k: index of the next operation *)
Fixpoint check_seq (ops : list op) (todo : list op) (os : list obs) (k : nat)
         (a : archive) (idx : list nat) (invf frontf : bool) : bool :=
  match todo, os with
  | [], [] => true
  | o :: todo', ob :: os' =>
      match step a o with
      | Panic => o_panic ob && match os' with [] => true | _ => false end
      | Ok (rs, a') =>
          let idx' := filter (fun i => negb (nat_mem i (o_removed ob))) idx ++ o_added ob in
          let expected := map (fun i => cand_of (nth i ops (Offer dummy))) idx' in
          let last := match todo' with [] => true | _ => false end in
          negb (o_panic ob)
          && list_nat_eqb (map sres_code rs) (o_res ob)
          && same_set a' expected
          && Nat.eqb (arch_len a') (o_len ob)
          && match o_nd ob with Some b => res_bool_eqb (is_non_dominant a') b | None => true end
          && spec_ok (invf && sampled k last) (frontf && (Nat.leb k 8 || last)) (firstn (S k) ops) a'
          && check_seq ops todo' os' (S k) a' idx' invf frontf
      end
  | _, _ => false
  end.

(* ---------- exhaustive blocks ---------- *)

Inductive kind := KOffer | KOfferForce | KForceRaw.
Definition mk_op (alpha : list entry) (k : kind) (i : nat) : op :=
  let c := nth i alpha dummy in
  match k with KOffer => Offer c | KOfferForce => OfferForce c | KForceRaw => ForceRaw c end.

Fixpoint mask_of (alpha : list entry) (a : archive) : Z :=
  match alpha with
  | [] => 0%Z
  | e :: alpha' => ((if existsb (entry_eqb e) a then 1 else 0) + 2 * mask_of alpha' a)%Z
  end.

(* outcome code of one operation: ((r1*7 + r2)*16 + len) * 2^|alpha| + mask, r2 = 6 when there was no second call;
   -1 for a panic *)
Definition outcome_code (alpha : list entry) (r : res (list sres * archive)) : Z :=
  match r with
  | Panic => (-1)%Z
  | Ok (rs, a') =>
      let r1 := match rs with s :: _ => Z.of_nat (sres_code s) | [] => 6%Z end in
      let r2 := match rs with _ :: s :: _ => Z.of_nat (sres_code s) | _ => 6%Z end in
      (((r1 * 7 + r2) * 16 + Z.of_nat (length a')) * Z.pow 2 (Z.of_nat (length alpha)) + mask_of alpha a')%Z
  end.

Definition state_code (alpha : list entry) (a : archive) : Z :=
  (Z.of_nat (length a) * Z.pow 2 (Z.of_nat (length alpha)) + mask_of alpha a)%Z.

Fixpoint zlist_eqb (x y : list Z) : bool :=
  match x, y with
  | [], [] => true
  | a :: x', b :: y' => Z.eqb a b && zlist_eqb x' y'
  | _, _ => false
  end.

Definition extensions (alpha : list entry) (kinds : list kind) : list op :=
  flat_map (fun k => map (fun i => mk_op alpha k i) (seq 0 (length alpha))) kinds.

Inductive case :=
| CSeq (ops : list op) (os : list obs)
| CBlock (alpha : list entry) (kinds : list kind) (prefix : list (kind * nat)) (state : Z) (outcomes : list Z).

Definition all_same_dim (cs : list entry) : bool :=
  match cs with [] => true | c :: _ => same_dim_b (length (e_vec c)) cs end.

Definition check_case (c : case) : bool :=
  match c with
  | CSeq ops os =>
      let d := all_same_dim (cands ops) in
      check_seq ops ops os 0 [] [] (d && inv_flag ops) (d && front_flag ops)
  | CBlock alpha kinds prefix st outs =>
      let pops := map (fun p => mk_op alpha (fst p) (snd p)) prefix in
      match run pops with
      | Panic => false
      | Ok a =>
          Z.eqb (state_code alpha a) st
          && spec_ok (inv_flag pops) (front_flag pops) pops a
          && zlist_eqb (map (fun o => outcome_code alpha (step a o)) (extensions alpha kinds)) outs
          && forallb (fun o => match step a o with
                               | Ok (_, a') => let ops' := pops ++ [o] in
                                               spec_ok (inv_flag ops') (front_flag ops') ops' a'
                               | Panic => false end) (extensions alpha kinds)
      end
  end.

Fixpoint mismatches_from (i : nat) (cs : list case) : list nat :=
  match cs with
  | [] => []
  | c :: cs' => if check_case c then mismatches_from (S i) cs' else i :: mismatches_from (S i) cs'
  end.

Definition mismatches := mismatches_from 0.
