(* Correspondence checker for C05: evaluated by vm_compute on gen/cases_C05_*.v.

   Two kinds of case, both made of the implementation's inputs and its observed outputs:

   [CSeq]   an explicit operation sequence with, for every operation, what the real
            NonDominanceModelArchive answered: the StorageResult codes, which earlier candidates
            (by operation index) left the archive and which were added (computed by the harness from
            the pointer set of Archive() before/after the call: a lossless encoding of the archive's
            content after every operation), Len() and IsNonDominant().
   [CBlock] exhaustive one-step extension of a prefix over a fixed candidate alphabet: the state
            reached by the prefix (content mask over the alphabet + length) and, for every
            (kind, candidate) in canonical order, the outcome code of that one further operation.

   In addition, on streams that satisfy the theorems' boolean hypotheses the model's archive is
   checked against the executable spec (non-dominated, duplicate-free, = Pareto front). *)
From Coq Require Import List QArith Bool Arith ZArith.
From Crem Require Import Base.Res Dominance NdArchive.
Import ListNotations.

(* lazy conjunction: [&&] is a strict function under vm_compute; a case is abandoned at its first disagreement *)
Notation "a &&& b" := (if a then b else false) (at level 40, left associativity).

(* ---------- explicit sequences ---------- *)

Record obs := mkO {
  o_panic : bool;            (* the call panicked (dimension mismatch): the case ends here *)
  o_res : list nat;          (* StorageResult codes returned, in call order *)
  o_removed : list nat;      (* operation indices whose candidate left the archive *)
  o_added : list nat;        (* operation indices whose candidate entered (this one, or nothing) *)
  o_len : nat;               (* Len() afterwards *)
  o_nd : option (res bool) }. (* IsNonDominant() afterwards, when the harness called it (Panic: it panicked) *)

Fixpoint nat_mem (n : nat) (l : list nat) : bool :=
  match l with [] => false | m :: l' => Nat.eqb n m || nat_mem n l' end.

Definition list_nat_eqb (x y : list nat) : bool :=
  Nat.eqb (length x) (length y) && forallb (fun p => Nat.eqb (fst p) (snd p)) (combine x y).

Definition dummy : entry := mkE [] [].

Fixpoint same_list (a b : list entry) : bool :=
  match a, b with
  | [], [] => true
  | x :: a', y :: b' => entry_eqb x y &&& same_list a' b'
  | _, _ => false
  end.

(* archives are compared as sets (with equal length); the O(n) ordered comparison is only a shortcut *)
Definition same_set (a : archive) (b : list entry) : bool :=
  if same_list a b then true
  else Nat.eqb (length a) (length b) &&& subset_b a b &&& subset_b b a.

Definition res_bool_eqb (r s : res bool) : bool :=
  match r, s with Ok x, Ok y => Bool.eqb x y | Panic, Panic => true | _, _ => false end.

(* every 16th step, the first 9 and the last one: the O(n^2) spec checks are not repeated at every step of a long sequence *)
Definition sampled (k : nat) (last : bool) : bool := Nat.leb k 8 || last || Nat.eqb (Nat.modulo k 16) 0.

(* spec cross-check of the model's own archive, where the theorems' hypotheses hold.  The
   hypotheses are prefix-closed, so they are evaluated once on the whole stream. *)
Definition inv_flag (ops : list op) : bool :=
  no_raw_b ops && (consistent_b (cands ops) || no_force_b ops).
Definition front_flag (ops : list op) : bool :=
  no_force_b ops && consistent_b (cands ops).

Definition spec_ok (invf frontf : bool) (done : list op) (a : archive) : bool :=
  (if invf then nondominated_b a && dup_free_b a else true)
  && (if frontf then front_eq_b a (cands done) else true).

(* ops: whole sequence (for index lookup); k: index of the next operation.
   Verdict: 0 = agrees; 1 = model and implementation differ; 2 = they differ ONLY in the answer of the
   self-check IsNonDominant() on a stream outside the explorer's language / the theorems' hypotheses
   (raw force, or forced stores on an inconsistent stream).  IsNonDominant is the code's own check, not
   part of C05: where C05_self_check_never_fails applies its answer is compared strictly (it must be
   true); elsewhere a difference is reported in the evidence, not as a broken obligation. *)
Fixpoint check_seq (ops : list op) (todo : list op) (os : list obs) (k : nat)
         (a : archive) (idx : list nat) (invf frontf : bool) (ndbad : bool) : nat :=
  match todo, os with
  | [], [] => if ndbad then 2 else 0
  | o :: todo', ob :: os' =>
      match step a o with
      | Panic => if o_panic ob &&& match os' with [] => true | _ => false end
                 then (if ndbad then 2 else 0) else 1
      | Ok (rs, a') =>
          let idx' := filter (fun i => negb (nat_mem i (o_removed ob))) idx ++ o_added ob in
          let expected := map (fun i => cand_of (nth i ops (Offer dummy))) idx' in
          let last := match todo' with [] => true | _ => false end in
          if negb (o_panic ob)
             &&& list_nat_eqb (map sres_code rs) (o_res ob)
             &&& Nat.eqb (arch_len a') (o_len ob)
             &&& same_set a' expected
             &&& spec_ok (invf && sampled k last) (frontf && (Nat.leb k 8 || last)) (firstn (S k) ops) a'
          then
            if match o_nd ob with Some b => res_bool_eqb (is_non_dominant a') b | None => true end
            then check_seq ops todo' os' (S k) a' idx' invf frontf ndbad
            else if invf then 1 else check_seq ops todo' os' (S k) a' idx' invf frontf true
          else 1
      end
  | _, _ => 1
  end.

(* ---------- exhaustive blocks ---------- *)

Inductive kind := KOffer | KOfferForce | KForceRaw.
Definition mk_op (alpha : list entry) (k : kind) (i : nat) : op :=
  let c := nth i alpha dummy in
  match k with KOffer => Offer c | KOfferForce => OfferForce c | KForceRaw => ForceRaw c end.

Fixpoint mask_of (alpha : list entry) (a : archive) : Z :=
  match alpha with
  | [] => 0%Z
  | e :: alpha' => ((if existsb (entry_eqb e) a then 1 else 0) + 2 * mask_of alpha' a)%Z
  end.

(* outcome code of one operation: ((r1*7 + r2)*16 + len) * 2^|alpha| + mask, r2 = 6 when there was no second call;
   -1 for a panic *)
Definition outcome_code (alpha : list entry) (r : res (list sres * archive)) : Z :=
  match r with
  | Panic => (-1)%Z
  | Ok (rs, a') =>
      let r1 := match rs with s :: _ => Z.of_nat (sres_code s) | [] => 6%Z end in
      let r2 := match rs with _ :: s :: _ => Z.of_nat (sres_code s) | _ => 6%Z end in
      (((r1 * 7 + r2) * 16 + Z.of_nat (length a')) * Z.pow 2 (Z.of_nat (length alpha)) + mask_of alpha a')%Z
  end.

Definition state_code (alpha : list entry) (a : archive) : Z :=
  (Z.of_nat (length a) * Z.pow 2 (Z.of_nat (length alpha)) + mask_of alpha a)%Z.

Fixpoint zlist_eqb (x y : list Z) : bool :=
  match x, y with
  | [], [] => true
  | a :: x', b :: y' => Z.eqb a b && zlist_eqb x' y'
  | _, _ => false
  end.

Definition extensions (alpha : list entry) (kinds : list kind) : list op :=
  flat_map (fun k => map (fun i => mk_op alpha k i) (seq 0 (length alpha))) kinds.

Inductive case :=
| CSeq (ops : list op) (os : list obs)
| CBlock (alpha : list entry) (kinds : list kind) (prefix : list (kind * nat)) (state : Z) (outcomes : list Z).

Definition all_same_dim (cs : list entry) : bool :=
  match cs with [] => true | c :: _ => same_dim_b (length (e_vec c)) cs end.

Definition check_case (c : case) : nat :=
  match c with
  | CSeq ops os =>
      let d := all_same_dim (cands ops) in
      check_seq ops ops os 0 [] [] (d && inv_flag ops) (d && front_flag ops) false
  | CBlock alpha kinds prefix st outs =>
      let pops := map (fun p => mk_op alpha (fst p) (snd p)) prefix in
      match run pops with
      | Panic => 1
      | Ok a =>
          if Z.eqb (state_code alpha a) st
          &&& spec_ok (inv_flag pops) (front_flag pops) pops a
          &&& zlist_eqb (map (fun o => outcome_code alpha (step a o)) (extensions alpha kinds)) outs
          &&& forallb (fun o => match step a o with
                               | Ok (_, a') => let ops' := pops ++ [o] in
                                               spec_ok (inv_flag ops') (front_flag ops') ops' a'
                               | Panic => false end) (extensions alpha kinds)
          then 0 else 1
      end
  end.

Fixpoint indices_with (code : nat) (i : nat) (vs : list nat) : list nat :=
  match vs with
  | [] => []
  | v :: vs' => if Nat.eqb v code then i :: indices_with code (S i) vs' else indices_with code (S i) vs'
  end.

Definition verdicts (cs : list case) : list nat := map check_case cs.
Definition mismatches_of (vs : list nat) : list nat := indices_with 1 0 vs.
Definition self_check_notes_of (vs : list nat) : list nat := indices_with 2 0 vs.
Definition mismatches (cs : list case) : list nat := mismatches_of (verdicts cs).
